/* C18 — bit writer / bit readers are inverse and stay in bounds.
 *
 * seqx over sequences of ubits_put(width, value); after every transition the
 * bytes produced (flush so far + ubits_clean on a copy) are compared with an
 * independent MSB-first packer, read back with ubits_get, written again into
 * too-small buffers (overflow must be reported, guard bytes intact), and — in
 * mode "stream" — read back through ubuf_block_stream over every segmentation
 * of the bytes into <= 3 block segments and from every start bit offset.
 *
 * args: --mode write|stream --widths full|edge --values N --depth D
 */
#undef NDEBUG
#include "upipe/ubase.h"
#include "upipe/ubits.h"
#include "upipe/umem.h"
#include "upipe/umem_alloc.h"
#include "upipe/ubuf.h"
#include "upipe/ubuf_block.h"
#include "upipe/ubuf_block_mem.h"
#include "upipe/ubuf_block_stream.h"
#include "seqx.h"

#define MAXF 8
#define GUARD 8

static int g_widths[32], g_nwidths;
static int g_nvalues = 5;
static bool g_stream;
static struct umem_mgr *g_umem;
static struct ubuf_mgr *g_bmgr;

struct st {
    int nf;
    int w[MAXF];
    uint32_t v[MAXF];
    struct ubits bw;
    uint8_t *buf; /* malloc'ed, exact size for MAXF*4 bytes */
    int avail_before_last;
};

static uint32_t value_of(int w, int kind)
{
    uint32_t max = w == 32 ? 0xffffffffu : ((1u << w) - 1);
    switch (kind) {
    case 0: return max;
    case 1: return 0;
    case 2: return 0xA5A5A5A5u & max;
    case 3: return 1u << (w - 1);
    default: return 1;
    }
}

/* independent reference: MSB-first bit packer */
static int ref_pack(const int *w, const uint32_t *v, int nf, uint8_t *out)
{
    int bit = 0;
    memset(out, 0, MAXF * 4 + 4);
    for (int i = 0; i < nf; i++)
        for (int b = w[i] - 1; b >= 0; b--, bit++)
            if ((v[i] >> b) & 1)
                out[bit / 8] |= 0x80 >> (bit % 8);
    return (bit + 7) / 8;
}

static void *c18_init(void)
{
    struct st *s = calloc(1, sizeof(*s));
    s->buf = malloc(MAXF * 4);
    memset(s->buf, 0xEE, MAXF * 4);
    ubits_init(&s->bw, s->buf, MAXF * 4, UBITS_WRITE);
    return s;
}

static void c18_fini(void *p)
{
    struct st *s = p;
    free(s->buf);
    free(s);
}

static void c18_opstr(int op, char *b, size_t n)
{
    int w = g_widths[op / g_nvalues];
    snprintf(b, n, "put(%d,0x%x)", w, value_of(w, op % g_nvalues));
}

static int check_small_buffers(struct st *s, const uint8_t *ref, int nbytes);
static int check_stream(struct st *s, const uint8_t *ref, int nbytes);

static int c18_apply(void *p, int op, bool check)
{
    struct st *s = p;
    if (s->nf >= MAXF)
        return SEQX_DISABLED;
    int w = g_widths[op / g_nvalues];
    uint32_t v = value_of(w, op % g_nvalues);
    s->avail_before_last = s->bw.available;
    s->w[s->nf] = w;
    s->v[s->nf] = v;
    s->nf++;
    ubits_put(&s->bw, w, v);
    if (!check)
        return SEQX_OK;

    char sig[128];
    uint8_t ref[MAXF * 4 + 4];
    int nbytes = ref_pack(s->w, s->v, s->nf, ref);

    /* big buffer: no overflow may be reported */
    if (s->bw.overflow)
        SEQX_FAIL("overflow-flag-with-room", "overflow set although %d bytes fit in %d",
                  nbytes, MAXF * 4);
    /* finish on a copy so that the live writer is undisturbed */
    struct ubits c = s->bw;
    uint8_t tmp[MAXF * 4 + 2 * GUARD];
    memset(tmp, 0xC3, sizeof(tmp));
    size_t done = s->bw.buffer - s->buf;
    memcpy(tmp + GUARD, s->buf, done);
    c.buffer = tmp + GUARD + done;
    c.buffer_end = tmp + GUARD + nbytes; /* exact room */
    uint8_t *end = NULL;
    int err = ubits_clean(&c, &end);
    if (!ubase_check(err)) {
        snprintf(sig, sizeof(sig), "clean-error-exact-room:w=%d:avail=%d", w, s->avail_before_last);
        SEQX_FAIL(sig, "ubits_clean failed with exactly %d bytes of room", nbytes);
    }
    if (end - (tmp + GUARD) != nbytes) {
        snprintf(sig, sizeof(sig), "length:w=%d:avail=%d", w, s->avail_before_last);
        SEQX_FAIL(sig, "produced %ld bytes, total width rounds up to %d",
                  (long)(end - (tmp + GUARD)), nbytes);
    }
    for (int i = 0; i < GUARD; i++)
        if (tmp[i] != 0xC3 || tmp[GUARD + nbytes + i] != 0xC3)
            SEQX_FAIL("guard-bytes", "writer touched memory outside its buffer");
    if (memcmp(tmp + GUARD, ref, nbytes)) {
        snprintf(sig, sizeof(sig), "write-mismatch:w=%d:avail=%d", w, s->avail_before_last);
        char a[80] = "", b[80] = "";
        for (int i = 0; i < nbytes && i < 16; i++) {
            sprintf(a + 2 * i, "%02x", tmp[GUARD + i]);
            sprintf(b + 2 * i, "%02x", ref[i]);
        }
        SEQX_FAIL(sig, "bytes written %s, reference packer %s", a, b);
    }
    /* read back with ubits_get over the same memory */
    struct ubits r;
    ubits_init(&r, tmp + GUARD, nbytes, UBITS_READ);
    for (int i = 0; i < s->nf; i++) {
        uint32_t got = ubits_get(&r, s->w[i]);
        if (got != s->v[i] || r.overflow) {
            snprintf(sig, sizeof(sig), "get-mismatch:w=%d", s->w[i]);
            SEQX_FAIL(sig, "field %d width %d: read 0x%x wrote 0x%x overflow=%d", i,
                      s->w[i], got, s->v[i], r.overflow);
        }
    }
    /* reading past the end: overflow, never a byte outside (guards + value) */
    {
        int total = 0;
        for (int i = 0; i < s->nf; i++)
            total += s->w[i];
        int pad = nbytes * 8 - total;
        uint32_t got = ubits_get(&r, 8);
        (void)pad;
        if (!r.overflow)
            SEQX_FAIL("get-no-overflow", "reading 8 bits past the end did not set overflow (got 0x%x)", got);
    }
    int rc = check_small_buffers(s, ref, nbytes);
    if (rc != SEQX_OK)
        return rc;
    if (g_stream)
        return check_stream(s, ref, nbytes);
    return SEQX_OK;
}

/* rewrite the whole field list into buffers that are too small */
static int check_small_buffers(struct st *s, const uint8_t *ref, int nbytes)
{
    int sizes[3] = {nbytes - 1, nbytes - 4, 0};
    for (int k = 0; k < 3; k++) {
        int sz = sizes[k];
        if (sz < 0)
            continue;
        uint8_t area[MAXF * 4 + 2 * GUARD];
        memset(area, 0x5A, sizeof(area));
        /* heap copy so that ASan sees an overrun as well */
        uint8_t *heap = malloc(sz ? sz : 1);
        struct ubits a, h;
        ubits_init(&a, area + GUARD, sz, UBITS_WRITE);
        ubits_init(&h, heap, sz, UBITS_WRITE);
        for (int i = 0; i < s->nf; i++) {
            ubits_put(&a, s->w[i], s->v[i]);
            ubits_put(&h, s->w[i], s->v[i]);
        }
        uint8_t *e1 = NULL, *e2 = NULL;
        int r1 = ubits_clean(&a, &e1);
        int r2 = ubits_clean(&h, &e2);
        free(heap);
        for (int i = 0; i < GUARD; i++)
            if (area[i] != 0x5A || area[GUARD + sz + i] != 0x5A)
                SEQX_FAIL("guard-bytes-small", "writer with %d bytes of room (needs %d) wrote outside", sz, nbytes);
        if (ubase_check(r1) || ubase_check(r2))
            SEQX_FAIL("no-overflow-reported", "buffer of %d bytes, %d needed, yet ubits_clean reported success", sz, nbytes);
        /* what was written must be a prefix of the reference */
        int wr = a.buffer - (area + GUARD);
        if (wr > sz || memcmp(area + GUARD, ref, wr))
            SEQX_FAIL("small-prefix", "bytes written before overflow are not a prefix of the reference");
    }
    return SEQX_OK;
}

static struct ubuf *mkblock(const uint8_t *d, int n)
{
    struct ubuf *u = ubuf_block_alloc(g_bmgr, n);
    assert(u);
    if (n) {
        int sz = -1;
        uint8_t *w;
        ubase_assert(ubuf_block_write(u, 0, &sz, &w));
        assert(sz == n);
        memcpy(w, d, n);
        ubase_assert(ubuf_block_unmap(u, 0));
    }
    return u;
}

static uint32_t stream_read(struct ubuf_block_stream *bs, int w)
{
    uint32_t v = 0;
    while (w > 0) {
        int n = w > 16 ? 16 : w;
        ubuf_block_stream_fill_bits(bs, n);
        v = (n == 32 ? 0 : v << n) | ubuf_block_stream_show_bits(bs, n);
        ubuf_block_stream_skip_bits(bs, n);
        w -= n;
    }
    return v;
}

static long long g_segmentations;

static int check_stream(struct st *s, const uint8_t *ref, int nbytes)
{
    char sig[128];
    /* all segmentations into <= 3 segments: cut points 0 < a <= b < nbytes
     * (a == b: two segments; a == b == 0 not used; single segment once) */
    for (int a = 0; a < nbytes; a++) {
        for (int b = a; b < nbytes; b++) {
            if (a == 0 && b != 0)
                continue;
            struct ubuf *u = mkblock(ref, a == 0 ? nbytes : a);
            if (a != 0) {
                if (b > a) {
                    ubase_assert(ubuf_block_append(u, mkblock(ref + a, b - a)));
                    ubase_assert(ubuf_block_append(u, mkblock(ref + b, nbytes - b)));
                } else
                    ubase_assert(ubuf_block_append(u, mkblock(ref + a, nbytes - a)));
            }
            g_segmentations++;
            /* start either at bit 0, or after the first field(s) via init_bits */
            for (int skipf = 0; skipf <= s->nf && skipf <= 2; skipf++) {
                int startbit = 0;
                for (int i = 0; i < skipf; i++)
                    startbit += s->w[i];
                struct ubuf_block_stream bs;
                if (!ubase_check(ubuf_block_stream_init_bits(&bs, u, startbit))) {
                    if (startbit / 8 >= nbytes)
                        continue; /* nothing left to read: refusal is right */
                    ubuf_free(u);
                    SEQX_FAIL("stream-init", "init_bits(%d) refused on %d bytes", startbit, nbytes);
                }
                for (int i = skipf; i < s->nf; i++) {
                    uint32_t got = stream_read(&bs, s->w[i]);
                    if (got != s->v[i] || bs.overflow) {
                        snprintf(sig, sizeof(sig), "stream-mismatch:w=%d", s->w[i]);
                        snprintf(seqx_msg, sizeof(seqx_msg),
                                 "segments cut at %d,%d start bit %d: field %d width %d read 0x%x wrote 0x%x overflow=%d",
                                 a, b, startbit, i, s->w[i], got, s->v[i], bs.overflow);
                        ubuf_block_stream_clean(&bs);
                        ubuf_free(u);
                        snprintf(seqx_sig, sizeof(seqx_sig), "%s", sig);
                        return SEQX_VIOL;
                    }
                }
                /* past the end: zero bits and overflow */
                uint32_t got = stream_read(&bs, 16);
                bool ovf = bs.overflow;
                ubuf_block_stream_clean(&bs);
                if (got != 0 || !ovf) {
                    ubuf_free(u);
                    SEQX_FAIL("stream-past-end", "16 bits past the end: value 0x%x overflow=%d (want 0, true)", got, ovf);
                }
            }
            ubuf_free(u);
            if (a == 0 || b == a)
                continue;
            /* the same three-segment layout obtained differently, read back from bit 0:
             * (i) [A D] as one segment, [B C'] (itself two segments when it has two octets or more) inserted at a;
             * (ii) zero-filled segments filled through write mappings that start inside a segment (each mapping must stop
             *      at the end of its segment). */
            for (int variant = 0; variant < 2; variant++) {
                struct ubuf *v;
                if (variant == 0) {
                    uint8_t ad[64];
                    memcpy(ad, ref, a);
                    memcpy(ad + a, ref + b, nbytes - b);
                    v = mkblock(ad, a + nbytes - b);
                    int m = a + (b - a) / 2;
                    struct ubuf *mid = mkblock(ref + a, (m > a ? m : b) - a);
                    if (m > a)
                        ubase_assert(ubuf_block_append(mid, mkblock(ref + m, b - m)));
                    if (!ubase_check(ubuf_block_insert(v, a, mid))) {
                        ubuf_free(mid);
                        ubuf_free(v);
                        SEQX_FAIL("stream-insert", "in-range insert of a segmented block refused");
                    }
                } else {
                    uint8_t z[64] = {0};
                    v = mkblock(z, a);
                    ubase_assert(ubuf_block_append(v, mkblock(z, b - a)));
                    ubase_assert(ubuf_block_append(v, mkblock(z, nbytes - b)));
                    int bounds[4] = {a, b, nbytes, nbytes};
                    int off = a > 1 ? 1 : 0; /* start inside the first segment when it has two octets */
                    if (off) {
                        int sz = off;
                        uint8_t *w;
                        ubase_assert(ubuf_block_write(v, 0, &sz, &w));
                        memcpy(w, ref, off);
                        ubuf_block_unmap(v, 0);
                    }
                    while (off < nbytes) {
                        int next = bounds[0] > off ? bounds[0] : bounds[1] > off ? bounds[1] : bounds[2];
                        int segstart = next == a ? 0 : next == b ? a : b;
                        int sz = off > segstart ? next - segstart : -1; /* inside a segment: ask for as much as the whole segment holds */
                        uint8_t *w;
                        if (!ubase_check(ubuf_block_write(v, off, &sz, &w)) || sz != next - off) {
                            ubuf_free(v);
                            SEQX_FAIL("block-write-window", "write mapping at offset %d of segments cut at %d,%d is %d octets long, the segment has %d left", off, a, b, sz, next - off);
                        }
                        memcpy(w, ref + off, sz);
                        ubuf_block_unmap(v, off);
                        off += sz;
                    }
                }
                struct ubuf_block_stream bs;
                ubase_assert(ubuf_block_stream_init_bits(&bs, v, 0));
                for (int i = 0; i < s->nf; i++) {
                    uint32_t got = stream_read(&bs, s->w[i]);
                    if (got != s->v[i] || bs.overflow) {
                        snprintf(seqx_sig, sizeof(seqx_sig), "stream-mismatch:%s:w=%d", variant == 0 ? "inserted-segments" : "written-through-mappings", s->w[i]);
                        snprintf(seqx_msg, sizeof(seqx_msg), "segments cut at %d,%d (%s): field %d width %d read 0x%x wrote 0x%x overflow=%d", a, b,
                                 variant == 0 ? "middle part inserted as a segmented block" : "filled through write mappings", i, s->w[i], got, s->v[i], bs.overflow);
                        ubuf_block_stream_clean(&bs);
                        ubuf_free(v);
                        return SEQX_VIOL;
                    }
                }
                ubuf_block_stream_clean(&bs);
                ubuf_free(v);
            }
        }
    }
    return SEQX_OK;
}

static void c18_canon(void *p, struct vbuf *out)
{
    struct st *s = p;
    /* what determines the writer's future: cache, fill level, room used.
     * In stream mode the field list matters for the segmentations too. */
    vbuf_u32(out, s->bw.bits);
    vbuf_u32(out, s->bw.available);
    vbuf_u32(out, (uint32_t)(s->bw.buffer - s->buf));
    vbuf_u8(out, s->bw.overflow);
    vbuf_u32(out, s->nf);
    if (g_stream) {
        vbuf_put(out, s->w, sizeof(int) * s->nf);
        vbuf_put(out, s->v, sizeof(uint32_t) * s->nf);
    }
}

static bool c18_nontrivial(void *p)
{
    struct st *s = p;
    /* non-trivial: at least one 4-octet flush happened (cache wrapped) */
    return s->bw.buffer != s->buf;
}

int main(int argc, char **argv)
{
    const char *widths = "full";
    int depth = 3;
    for (int i = 1; i < argc; i++) {
        if (!strcmp(argv[i], "--mode") && i + 1 < argc)
            g_stream = !strcmp(argv[++i], "stream");
        else if (!strcmp(argv[i], "--widths") && i + 1 < argc)
            widths = argv[++i];
        else if (!strcmp(argv[i], "--values") && i + 1 < argc)
            g_nvalues = atoi(argv[++i]);
        else if (!strcmp(argv[i], "--depth") && i + 1 < argc)
            depth = atoi(argv[i + 1]);
    }
    if (!strcmp(widths, "full"))
        for (int w = 1; w <= 32; w++)
            g_widths[g_nwidths++] = w;
    else {
        static const int e[] = {1, 3, 7, 8, 9, 15, 16, 17, 24, 25, 31, 32};
        for (unsigned i = 0; i < sizeof(e) / sizeof(*e); i++)
            g_widths[g_nwidths++] = e[i];
    }
    g_umem = umem_alloc_mgr_alloc();
    g_bmgr = ubuf_block_mem_mgr_alloc(0, 0, g_umem, 0, 0, 0, 0);
    struct seqx_spec spec = {
        .name = g_stream ? "c18-stream" : "c18-write",
        .nops = g_nwidths * g_nvalues,
        .init = c18_init,
        .apply = c18_apply,
        .canon = c18_canon,
        .fini = c18_fini,
        .opstr = c18_opstr,
        .nontrivial = c18_nontrivial,
    };
    int r = seqx_main(&spec, argc, argv, depth);
    if (g_stream)
        v_stat("segmentations", g_segmentations);
    ubuf_mgr_release(g_bmgr);
    umem_mgr_release(g_umem);
    return r;
}
