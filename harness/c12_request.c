/* C12 — requests travel downstream, answers travel back, surviving re-plumbing.
 * Explicit-state enumeration of register / unregister / set_output / provide /
 * release sequences over chains of real pipes (helper_output proxies), in one
 * thread and across a queue sink/source pair driven by the mock loop.
 * DESIGN.md section 3, C12. */
#include "pipex.h"
#include "seqx.h"
#include "simfd.h"

#include "upipe-modules/upipe_idem.h"
#include "upipe-modules/upipe_skip.h"
#include "upipe-modules/upipe_setflowdef.h"
#include "upipe-modules/upipe_dup.h"
#include "upipe-modules/upipe_queue_sink.h"
#include "upipe-modules/upipe_segment_source.h"
#include "upipe-modules/upipe_queue_source.h"
#include "upipe-ts/upipe_ts_align.h"
#include "upipe-framers/upipe_auto_framer.h"
#include "upipe/upipe_helper_upipe.h"
#include "upipe/upipe_helper_urefcount.h"
#include "upipe/upipe_helper_void.h"
#include "upipe/upipe_helper_output.h"
#include "upipe/upipe_helper_flow_format.h"
#include "upipe/upipe_helper_ubuf_mgr.h"
#include "upipe-modules/upipe_queue.h" /* (internal header of the queue pair: length of its out-of-band queue) */

/* topologies: head -> P1 -> P2 -> {T0,T1}
 *   0: idem -> idem          1: skip -> setflowdef       2: dup (main output) -> idem
 *   3: idem -> [qsink | qsrc] -> idem  (queue between P1 and P2)
 *   4: ts_align (a bin pipe: helper_bin_input / helper_bin_output around an inner pipe that each
 *      set_flow_def replaces) -> idem
 *   5: auto_framer (a bin pipe that on a new kind of flow first drops its inner pipe, store_bin_input(NULL) /
 *      store_bin_output(NULL), and then stores the new one; unknown formats get an idem inner pipe) -> idem
 *   6: ubm -> idem, where ubm is a filter written here with the real UPIPE_HELPER_OUTPUT / UPIPE_HELPER_FLOW_FORMAT /
 *      UPIPE_HELPER_UBUF_MGR macros the way their headers prescribe (control = control_ubuf_mgr, then control_output;
 *      set_flow_def requires a flow format, its answer requires a buffer manager, its answer stores the flow
 *      definition: the layout of upipe_freetype, the only module of the tree that chains the two helpers without
 *      intercepting flow-format requests first, and which needs the FreeType library). Such a pipe answers the
 *      flow-format and buffer-manager requests of its upstream itself (through its probes) and never forwards them;
 *      its own two requests travel downstream through the output helper like any other.
 * environment deviation (--env 1, topology 3): the out-of-band queue from the queue sink to the queue source
 *      (255 entries) can be filled by one operation, a burst of register/unregister of a throw-away request while
 *      the source is not dispatched; "drain" dispatches until the loop is idle. */
/* the auto framer's manager looks up every framer; none is needed here (unknown formats get idem) */
#define NOFRAMER(n) struct upipe_mgr *upipe_##n##_mgr_alloc(void) { return NULL; }
NOFRAMER(a52f) NOFRAMER(dvbsubf) NOFRAMER(h264f) NOFRAMER(h265f) NOFRAMER(id3v2f)
NOFRAMER(mpgaf) NOFRAMER(mpgvf) NOFRAMER(opusf) NOFRAMER(s302f) NOFRAMER(telxf)

static int g_topo = 0;
static int g_pool = 0;
static int g_nreq = 2;
static unsigned g_mask = 0; /* request types of the alphabet (bit r of req_types); --nreq n = the first n, --reqs a,b,.. = those */
static int g_tprov = 0;   /* 1: the providers answer uref_mgr / uclock / ubuf_mgr inside register (synchronously);
                           * 2: the providers decline every request (UNHANDLED): the probes must then be asked */
static int g_cbmode = 0;  /* 1: the uref_mgr callback withdraws and re-issues the uclock request (the way a
                           * flow-format answer makes a filter re-require its ubuf manager) */
static int g_env = 0;     /* 1 (topology 3): P1 -> queue sink and P2 -> T0 are plumbed from the start, the alphabet is
                           * register / unregister / provide / dispatch / fill / drain */
static int g_head = 0;    /* 1 (with --env 1): the head registers on the queue sink itself (no filter in between) */
static bool g_in_requeue;

#define NREQ 5
static const int req_types[NREQ] = {UREQUEST_UREF_MGR, UREQUEST_UCLOCK, UREQUEST_SINK_LATENCY, UREQUEST_FLOW_FORMAT, UREQUEST_UBUF_MGR};
static const char *req_names[NREQ] = {"uref_mgr", "uclock", "sink_latency", "flow_format", "ubuf_mgr"};
#define IN_ALPHABET(r) ((g_mask >> (r)) & 1u)

struct cbrec {
    int stamp, req;
    uint64_t value;
    bool while_unregistered;
};

struct ubm;

struct st {
    struct px_fix fx;
    struct upipe *p1, *p2, *dup_super, *qsink, *qsrc;
    struct urequest req[NREQ];
    bool reg[NREQ];
    int p1_out;      /* 0 none, 1 next */
    int p2_out;      /* 0 none, 1 T0, 2 T1 */
    bool p2_released, p1_released;
    bool p1_inner;   /* topology 4: the bin has an inner pipe */
    int reg_cb_base[NREQ]; /* callbacks recorded when the request was registered */
    struct cbrec cb[64];
    int ncb;
    uint64_t hist_hash;
    int nops;
    /* expectation set by the provide ops, per request: how many answers the providers gave since the callback log
     * stood at pend_base, with which value (pend_mixed: not always the same), and whether a registration of this
     * request that the head had already withdrawn could still be lodged at the provider then (the withdrawal
     * travelling in the queue, or lost): such an answer is rightly dropped on the way back */
    int pend_n[NREQ];
    uint64_t pend_val[NREQ];
    int pend_base[NREQ];
    bool pend_mixed[NREQ], pend_amb[NREQ];
    bool unreg_inflight[NREQ]; /* topology 3: withdrawn since the loop was last idle */
    /* topology 6: the requests P1 issues itself (observed from the pipe's own code below) */
    struct ubm *ubm;
    bool own_ff, own_ubm;      /* P1 has required a flow format / a buffer manager and not withdrawn it */
    int own_ff_answers, own_ubm_answers;
    bool pend_own;             /* the last provide op answered P1's own flow-format request */
    int pend_own_base;
    /* queue-full deviation */
    struct urequest dreq, dhold; /* throw-away requests of the burst */
    bool dreq_reg, dhold_reg, filled;
    int d_cb_unreg;            /* callbacks of a throw-away request while it was not registered */
    bool refused[NREQ];        /* the registration was refused (queue full): nothing travels downstream */
    int stale[NREQ];           /* withdrawals that could not be sent (queue full) */
    bool refusal_unreported;
    bool never_idle;
    bool viol;
    char vsig[96], vmsg[500];
};

static struct st *g_cur;

#define FAIL(st_, sig_, ...)                                                   \
    do {                                                                       \
        if (!(st_)->viol) {                                                    \
            (st_)->viol = true;                                                \
            snprintf((st_)->vsig, sizeof((st_)->vsig), "topo%d%s%s:%s", g_topo, g_cbmode ? ":requeue" : "", g_env ? ":qfull" : "", sig_); \
            snprintf((st_)->vmsg, sizeof((st_)->vmsg), __VA_ARGS__);           \
        }                                                                      \
    } while (0)

/* ---- topology 6: a filter made of the output, flow-format and buffer-manager helpers (layout of upipe_freetype) ---- */
#define UBM_SIGNATURE UBASE_FOURCC('c', 'u', 'b', 'm')
struct ubm {
    struct urefcount urefcount;
    struct upipe *output;
    struct uref *flow_def;
    enum upipe_helper_output_state output_state;
    struct uchain request_list;
    struct urequest flow_format_request;
    struct ubuf_mgr *ubuf_mgr;
    struct uref *flow_format;
    struct urequest ubuf_mgr_request;
    struct upipe upipe;
};

static void ubm_free(struct upipe *upipe);
static int ubm_check_flow_format(struct upipe *upipe, struct uref *flow_format);
static int ubm_check_ubuf_mgr(struct upipe *upipe, struct uref *flow_format);

UPIPE_HELPER_UPIPE(ubm, upipe, UBM_SIGNATURE)
UPIPE_HELPER_UREFCOUNT(ubm, urefcount, ubm_free)
UPIPE_HELPER_VOID(ubm)
UPIPE_HELPER_OUTPUT(ubm, output, flow_def, output_state, request_list)
UPIPE_HELPER_FLOW_FORMAT(ubm, flow_format_request, ubm_check_flow_format, ubm_register_output_request, ubm_unregister_output_request)
UPIPE_HELPER_UBUF_MGR(ubm, ubuf_mgr, flow_format, ubuf_mgr_request, ubm_check_ubuf_mgr, ubm_register_output_request, ubm_unregister_output_request)

static struct upipe *ubm_alloc(struct upipe_mgr *mgr, struct uprobe *uprobe, uint32_t signature, va_list args)
{
    struct upipe *upipe = ubm_alloc_void(mgr, uprobe, signature, args);
    if (unlikely(upipe == NULL))
        return NULL;
    ubm_init_urefcount(upipe);
    ubm_init_output(upipe);
    ubm_init_flow_format(upipe);
    ubm_init_ubuf_mgr(upipe);
    upipe_throw_ready(upipe);
    return upipe;
}

/* the buffer manager arrived: the flow definition can go out */
static int ubm_check_ubuf_mgr(struct upipe *upipe, struct uref *flow_format)
{
    g_cur->own_ubm_answers++;
    if (flow_format != NULL)
        ubm_store_flow_def(upipe, flow_format);
    return UBASE_ERR_NONE;
}

/* the flow format arrived: a buffer manager for it is required */
static int ubm_check_flow_format(struct upipe *upipe, struct uref *flow_format)
{
    g_cur->own_ff_answers++;
    g_cur->own_ubm = true;
    ubm_require_ubuf_mgr(upipe, flow_format);
    return UBASE_ERR_NONE;
}

static int ubm_set_flow_def(struct upipe *upipe, struct uref *flow_def)
{
    struct ubm *ubm = ubm_from_upipe(upipe);
    if (flow_def == NULL)
        return UBASE_ERR_INVALID;
    struct uref *flow_format = uref_dup(flow_def);
    UBASE_ALLOC_RETURN(flow_format);
    if (urequest_get_opaque(&ubm->ubuf_mgr_request, struct upipe *) != NULL) {
        /* a new format is negotiated: the buffer manager request for the old one is withdrawn */
        ubm_unregister_output_request(upipe, &ubm->ubuf_mgr_request);
        urequest_clean(&ubm->ubuf_mgr_request);
        ubm_clean_ubuf_mgr(upipe);
        ubm_init_ubuf_mgr(upipe);
        g_cur->own_ubm = false;
    }
    g_cur->own_ff = true;
    ubm_require_flow_format(upipe, flow_format);
    return UBASE_ERR_NONE;
}

static int ubm_control(struct upipe *upipe, int command, va_list args)
{
    /* "Make sure to call this function before the output control helper function" (upipe_helper_ubuf_mgr.h) */
    UBASE_HANDLED_RETURN(ubm_control_ubuf_mgr(upipe, command, args));
    UBASE_HANDLED_RETURN(ubm_control_output(upipe, command, args));
    switch (command) {
    case UPIPE_SET_FLOW_DEF: {
        struct uref *flow_def = va_arg(args, struct uref *);
        return ubm_set_flow_def(upipe, flow_def);
    }
    default:
        return UBASE_ERR_UNHANDLED;
    }
}

static void ubm_input(struct upipe *upipe, struct uref *uref, struct upump **upump_p)
{
    ubm_output(upipe, uref, upump_p);
}

static void ubm_free(struct upipe *upipe)
{
    upipe_throw_dead(upipe);
    ubm_clean_output(upipe);
    ubm_clean_ubuf_mgr(upipe);
    ubm_clean_flow_format(upipe);
    ubm_clean_urefcount(upipe);
    ubm_free_void(upipe);
}

static struct upipe_mgr ubm_mgr = {
    .refcount = NULL,
    .signature = UBM_SIGNATURE,
    .upipe_alloc = ubm_alloc,
    .upipe_input = ubm_input,
    .upipe_control = ubm_control,
};

/* ---- head requester ---- */
/* what a flow format carries: its definition string and the marker attribute f.id */
static uint64_t ff_value(struct uref *ff)
{
    if (ff == NULL)
        return 0;
    const char *def = NULL;
    uint64_t id = 0;
    uint64_t v = 1;
    if (ubase_check(uref_flow_get_def(ff, &def)) && def != NULL)
        v += 131 * (uint64_t)strlen(def);
    if (ubase_check(uref_flow_get_id(ff, &id)))
        v += (id + 1) << 16;
    return v;
}

/* --hwdef 1: the ubuf_mgr request proposes a definition no memory-backed manager can serve ("pic.hw."), and an application probe
 * placed after all the fixture's probes provides it: the request has to travel past uprobe_ubuf_mem to get there */
static int g_hwdef;
static struct uprobe g_tail;
static int g_tail_answers;
static int tail_throw(struct uprobe *uprobe, struct upipe *upipe, int event, va_list args)
{
    if (event == UPROBE_PROVIDE_REQUEST) {
        va_list ac;
        va_copy(ac, args);
        struct urequest *q = va_arg(ac, struct urequest *);
        va_end(ac);
        const char *def = NULL;
        if (q->type == UREQUEST_UBUF_MGR && q->uref != NULL && ubase_check(uref_flow_get_def(q->uref, &def)) && !strncmp(def, "pic.hw.", 7)) {
            struct uref *ff = uref_dup(q->uref);
            assert(ff);
            g_tail_answers++;
            return urequest_provide_ubuf_mgr(q, ubuf_mgr_use(g_cur->fx.ubuf_mgr), ff);
        }
    }
    return uprobe_throw_next(uprobe, upipe, event, args);
}

static int head_provide(struct urequest *urequest, va_list args)
{
    struct st *st = g_cur;
    int r = (int)(urequest - st->req);
    assert(r >= 0 && r < NREQ);
    uint64_t v = 0;
    switch (urequest->type) {
    case UREQUEST_UREF_MGR: {
        struct uref_mgr *m = va_arg(args, struct uref_mgr *);
        v = (uint64_t)(uintptr_t)m;
        uref_mgr_release(m);
        break;
    }
    case UREQUEST_UCLOCK: {
        struct uclock *c = va_arg(args, struct uclock *);
        v = (uint64_t)(uintptr_t)c;
        uclock_release(c);
        break;
    }
    case UREQUEST_SINK_LATENCY:
        v = va_arg(args, uint64_t);
        break;
    case UREQUEST_FLOW_FORMAT: {
        struct uref *ff = va_arg(args, struct uref *);
        v = ff_value(ff);
        uref_free(ff);
        break;
    }
    case UREQUEST_UBUF_MGR: {
        struct ubuf_mgr *m = va_arg(args, struct ubuf_mgr *);
        struct uref *ff = va_arg(args, struct uref *);
        v = (uint64_t)(uintptr_t)m ^ ff_value(ff);
        ubuf_mgr_release(m);
        uref_free(ff);
        break;
    }
    }
    if (st->ncb < 64)
        st->cb[st->ncb++] = (struct cbrec){st->fx.stamp++, r, v, !st->reg[r]};
    if (g_cbmode == 1 && r == 0 && st->reg[1] && !g_in_requeue && st->p1 != NULL) {
        g_in_requeue = true;
        st->unreg_inflight[1] = g_topo == 3;
        upipe_unregister_request(st->p1, &st->req[1]);
        upipe_register_request(st->p1, &st->req[1]);
        g_in_requeue = false;
    }
    return UBASE_ERR_NONE;
}

/* the throw-away requests of the burst (sink latency) */
static int fill_provide(struct urequest *urequest, va_list args)
{
    struct st *st = g_cur;
    (void)va_arg(args, uint64_t);
    bool live = urequest == &st->dreq ? st->dreq_reg : st->dhold_reg;
    if (!live)
        st->d_cb_unreg++;
    return UBASE_ERR_NONE;
}

enum {
    OP_REG0, OP_REG1, OP_REG2,
    OP_UNREG0, OP_UNREG1, OP_UNREG2,
    OP_P1_NEXT, OP_P1_NULL,
    OP_P2_T0, OP_P2_T1, OP_P2_NULL,
    OP_PROVIDE_T0, OP_PROVIDE_T1,
    OP_PUMP0, OP_PUMP1, OP_PUMP2,
    OP_REL_P2, OP_REL_P1,
    OP_P1_FLOWDEF, /* topology 4/5/6: (re)creates the inner pipe of the bin; makes the filter of topology 6 negotiate */
    OP_P1_FLOWDEF2, /* topology 5: another kind of flow, the inner pipe is dropped and rebuilt */
    /* (appended, so that the numbering of the operations above - replay ids - stays what it was) */
    OP_REG3, OP_REG4,
    OP_UNREG3, OP_UNREG4,
    OP_FILL,  /* --env 1: register / unregister a throw-away request until the out-of-band queue is full */
    OP_DRAIN, /* --env 1: dispatch until the loop is idle */
    OP_P1_T1, /* P1's output replaced by the terminal T1 directly (one non-NULL output replaced by another, P2 bypassed) */
    NOPS
};

static int op_reg(int op)
{
    if (op >= OP_REG0 && op <= OP_REG2)
        return op - OP_REG0;
    if (op >= OP_REG3 && op <= OP_REG4)
        return 3 + op - OP_REG3;
    return -1;
}

static int op_unreg(int op)
{
    if (op >= OP_UNREG0 && op <= OP_UNREG2)
        return op - OP_UNREG0;
    if (op >= OP_UNREG3 && op <= OP_UNREG4)
        return 3 + op - OP_UNREG3;
    return -1;
}

static void opstr(int op, char *b, size_t n)
{
    static const char *nm[] = {"register(uref_mgr)", "register(uclock)", "register(sink_latency)", "unregister(uref_mgr)", "unregister(uclock)",
                               "unregister(sink_latency)", "P1.set_output(P2)", "P1.set_output(NULL)", "P2.set_output(T0)", "P2.set_output(T1)",
                               "P2.set_output(NULL)", "T0.provide(first lodged)", "T1.provide(first lodged)", "dispatch(pump 0)", "dispatch(pump 1)",
                               "dispatch(pump 2)", "release(P2)", "release(P1)", "P1.set_flow_def", "P1.set_flow_def(other kind)",
                               "register(flow_format)", "register(ubuf_mgr)", "unregister(flow_format)", "unregister(ubuf_mgr)",
                               "fill(out-of-band queue)", "drain(dispatch until idle)", "P1.set_output(T1)"};
    snprintf(b, n, "%s", op >= 0 && op < NOPS ? nm[op] : "?");
}

/* entry of the chain where the head registers, and the pipe whose output is "next" */
static struct upipe *head_pipe(struct st *st) { return g_head ? st->qsink : st->p1; }
/* the pipe the P1-side connects to (P2, or the queue sink) */
static struct upipe *p1_next(struct st *st) { return g_topo == 3 ? st->qsink : st->p2; }
/* does what the head registers reach the pipe after P1 */
static bool head_routed(struct st *st) { return g_head ? true : st->p1_inner && st->p1_out != 0; }
/* topology 6: P1 answers these itself and forwards nothing */
static bool answered_by_p1(int r) { return g_topo == 6 && (req_types[r] == UREQUEST_FLOW_FORMAT || req_types[r] == UREQUEST_UBUF_MGR); }

static struct uqueue *oob_down(struct st *st) { return &upipe_queue(st->qsrc)->downstream_oob; }
static bool oob_full(struct st *st) { return g_topo == 3 && st->qsrc != NULL && uqueue_length(oob_down(st)) >= oob_down(st)->length; }

static void *init(void)
{
    simfd_reset();
    pxm_begin();
    struct st *st = calloc(1, sizeof(*st));
    g_cur = st;
    struct px_cfg cfg = {.pool = g_pool, .prepend = 0, .append = 0, .align = 0};
    if (g_hwdef) {
        uprobe_init(&g_tail, tail_throw, NULL);
        cfg.tail_probe = &g_tail;
    }
    px_fix_init(&st->fx, &cfg);
    struct px_fix *fx = &st->fx;
    for (int r = 0; r < NREQ; r++) {
        struct uref *ff = NULL;
        if (IN_ALPHABET(r) && (req_types[r] == UREQUEST_FLOW_FORMAT || req_types[r] == UREQUEST_UBUF_MGR)) {
            ff = px_flow(fx, g_hwdef && req_types[r] == UREQUEST_UBUF_MGR ? "pic.hw." : "block.", 7);
            assert(ff);
        }
        urequest_init(&st->req[r], req_types[r], ff, head_provide, NULL);
    }
    urequest_init_sink_latency(&st->dreq, fill_provide, NULL);
    urequest_init_sink_latency(&st->dhold, fill_provide, NULL);
    for (int k = 0; k < 2; k++) {
        fx->sinks[k].sync_provide = g_tprov == 1;
        fx->sinks[k].unhandled_requests = g_tprov == 2;
    }
    g_in_requeue = false;
    switch (g_topo) {
    case 0:
        st->p1 = upipe_void_alloc(upipe_idem_mgr_alloc(), px_probe(fx));
        st->p2 = upipe_void_alloc(upipe_idem_mgr_alloc(), px_probe(fx));
        break;
    case 1:
        st->p1 = upipe_void_alloc(upipe_skip_mgr_alloc(), px_probe(fx));
        st->p2 = upipe_void_alloc(upipe_setflowdef_mgr_alloc(), px_probe(fx));
        break;
    case 2:
        st->p1 = upipe_void_alloc(upipe_dup_mgr_alloc(), px_probe(fx));
        st->p2 = upipe_void_alloc(upipe_idem_mgr_alloc(), px_probe(fx));
        break;
    case 3:
        st->p1 = upipe_void_alloc(upipe_idem_mgr_alloc(), px_probe(fx));
        st->qsrc = upipe_qsrc_alloc(upipe_qsrc_mgr_alloc(), px_probe(fx), 2);
        assert(st->qsrc);
        st->qsink = upipe_qsink_alloc(upipe_qsink_mgr_alloc(), px_probe(fx), st->qsrc);
        assert(st->qsink);
        ubase_assert(upipe_attach_upump_mgr(st->qsrc));
        st->p2 = upipe_void_alloc(upipe_idem_mgr_alloc(), px_probe(fx));
        ubase_assert(upipe_set_output(st->qsrc, st->p2));
        break;
    case 4:
        st->p1 = upipe_void_alloc(upipe_ts_align_mgr_alloc(), px_probe(fx));
        st->p2 = upipe_void_alloc(upipe_idem_mgr_alloc(), px_probe(fx));
        break;
    case 5: {
        struct upipe_mgr *m = upipe_autof_mgr_alloc();
        assert(m);
        st->p1 = upipe_void_alloc(m, px_probe(fx));
        upipe_mgr_release(m);
        st->p2 = upipe_void_alloc(upipe_idem_mgr_alloc(), px_probe(fx));
        break;
    }
    case 7:
        /* the real segment-source bin (helper_bin_output, no inner pipe yet) after upipe_attach_uclock: its own uclock request sits
         * in the bin's request list and follows the bin's output; nothing can be registered *on* it (no inner pipe), so the head has
         * no request in this topology: the providers' books are the oracle */
        st->p1 = upipe_void_alloc(upipe_seg_src_mgr_alloc(), px_probe(fx));
        assert(st->p1);
        ubase_assert(upipe_attach_uclock(st->p1));
        st->p2 = upipe_void_alloc(upipe_idem_mgr_alloc(), px_probe(fx));
        break;
    case 6:
        st->p1 = upipe_void_alloc(&ubm_mgr, px_probe(fx));
        assert(st->p1);
        st->ubm = ubm_from_upipe(st->p1);
        st->p2 = upipe_void_alloc(upipe_idem_mgr_alloc(), px_probe(fx));
        break;
    }
    st->p1_inner = g_topo < 4 || g_topo == 6;   /* (topology 7: nothing can be registered on P1) */
    assert(st->p1 && st->p2);
    if (g_env) {
        ubase_assert(upipe_set_output(st->p1, st->qsink));
        st->p1_out = 1;
        ubase_assert(upipe_set_output(st->p2, &fx->sinks[0].upipe));
        st->p2_out = 1;
    }
    pxm_pause();
    return st;
}

static bool loop_idle(struct st *st);

static bool enabled_cb(void *vst, int op)
{
    struct st *st = vst;
    if (st->p1_released)
        return op >= OP_PUMP0 && op <= OP_PUMP2 && g_topo == 3;
    if (op_reg(op) >= 0)
        return IN_ALPHABET(op_reg(op)) && !st->reg[op_reg(op)];
    if (op_unreg(op) >= 0)
        return IN_ALPHABET(op_unreg(op)) && st->reg[op_unreg(op)];
    if (op == OP_FILL)
        return g_env && !st->filled;
    if (op == OP_DRAIN)
        return g_env && !loop_idle(st);
    if (g_env && (op == OP_P1_NEXT || op == OP_P1_NULL || op == OP_P2_T0 || op == OP_P2_T1 || op == OP_P2_NULL || op == OP_REL_P2 ||
                  op == OP_REL_P1))
        return false; /* (the plumbing is fixed in this mode) */
    if (op == OP_P1_T1)
        return g_topo != 3 && !g_env;
    if (op == OP_P1_NEXT)
        return !st->p2_released || g_topo == 3;
    if (op == OP_P2_T0 || op == OP_P2_T1 || op == OP_P2_NULL || op == OP_REL_P2)
        return !st->p2_released;
    if (op == OP_PROVIDE_T0)
        return st->fx.sinks[0].nreqs > 0;
    if (op == OP_PROVIDE_T1)
        return st->fx.sinks[1].nreqs > 0;
    if (op == OP_P1_FLOWDEF)
        return g_topo >= 4 && g_topo != 7;
    if (op == OP_P1_FLOWDEF2)
        return g_topo == 5;
    if (op >= OP_PUMP0 && op <= OP_PUMP2) {
        if (g_topo != 3)
            return false;
        struct vmock_pump *r[8];
        return px_ready_pumps(&st->fx, r, 8) > op - OP_PUMP0;
    }
    return true;
}

/* who issued a request a provider holds: the head (index in *r), P1 itself (topology 6), the burst.
 * Between the provider and the issuer there are only the proxies of the output helper (their opaque is the
 * request they stand for); followed in topology 6 only, where every hop is such a proxy. */
enum { ORG_HEAD, ORG_OWN_FF, ORG_OWN_UBM, ORG_UNKNOWN };
static int origin(struct st *st, struct urequest *q, int *r)
{
    *r = -1;
    if (g_topo != 6) {
        for (int i = 0; i < NREQ; i++)
            if (req_types[i] == q->type)
                *r = i;
        return ORG_HEAD;
    }
    for (int hop = 0; hop < 3 && q != NULL; hop++) {
        if (q >= st->req && q < st->req + NREQ) {
            *r = (int)(q - st->req);
            return ORG_HEAD;
        }
        if (st->ubm != NULL && q == &st->ubm->flow_format_request)
            return ORG_OWN_FF;
        if (st->ubm != NULL && q == &st->ubm->ubuf_mgr_request)
            return ORG_OWN_UBM;
        q = urequest_get_opaque(q, struct urequest *);
    }
    return ORG_UNKNOWN;
}

/* number of registrations of type t and origin org lodged at sink k */
static int lodged(struct st *st, int k, int t, int org)
{
    int n = 0;
    for (int i = 0; i < st->fx.sinks[k].nreqs; i++) {
        int r;
        if (st->fx.sinks[k].reqs[i]->type == t && origin(st, st->fx.sinks[k].reqs[i], &r) == org)
            n++;
    }
    return n;
}

static bool loop_idle(struct st *st)
{
    struct vmock_pump *r[8];
    return px_ready_pumps(&st->fx, r, 8) == 0;
}

/* the provider that what travels from the pipe after P1 reaches, -1 none (providers that decline hold nothing) */
static int reached_provider(struct st *st)
{
    if (st->p1_out == 2) /* P1 -> T1 directly */
        return g_tprov != 2 ? 1 : -1;
    return st->p2_out != 0 && g_tprov != 2 ? st->p2_out - 1 : -1;
}

static void check_routing(struct st *st, const char *when)
{
    /* the queue carries register/unregister as messages: only judge when the loop is idle */
    if (g_topo == 3 && !loop_idle(st))
        return;
    for (int r = 0; r < NREQ; r++) {
        if (!IN_ALPHABET(r))
            continue;
        int t = req_types[r];
        int want = -1; /* sink that must hold it, -1 none */
        if (st->reg[r] && head_routed(st) && !answered_by_p1(r) && !st->refused[r])
            want = reached_provider(st);
        int stale_at = st->stale[r] ? reached_provider(st) : -1; /* (what the queue source still holds follows its output) */
        for (int k = 0; k < 2; k++) {
            int n = lodged(st, k, t, ORG_HEAD);
            int exp = (k == want ? 1 : 0) + (k == stale_at ? st->stale[r] : 0);
            if (n != exp) {
                char sg[80];
                snprintf(sg, sizeof(sg), "%s:%s",
                         n > exp ? (exp ? "registered-twice" : answered_by_p1(r) && st->reg[r] ? "forwarded-instead-of-answered" : "not-withdrawn")
                                 : "not-forwarded",
                         req_names[r]);
                FAIL(st, sg, "%s: provider T%d holds %d registration(s) of the %s request, expected %d (request %sregistered at the head%s, P1 -> %s, P2 -> %s)",
                     when, k, n, req_names[r], exp, st->reg[r] ? "" : "not ", answered_by_p1(r) ? ", P1 answers this type itself" : "",
                     st->p1_out ? "P2" : "none", st->p2_out == 0 ? "none" : st->p2_out == 1 ? "T0" : "T1");
            }
        }
    }
    for (int k = 0; k < 2; k++)
        if (st->fx.sinks[k].unreg_unknown)
            FAIL(st, "unregister-of-unknown-request", "%s: provider T%d was asked to unregister a request it does not hold", when, k);
    if (g_topo == 7 && g_tprov == 0) {
        /* the bin's own uclock request: held once by the provider its output reaches, by nobody else, by nobody once P1 is gone */
        int want = st->p1 != NULL && st->p1_out != 0 ? reached_provider(st) : -1;
        for (int k = 0; k < 2; k++) {
            int n = 0;
            for (int i = 0; i < st->fx.sinks[k].nreqs; i++)
                n += st->fx.sinks[k].reqs[i]->type == UREQUEST_UCLOCK;
            if (n != (k == want ? 1 : 0)) {
                char sg[80];
                snprintf(sg, sizeof(sg), "own-request:%s:uclock", n > (k == want ? 1 : 0) ? "not-withdrawn" : "not-forwarded");
                FAIL(st, sg, "%s: provider T%d holds %d uclock registration(s) of the bin, expected %d (P1 -> %s, P2 -> %s)", when, k, n, k == want ? 1 : 0,
                     st->p1_out == 0 ? "none" : st->p1_out == 1 ? "P2" : "T1", st->p2_out == 0 ? "none" : st->p2_out == 1 ? "T0" : "T1");
            }
        }
    }
}

/* topology 6: what P1 requires for itself travels through its output helper like the requests of the head; and what
 * P1 answers itself is answered exactly once, at registration */
static void check_p1(struct st *st, const char *when)
{
    if (g_topo != 6)
        return;
    int want = st->p1_out != 0 ? reached_provider(st) : -1;
    for (int k = 0; k < 2; k++) {
        for (int w = 0; w < 2; w++) {
            int n = lodged(st, k, w ? UREQUEST_UBUF_MGR : UREQUEST_FLOW_FORMAT, w ? ORG_OWN_UBM : ORG_OWN_FF);
            int exp = k == want && (w ? st->own_ubm : st->own_ff);
            if (n != exp) {
                char sg[80];
                snprintf(sg, sizeof(sg), "own-request:%s:%s", n > exp ? (exp ? "registered-twice" : "not-withdrawn") : "not-forwarded",
                         w ? "ubuf_mgr" : "flow_format");
                FAIL(st, sg, "%s: provider T%d holds %d registration(s) of the %s request P1 issues itself, expected %d (P1 -> %s, P2 -> %s)", when, k, n,
                     w ? "ubuf_mgr" : "flow_format", exp, st->p1_out ? "P2" : "none", st->p2_out == 0 ? "none" : st->p2_out == 1 ? "T0" : "T1");
            }
        }
        for (int i = 0; i < st->fx.sinks[k].nreqs; i++) {
            int r;
            if (origin(st, st->fx.sinks[k].reqs[i], &r) == ORG_UNKNOWN)
                FAIL(st, "request-of-unknown-origin", "%s: provider T%d holds a request that stands neither for a request of the head nor of P1", when, k);
        }
    }
    for (int r = 0; r < NREQ; r++) {
        if (!IN_ALPHABET(r) || !answered_by_p1(r) || !st->reg[r])
            continue;
        int n = 0;
        for (int i = st->reg_cb_base[r]; i < st->ncb; i++)
            n += st->cb[i].req == r;
        if (n != 1) {
            char sg[80];
            snprintf(sg, sizeof(sg), "%s:%s", n == 0 ? "not-answered-by-the-pipe" : "answered-more-than-once", req_names[r]);
            FAIL(st, sg, "%s: the %s request is registered on P1, which answers this type itself through its probes: the head callback fired %d time(s) "
                         "since the registration, expected exactly 1", when, req_names[r], n);
        }
    }
    if (st->pend_own) {
        int n = st->own_ff_answers - st->pend_own_base;
        if (st->own_ff && n != 1)
            FAIL(st, n == 0 ? "own-request:answer-lost:flow_format" : "own-request:answer-duplicated:flow_format",
                 "%s: the provider answered the flow_format request of P1 once; P1's callback fired %d time(s)", when, n);
        st->pend_own = false;
    }
}

/* providers that decline: a request nobody downstream handles ends up at the probes, which answer
 * uref_mgr, uclock, flow_format and ubuf_mgr at once */
static void check_probe_fallback(struct st *st, const char *when)
{
    if (g_tprov != 2 || (g_topo == 3 && !loop_idle(st)) || !st->p1_inner)
        return;
    for (int r = 0; r < NREQ; r++) {
        if (!IN_ALPHABET(r) || req_types[r] == UREQUEST_SINK_LATENCY)
            continue;
        if (!st->reg[r])
            continue;
        int n = 0;
        for (int i = st->reg_cb_base[r]; i < st->ncb; i++)
            n += st->cb[i].req == r;
        if (n == 0) {
            char sg[64];
            snprintf(sg, sizeof(sg), "never-answered:%s", req_names[r]);
            FAIL(st, sg, "%s: the %s request is registered, no pipe downstream handles it, and the probes (which provide it) were never asked", when,
                 req_names[r]);
        }
    }
}

static void check_callbacks(struct st *st, const char *when)
{
    for (int i = 0; i < st->ncb; i++)
        if (st->cb[i].while_unregistered) {
            char sg[64];
            snprintf(sg, sizeof(sg), "callback-after-unregister:%s", req_names[st->cb[i].req]);
            FAIL(st, sg, "%s: the head callback of the %s request was invoked while it was not registered", when, req_names[st->cb[i].req]);
        }
    if (st->d_cb_unreg)
        FAIL(st, "callback-after-unregister:burst-request", "%s: the callback of a throw-away request of the burst was invoked while it was not registered",
             when);
    for (int r = 0; r < NREQ && (g_topo != 3 || loop_idle(st)); r++) {
        if (st->pend_n[r] == 0)
            continue;
        int n = 0, want = st->pend_n[r];
        bool val_ok = true;
        for (int i = st->pend_base[r]; i < st->ncb; i++)
            if (st->cb[i].req == r) {
                n++;
                if (!st->pend_mixed[r] && st->cb[i].value != st->pend_val[r])
                    val_ok = false;
            }
        bool still = st->reg[r];
        if (still && (st->pend_amb[r] ? n > want : n != want)) {
            char sg[64];
            snprintf(sg, sizeof(sg), "%s:%s", n < want ? "answer-lost" : "answer-duplicated", req_names[r]);
            FAIL(st, sg, "%s: the provider answered the %s request %d time(s); the head callback fired %d time(s)", when, req_names[r], want, n);
        } else if (n >= 1 && !val_ok) {
            FAIL(st, "answer-wrong-value", "%s: the head callback of the %s request received another value than the provider gave", when,
                 req_names[r]);
        }
        st->pend_n[r] = 0;
    }
}

/* queue-full deviation: what the full queue made impossible must have been reported, and must not last */
static void check_qfull(struct st *st, const char *when)
{
    if (g_topo != 3)
        return;
    if (st->refusal_unreported)
        FAIL(st, "refusal-not-reported", "%s: a request was registered while the out-of-band queue was full (it cannot travel) and register_request "
                                         "returned no error", when);
    if (st->never_idle)
        FAIL(st, "loop-never-idle", "%s: 4000 dispatches did not empty the queues", when);
    if (!loop_idle(st))
        return;
    for (int r = 0; r < NREQ; r++)
        if (st->stale[r])
            FAIL(st, "withdrawal-lost", "%s: the %s request was unregistered while the out-of-band queue was full; the loop is idle again and the provider "
                                        "still holds its registration (%d stale): the withdrawal was dropped, not deferred", when, req_names[r], st->stale[r]);
}

static int dispatch(struct st *st, int which)
{
    struct vmock_pump *r[8];
    int n = px_ready_pumps(&st->fx, r, 8);
    if (which >= n)
        return -1;
    vmock_dispatch(r[which]);
    return 0;
}

static void drain(struct st *st)
{
    int budget = 4000;
    while (budget-- > 0 && dispatch(st, 0) == 0)
        ;
    if (!loop_idle(st))
        st->never_idle = true;
}

/* registers and withdraws a throw-away request until the out-of-band queue has no room left (an odd last slot is
 * taken by a second throw-away request that stays registered) */
static void fill(struct st *st)
{
    struct uqueue *q = oob_down(st);
    while (uqueue_length(q) + 2 <= q->length) {
        st->dreq_reg = true;
        ubase_assert(upipe_register_request(head_pipe(st), &st->dreq));
        upipe_unregister_request(head_pipe(st), &st->dreq);
        st->dreq_reg = false;
    }
    if (uqueue_length(q) < q->length) {
        st->dhold_reg = true;
        ubase_assert(upipe_register_request(head_pipe(st), &st->dhold));
    }
    assert(oob_full(st));
    st->filled = true;
}

/* a provider is about to answer, with this value, a registration that stands for request r of the head */
static void expect_answer(struct st *st, int org, int r, uint64_t val)
{
    if (org != ORG_HEAD || r < 0)
        return;
    if (st->pend_n[r] == 0) {
        st->pend_base[r] = st->ncb;
        st->pend_val[r] = val;
        st->pend_mixed[r] = st->pend_amb[r] = false;
    } else if (st->pend_val[r] != val)
        st->pend_mixed[r] = true;
    st->pend_n[r]++;
    if (st->unreg_inflight[r] || st->stale[r])
        st->pend_amb[r] = true;
}

static void do_provide(struct st *st, int k)
{
    struct px_sink *s = &st->fx.sinks[k];
    struct urequest *q = s->reqs[0];
    int r = -1;
    int org = origin(st, q, &r);
    if (org == ORG_OWN_FF) {
        st->pend_own = true;
        st->pend_own_base = st->own_ff_answers;
    }
    switch (q->type) {
    case UREQUEST_UREF_MGR: {
        struct uref_mgr *m = k == 0 ? st->fx.uref_mgr : st->fx.uref_inner;
        expect_answer(st, org, r, (uint64_t)(uintptr_t)m);
        urequest_provide_uref_mgr(q, uref_mgr_use(m));
        break;
    }
    case UREQUEST_UCLOCK:
        expect_answer(st, org, r, (uint64_t)(uintptr_t)&st->fx.clock.uclock);
        urequest_provide_uclock(q, uclock_use(&st->fx.clock.uclock));
        break;
    case UREQUEST_SINK_LATENCY:
        expect_answer(st, org, r, 100 + k);
        urequest_provide_sink_latency(q, 100 + k);
        break;
    case UREQUEST_FLOW_FORMAT:
    case UREQUEST_UBUF_MGR: {
        /* the provider amends the proposed format (marker 100 + k) */
        struct uref *ff = uref_dup(q->uref);
        assert(ff);
        ubase_assert(uref_flow_set_id(ff, 100 + k));
        if (q->type == UREQUEST_FLOW_FORMAT) {
            expect_answer(st, org, r, ff_value(ff));
            urequest_provide_flow_format(q, ff);
        } else {
            expect_answer(st, org, r, (uint64_t)(uintptr_t)st->fx.ubuf_mgr ^ ff_value(ff));
            urequest_provide_ubuf_mgr(q, ubuf_mgr_use(st->fx.ubuf_mgr), ff);
        }
        break;
    }
    }
}

static int apply(void *vst, int op, bool check)
{
    struct st *st = vst;
    (void)check;
    g_cur = st;
    if (!enabled_cb(st, op))
        return SEQX_DISABLED;
    pxm_resume();
    v_watchdog(5);
    struct px_fix *fx = &st->fx;
    if (op_reg(op) >= 0) {
        int r = op_reg(op);
        bool full = oob_full(st);
        st->reg[r] = true;
        st->reg_cb_base[r] = st->ncb;
        int err = upipe_register_request(head_pipe(st), &st->req[r]);
        if (full && head_routed(st)) {
            /* the registration cannot cross the queue: the requester must be told, and nothing is owed downstream */
            st->refused[r] = true;
            if (ubase_check(err))
                st->refusal_unreported = true;
        }
    } else if (op_unreg(op) >= 0) {
        int r = op_unreg(op);
        bool full = oob_full(st);
        upipe_unregister_request(head_pipe(st), &st->req[r]);
        st->reg[r] = false;
        if (st->refused[r])
            st->refused[r] = false;
        else if (full && head_routed(st))
            st->stale[r]++; /* the withdrawal cannot cross the queue now */
        else if (g_topo == 3 && head_routed(st))
            st->unreg_inflight[r] = true;
        st->pend_n[r] = 0; /* withdrawn before the answer arrived: nothing is owed */
    } else if (op == OP_P1_NEXT) {
        ubase_assert(upipe_set_output(st->p1, p1_next(st)));
        st->p1_out = 1;
    } else if (op == OP_P1_NULL) {
        ubase_assert(upipe_set_output(st->p1, NULL));
        st->p1_out = 0;
    } else if (op == OP_P1_T1) {
        ubase_assert(upipe_set_output(st->p1, &fx->sinks[1].upipe));
        st->p1_out = 2;
    } else if (op == OP_P2_T0 || op == OP_P2_T1) {
        ubase_assert(upipe_set_output(st->p2, &fx->sinks[op - OP_P2_T0].upipe));
        st->p2_out = op - OP_P2_T0 + 1;
    } else if (op == OP_P2_NULL) {
        ubase_assert(upipe_set_output(st->p2, NULL));
        st->p2_out = 0;
    } else if (op == OP_PROVIDE_T0 || op == OP_PROVIDE_T1) {
        do_provide(st, op - OP_PROVIDE_T0);
    } else if (op >= OP_PUMP0 && op <= OP_PUMP2) {
        dispatch(st, op - OP_PUMP0);
    } else if (op == OP_FILL) {
        fill(st);
    } else if (op == OP_DRAIN) {
        drain(st);
    } else if (op == OP_P1_FLOWDEF || op == OP_P1_FLOWDEF2) {
        struct uref *f = px_flow(fx, op == OP_P1_FLOWDEF ? "block." : "block.unframed.", 1);
        ubase_assert(upipe_set_flow_def(st->p1, f));
        uref_free(f);
        st->p1_inner = true;
    } else if (op == OP_REL_P2) {
        /* the application lets go of P2; it lives on as long as something upstream points at it */
        upipe_release(st->p2);
        st->p2_released = true;
        bool held = g_topo == 3 ? true : st->p1_out == 1;
        if (!held)
            st->p2_out = 0;
    } else if (op == OP_REL_P1) {
        for (int r = 0; r < NREQ; r++)
            if (st->reg[r]) { /* ownership rule: a requester withdraws its requests before letting go */
                upipe_unregister_request(head_pipe(st), &st->req[r]);
                st->reg[r] = false;
            }
        memset(st->pend_n, 0, sizeof(st->pend_n));
        st->pend_own = false;
        upipe_release(st->p1);
        st->p1 = NULL;
        st->ubm = NULL;
        st->own_ff = st->own_ubm = false;
        st->p1_released = true;
    }
    /* re-plumbing P1 withdraws from the queue sink what P1 had forwarded (and registers it again): messages too */
    if ((op == OP_P1_NEXT || op == OP_P1_NULL) && g_topo == 3)
        for (int r = 0; r < NREQ; r++)
            if (st->reg[r])
                st->unreg_inflight[r] = true;
    /* P1 -> NULL (or P1 released) while P2 was only held by P1: P2 is gone */
    if ((op == OP_P1_NULL || op == OP_REL_P1) && st->p2_released && g_topo != 3)
        st->p2_out = 0;
    st->nops++;
    st->hist_hash = st->hist_hash * 1000003ULL + (uint64_t)op + 1;
    char when[96], ob[64];
    opstr(op, ob, sizeof(ob));
    snprintf(when, sizeof(when), "after step %d (%s)", st->nops, ob);
    if (!st->p1_released) {
        check_routing(st, when);
        check_probe_fallback(st, when);
        check_p1(st, when);
    }
    check_callbacks(st, when);
    check_qfull(st, when);
    if (g_topo == 3 && loop_idle(st))
        memset(st->unreg_inflight, 0, sizeof(st->unreg_inflight)); /* every message has been consumed */
    pxm_pause();
    if (st->viol) {
        snprintf(seqx_sig, sizeof(seqx_sig), "%s", st->vsig);
        snprintf(seqx_msg, sizeof(seqx_msg), "%s", st->vmsg);
        st->viol = false;
        return SEQX_VIOL;
    }
    return SEQX_OK;
}

static int final_check(void *vst)
{
    struct st *st = vst;
    g_cur = st;
    pxm_resume();
    v_watchdog(5);
    /* the full queue is a passing condition: it has emptied before the pipeline is taken down (a queue source released
     * while its out-of-band queue is full cannot be told and stays: seen, outside this property) */
    if (g_env) {
        drain(st);
        check_callbacks(st, "after the final drain (before the teardown)");
    }
    for (int r = 0; r < NREQ; r++)
        if (st->reg[r]) {
            upipe_unregister_request(head_pipe(st), &st->req[r]);
            st->reg[r] = false;
        }
    if (st->dhold_reg) {
        upipe_unregister_request(head_pipe(st), &st->dhold);
        st->dhold_reg = false;
    }
    memset(st->pend_n, 0, sizeof(st->pend_n));
    if (st->p1)
        upipe_release(st->p1);
    st->ubm = NULL;
    if (!st->p2_released)
        upipe_release(st->p2);
    if (st->dup_super)
        upipe_release(st->dup_super);
    if (st->qsink)
        upipe_release(st->qsink);
    if (st->qsrc)
        upipe_release(st->qsrc);
    int budget = g_env ? 4000 : 200;
    while (budget-- > 0 && dispatch(st, 0) == 0)
        ;
    check_callbacks(st, "after teardown");
    for (int r = 0; r < NREQ; r++)
        urequest_clean(&st->req[r]);
    urequest_clean(&st->dreq);
    urequest_clean(&st->dhold);
    char sg[96] = "";
    const char *m = px_fix_fini(&st->fx, sg, sizeof(sg));
    if (m)
        FAIL(st, sg, "%s", m);
    bool viol = st->viol;
    if (viol) {
        snprintf(seqx_sig, sizeof(seqx_sig), "%s", st->vsig);
        snprintf(seqx_msg, sizeof(seqx_msg), "%s", st->vmsg);
    }
    bool lost = false;
    for (int r = 0; r < NREQ; r++)
        lost |= st->stale[r] > 0;
    free(st);
    char leak[200];
    int left = pxm_end(leak, sizeof(leak));
    if (!viol && left) {
        snprintf(seqx_sig, sizeof(seqx_sig), "topo%d%s:end:heap-blocks-left%s", g_topo, g_env ? ":qfull" : "", lost ? "-after-lost-withdrawal" : "");
        snprintf(seqx_msg, sizeof(seqx_msg), "%d heap block(s) (request proxies?) still allocated after teardown (sizes: %s)%s", left, leak,
                 lost ? "; a withdrawal could not be sent in this history (queue full)" : "");
        return SEQX_VIOL;
    }
    return viol ? SEQX_VIOL : SEQX_OK;
}

static void canon(void *vst, struct vbuf *out)
{
    struct st *st = vst;
    vbuf_u64(out, st->hist_hash);
    vbuf_u32(out, st->nops);
}

static bool nontrivial(void *vst)
{
    struct st *st = vst;
    return st->ncb > 0 || st->fx.sinks[0].nreqs + st->fx.sinks[1].nreqs > 0;
}

int main(int argc, char **argv)
{
    const char *reqs = NULL;
    for (int i = 1; i < argc; i++) {
        if (!strcmp(argv[i], "--topo") && i + 1 < argc)
            g_topo = atoi(argv[++i]);
        else if (!strcmp(argv[i], "--pool") && i + 1 < argc)
            g_pool = atoi(argv[++i]);
        else if (!strcmp(argv[i], "--nreq") && i + 1 < argc)
            g_nreq = atoi(argv[++i]);
        else if (!strcmp(argv[i], "--reqs") && i + 1 < argc)
            reqs = argv[++i];
        else if (!strcmp(argv[i], "--tprov") && i + 1 < argc)
            g_tprov = atoi(argv[++i]);
        else if (!strcmp(argv[i], "--hwdef") && i + 1 < argc)
            g_hwdef = atoi(argv[++i]);
        else if (!strcmp(argv[i], "--cb") && i + 1 < argc)
            g_cbmode = atoi(argv[++i]);
        else if (!strcmp(argv[i], "--env") && i + 1 < argc)
            g_env = atoi(argv[++i]);
        else if (!strcmp(argv[i], "--head") && i + 1 < argc)
            g_head = atoi(argv[++i]);
    }
    if (reqs != NULL) {
        for (const char *p = reqs; *p;) {
            int r = (int)strtol(p, (char **)&p, 10);
            if (r < 0 || r >= NREQ) {
                fprintf(stderr, "--reqs: no request type %d\n", r);
                return 3;
            }
            g_mask |= 1u << r;
            if (*p == ',')
                p++;
        }
    } else {
        if (g_nreq < 0 || g_nreq > 3) {
            fprintf(stderr, "--nreq: 0..3 (the first n of uref_mgr, uclock, sink_latency); other sets with --reqs\n");
            return 3;
        }
        g_mask = (1u << g_nreq) - 1;
    }
    if ((g_env && g_topo != 3) || (g_head && !g_env) || (g_env && IN_ALPHABET(2))) {
        fprintf(stderr, "--env 1 needs --topo 3 and a request set without sink_latency (the burst uses it); --head 1 needs --env 1\n");
        return 3;
    }
    static struct seqx_spec spec;
    char nm[96];
    if (reqs != NULL || g_env)
        snprintf(nm, sizeof(nm), "c12_request:topo%d:pool%d:tprov%d:cb%d:reqs%s:env%d:head%d", g_topo, g_pool, g_tprov, g_cbmode, reqs ? reqs : "-", g_env,
                 g_head);
    else
        snprintf(nm, sizeof(nm), "c12_request:topo%d:pool%d:tprov%d:cb%d", g_topo, g_pool, g_tprov, g_cbmode);
    spec.name = strdup(nm);
    spec.nops = NOPS;
    spec.init = init;
    spec.apply = apply;
    spec.canon = canon;
    spec.opstr = opstr;
    spec.nontrivial = nontrivial;
    spec.final_check = final_check;
    spec.enabled = enabled_cb;
    return seqx_main(&spec, argc, argv, 5);
}
