/* C12 — requests travel downstream, answers travel back, surviving re-plumbing.
 * Explicit-state enumeration of register / unregister / set_output / provide /
 * release sequences over chains of real pipes (helper_output proxies), in one
 * thread and across a queue sink/source pair driven by the mock loop.
 * DESIGN.md section 3, C12. */
#include "pipex.h"
#include "seqx.h"
#include "simfd.h"

#include "upipe-modules/upipe_idem.h"
#include "upipe-modules/upipe_skip.h"
#include "upipe-modules/upipe_setflowdef.h"
#include "upipe-modules/upipe_dup.h"
#include "upipe-modules/upipe_queue_sink.h"
#include "upipe-modules/upipe_queue_source.h"
#include "upipe-ts/upipe_ts_align.h"
#include "upipe-framers/upipe_auto_framer.h"

/* topologies: head -> P1 -> P2 -> {T0,T1}
 *   0: idem -> idem          1: skip -> setflowdef       2: dup (main output) -> idem
 *   3: idem -> [qsink | qsrc] -> idem  (queue between P1 and P2)
 *   4: ts_align (a bin pipe: helper_bin_input / helper_bin_output around an inner pipe that each
 *      set_flow_def replaces) -> idem
 *   5: auto_framer (a bin pipe that on a new kind of flow first drops its inner pipe, store_bin_input(NULL) /
 *      store_bin_output(NULL), and then stores the new one; unknown formats get an idem inner pipe) -> idem */
/* the auto framer's manager looks up every framer; none is needed here (unknown formats get idem) */
#define NOFRAMER(n) struct upipe_mgr *upipe_##n##_mgr_alloc(void) { return NULL; }
NOFRAMER(a52f) NOFRAMER(dvbsubf) NOFRAMER(h264f) NOFRAMER(h265f) NOFRAMER(id3v2f)
NOFRAMER(mpgaf) NOFRAMER(mpgvf) NOFRAMER(opusf) NOFRAMER(s302f) NOFRAMER(telxf)

static int g_topo = 0;
static int g_pool = 0;
static int g_nreq = 2;
static int g_tprov = 0;   /* 1: the providers answer uref_mgr / uclock inside register (synchronously);
                           * 2: the providers decline every request (UNHANDLED): the probes must then be asked */
static int g_cbmode = 0;  /* 1: the uref_mgr callback withdraws and re-issues the uclock request (the way a
                           * flow-format answer makes a filter re-require its ubuf manager) */
static bool g_in_requeue;

#define NREQ 3
static const int req_types[NREQ] = {UREQUEST_UREF_MGR, UREQUEST_UCLOCK, UREQUEST_SINK_LATENCY};
static const char *req_names[NREQ] = {"uref_mgr", "uclock", "sink_latency"};

struct cbrec {
    int stamp, req;
    uint64_t value;
    bool while_unregistered;
};

struct st {
    struct px_fix fx;
    struct upipe *p1, *p2, *dup_super, *qsink, *qsrc;
    struct urequest req[NREQ];
    bool reg[NREQ];
    int p1_out;      /* 0 none, 1 next */
    int p2_out;      /* 0 none, 1 T0, 2 T1 */
    bool p2_released, p1_released;
    bool p1_inner;   /* topology 4: the bin has an inner pipe */
    int reg_cb_base[NREQ]; /* callbacks recorded when the request was registered */
    struct cbrec cb[64];
    int ncb;
    uint64_t hist_hash;
    int nops;
    /* expectation set by the last provide op: request index, value, how many callbacks before */
    int pend_req;
    uint64_t pend_val;
    int pend_base;
    bool pending;
    bool viol;
    char vsig[96], vmsg[500];
};

static struct st *g_cur;

#define FAIL(st_, sig_, ...)                                                   \
    do {                                                                       \
        if (!(st_)->viol) {                                                    \
            (st_)->viol = true;                                                \
            snprintf((st_)->vsig, sizeof((st_)->vsig), "topo%d%s:%s", g_topo, g_cbmode ? ":requeue" : "", sig_); \
            snprintf((st_)->vmsg, sizeof((st_)->vmsg), __VA_ARGS__);           \
        }                                                                      \
    } while (0)

/* ---- head requester ---- */
static int head_provide(struct urequest *urequest, va_list args)
{
    struct st *st = g_cur;
    int r = (int)(urequest - st->req);
    assert(r >= 0 && r < NREQ);
    uint64_t v = 0;
    switch (urequest->type) {
    case UREQUEST_UREF_MGR: {
        struct uref_mgr *m = va_arg(args, struct uref_mgr *);
        v = (uint64_t)(uintptr_t)m;
        uref_mgr_release(m);
        break;
    }
    case UREQUEST_UCLOCK: {
        struct uclock *c = va_arg(args, struct uclock *);
        v = (uint64_t)(uintptr_t)c;
        uclock_release(c);
        break;
    }
    case UREQUEST_SINK_LATENCY:
        v = va_arg(args, uint64_t);
        break;
    }
    if (st->ncb < 64)
        st->cb[st->ncb++] = (struct cbrec){st->fx.stamp++, r, v, !st->reg[r]};
    if (g_cbmode == 1 && r == 0 && st->reg[1] && !g_in_requeue && st->p1 != NULL) {
        g_in_requeue = true;
        upipe_unregister_request(st->p1, &st->req[1]);
        upipe_register_request(st->p1, &st->req[1]);
        g_in_requeue = false;
    }
    return UBASE_ERR_NONE;
}

enum {
    OP_REG0, OP_REG1, OP_REG2,
    OP_UNREG0, OP_UNREG1, OP_UNREG2,
    OP_P1_NEXT, OP_P1_NULL,
    OP_P2_T0, OP_P2_T1, OP_P2_NULL,
    OP_PROVIDE_T0, OP_PROVIDE_T1,
    OP_PUMP0, OP_PUMP1, OP_PUMP2,
    OP_REL_P2, OP_REL_P1,
    OP_P1_FLOWDEF, /* topology 4/5: (re)creates the inner pipe of the bin */
    OP_P1_FLOWDEF2, /* topology 5: another kind of flow, the inner pipe is dropped and rebuilt */
    NOPS
};

static void opstr(int op, char *b, size_t n)
{
    static const char *nm[] = {"register(uref_mgr)", "register(uclock)", "register(sink_latency)", "unregister(uref_mgr)", "unregister(uclock)",
                               "unregister(sink_latency)", "P1.set_output(P2)", "P1.set_output(NULL)", "P2.set_output(T0)", "P2.set_output(T1)",
                               "P2.set_output(NULL)", "T0.provide(first lodged)", "T1.provide(first lodged)", "dispatch(pump 0)", "dispatch(pump 1)",
                               "dispatch(pump 2)", "release(P2)", "release(P1)", "P1.set_flow_def", "P1.set_flow_def(other kind)"};
    snprintf(b, n, "%s", op >= 0 && op < NOPS ? nm[op] : "?");
}

/* entry of the chain where the head registers, and the pipe whose output is "next" */
static struct upipe *head_pipe(struct st *st) { return st->p1; }
/* the pipe the P1-side connects to (P2, or the queue sink) */
static struct upipe *p1_next(struct st *st) { return g_topo == 3 ? st->qsink : st->p2; }

static void *init(void)
{
    simfd_reset();
    pxm_begin();
    struct st *st = calloc(1, sizeof(*st));
    g_cur = st;
    struct px_cfg cfg = {.pool = g_pool, .prepend = 0, .append = 0, .align = 0};
    px_fix_init(&st->fx, &cfg);
    struct px_fix *fx = &st->fx;
    for (int r = 0; r < NREQ; r++)
        urequest_init(&st->req[r], req_types[r], NULL, head_provide, NULL);
    for (int k = 0; k < 2; k++) {
        fx->sinks[k].sync_provide = g_tprov == 1;
        fx->sinks[k].unhandled_requests = g_tprov == 2;
    }
    g_in_requeue = false;
    switch (g_topo) {
    case 0:
        st->p1 = upipe_void_alloc(upipe_idem_mgr_alloc(), px_probe(fx));
        st->p2 = upipe_void_alloc(upipe_idem_mgr_alloc(), px_probe(fx));
        break;
    case 1:
        st->p1 = upipe_void_alloc(upipe_skip_mgr_alloc(), px_probe(fx));
        st->p2 = upipe_void_alloc(upipe_setflowdef_mgr_alloc(), px_probe(fx));
        break;
    case 2:
        st->p1 = upipe_void_alloc(upipe_dup_mgr_alloc(), px_probe(fx));
        st->p2 = upipe_void_alloc(upipe_idem_mgr_alloc(), px_probe(fx));
        break;
    case 3:
        st->p1 = upipe_void_alloc(upipe_idem_mgr_alloc(), px_probe(fx));
        st->qsrc = upipe_qsrc_alloc(upipe_qsrc_mgr_alloc(), px_probe(fx), 2);
        assert(st->qsrc);
        st->qsink = upipe_qsink_alloc(upipe_qsink_mgr_alloc(), px_probe(fx), st->qsrc);
        assert(st->qsink);
        ubase_assert(upipe_attach_upump_mgr(st->qsrc));
        st->p2 = upipe_void_alloc(upipe_idem_mgr_alloc(), px_probe(fx));
        ubase_assert(upipe_set_output(st->qsrc, st->p2));
        break;
    case 4:
        st->p1 = upipe_void_alloc(upipe_ts_align_mgr_alloc(), px_probe(fx));
        st->p2 = upipe_void_alloc(upipe_idem_mgr_alloc(), px_probe(fx));
        break;
    case 5: {
        struct upipe_mgr *m = upipe_autof_mgr_alloc();
        assert(m);
        st->p1 = upipe_void_alloc(m, px_probe(fx));
        upipe_mgr_release(m);
        st->p2 = upipe_void_alloc(upipe_idem_mgr_alloc(), px_probe(fx));
        break;
    }
    }
    st->p1_inner = g_topo < 4;
    assert(st->p1 && st->p2);
    pxm_pause();
    return st;
}

static bool enabled_cb(void *vst, int op)
{
    struct st *st = vst;
    if (st->p1_released)
        return op >= OP_PUMP0 && op <= OP_PUMP2 && g_topo == 3;
    if (op >= OP_REG0 && op <= OP_REG2)
        return op - OP_REG0 < g_nreq && !st->reg[op - OP_REG0];
    if (op >= OP_UNREG0 && op <= OP_UNREG2)
        return op - OP_UNREG0 < g_nreq && st->reg[op - OP_UNREG0];
    if (op == OP_P1_NEXT)
        return !st->p2_released || g_topo == 3;
    if (op == OP_P2_T0 || op == OP_P2_T1 || op == OP_P2_NULL || op == OP_REL_P2)
        return !st->p2_released;
    if (op == OP_PROVIDE_T0)
        return st->fx.sinks[0].nreqs > 0;
    if (op == OP_PROVIDE_T1)
        return st->fx.sinks[1].nreqs > 0;
    if (op == OP_P1_FLOWDEF)
        return g_topo >= 4;
    if (op == OP_P1_FLOWDEF2)
        return g_topo == 5;
    if (op >= OP_PUMP0 && op <= OP_PUMP2) {
        if (g_topo != 3)
            return false;
        struct vmock_pump *r[8];
        return px_ready_pumps(&st->fx, r, 8) > op - OP_PUMP0;
    }
    return true;
}

/* number of registrations of type t lodged at sink k */
static int lodged(struct st *st, int k, int t)
{
    int n = 0;
    for (int i = 0; i < st->fx.sinks[k].nreqs; i++)
        if (st->fx.sinks[k].reqs[i]->type == t)
            n++;
    return n;
}

static bool loop_idle(struct st *st)
{
    struct vmock_pump *r[8];
    return px_ready_pumps(&st->fx, r, 8) == 0;
}

static void check_routing(struct st *st, const char *when)
{
    /* the queue carries register/unregister as messages: only judge when the loop is idle */
    if (g_topo == 3 && !loop_idle(st))
        return;
    for (int r = 0; r < g_nreq; r++) {
        int t = req_types[r];
        int want = -1; /* sink that must hold it, -1 none */
        if (st->reg[r] && st->p1_inner && st->p1_out == 1 && st->p2_out != 0 && g_tprov != 2)
            want = st->p2_out - 1; /* (providers that decline hold nothing) */
        for (int k = 0; k < 2; k++) {
            int n = lodged(st, k, t);
            int exp = (k == want) ? 1 : 0;
            if (n != exp) {
                char sg[80];
                snprintf(sg, sizeof(sg), "%s:%s", n > exp ? (exp ? "registered-twice" : "not-withdrawn") : "not-forwarded", req_names[r]);
                FAIL(st, sg, "%s: provider T%d holds %d registration(s) of the %s request, expected %d (request %sregistered at the head, P1 -> %s, P2 -> %s)",
                     when, k, n, req_names[r], exp, st->reg[r] ? "" : "not ", st->p1_out ? "P2" : "none",
                     st->p2_out == 0 ? "none" : st->p2_out == 1 ? "T0" : "T1");
            }
        }
    }
    for (int k = 0; k < 2; k++)
        if (st->fx.sinks[k].unreg_unknown)
            FAIL(st, "unregister-of-unknown-request", "%s: provider T%d was asked to unregister a request it does not hold", when, k);
}

/* providers that decline: a request nobody downstream handles ends up at the probes, which answer
 * uref_mgr and uclock at once */
static void check_probe_fallback(struct st *st, const char *when)
{
    if (g_tprov != 2 || (g_topo == 3 && !loop_idle(st)) || !st->p1_inner)
        return;
    for (int r = 0; r < g_nreq && r < 2; r++) {
        if (!st->reg[r])
            continue;
        int n = 0;
        for (int i = st->reg_cb_base[r]; i < st->ncb; i++)
            n += st->cb[i].req == r;
        if (n == 0) {
            char sg[64];
            snprintf(sg, sizeof(sg), "never-answered:%s", req_names[r]);
            FAIL(st, sg, "%s: the %s request is registered, no pipe downstream handles it, and the probes (which provide it) were never asked", when,
                 req_names[r]);
        }
    }
}

static void check_callbacks(struct st *st, const char *when)
{
    for (int i = 0; i < st->ncb; i++)
        if (st->cb[i].while_unregistered) {
            char sg[64];
            snprintf(sg, sizeof(sg), "callback-after-unregister:%s", req_names[st->cb[i].req]);
            FAIL(st, sg, "%s: the head callback of the %s request was invoked while it was not registered", when, req_names[st->cb[i].req]);
        }
    if (st->pending && (g_topo != 3 || loop_idle(st))) {
        int n = 0;
        bool val_ok = true;
        for (int i = st->pend_base; i < st->ncb; i++)
            if (st->cb[i].req == st->pend_req) {
                n++;
                if (st->cb[i].value != st->pend_val)
                    val_ok = false;
            }
        bool still = st->reg[st->pend_req];
        if (still && n != 1) {
            char sg[64];
            snprintf(sg, sizeof(sg), "%s:%s", n == 0 ? "answer-lost" : "answer-duplicated", req_names[st->pend_req]);
            FAIL(st, sg, "%s: the provider answered the %s request once; the head callback fired %d time(s)", when, req_names[st->pend_req], n);
        } else if (n >= 1 && !val_ok) {
            FAIL(st, "answer-wrong-value", "%s: the head callback of the %s request received another value than the provider gave", when,
                 req_names[st->pend_req]);
        }
        st->pending = false;
    }
}

static int dispatch(struct st *st, int which)
{
    struct vmock_pump *r[8];
    int n = px_ready_pumps(&st->fx, r, 8);
    if (which >= n)
        return -1;
    vmock_dispatch(r[which]);
    return 0;
}

static void do_provide(struct st *st, int k)
{
    struct px_sink *s = &st->fx.sinks[k];
    struct urequest *q = s->reqs[0];
    int r = -1;
    for (int i = 0; i < NREQ; i++)
        if (req_types[i] == q->type)
            r = i;
    st->pending = true;
    st->pend_req = r;
    st->pend_base = st->ncb;
    switch (q->type) {
    case UREQUEST_UREF_MGR: {
        struct uref_mgr *m = k == 0 ? st->fx.uref_mgr : st->fx.uref_inner;
        st->pend_val = (uint64_t)(uintptr_t)m;
        urequest_provide_uref_mgr(q, uref_mgr_use(m));
        break;
    }
    case UREQUEST_UCLOCK:
        st->pend_val = (uint64_t)(uintptr_t)&st->fx.clock.uclock;
        urequest_provide_uclock(q, uclock_use(&st->fx.clock.uclock));
        break;
    case UREQUEST_SINK_LATENCY:
        st->pend_val = 100 + k;
        urequest_provide_sink_latency(q, 100 + k);
        break;
    }
}

static int apply(void *vst, int op, bool check)
{
    struct st *st = vst;
    (void)check;
    g_cur = st;
    if (!enabled_cb(st, op))
        return SEQX_DISABLED;
    pxm_resume();
    v_watchdog(5);
    struct px_fix *fx = &st->fx;
    if (op >= OP_REG0 && op <= OP_REG2) {
        int r = op - OP_REG0;
        st->reg[r] = true;
        st->reg_cb_base[r] = st->ncb;
        upipe_register_request(head_pipe(st), &st->req[r]);
    } else if (op >= OP_UNREG0 && op <= OP_UNREG2) {
        int r = op - OP_UNREG0;
        upipe_unregister_request(head_pipe(st), &st->req[r]);
        st->reg[r] = false;
        if (st->pending && st->pend_req == r)
            st->pending = false; /* withdrawn before the answer arrived: nothing is owed */
    } else if (op == OP_P1_NEXT) {
        ubase_assert(upipe_set_output(st->p1, p1_next(st)));
        st->p1_out = 1;
    } else if (op == OP_P1_NULL) {
        ubase_assert(upipe_set_output(st->p1, NULL));
        st->p1_out = 0;
    } else if (op == OP_P2_T0 || op == OP_P2_T1) {
        ubase_assert(upipe_set_output(st->p2, &fx->sinks[op - OP_P2_T0].upipe));
        st->p2_out = op - OP_P2_T0 + 1;
    } else if (op == OP_P2_NULL) {
        ubase_assert(upipe_set_output(st->p2, NULL));
        st->p2_out = 0;
    } else if (op == OP_PROVIDE_T0 || op == OP_PROVIDE_T1) {
        do_provide(st, op - OP_PROVIDE_T0);
    } else if (op >= OP_PUMP0 && op <= OP_PUMP2) {
        dispatch(st, op - OP_PUMP0);
    } else if (op == OP_P1_FLOWDEF || op == OP_P1_FLOWDEF2) {
        struct uref *f = px_flow(fx, op == OP_P1_FLOWDEF ? "block." : "block.unframed.", 1);
        ubase_assert(upipe_set_flow_def(st->p1, f));
        uref_free(f);
        st->p1_inner = true;
    } else if (op == OP_REL_P2) {
        /* the application lets go of P2; it lives on as long as something upstream points at it */
        upipe_release(st->p2);
        st->p2_released = true;
        bool held = g_topo == 3 ? true : st->p1_out == 1;
        if (!held)
            st->p2_out = 0;
    } else if (op == OP_REL_P1) {
        for (int r = 0; r < NREQ; r++)
            if (st->reg[r]) { /* ownership rule: a requester withdraws its requests before letting go */
                upipe_unregister_request(head_pipe(st), &st->req[r]);
                st->reg[r] = false;
            }
        st->pending = false;
        upipe_release(st->p1);
        st->p1 = NULL;
        st->p1_released = true;
    }
    /* P1 -> NULL (or P1 released) while P2 was only held by P1: P2 is gone */
    if ((op == OP_P1_NULL || op == OP_REL_P1) && st->p2_released && g_topo != 3)
        st->p2_out = 0;
    st->nops++;
    st->hist_hash = st->hist_hash * 1000003ULL + (uint64_t)op + 1;
    char when[96], ob[64];
    opstr(op, ob, sizeof(ob));
    snprintf(when, sizeof(when), "after step %d (%s)", st->nops, ob);
    if (!st->p1_released) {
        check_routing(st, when);
        check_probe_fallback(st, when);
    }
    check_callbacks(st, when);
    pxm_pause();
    if (st->viol) {
        snprintf(seqx_sig, sizeof(seqx_sig), "%s", st->vsig);
        snprintf(seqx_msg, sizeof(seqx_msg), "%s", st->vmsg);
        st->viol = false;
        return SEQX_VIOL;
    }
    return SEQX_OK;
}

static int final_check(void *vst)
{
    struct st *st = vst;
    g_cur = st;
    pxm_resume();
    v_watchdog(5);
    for (int r = 0; r < NREQ; r++)
        if (st->reg[r]) {
            upipe_unregister_request(head_pipe(st), &st->req[r]);
            st->reg[r] = false;
        }
    st->pending = false;
    if (st->p1)
        upipe_release(st->p1);
    if (!st->p2_released)
        upipe_release(st->p2);
    if (st->dup_super)
        upipe_release(st->dup_super);
    if (st->qsink)
        upipe_release(st->qsink);
    if (st->qsrc)
        upipe_release(st->qsrc);
    int budget = 200;
    while (budget-- > 0 && dispatch(st, 0) == 0)
        ;
    check_callbacks(st, "after teardown");
    for (int r = 0; r < NREQ; r++)
        urequest_clean(&st->req[r]);
    char sg[96] = "";
    const char *m = px_fix_fini(&st->fx, sg, sizeof(sg));
    if (m)
        FAIL(st, sg, "%s", m);
    bool viol = st->viol;
    if (viol) {
        snprintf(seqx_sig, sizeof(seqx_sig), "%s", st->vsig);
        snprintf(seqx_msg, sizeof(seqx_msg), "%s", st->vmsg);
    }
    free(st);
    char leak[200];
    int left = pxm_end(leak, sizeof(leak));
    if (!viol && left) {
        snprintf(seqx_sig, sizeof(seqx_sig), "topo%d:end:heap-blocks-left", g_topo);
        snprintf(seqx_msg, sizeof(seqx_msg), "%d heap block(s) (request proxies?) still allocated after teardown (sizes: %s)", left, leak);
        return SEQX_VIOL;
    }
    return viol ? SEQX_VIOL : SEQX_OK;
}

static void canon(void *vst, struct vbuf *out)
{
    struct st *st = vst;
    vbuf_u64(out, st->hist_hash);
    vbuf_u32(out, st->nops);
}

static bool nontrivial(void *vst)
{
    struct st *st = vst;
    return st->ncb > 0 || st->fx.sinks[0].nreqs + st->fx.sinks[1].nreqs > 0;
}

int main(int argc, char **argv)
{
    for (int i = 1; i < argc; i++) {
        if (!strcmp(argv[i], "--topo") && i + 1 < argc)
            g_topo = atoi(argv[++i]);
        else if (!strcmp(argv[i], "--pool") && i + 1 < argc)
            g_pool = atoi(argv[++i]);
        else if (!strcmp(argv[i], "--nreq") && i + 1 < argc)
            g_nreq = atoi(argv[++i]);
        else if (!strcmp(argv[i], "--tprov") && i + 1 < argc)
            g_tprov = atoi(argv[++i]);
        else if (!strcmp(argv[i], "--cb") && i + 1 < argc)
            g_cbmode = atoi(argv[++i]);
    }
    static struct seqx_spec spec;
    char nm[64];
    snprintf(nm, sizeof(nm), "c12_request:topo%d:pool%d:tprov%d:cb%d", g_topo, g_pool, g_tprov, g_cbmode);
    spec.name = strdup(nm);
    spec.nops = NOPS;
    spec.init = init;
    spec.apply = apply;
    spec.canon = canon;
    spec.opstr = opstr;
    spec.nontrivial = nontrivial;
    spec.final_check = final_check;
    spec.enabled = enabled_cb;
    return seqx_main(&spec, argc, argv, 5);
}
