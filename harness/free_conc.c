/* free_conc — free-running ThreadSanitizer pass over Upipe's thread-shared primitives.
 *
 * NOT the deciding step of any property (that is vsched's bounded exhaustive exploration): this
 * pass validates the assumption vsched rests on — "every access to thread-shared state is behind a
 * hooked point (uatomic_*, hooked ring accesses, descriptor reads/writes)". A cooperative scheduler
 * cannot see an access that was turned from an atomic operation into a plain one (there is no point
 * to preempt at, and its hand-offs order everything); ThreadSanitizer on real threads does.
 *
 * Thread bodies keep their bookkeeping thread-local and communicate only through the primitives
 * under test, so no harness access can either race or create a happens-before edge that hides one.
 * The by-design plain accesses inside uring.h (validated by the tagged CAS; explored at plain-access
 * granularity by C07) are suppressed in engine/tsan.supp.
 *
 * --mode ring|uqueue|udeal|ref|ubuf  --threads N --iters K
 */
#undef NDEBUG
#define _GNU_SOURCE
#include "upipe/ubase.h"
#include "upipe/uatomic.h"
#include "upipe/urefcount.h"
#include "upipe/ufifo.h"
#include "upipe/ulifo.h"
#include "upipe/upool.h"
#include "upipe/uqueue.h"
#include "upipe/udeal.h"
#include "upipe/umem.h"
#include "upipe/umem_alloc.h"
#include "upipe/umem_pool.h"
#include "upipe/udict.h"
#include "upipe/udict_inline.h"
#include "upipe/uref.h"
#include "upipe/uref_std.h"
#include "upipe/uref_block.h"
#include "upipe/uref_flow.h"
#include "upipe/ubuf.h"
#include "upipe/ubuf_block.h"
#include "upipe/ubuf_block_mem.h"

#include <pthread.h>
#include <sched.h>
#include <stdio.h>
#include <stdlib.h>
#include <string.h>
#include <assert.h>

#define MAXT 4
static int g_threads = 3, g_iters = 2000;
static const char *g_mode = "ring";
static pthread_barrier_t g_bar;
static long g_ops[MAXT]; /* written by thread t only, read after join */

/* a message: payload written (plainly) before it is published, read after it is taken */
struct msg {
    int owner, seq;
    unsigned long sum;
    unsigned char body[32];
};

static void msg_fill(struct msg *m, int owner, int seq)
{
    m->owner = owner;
    m->seq = seq;
    m->sum = 0;
    for (unsigned i = 0; i < sizeof(m->body); i++) {
        m->body[i] = (unsigned char)(owner * 31 + seq + i);
        m->sum += m->body[i];
    }
}
static void msg_check(const struct msg *m)
{
    unsigned long s = 0;
    for (unsigned i = 0; i < sizeof(m->body); i++)
        s += m->body[i];
    assert(s == m->sum);
}

/* ---------------- ring: ufifo + ulifo + upool shared by all threads ---------------- */
static struct ufifo g_fifo;
static struct ulifo g_lifo;
static struct upool g_pool;
static struct urefcount g_pool_ref;
static uint8_t g_x1[1024], g_x2[1024], g_x3[1024];

static void *pool_alloc_cb(struct upool *p)
{
    (void)p;
    return calloc(1, sizeof(struct msg));
}
static void pool_free_cb(struct upool *p, void *o)
{
    (void)p;
    free(o);
}
static void noop_ref(struct urefcount *r) { (void)r; }

static void *ring_thread(void *arg)
{
    int t = (int)(intptr_t)arg;
    pthread_barrier_wait(&g_bar);
    for (int i = 0; i < g_iters; i++) {
        struct msg *m = upool_alloc(&g_pool, struct msg *);
        assert(m);
        msg_fill(m, t, i);
        struct msg *back = NULL;
        if (i & 1) {
            if (!ufifo_push(&g_fifo, m))
                back = m;
            else
                back = ufifo_pop(&g_fifo, struct msg *);
        } else {
            if (!ulifo_push(&g_lifo, m))
                back = m;
            else
                back = ulifo_pop(&g_lifo, struct msg *);
        }
        if (back) {
            msg_check(back);
            back->body[0] ^= 1; /* the taker owns it: a plain write */
            upool_free(&g_pool, back);
        }
        g_ops[t]++;
    }
    return NULL;
}

static void ring_run(void)
{
    ufifo_init(&g_fifo, 2, g_x1);
    ulifo_init(&g_lifo, 2, g_x2);
    urefcount_init(&g_pool_ref, noop_ref);
    upool_init(&g_pool, &g_pool_ref, 2, g_x3, pool_alloc_cb, pool_free_cb);
    pthread_t th[MAXT];
    for (int t = 0; t < g_threads; t++)
        pthread_create(&th[t], NULL, ring_thread, (void *)(intptr_t)t);
    for (int t = 0; t < g_threads; t++)
        pthread_join(th[t], NULL);
    struct msg *m;
    while ((m = ufifo_pop(&g_fifo, struct msg *)) != NULL)
        upool_free(&g_pool, m);
    while ((m = ulifo_pop(&g_lifo, struct msg *)) != NULL)
        upool_free(&g_pool, m);
    upool_clean(&g_pool);
    ufifo_clean(&g_fifo);
    ulifo_clean(&g_lifo);
}

/* ---------------- uqueue: producers and consumers, spinning instead of sleeping ---------------- */
static struct uqueue g_q;
static uatomic_uint32_t g_taken;
static int g_total;

static void *uq_prod(void *arg)
{
    int t = (int)(intptr_t)arg;
    pthread_barrier_wait(&g_bar);
    for (int i = 0; i < g_iters; i++) {
        struct msg *m = malloc(sizeof(*m));
        msg_fill(m, t, i);
        while (!uqueue_push(&g_q, m))
            sched_yield();
        g_ops[t]++;
    }
    return NULL;
}
static void *uq_cons(void *arg)
{
    int t = (int)(intptr_t)arg;
    int last[MAXT];
    for (int i = 0; i < MAXT; i++)
        last[i] = -1;
    pthread_barrier_wait(&g_bar);
    while ((int)uatomic_load(&g_taken) < g_total) {
        struct msg *m = uqueue_pop(&g_q, struct msg *);
        if (m == NULL) {
            sched_yield();
            continue;
        }
        uatomic_fetch_add(&g_taken, 1);
        msg_check(m);
        assert(m->seq > last[m->owner]); /* per-producer order as seen by one consumer */
        last[m->owner] = m->seq;
        free(m);
        g_ops[t]++;
    }
    return NULL;
}
static void uq_run(void)
{
    int np = g_threads / 2 > 0 ? g_threads / 2 : 1, nc = g_threads - np > 0 ? g_threads - np : 1;
    static uint8_t extra[1024];
    assert(uqueue_init(&g_q, 2, extra));
    uatomic_init(&g_taken, 0);
    g_total = np * g_iters;
    pthread_t th[MAXT];
    pthread_barrier_destroy(&g_bar);
    pthread_barrier_init(&g_bar, NULL, np + nc);
    for (int t = 0; t < np; t++)
        pthread_create(&th[t], NULL, uq_prod, (void *)(intptr_t)t);
    for (int t = np; t < np + nc; t++)
        pthread_create(&th[t], NULL, uq_cons, (void *)(intptr_t)t);
    for (int t = 0; t < np + nc; t++)
        pthread_join(th[t], NULL);
    assert(uqueue_length(&g_q) == 0);
    uqueue_clean(&g_q);
}

/* ---------------- udeal: exclusive section protected by the dealer only ---------------- */
static struct udeal g_deal;
static unsigned long g_protected[8]; /* plain data, only touched by the holder */

static void *deal_thread(void *arg)
{
    int t = (int)(intptr_t)arg;
    pthread_barrier_wait(&g_bar);
    for (int i = 0; i < g_iters; i++) {
        uatomic_fetch_add(&g_deal.waiters, 1); /* what udeal_start does, without a watcher */
        while (!udeal_grab(&g_deal))
            sched_yield();
        for (int k = 0; k < 8; k++)
            g_protected[k]++;
        /* udeal_yield without a watcher */
        uatomic_fetch_sub(&g_deal.access, 1);
        if (uatomic_fetch_sub(&g_deal.waiters, 1) > 1)
            ueventfd_write(&g_deal.event);
        g_ops[t]++;
    }
    return NULL;
}
static void deal_run(void)
{
    assert(udeal_init(&g_deal));
    memset(g_protected, 0, sizeof(g_protected));
    pthread_t th[MAXT];
    for (int t = 0; t < g_threads; t++)
        pthread_create(&th[t], NULL, deal_thread, (void *)(intptr_t)t);
    for (int t = 0; t < g_threads; t++)
        pthread_join(th[t], NULL);
    for (int k = 0; k < 8; k++)
        assert(g_protected[k] == (unsigned long)g_threads * g_iters);
    udeal_clean(&g_deal);
}

/* ---------------- ref: an object freed by whoever releases last ---------------- */
struct obj {
    struct urefcount ref;
    unsigned long payload[4]; /* immutable while shared */
};
static void obj_dead(struct urefcount *r)
{
    struct obj *o = container_of(r, struct obj, ref);
    o->payload[0] = 0xdead; /* the destroyer owns it exclusively */
    urefcount_clean(&o->ref);
    free(o);
}
static struct ufifo g_hand[MAXT]; /* one inbox per thread */
static uint8_t g_handx[MAXT][1024];

static void *ref_thread(void *arg)
{
    int t = (int)(intptr_t)arg;
    pthread_barrier_wait(&g_bar);
    for (int i = 0; i < g_iters; i++) {
        struct obj *o = malloc(sizeof(*o));
        urefcount_init(&o->ref, obj_dead);
        for (int k = 0; k < 4; k++)
            o->payload[k] = (unsigned long)t * 1000 + k;
        /* hand one reference to every other thread's inbox, then drop ours */
        for (int u = 0; u < g_threads; u++) {
            if (u == t)
                continue;
            urefcount_use(&o->ref);
            if (!ufifo_push(&g_hand[u], o))
                urefcount_release(&o->ref);
        }
        urefcount_release(&o->ref);
        struct obj *in;
        while ((in = ufifo_pop(&g_hand[t], struct obj *)) != NULL) {
            assert(in->payload[1] % 1000 == 1);
            urefcount_release(&in->ref);
        }
        g_ops[t]++;
    }
    return NULL;
}
static void ref_run(void)
{
    for (int t = 0; t < g_threads; t++)
        ufifo_init(&g_hand[t], 4, g_handx[t]);
    pthread_t th[MAXT];
    for (int t = 0; t < g_threads; t++)
        pthread_create(&th[t], NULL, ref_thread, (void *)(intptr_t)t);
    for (int t = 0; t < g_threads; t++)
        pthread_join(th[t], NULL);
    for (int t = 0; t < g_threads; t++) {
        struct obj *in;
        while ((in = ufifo_pop(&g_hand[t], struct obj *)) != NULL)
            urefcount_release(&in->ref);
        ufifo_clean(&g_hand[t]);
    }
}

/* ---------------- ubuf: urefs with shared block buffers and dictionaries across threads ---------------- */
static struct uref_mgr *g_uref_mgr;
static struct ubuf_mgr *g_ubuf_mgr;

static void *ubuf_thread(void *arg)
{
    int t = (int)(intptr_t)arg;
    pthread_barrier_wait(&g_bar);
    for (int i = 0; i < g_iters; i++) {
        struct uref *u = uref_block_alloc(g_uref_mgr, g_ubuf_mgr, 16);
        assert(u);
        int size = -1;
        uint8_t *w;
        assert(ubase_check(uref_block_write(u, 0, &size, &w)));
        for (int k = 0; k < size; k++)
            w[k] = (uint8_t)(t + k);
        uref_block_unmap(u, 0);
        assert(ubase_check(uref_flow_set_def(u, "block.")));
        /* every other thread gets a duplicate sharing the memory area */
        for (int v = 0; v < g_threads; v++) {
            if (v == t)
                continue;
            struct uref *d = uref_dup(u);
            assert(d);
            if (!ufifo_push(&g_hand[v], d))
                uref_free(d);
        }
        /* the original: a write mapping must now be refused or copy; reading is always fine */
        const uint8_t *r;
        size = -1;
        if (ubase_check(uref_block_read(u, 0, &size, &r))) {
            assert(r[1] == (uint8_t)(t + 1));
            uref_block_unmap(u, 0);
        }
        uref_free(u);
        struct uref *in;
        while ((in = ufifo_pop(&g_hand[t], struct uref *)) != NULL) {
            size = -1;
            assert(ubase_check(uref_block_read(in, 0, &size, &r)));
            assert(size == 16 && (uint8_t)(r[3] - r[0]) == 3);
            uref_block_unmap(in, 0);
            const char *def;
            assert(ubase_check(uref_flow_get_def(in, &def)) && !strcmp(def, "block."));
            uref_free(in);
        }
        g_ops[t]++;
    }
    return NULL;
}
static void ubuf_run(int pool)
{
    struct umem_mgr *umem = pool ? umem_pool_mgr_alloc_simple(pool) : umem_alloc_mgr_alloc();
    struct udict_mgr *udict = udict_inline_mgr_alloc(pool, umem, -1, -1);
    g_uref_mgr = uref_std_mgr_alloc(pool, udict, 0);
    g_ubuf_mgr = ubuf_block_mem_mgr_alloc(pool, pool, umem, 0, 0, -1, 0);
    assert(umem && udict && g_uref_mgr && g_ubuf_mgr);
    for (int t = 0; t < g_threads; t++)
        ufifo_init(&g_hand[t], 4, g_handx[t]);
    pthread_t th[MAXT];
    for (int t = 0; t < g_threads; t++)
        pthread_create(&th[t], NULL, ubuf_thread, (void *)(intptr_t)t);
    for (int t = 0; t < g_threads; t++)
        pthread_join(th[t], NULL);
    for (int t = 0; t < g_threads; t++) {
        struct uref *in;
        while ((in = ufifo_pop(&g_hand[t], struct uref *)) != NULL)
            uref_free(in);
        ufifo_clean(&g_hand[t]);
    }
    ubuf_mgr_release(g_ubuf_mgr);
    uref_mgr_release(g_uref_mgr);
    udict_mgr_release(udict);
    umem_mgr_release(umem);
}

int main(int argc, char **argv)
{
    int pool = 0;
    for (int i = 1; i + 1 < argc; i += 2) {
        if (!strcmp(argv[i], "--mode")) g_mode = argv[i + 1];
        else if (!strcmp(argv[i], "--threads")) g_threads = atoi(argv[i + 1]);
        else if (!strcmp(argv[i], "--iters")) g_iters = atoi(argv[i + 1]);
        else if (!strcmp(argv[i], "--pool")) pool = atoi(argv[i + 1]);
    }
    if (g_threads > MAXT)
        g_threads = MAXT;
    pthread_barrier_init(&g_bar, NULL, g_threads);
    if (!strcmp(g_mode, "ring")) ring_run();
    else if (!strcmp(g_mode, "uqueue")) uq_run();
    else if (!strcmp(g_mode, "udeal")) deal_run();
    else if (!strcmp(g_mode, "ref")) ref_run();
    else if (!strcmp(g_mode, "ubuf")) ubuf_run(pool);
    else {
        fprintf(stderr, "unknown mode %s\n", g_mode);
        return 2;
    }
    long ops = 0;
    for (int t = 0; t < MAXT; t++)
        ops += g_ops[t];
    printf("STAT free_runs 1\nSTAT free_ops %ld\n", ops);
    printf("SAMPLE free-running TSan pass mode=%s threads=%d iters=%d pool=%d: %ld operations, no report\n", g_mode, g_threads, g_iters, pool, ops);
    return 0;
}
