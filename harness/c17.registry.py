# Registry fragment for property C17 (H.264/H.265 NAL handling is lossless and independent of chunking).
# Same notation as tools/registry.py: @REPO@ / @VERIF@ prefixes.
_R = "@REPO@/lib/upipe/"
_F = "@REPO@/lib/upipe-framers/"
_CORE = [_R + f for f in (
    "umem_alloc.c", "umem_pool.c", "ubuf_block_mem.c", "ubuf_mem.c", "ubuf_mem_common.c",
    "ubuf_pic_mem.c", "ubuf_pic_common.c", "ubuf_pic.c", "ubuf_sound_mem.c", "ubuf_sound_common.c",
    "udict_inline.c", "uref_std.c", "upump_common.c", "uprobe.c", "uprobe_stdio.c", "uprobe_prefix.c",
    "uprobe_ubuf_mem.c", "uprobe_uref_mgr.c", "uprobe_uclock.c", "uprobe_upump_mgr.c",
    "ustring.c", "uuri.c", "uref_uri.c", "uref_pic_flow.c", "upipe_dump.c",
    "ucookie.c", "uprobe_ubuf_mem_pool.c", "uclock_std.c",
)]

HARNESS = {
    "c17_h26x": {"src": ["@VERIF@/harness/c17_h26x.c",
                         _F + "upipe_h26x_common.c", _F + "upipe_h264_framer.c", _F + "upipe_h265_framer.c", _F + "upipe_framers_common.c"]
                        + _CORE + ["@VERIF@/engine/vmock_upump.c", "@VERIF@/engine/simfd.c"]},
}


def _c17_jobs(tier, acct="notes", modes=None):
    q = tier == "quick"
    # per-job deadlines: quick = one wave of 16 jobs (<= 60 s); thorough = 4 jobs per worker, 300+300+120+120 s = 14 min worst case
    # (measured on idle cores: t2 120 s, t3 115 s, t1 43 s, t4 45 s per job); a job that runs out of time prints INCOMPLETE
    dls = {"t1": 120, "t2": 300, "t3": 300, "t4": 120}
    # (mode, number of shards): quick = 16 jobs in one wave, thorough = 64 jobs
    plan = [("t4", 8), ("t2", 3), ("t3", 4), ("t1", 1)] if q else [("t2", 16), ("t3", 16), ("t4", 16), ("t1", 16)]
    jobs = []
    for mode, n in plan:
        if modes is not None and mode not in modes:
            continue
        for i in range(n):
            jobs.append(("c17_h26x", ["--mode", mode, "--tier", tier, "--shard", "%d/%d" % (i, n),
                                      "--deadline", 50 if q else dls[mode], "--acct", acct]))
    return jobs


# Accounting findings (signatures containing "end:": leaks, references, over-releases seen by px_fix_fini or by the
# harness' own sink / buffer accounting) are outside the C17 statement: the C17 jobs run with --acct notes (NOTE lines +
# STAT accounting_findings, no VIOL); the same t3/t4 enumerations with --acct only (ONLY accounting findings produce
# VIOL lines) are meant to be run under property C01.
C01_EXTRA_JOBS = {"quick": _c17_jobs("quick", "only", ("t3", "t4")), "thorough": _c17_jobs("thorough", "only", ("t3", "t4"))}

CHECK = {
    "engine": "seqx",
    "design_ref": "DESIGN.md section 3 C17",
    "technique": "exhaustive enumeration (nested loops, every case replayable by id) of frames x encapsulation pairs x segmentations "
                 "(convert_frame), codes x alignments x escape placements x segmentations (exp-Golomb), cuttings of recorded/synthetic "
                 "streams (framers) and single-octet corruptions / truncations, executed on the real upipe_h26x_common / h264 / h265 framer "
                 "code inside the pipex fixture (counting managers, guard zones poisoned for ASan), against a reference NAL writer/parser, "
                 "a reference exp-Golomb + emulation prevention encoder and the uncut run",
    "level_text": "T1 convert_frame: frames of 1-3 NAL units, payload sizes {1,2,255,256[,65535,65536]}, all 25 ordered pairs of {Annex B, NALU, "
                  "length1, length2, length4}, every mix of 3/4-octet start codes on input, input in 1-3 ubuf segments cut around every NAL "
                  "start; output octets, NAL offset attributes, round trip, refusal of oversize NALs, untouched shared copy, no leak. "
                  "T2 ue/se: every code length 1..63 bits (4 values each), 8 bit alignments, 5 prefixes and 2 suffixes placing 00 00 03 "
                  "escapes before/inside/after the code, with and without escapes, every segmentation into <=3 segments; thorough adds "
                  "all codes 0..2^20 at 8 alignments and all 2^32-1 codes at one alignment. "
                  "T3 framers: recorded H.264 stream x3, compact H.264 stream built from its NAL units, synthetic H.265 stream; every "
                  "cutting with <=1 (thorough <=2) boundaries (chunk cut or ubuf segment split), uniform chunks 1..16, output in Annex B "
                  "and length4; outputs (octets, sizes, order, all attributes and dates) identical to the uncut run, and the uncut run "
                  "equal to the access units / NAL starts / random access flags known by construction. "
                  "T4: every octet (quick: every 3rd) of every stream replaced by 00/01/03/ff and every truncation, fed as Annex B "
                  "(whole, chunks) and as length1/2/4 / NALU frames: no ASan report, assert, hang, leak or over-release. Bounded, not a proof.",
    "level_note": "Trusted: the reference writers/parsers in the harness (written from H.264 7.3/7.4.1/9.1, annex B and H.265 7.3/9.2), "
                  "clang/ASan, the pipex fixture. Outside the bound: frames of more than 3 NAL units, more than 2 cut points, "
                  "pairs of cut points more than 256 octets apart in the 5007-octet recorded stream (unless both are within 6 octets of "
                  "a NAL start), uniform chunks below 16 octets on the recorded stream (256-object cap of the counting managers), "
                  "corruptions of more than one octet, LENGTH_UNKNOWN encapsulation, global headers (avcC/hvcC) paths. "
                  "b.header (header size) after convert_frame is compared but only counted (STAT info_header_size_mismatch, "
                  "--strict-header turns it into violations): it is not part of the C17 statement. "
                  "Accounting findings (leaks / references at teardown, signatures with 'end:') are only counted here "
                  "(--acct notes, STAT accounting_findings); C01_EXTRA_JOBS runs the same t3/t4 enumerations with --acct only.",
    "jobs": {"quick": _c17_jobs("quick"), "thorough": _c17_jobs("thorough")},
    "rule": "state = one case (frame+encapsulations+segmentation / code+alignment+escape placement+segmentation / stream+cutting / "
            "stream+feed+corruption); transition = one call of the code under test (conversion, decode, buffer input); "
            "non-trivial = conversions between different encapsulations, codes with an escape octet present, cut runs, "
            "corrupt runs that still output access units",
    "bounds": {"quick": "T1 sizes {1,2,255,256}+one 65536 frame, <=1 segment cut; T2 boundary codes of every length; "
                        "T3 <=1 boundary + uniform chunks; T4 every 3rd octet",
               "thorough": "T1 sizes up to 65536, <=2 segment cuts; T2 + all codes 0..2^20 x 8 alignments + all 2^32-1 codes at "
                           "alignment 3; T3 <=2 boundaries; T4 every octet"},
    "assumptions": [
        "harness compiled with clang -O1 + AddressSanitizer from /repo's working tree; library asserts enabled",
        "H.265 stream generated by an encoder written in the harness from ITU-T H.265 7.3 (the framer locks on it: 5 access units)",
        "NAL offset attribute equal to the block size at the end of the list is accepted (uref_h26x_iterate_nal ignores it)",
    ],
}
