/* C01 (fault axis) — buffers, dictionaries and urefs are freed exactly once, also when an
 * allocation inside alloc / dup / set-attribute is refused.
 *
 * seqx enumeration of every sequence of alloc / set attribute / dup / attach / detach / free over
 * two real urefs (uref_std + udict_inline + ubuf_block_mem on a counting allocator), in which up to
 * --faults times "the k-th next memory request is refused" (k = 1..4) is armed; a memory request is a request to the umem
 * manager (buffer areas, dictionaries) or a libc malloc of a descriptor structure (uref, udict, ubuf, shared-area header). The refusal is an
 * environment answer: a deviation from the default; histories with 0 deviations are the plain API
 * sequences. Oracle after every step: no double / unknown free and no guard overrun at the
 * allocator, number of live areas = shared buffers + dictionaries the model says are alive, every
 * surviving uref still carries its attributes and its payload; at the end everything is released,
 * the pools are vacuumed and neither an area nor a heap block nor a manager reference is left.
 *
 * args: --pool P --faults F --depth D */
#include "pipex.h"
#include "seqx.h"
#include "count_umem.h"

static int g_pool = 0, g_faults = 1;

#define NSLOT 2
#define LONGDEF "block.a-rather-long-flow-definition-that-does-not-fit-the-initial-dictionary."

struct slot {
    struct uref *u;
    bool has_buf;
    int group;       /* which shared buffer */
    bool has_id;
    uint64_t id;
    bool has_def;
};

struct st {
    struct cumem_mgr cumem;
    struct udict_mgr *udict_mgr;
    struct uref_mgr *uref_mgr;
    struct ubuf_mgr *ubuf_mgr;
    struct slot s[NSLOT];
    int next_group, next_id;
    int faults_armed;
    uint64_t hist;
    int nops;
};

enum { K_ALLOC_BLK, K_ALLOC_CTL, K_SET_ID, K_SET_DEF, K_FREE, K_DETACH, K_DUP, K_ATTACH, K_PER_SLOT };
#define OP_FAULT0 (K_PER_SLOT * NSLOT)
#define NFAULTK 4
#define NOPS (OP_FAULT0 + NFAULTK)

/* libc-level requests of uref_std.c / udict_inline.c / ubuf_block_mem.c / ubuf_mem_common.c (the descriptor structures the
 * pools recycle) are compiled as calls to this function and count as memory requests like those made to the umem manager */
static struct cumem_mgr *vf_cumem;
void *vf_malloc(size_t n);
void *vf_malloc(size_t n)
{
    if (vf_cumem && vf_cumem->fail_in > 0 && --vf_cumem->fail_in == 0) {
        vf_cumem->faults++;
        return NULL;
    }
    return (malloc)(n);
}

static void opstr(int op, char *b, size_t n)
{
    static const char *nm[] = {"alloc_block", "alloc_control", "set_flow_id", "set_flow_def(long)", "free", "detach_ubuf+free", "dup->other", "attach(dup of other's ubuf)"};
    if (op >= OP_FAULT0)
        snprintf(b, n, "refuse(memory request #%d from now)", op - OP_FAULT0 + 1);
    else
        snprintf(b, n, "%s(u%d)", nm[op % K_PER_SLOT], op / K_PER_SLOT);
}

static void *init(void)
{
    pxm_begin();
    struct st *s = calloc(1, sizeof(*s));
    cumem_mgr_init(&s->cumem);
    vf_cumem = NULL; /* the managers themselves are not part of the fault space */
    s->udict_mgr = udict_inline_mgr_alloc(g_pool, &s->cumem.mgr, 8, 8);
    s->uref_mgr = uref_std_mgr_alloc(g_pool, s->udict_mgr, 0);
    s->ubuf_mgr = ubuf_block_mem_mgr_alloc(g_pool, g_pool, &s->cumem.mgr, 0, 0, 0, 0);
    assert(s->udict_mgr && s->uref_mgr && s->ubuf_mgr);
    vf_cumem = &s->cumem;
    pxm_pause();
    return s;
}

static bool enabled_cb(void *vst, int op)
{
    struct st *st = vst;
    if (op >= OP_FAULT0)
        return st->faults_armed < g_faults && st->cumem.fail_in == 0;
    int i = op / K_PER_SLOT, o = 1 - i;
    struct slot *a = &st->s[i], *b = &st->s[o];
    switch (op % K_PER_SLOT) {
    case K_ALLOC_BLK:
    case K_ALLOC_CTL: return a->u == NULL;
    case K_SET_ID:
    case K_SET_DEF:
    case K_FREE: return a->u != NULL;
    case K_DETACH: return a->u != NULL && a->has_buf;
    case K_DUP: return a->u != NULL && b->u == NULL;
    case K_ATTACH: return a->u != NULL && !a->has_buf && b->u != NULL && b->has_buf;
    }
    return false;
}

static uint8_t octet(int group, int k) { return (uint8_t)(0x40 + group * 7 + k); }

static int check_state(struct st *st, const char *when)
{
    struct cumem_mgr *c = &st->cumem;
    if (c->double_free || c->unknown_free || c->overrun)
        SEQX_FAIL("umem:double-or-unknown-free", "%s: %s (%d double, %d unknown, %d overrun)", when, c->err, c->double_free, c->unknown_free, c->overrun);
    int groups[16] = {0}, ngroups = 0, ndict = 0;
    for (int i = 0; i < NSLOT; i++) {
        struct slot *a = &st->s[i];
        if (!a->u)
            continue;
        if (a->u->udict != NULL)
            ndict++;
        if ((a->u->ubuf != NULL) != a->has_buf)
            SEQX_FAIL("uref:buffer-presence", "%s: u%d %s a buffer, the model says the opposite", when, i, a->u->ubuf ? "carries" : "lost");
        if (a->has_buf) {
            bool seen = false;
            for (int g = 0; g < ngroups; g++)
                seen |= groups[g] == a->group;
            if (!seen)
                groups[ngroups++] = a->group;
            uint8_t got[4];
            if (!ubase_check(uref_block_extract(a->u, 0, 4, got)))
                SEQX_FAIL("uref:payload-unreadable", "%s: payload of u%d cannot be read", when, i);
            for (int k = 0; k < 4; k++)
                if (got[k] != octet(a->group, k))
                    SEQX_FAIL("uref:payload-changed", "%s: payload octet %d of u%d is %#x, expected %#x", when, k, i, got[k], octet(a->group, k));
        }
        uint64_t id = 0;
        bool has = ubase_check(uref_flow_get_id(a->u, &id));
        if (has != a->has_id || (has && id != a->id))
            SEQX_FAIL("uref:attribute-changed", "%s: flow id of u%d is %s%" PRIu64 ", expected %s%" PRIu64, when, i, has ? "" : "absent/", id,
                      a->has_id ? "" : "absent/", a->id);
        const char *def = NULL;
        has = ubase_check(uref_flow_get_def(a->u, &def));
        if (has != a->has_def || (has && strcmp(def, LONGDEF)))
            SEQX_FAIL("uref:attribute-changed", "%s: flow definition of u%d is %s, expected %s", when, i, has ? def : "absent", a->has_def ? LONGDEF : "absent");
    }
    if (c->nlive != ngroups + ndict)
        SEQX_FAIL(c->nlive > ngroups + ndict ? "umem:area-leaked" : "umem:area-missing",
                  "%s: the allocator has %d live area(s); %d shared buffer(s) and %d dictionar%s are alive", when, c->nlive, ngroups, ndict,
                  ndict == 1 ? "y" : "ies");
    return SEQX_OK;
}

static int apply(void *vst, int op, bool check)
{
    struct st *st = vst;
    if (!enabled_cb(st, op))
        return SEQX_DISABLED;
    pxm_resume();
    if (op >= OP_FAULT0) {
        st->cumem.fail_in = op - OP_FAULT0 + 1;
        st->faults_armed++;
    } else {
        int i = op / K_PER_SLOT;
        struct slot *a = &st->s[i], *b = &st->s[1 - i];
        switch (op % K_PER_SLOT) {
        case K_ALLOC_BLK: {
            struct uref *u = uref_block_alloc(st->uref_mgr, st->ubuf_mgr, 4);
            if (u) {
                int g = st->next_group++;
                uint8_t *w;
                int size = -1;
                ubase_assert(uref_block_write(u, 0, &size, &w));
                assert(size == 4);
                for (int k = 0; k < 4; k++)
                    w[k] = octet(g, k);
                uref_block_unmap(u, 0);
                *a = (struct slot){.u = u, .has_buf = true, .group = g};
            }
            break;
        }
        case K_ALLOC_CTL: {
            struct uref *u = uref_alloc_control(st->uref_mgr);
            if (u)
                *a = (struct slot){.u = u};
            break;
        }
        case K_SET_ID: {
            uint64_t v = 100 + st->next_id++;
            if (ubase_check(uref_flow_set_id(a->u, v))) {
                a->has_id = true;
                a->id = v;
            }
            break;
        }
        case K_SET_DEF:
            if (ubase_check(uref_flow_set_def(a->u, LONGDEF)))
                a->has_def = true;
            break;
        case K_FREE:
            uref_free(a->u);
            memset(a, 0, sizeof(*a));
            break;
        case K_DETACH:
            ubuf_free(uref_detach_ubuf(a->u));
            a->has_buf = false;
            break;
        case K_DUP: {
            struct uref *u = uref_dup(a->u);
            if (u) {
                *b = *a;
                b->u = u;
            }
            break;
        }
        case K_ATTACH: {
            struct ubuf *d = ubuf_dup(b->u->ubuf);
            if (d) {
                uref_attach_ubuf(a->u, d);
                a->has_buf = true;
                a->group = b->group;
            }
            break;
        }
        }
    }
    st->nops++;
    st->hist = st->hist * 1000003ULL + (uint64_t)op + 1;
    int r = SEQX_OK;
    if (check) {
        char when[96], ob[64];
        opstr(op, ob, sizeof(ob));
        snprintf(when, sizeof(when), "after step %d (%s)", st->nops, ob);
        r = check_state(st, when);
    }
    pxm_pause();
    return r;
}

static int final_check(void *vst)
{
    struct st *st = vst;
    pxm_resume();
    st->cumem.fail_in = 0;
    for (int i = 0; i < NSLOT; i++)
        if (st->s[i].u) {
            uref_free(st->s[i].u);
            memset(&st->s[i], 0, sizeof(st->s[i]));
        }
    int r = check_state(st, "after everything was freed");
    uref_mgr_release(st->uref_mgr);
    ubuf_mgr_release(st->ubuf_mgr);
    udict_mgr_release(st->udict_mgr);
    struct cumem_mgr *c = &st->cumem;
    if (r == SEQX_OK && (c->nlive || c->double_free || c->unknown_free || cumem_refs(c) != 1)) {
        snprintf(seqx_sig, sizeof(seqx_sig), "end:accounting");
        snprintf(seqx_msg, sizeof(seqx_msg), "after the managers were released: %d live area(s), %d double free(s), %u reference(s) on the allocator (1 = its creator)",
                 c->nlive, c->double_free, cumem_refs(c));
        r = SEQX_VIOL;
    }
    int faults = c->faults;
    vf_cumem = NULL;
    free(st);
    char leak[200];
    int left = pxm_end(leak, sizeof(leak));
    if (r == SEQX_OK && left) {
        snprintf(seqx_sig, sizeof(seqx_sig), "end:heap-blocks-left");
        snprintf(seqx_msg, sizeof(seqx_msg), "%d heap block(s) still allocated after teardown (sizes: %s; %d refusal(s) happened)", left, leak, faults);
        r = SEQX_VIOL;
    }
    return r;
}

static void canon(void *vst, struct vbuf *out)
{
    /* the pools' content (recycled structures with whatever they last held) is hidden state: no merging */
    struct st *st = vst;
    vbuf_u64(out, st->hist);
    vbuf_u32(out, st->nops);
}

static bool nontrivial(void *vst)
{
    struct st *st = vst;
    return st->cumem.faults > 0 || (st->s[0].u && st->s[1].u);
}

int main(int argc, char **argv)
{
    for (int i = 1; i + 1 < argc; i++) {
        if (!strcmp(argv[i], "--pool")) g_pool = atoi(argv[i + 1]);
        else if (!strcmp(argv[i], "--faults")) g_faults = atoi(argv[i + 1]);
    }
    static struct seqx_spec spec;
    char nm[64];
    snprintf(nm, sizeof(nm), "c01_uref:pool%d:faults%d", g_pool, g_faults);
    spec.name = strdup(nm);
    spec.nops = NOPS;
    spec.init = init;
    spec.apply = apply;
    spec.canon = canon;
    spec.opstr = opstr;
    spec.nontrivial = nontrivial;
    spec.final_check = final_check;
    spec.enabled = enabled_cb;
    int r = seqx_main(&spec, argc, argv, 6);
    return r;
}
