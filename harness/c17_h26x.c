/* c17_h26x — property C17: "H.264/H.265 NAL handling is lossless and
 * independent of chunking".
 *
 *   --mode t1   upipe_h26xf_convert_frame: frames x encapsulation pairs x segmentations
 *   --mode t2   upipe_h26xf_stream_ue/se + emulation prevention vs a reference encoder
 *   --mode t3   H.264 / H.265 framers: every cutting gives the same access units
 *   --mode t4   framers on corrupt input (byte replacement, truncation)
 *   --tier quick|thorough   --shard i/n   --deadline seconds   --replay <case-id>
 *
 * Every case has a compact id (no spaces) which --replay re-executes alone.
 * Cases run in a forked child so that an ASan report / assert on one case is
 * turned into a VIOL line and the enumeration goes on with the next case. */
#include "pipex.h"

#include "upipe/ubuf_block_stream.h"
#include "upipe/uref_pic.h"
#include "upipe/uref_flow.h"
#include "upipe-framers/uref_h26x.h"
#include "upipe-framers/uref_h26x_flow.h"
#include "upipe-framers/upipe_h26x_common.h"
#include "upipe-framers/upipe_h264_framer.h"
#include "upipe-framers/upipe_h265_framer.h"

#include "../tests/upipe_h264_framer_test.h"

#include <sanitizer/asan_interface.h>
#include <sanitizer/common_interface_defs.h>
#include <sys/mman.h>
#include <sys/wait.h>
#include <errno.h>

/* ------------------------------------------------------------------ */
/* shared state (parent + forked workers)                               */
/* ------------------------------------------------------------------ */
#define MAXSIG 96
struct shared {
    long long states, transitions, executions, nontrivial, violations;
    long long skipped;          /* enumerated but not meaningful (e.g. unrepresentable) */
    long long extra[8];         /* mode specific counters */
    long long cur_idx;          /* index of the case being executed */
    char cur_case[512];
    bool expired;
    bool done;
    int nsig;
    struct {
        char sig[120];
        long long n;
    } sigs[MAXSIG];
    int nnotes;
    char notes[16][400];
    long long info_hdr_mismatch;
    char info_hdr_first[400];
    long long acct_findings;    /* accounting findings (signatures with "end:"), whatever --acct says */
    long long suppressed;       /* findings not reported because of --acct */
    int nacct_notes;
    char acct_notes[4][500];
};
static struct shared *G;

static double g_deadline = 1e9, g_t0;
static int g_shard_i = 0, g_shard_n = 1;
static bool g_thorough = false;
static const char *g_replay = NULL;
static bool g_verbose = false;
static bool g_strict_header = false;
enum { ACCT_VIOLATIONS, ACCT_NOTES, ACCT_ONLY };
static int g_acct = ACCT_NOTES; /* what to do with accounting findings (leaks, references: outside the C17 statement) */
static long long g_resume = 0;   /* first case index to execute (after a crash) */
static long long g_idx = 0;      /* running case index of the enumeration */
static const char *g_mode = "";

static bool deadline_hit(void)
{
    if (G->expired)
        return true;
    if (v_now() - g_t0 > g_deadline) {
        G->expired = true;
        return true;
    }
    return false;
}

/* called for every enumerated case; true if this process must run it */
static bool case_selected(void)
{
    long long i = g_idx++;
    if (i < g_resume)
        return false;
    if (g_shard_n > 1 && (i % g_shard_n) != g_shard_i)
        return false;
    G->cur_idx = i;
    return true;
}

static void case_begin(const char *id)
{
    snprintf(G->cur_case, sizeof(G->cur_case), "%s", id);
    v_crash_note(id);
    v_watchdog(20);
    if (G->states++ < 2 && !g_replay)
        v_sample("%s", id);
    if (g_verbose)
        printf("NOTE running %s\n", id);
}

static void add_note(const char *fmt, ...)
{
    if (G->nnotes >= 16)
        return;
    va_list ap;
    va_start(ap, fmt);
    vsnprintf(G->notes[G->nnotes++], 400, fmt, ap);
    va_end(ap);
}

/* violation: counted always, printed for the first two cases of each signature */
static void viol(const char *sig, const char *caseid, const char *fmt, ...)
{
    bool acct = strstr(sig, "end:") != NULL;
    if (acct)
        G->acct_findings++;
    if (acct ? g_acct == ACCT_NOTES : g_acct == ACCT_ONLY) {
        G->suppressed++;
        if (acct) {
            /* a few NOTE lines, one per signature */
            for (int i = 0; i < G->nacct_notes; i++)
                if (!strncmp(G->acct_notes[i], sig, strlen(sig)) && G->acct_notes[i][strlen(sig)] == ' ')
                    return;
            if (G->nacct_notes < 4) {
                char m[380];
                va_list ap;
                va_start(ap, fmt);
                vsnprintf(m, sizeof(m), fmt, ap);
                va_end(ap);
                snprintf(G->acct_notes[G->nacct_notes++], 500, "%s first case %s: %s", sig, caseid, m);
            }
        }
        return;
    }
    G->violations++;
    int k;
    for (k = 0; k < G->nsig; k++)
        if (!strcmp(G->sigs[k].sig, sig))
            break;
    if (k == G->nsig) {
        if (G->nsig == MAXSIG)
            return;
        snprintf(G->sigs[k].sig, sizeof(G->sigs[k].sig), "%s", sig);
        G->sigs[k].n = 0;
        G->nsig++;
    }
    G->sigs[k].n++;
    if (G->sigs[k].n > 2 && !g_replay)
        return;
    char msg[1500];
    va_list ap;
    va_start(ap, fmt);
    vsnprintf(msg, sizeof(msg), fmt, ap);
    va_end(ap);
    for (char *p = msg; *p; p++)
        if (*p == '\n')
            *p = ' ';
    v_viol(sig, caseid, "%s", msg);
}

static void hex(char *out, size_t n, const uint8_t *p, size_t len, size_t max)
{
    size_t o = 0;
    out[0] = 0;
    for (size_t i = 0; i < len && i < max && o + 4 < n; i++)
        o += snprintf(out + o, n - o, "%02x", p[i]);
    if (len > max && o + 4 < n)
        snprintf(out + o, n - o, "..");
}

/* ------------------------------------------------------------------ */
/* fixture: pipex managers, with the guard zones of the counting umem    */
/* poisoned so that ASan reports reads beyond a buffer as well          */
/* ------------------------------------------------------------------ */
static bool g_cap_hit; /* an allocation was refused by the 256-object cap of the counting managers */
static bool c17_ualloc(struct umem_mgr *mgr, struct umem *umem, size_t size)
{
    if (!cumem_alloc(mgr, umem, size)) {
        g_cap_hit = true;
        return false;
    }
    ASAN_POISON_MEMORY_REGION(umem->buffer - CU_GUARD, CU_GUARD);
    ASAN_POISON_MEMORY_REGION(umem->buffer + size, CU_GUARD);
    return true;
}
static size_t c17_live_size(struct umem *umem)
{
    struct cumem_mgr *c = cumem_mgr_from_umem_mgr(umem->mgr);
    int i = cumem_find(c, umem->buffer);
    return i < 0 ? (size_t)-1 : c->live[i].size;
}
static void c17_ufree(struct umem *umem)
{
    if (umem->mgr != NULL && umem->buffer != NULL) {
        size_t sz = c17_live_size(umem);
        if (sz != (size_t)-1) {
            ASAN_UNPOISON_MEMORY_REGION(umem->buffer - CU_GUARD, CU_GUARD);
            ASAN_UNPOISON_MEMORY_REGION(umem->buffer + sz, CU_GUARD);
        }
    }
    cumem_free(umem);
}
static bool c17_urealloc(struct umem *umem, size_t new_size)
{
    size_t sz = c17_live_size(umem);
    if (sz != (size_t)-1) {
        ASAN_UNPOISON_MEMORY_REGION(umem->buffer - CU_GUARD, CU_GUARD);
        ASAN_UNPOISON_MEMORY_REGION(umem->buffer + sz, CU_GUARD);
    }
    bool ok = cumem_realloc(umem, new_size);
    sz = ok ? new_size : sz;
    if (sz != (size_t)-1) {
        ASAN_POISON_MEMORY_REGION(umem->buffer - CU_GUARD, CU_GUARD);
        ASAN_POISON_MEMORY_REGION(umem->buffer + sz, CU_GUARD);
    }
    return ok;
}

static struct uref *c17_uref_alloc(struct uref_mgr *mgr)
{
    struct uref *u = pxu_alloc(mgr);
    if (u == NULL)
        g_cap_hit = true;
    return u;
}

static void fix_init(struct px_fix *fx)
{
    g_cap_hit = false;
    struct px_cfg cfg = {.pool = 0, .prepend = 0, .append = 0, .align = 0};
    px_fix_init(fx, &cfg);
    fx->cumem.mgr.umem_alloc = c17_ualloc;
    fx->cumem.mgr.umem_realloc = c17_urealloc;
    fx->cumem.mgr.umem_free = c17_ufree;
    fx->pxu.mgr.uref_alloc = c17_uref_alloc;
}

/* before px_fix_fini frees what a leak left behind, guards must be readable */
static const char *fix_fini(struct px_fix *fx, char *sig, size_t sign)
{
    for (int i = 0; i < fx->cumem.nlive; i++) {
        ASAN_UNPOISON_MEMORY_REGION(fx->cumem.live[i].buf - CU_GUARD, CU_GUARD);
        ASAN_UNPOISON_MEMORY_REGION(fx->cumem.live[i].buf + fx->cumem.live[i].size, CU_GUARD);
    }
    return px_fix_fini(fx, sig, sign);
}

/* block made of the given octets, cut into segments at the given offsets */
static struct ubuf *mk_block(struct px_fix *fx, const uint8_t *p, size_t n, const size_t *cuts, int ncuts)
{
    struct ubuf *head = NULL;
    size_t from = 0;
    for (int s = 0; s <= ncuts; s++) {
        size_t to = s < ncuts ? cuts[s] : n;
        if (to > n)
            to = n;
        if (to <= from && !(s == ncuts && head == NULL))
            continue;
        size_t part = to - from;
        struct ubuf *ubuf = ubuf_block_alloc(fx->ubuf_mgr, part);
        if (ubuf == NULL) {
            if (head)
                ubuf_free(head);
            return NULL;
        }
        if (part) {
            uint8_t *w;
            int sz = -1;
            ubase_assert(ubuf_block_write(ubuf, 0, &sz, &w));
            assert((size_t)sz == part);
            memcpy(w, p + from, part);
            ubuf_block_unmap(ubuf, 0);
        }
        if (head == NULL)
            head = ubuf;
        else
            ubase_assert(ubuf_block_append(head, ubuf));
        from = to;
    }
    return head;
}

/* ------------------------------------------------------------------ */
/* reference bit writer, exp-Golomb (H.264 9.1 / H.265 9.2) and          */
/* emulation prevention (H.264 7.4.1 / H.265 7.4.2) — written from the    */
/* standards, independent of Upipe and of the bitstream shim            */
/* ------------------------------------------------------------------ */
struct bw {
    uint8_t b[512];
    int nbits;
};
static void bw_init(struct bw *w) { memset(w, 0, sizeof(*w)); }
static void bw_put(struct bw *w, uint64_t v, int n)
{
    for (int i = n - 1; i >= 0; i--) {
        assert(w->nbits < (int)sizeof(w->b) * 8);
        if ((v >> i) & 1)
            w->b[w->nbits >> 3] |= 0x80 >> (w->nbits & 7);
        w->nbits++;
    }
}
/* ue(v): codeNum written as leadingZeroBits zeros, a one, leadingZeroBits info bits */
static void bw_ue(struct bw *w, uint32_t code)
{
    uint64_t x = (uint64_t)code + 1;
    int k = 0;
    while ((x >> (k + 1)) != 0)
        k++;
    bw_put(w, 0, k);
    bw_put(w, x, k + 1);
}
/* se(v): value s maps to codeNum 2s-1 (s>0) or -2s (s<=0) */
static void bw_se(struct bw *w, int64_t s)
{
    bw_ue(w, (uint32_t)(s > 0 ? 2 * s - 1 : -2 * s));
}
static void bw_trailing(struct bw *w)
{
    bw_put(w, 1, 1);
    while (w->nbits & 7)
        bw_put(w, 0, 1);
}
static int bw_bytes(struct bw *w) { return (w->nbits + 7) >> 3; }

/* RBSP -> NAL payload: emulation_prevention_three_byte before any octet <= 3
 * that follows two zero octets */
static size_t ep_encode(const uint8_t *rbsp, size_t n, uint8_t *out)
{
    size_t o = 0;
    int zeros = 0;
    for (size_t i = 0; i < n; i++) {
        if (zeros >= 2 && rbsp[i] <= 3) {
            out[o++] = 3;
            zeros = 0;
        }
        out[o++] = rbsp[i];
        zeros = rbsp[i] == 0 ? zeros + 1 : 0;
    }
    return o;
}
static bool has_seq(const uint8_t *p, size_t n, uint8_t a, uint8_t b, uint8_t c_lo, uint8_t c_hi)
{
    for (size_t i = 0; i + 2 < n; i++)
        if (p[i] == a && p[i + 1] == b && p[i + 2] >= c_lo && p[i + 2] <= c_hi)
            return true;
    return false;
}

/* ================================================================== */
/* T2: exp-Golomb / emulation prevention                                */
/* ================================================================== */
static const uint8_t t2_pre[][4] = {{0xa5}, {0x00}, {0x00, 0x00}, {0x00, 0x00, 0x03}, {0x00, 0x00, 0x00, 0x00}};
static const int t2_pre_n[] = {1, 1, 2, 3, 4};
#define T2_NPRE 5
static const uint8_t t2_suf[][3] = {{0xb7}, {0x00, 0x00, 0x01}};
static const int t2_suf_n[] = {1, 3};
#define T2_NSUF 2

struct t2case {
    int kind;      /* 0 ue, 1 se */
    uint32_t code; /* codeNum */
    int off, pre, fill, suf, ep;
    int ncut;
    size_t cut[2];
};

static void t2_id(const struct t2case *c, char *id, size_t n)
{
    int o = snprintf(id, n, "t2/k=%s/v=%u/off=%d/pre=%d/fill=%d/suf=%d/ep=%d/cuts=", c->kind ? "se" : "ue", c->code, c->off, c->pre, c->fill, c->suf, c->ep);
    for (int i = 0; i < c->ncut; i++)
        o += snprintf(id + o, n - o, "%s%zu", i ? "," : "", c->cut[i]);
    if (!c->ncut)
        snprintf(id + o, n - o, "-");
}

/* builds the octets of the NAL payload for a case; returns length, 0 if the
 * case is not meaningful (ep=0 duplicates or cannot be sent raw) */
static size_t t2_build(const struct t2case *c, uint8_t *nal, bool *has_ep)
{
    struct bw w;
    bw_init(&w);
    for (int i = 0; i < t2_pre_n[c->pre]; i++)
        bw_put(&w, t2_pre[c->pre][i], 8);
    if (c->off)
        bw_put(&w, c->fill ? (1u << c->off) - 1 : 0, c->off);
    bw_ue(&w, c->code);
    for (int i = 0; i < t2_suf_n[c->suf]; i++)
        bw_put(&w, t2_suf[c->suf][i], 8);
    bw_trailing(&w);
    size_t n = bw_bytes(&w);
    uint8_t esc[700];
    size_t ne = ep_encode(w.b, n, esc);
    *has_ep = ne != n;
    if (c->ep) {
        memcpy(nal, esc, ne);
        return ne;
    }
    /* raw: only when it differs from the escaped form and contains nothing a
     * decoder must take for an escape */
    if (ne == n || has_seq(w.b, n, 0, 0, 3, 3))
        return 0;
    memcpy(nal, w.b, n);
    return n;
}

static struct px_fix t2_fx;

/* decodes with the real code; returns false + message on mismatch */
static bool t2_decode(const struct t2case *c, struct ubuf *ubuf, char *why, size_t whyn)
{
    struct upipe_h26xf_stream f;
    upipe_h26xf_stream_init(&f);
    struct ubuf_block_stream *s = &f.s;
    if (!ubase_check(ubuf_block_stream_init(s, ubuf, 0))) {
        snprintf(why, whyn, "ubuf_block_stream_init failed");
        return false;
    }
    bool ok = true;
    for (int i = 0; i < t2_pre_n[c->pre] && ok; i++) {
        upipe_h26xf_stream_fill_bits(s, 8);
        uint32_t b = ubuf_block_stream_show_bits(s, 8);
        ubuf_block_stream_skip_bits(s, 8);
        if (b != t2_pre[c->pre][i]) {
            snprintf(why, whyn, "prefix octet %d read as %02x, written %02x", i, b, t2_pre[c->pre][i]);
            ok = false;
        }
    }
    if (ok && c->off) {
        upipe_h26xf_stream_fill_bits(s, c->off);
        uint32_t b = ubuf_block_stream_show_bits(s, c->off);
        ubuf_block_stream_skip_bits(s, c->off);
        uint32_t want = c->fill ? (1u << c->off) - 1 : 0;
        if (b != want) {
            snprintf(why, whyn, "%d alignment bits read as %x, written %x", c->off, b, want);
            ok = false;
        }
    }
    if (ok) {
        if (c->kind == 0) {
            uint32_t v = upipe_h26xf_stream_ue(s);
            if (v != c->code) {
                snprintf(why, whyn, "ue(v) decoded %u, reference encoder wrote %u", v, c->code);
                ok = false;
            }
        } else {
            int32_t v = upipe_h26xf_stream_se(s);
            /* 9.1.1: (-1)^(k+1) * Ceil(k/2) */
            int64_t want = (c->code & 1) ? ((int64_t)c->code + 1) / 2 : -((int64_t)c->code / 2);
            if ((int64_t)v != want) {
                snprintf(why, whyn, "se(v) decoded %d, codeNum %u maps to %lld", v, c->code, (long long)want);
                ok = false;
            }
        }
    }
    for (int i = 0; i < t2_suf_n[c->suf] && ok; i++) {
        upipe_h26xf_stream_fill_bits(s, 8);
        uint32_t b = ubuf_block_stream_show_bits(s, 8);
        ubuf_block_stream_skip_bits(s, 8);
        if (b != t2_suf[c->suf][i]) {
            snprintf(why, whyn, "octet %d after the code read as %02x, written %02x (position lost)", i, b, t2_suf[c->suf][i]);
            ok = false;
        }
    }
    if (ok && s->overflow) {
        snprintf(why, whyn, "stream reported overflow although all written bits were available");
        ok = false;
    }
    ubuf_block_stream_clean(s);
    return ok;
}

static void t2_run(const struct t2case *c)
{
    uint8_t nal[700];
    bool has_ep;
    size_t n = t2_build(c, nal, &has_ep);
    if (n == 0) {
        G->skipped++;
        return;
    }
    char id[200];
    t2_id(c, id, sizeof(id));
    case_begin(id);
    struct ubuf *ubuf = mk_block(&t2_fx, nal, n, c->cut, c->ncut);
    assert(ubuf);
    char why[300] = "";
    G->executions++;
    G->transitions++;
    if (has_ep)
        G->nontrivial++;
    if (!t2_decode(c, ubuf, why, sizeof(why))) {
        char hx[200], sig[100];
        hex(hx, sizeof(hx), nal, n, 40);
        snprintf(sig, sizeof(sig), "t2:%s:%s", c->kind ? "se" : "ue", strstr(why, "decoded") ? "wrong-value" : strstr(why, "overflow") ? "overflow" : "position-lost");
        viol(sig, id, "%s; NAL payload octets %s (prefix %d octets + %d bits, %s emulation prevention)", why, hx, t2_pre_n[c->pre], c->off,
             c->ep ? "with" : "without");
    }
    ubuf_free(ubuf);
}

/* all segmentations of n octets into <= 3 segments */
static void t2_all_segs(struct t2case *c)
{
    uint8_t nal[700];
    bool he;
    size_t n = t2_build(c, nal, &he);
    if (n == 0) {
        if (case_selected())
            G->skipped++;
        return;
    }
    c->ncut = 0;
    if (case_selected())
        t2_run(c);
    for (size_t a = 1; a < n; a++) {
        c->ncut = 1;
        c->cut[0] = a;
        if (case_selected())
            t2_run(c);
    }
    for (size_t a = 1; a < n; a++)
        for (size_t b = a + 1; b < n; b++) {
            c->ncut = 2;
            c->cut[0] = a;
            c->cut[1] = b;
            if (case_selected())
                t2_run(c);
        }
}

static void t2_variants(uint32_t code, bool full)
{
    for (int kind = 0; kind < 2; kind++)
        for (int off = 0; off < 8; off++)
            for (int pre = 0; pre < T2_NPRE; pre++)
                for (int fill = 0; fill < (off ? 2 : 1); fill++)
                    for (int suf = 0; suf < T2_NSUF; suf++)
                        for (int ep = 1; ep >= 0; ep--) {
                            struct t2case c = {kind, code, off, pre, fill, suf, ep, 0, {0, 0}};
                            if (full)
                                t2_all_segs(&c);
                            else {
                                if (pre != 0 && pre != 2)
                                    continue;
                                if (fill || suf || !ep)
                                    continue;
                                if (case_selected())
                                    t2_run(&c);
                                uint8_t nal[700];
                                bool he;
                                size_t n = t2_build(&c, nal, &he);
                                c.ncut = 1;
                                c.cut[0] = n / 2;
                                if (case_selected())
                                    t2_run(&c);
                            }
                            if (deadline_hit())
                                return;
                        }
}

/* sweep over all codes at one alignment, buffer reused */
static void t2_sweep(void)
{
    uint64_t total = 0xffffffffULL; /* codes 0 .. 2^32-2 */
    uint64_t lo = total * g_shard_i / g_shard_n, hi = total * (g_shard_i + 1) / g_shard_n;
    struct t2case c = {0, 0, 3, 0, 1, 0, 1, 0, {0, 0}};
    struct ubuf *ubuf = ubuf_block_alloc(t2_fx.ubuf_mgr, 16);
    assert(ubuf);
    uint64_t start = lo + (uint64_t)(g_resume > 1000000000LL ? g_resume - 1000000000LL : 0);
    uint64_t v;
    G->extra[0] = 0;
    for (v = start; v < hi; v++) {
        c.code = (uint32_t)v;
        if ((v & 0xfffff) == 0) {
            G->cur_idx = 1000000000LL + (long long)(v - lo);
            char id[200];
            t2_id(&c, id, sizeof(id));
            snprintf(G->cur_case, sizeof(G->cur_case), "%s", id);
            v_crash_note(id);
            v_watchdog(20);
            if (deadline_hit())
                break;
        }
        /* reference encoder on a 128-bit word: a5, 3 one bits, ue(v), b7, stop bit */
        uint64_t x = v + 1;
        int k = 63 - __builtin_clzll(x);
        unsigned __int128 word = ((unsigned __int128)0xa5 << 3) | 7;
        int nb = 11;
        word = (word << (2 * k + 1)) | x; /* k zeros, then the k+1 bits of x */
        nb += 2 * k + 1;
        word = (word << 9) | (0xb7 << 1) | 1;
        nb += 9;
        int n = (nb + 7) >> 3;
        word <<= n * 8 - nb;
        uint8_t rb[16];
        for (int i = 0; i < n; i++)
            rb[i] = (uint8_t)(word >> (8 * (n - 1 - i)));
        uint8_t *wp;
        int sz = -1;
        ubase_assert(ubuf_block_write(ubuf, 0, &sz, &wp));
        size_t ne = ep_encode(rb, n, wp);
        ubuf_block_unmap(ubuf, 0);
        (void)ne;
        char why[300];
        if (!t2_decode(&c, ubuf, why, sizeof(why))) {
            char id[200];
            t2_id(&c, id, sizeof(id));
            viol("t2:ue:wrong-value", id, "%s (full sweep)", why);
        }
    }
    G->extra[0] = (long long)(v - start);
    G->states += v - start;
    G->executions += v - start;
    G->transitions += v - start;
    ubuf_free(ubuf);
}

static void t2_main(void)
{
    fix_init(&t2_fx);
    /* boundary values of every code length 1,3,..,63 */
    for (int z = 0; z < 32 && !deadline_hit(); z++) {
        uint64_t lo = (1ULL << z) - 1, hi = (1ULL << (z + 1)) - 2;
        uint64_t vals[4] = {lo, lo + (hi - lo) / 3, lo + 2 * ((hi - lo) / 3), hi};
        for (int i = 0; i < 4; i++) {
            bool dup = false;
            for (int j = 0; j < i; j++)
                dup |= vals[j] == vals[i];
            if (!dup)
                t2_variants((uint32_t)vals[i], true);
        }
    }
    if (g_thorough && !g_replay) {
        for (uint32_t v = 0; v <= (1u << 20) && !deadline_hit(); v++)
            t2_variants(v, false);
        add_note("t2: boundary + 0..2^20 part done after %.1f s", v_now() - g_t0);
        if (!deadline_hit())
            t2_sweep();
        add_note("t2: sweep ended after %.1f s", v_now() - g_t0);
    }
    char sig[64];
    const char *m = fix_fini(&t2_fx, sig, sizeof(sig));
    if (m && !G->expired)
        {
        char sg[96];
        snprintf(sg, sizeof(sg), "t2:%s", sig);
        viol(sg, "-", "%s", m);
    }
}

static bool t2_replay(const char *id)
{
    struct t2case c;
    memset(&c, 0, sizeof(c));
    char k[8] = "", cuts[64] = "";
    if (sscanf(id, "t2/k=%7[a-z]/v=%u/off=%d/pre=%d/fill=%d/suf=%d/ep=%d/cuts=%63s", k, &c.code, &c.off, &c.pre, &c.fill, &c.suf, &c.ep, cuts) < 8)
        return false;
    c.kind = !strcmp(k, "se");
    if (cuts[0] != '-') {
        size_t a, b;
        int n = sscanf(cuts, "%zu,%zu", &a, &b);
        c.ncut = n;
        c.cut[0] = a;
        if (n > 1)
            c.cut[1] = b;
    }
    fix_init(&t2_fx);
    uint8_t nal[700];
    bool he;
    size_t n = t2_build(&c, nal, &he);
    char hx[300];
    hex(hx, sizeof(hx), nal, n, 100);
    printf("NOTE payload (%zu octets): %s\n", n, hx);
    t2_run(&c);
    char sig[64];
    fix_fini(&t2_fx, sig, sizeof(sig));
    return true;
}

/* ================================================================== */
/* T1: upipe_h26xf_convert_frame                                         */
/* ================================================================== */
static const int t1_enc[5] = {UREF_H26X_ENCAPS_ANNEXB, UREF_H26X_ENCAPS_NALU, UREF_H26X_ENCAPS_LENGTH1, UREF_H26X_ENCAPS_LENGTH2,
                              UREF_H26X_ENCAPS_LENGTH4};
static const char *t1_enc_name[5] = {"annexb", "nalu", "length1", "length2", "length4"};

static int enc_hdr(int e, int sc)
{
    return e == 0 ? sc : e == 1 ? 0 : e == 2 ? 1 : e == 3 ? 2 : 4;
}
static bool enc_fits(int e, size_t sz)
{
    return e == 2 ? sz <= 0xff : e == 3 ? sz <= 0xffff : true;
}

/* payload of NAL i: a NAL header octet, then octets >= 0x80 (no start code
 * or escape can appear), different for every NAL */
/* content variant pv: 0 = parameter sets / IDR slice headers and octets >= 0x80; 1 = NAL headers 0x01 / 0x41 (slices of
 * non-reference and reference pictures: the header octet equals the last octet of a start code); 2 = as 1, and the second
 * and last payload octets are 0x01 too (a lone 0x00 / 0x01 is legal inside a NAL, only 00 00 0x needs an escape) */
static void t1_payload_pv(uint8_t *p, size_t sz, int i, int pv)
{
    static const uint8_t hdr[3][3] = {{0x67, 0x68, 0x65}, {0x01, 0x01, 0x41}, {0x01, 0x41, 0x01}};
    p[0] = hdr[pv][i % 3];
    for (size_t j = 1; j < sz; j++)
        p[j] = 0x80 | (uint8_t)((j * 7 + i * 29 + (j >> 8) * 3 + 1) & 0x7f);
    if (pv == 2 && sz >= 2)
        p[1] = p[sz - 1] = 0x01;
}

struct t1frame {
    int n;
    size_t sz[3];
    int pv;
};
#define t1_payload(p_, sz_, i_) t1_payload_pv(p_, sz_, i_, f->pv)

/* reference writer: the frame in encapsulation e (sc[i] = start code size of
 * NAL i for Annex B); off[i] = offset of NAL i, off[n] = total */
static size_t t1_write(const struct t1frame *f, int e, const int *sc, uint8_t *out, size_t *off)
{
    size_t o = 0;
    for (int i = 0; i < f->n; i++) {
        off[i] = o;
        int h = enc_hdr(e, sc ? sc[i] : 4);
        if (e == 0) {
            memset(out + o, 0, h);
            out[o + h - 1] = 1;
        } else
            for (int k = 0; k < h; k++)
                out[o + k] = (uint8_t)(f->sz[i] >> (8 * (h - 1 - k)));
        o += h;
        t1_payload(out + o, f->sz[i], i);
        o += f->sz[i];
    }
    off[f->n] = o;
    return o;
}

struct t1case {
    struct t1frame f;
    int a, b;       /* indexes in t1_enc */
    int scmask;     /* bit i set: NAL i has a 3-octet start code (a = Annex B only) */
    int ncut;
    size_t cut[2];
    int vcl;        /* 0: no header size attribute, else index of the first VCL NAL */
};

static void t1_id(const struct t1case *c, char *id, size_t n)
{
    int o = snprintf(id, n, "t1/n=%d/sz=", c->f.n);
    for (int i = 0; i < c->f.n; i++)
        o += snprintf(id + o, n - o, "%s%zu", i ? "," : "", c->f.sz[i]);
    o += snprintf(id + o, n - o, "/a=%d/b=%d/sc=%d/vcl=%d/cuts=", c->a, c->b, c->scmask, c->vcl);
    for (int i = 0; i < c->ncut; i++)
        o += snprintf(id + o, n - o, "%s%zu", i ? "," : "", c->cut[i]);
    if (!c->ncut)
        o += snprintf(id + o, n - o, "-");
    if (c->f.pv)
        snprintf(id + o, n - o, "/pv=%d", c->f.pv);
}

static struct px_fix t1_fx;
static uint8_t *t1_in, *t1_exp, *t1_got;
#define T1_BUF (3 * 65536 + 64)

/* reads the whole block + the NAL offset attributes of a uref */
static bool t1_read(struct uref *u, uint8_t *buf, size_t *n, uint64_t *noff, int *nnoff)
{
    size_t size;
    if (!ubase_check(uref_block_size(u, &size)) || size > T1_BUF)
        return false;
    if (size && !ubase_check(uref_block_extract(u, 0, -1, buf)))
        return false;
    *n = size;
    *nnoff = 0;
    uint64_t v;
    while (*nnoff < 8 && ubase_check(uref_h26x_get_nal_offset(u, &v, *nnoff)))
        noff[(*nnoff)++] = v;
    if (g_verbose) {
        char hx[200];
        hex(hx, sizeof(hx), buf, size, 48);
        printf("NOTE   read %zu octets %s, NAL offsets:", size, hx);
        for (int i = 0; i < *nnoff; i++)
            printf(" %" PRIu64, noff[i]);
        printf("\n");
    }
    return true;
}

/* reference parser: cuts `buf` at the offset attributes and strips the
 * encapsulation e of every piece; compares payloads with the frame.
 * Also walks the octets without the attributes where the encapsulation
 * allows it. Returns NULL if fine. */
static const char *t1_parse_check(const struct t1frame *f, int e, const uint8_t *buf, size_t n, const uint64_t *noff, int nnoff, char *why, size_t whyn)
{
    if (nnoff != f->n - 1) {
        snprintf(why, whyn, "%d NAL offset attribute(s) on the output, the frame has %d NAL units (so %d expected)", nnoff, f->n, f->n - 1);
        return "nal-offset-count";
    }
    size_t start = 0;
    static uint8_t pl[65536 + 8];
    for (int i = 0; i < f->n; i++) {
        size_t end = i < f->n - 1 ? noff[i] : n;
        if (end <= start || end > n) {
            snprintf(why, whyn, "NAL offset attribute %d = %zu is not inside the output (previous NAL starts at %zu, %zu octets)", i, end, start, n);
            return "nal-offset-range";
        }
        const uint8_t *p = buf + start;
        size_t len = end - start, h;
        if (e == 0) {
            if (len >= 3 && p[0] == 0 && p[1] == 0 && p[2] == 1)
                h = 3;
            else if (len >= 4 && p[0] == 0 && p[1] == 0 && p[2] == 0 && p[3] == 1)
                h = 4;
            else {
                snprintf(why, whyn, "NAL %d of the Annex B output (offset %zu) does not begin with a start code: %02x %02x %02x %02x", i, start, p[0],
                         len > 1 ? p[1] : 0, len > 2 ? p[2] : 0, len > 3 ? p[3] : 0);
                return "no-start-code";
            }
        } else if (e == 1)
            h = 0;
        else {
            h = enc_hdr(e, 0);
            if (len < h) {
                snprintf(why, whyn, "NAL %d at offset %zu is shorter than its length prefix", i, start);
                return "length-prefix";
            }
            size_t v = 0;
            for (size_t k = 0; k < h; k++)
                v = v << 8 | p[k];
            if (v != len - h) {
                snprintf(why, whyn, "NAL %d: length prefix says %zu, NAL offset attributes say %zu", i, v, len - h);
                return "length-prefix";
            }
        }
        t1_payload(pl, f->sz[i], i);
        if (len - h != f->sz[i] || memcmp(p + h, pl, f->sz[i])) {
            size_t d = 0;
            while (d < f->sz[i] && d < len - h && p[h + d] == pl[d])
                d++;
            snprintf(why, whyn, "payload of NAL %d changed: %zu octets (was %zu), first difference at octet %zu", i, len - h, f->sz[i], d);
            return "payload-changed";
        }
        start = end;
    }
    return NULL;
}

/* NAL offset attributes against the offsets of the reference writer */
static const char *t1_attr_check(const struct t1frame *f, const size_t *off, const uint64_t *noff, int nnoff, char *why, size_t whyn)
{
    if (nnoff != f->n - 1) {
        snprintf(why, whyn, "%d NAL offset attribute(s) on the output, the frame has %d NAL units (so %d expected)", nnoff, f->n, f->n - 1);
        return "nal-offset-count";
    }
    for (int i = 1; i < f->n; i++)
        if (noff[i - 1] != off[i]) {
            snprintf(why, whyn, "NAL offset attribute h26x.n[%d] is %" PRIu64 " while NAL %d starts at octet %zu of the output", i - 1, noff[i - 1], i, off[i]);
            return "nal-offset-wrong";
        }
    return NULL;
}

static void t1_run(const struct t1case *c)
{
    char id[256];
    t1_id(c, id, sizeof(id));
    case_begin(id);
    const struct t1frame *f = &c->f;
    int sc[3];
    for (int i = 0; i < 3; i++)
        sc[i] = (c->scmask >> i) & 1 ? 3 : 4;
    size_t off_in[4], off_exp[4];
    size_t n_in = t1_write(f, c->a, sc, t1_in, off_in);
    bool fits = true;
    for (int i = 0; i < f->n; i++)
        fits &= enc_fits(c->b, f->sz[i]);

    int live0 = t1_fx.cumem.nlive, ulive0 = t1_fx.pxu.nlive;
    struct ubuf *ubuf = mk_block(&t1_fx, t1_in, n_in, c->cut, c->ncut);
    assert(ubuf);
    struct uref *u = uref_alloc(t1_fx.uref_mgr);
    assert(u);
    uref_attach_ubuf(u, ubuf);
    for (int i = 1; i < f->n; i++)
        ubase_assert(uref_h26x_set_nal_offset(u, off_in[i], i - 1));
    if (c->vcl)
        ubase_assert(uref_block_set_header_size(u, off_in[c->vcl]));
    struct uref *keep = uref_dup(u);
    assert(keep);
    struct ubuf *annexb = upipe_h26xf_alloc_annexb(t1_fx.ubuf_mgr);
    assert(annexb);

    char sigb[160], why[400];
#define T1_VIOL(kind_, ...)                                                    \
    do {                                                                       \
        snprintf(sigb, sizeof(sigb), "t1:%s:%s", kind_, c->a == c->b ? "same" : "convert"); \
        viol(sigb, id, __VA_ARGS__);                                           \
    } while (0)

    int err = upipe_h26xf_convert_frame(u, t1_enc[c->a], t1_enc[c->b], t1_fx.ubuf_mgr, annexb);
    G->executions++;
    G->transitions++;
    size_t n_got;
    uint64_t noff[8];
    int nnoff;
    if (!fits && c->a != c->b) {
        if (ubase_check(err))
            T1_VIOL("oversize-accepted", "%s -> %s returned success although a NAL unit of the frame does not fit a %d-octet length prefix",
                    t1_enc_name[c->a], t1_enc_name[c->b], enc_hdr(c->b, 0));
        else {
            G->nontrivial++;
            /* the frame must still be a readable block */
            if (!t1_read(u, t1_got, &n_got, noff, &nnoff))
                T1_VIOL("unreadable-after-error", "after the refused conversion the buffer can no longer be read");
        }
    } else if (!ubase_check(err)) {
        T1_VIOL("error-returned", "%s -> %s returned error %d for a frame that is representable in both encapsulations", t1_enc_name[c->a],
                t1_enc_name[c->b], err);
    } else {
        if (c->a != c->b)
            G->nontrivial++;
        /* expected: same NAL units written by the reference writer in b (4-octet start codes), unless a == b */
        size_t n_exp = t1_write(f, c->b, c->a == c->b ? sc : NULL, t1_exp, off_exp);
        if (!t1_read(u, t1_got, &n_got, noff, &nnoff))
            T1_VIOL("unreadable", "output cannot be read");
        else {
            const char *k;
            if (n_got != n_exp || memcmp(t1_got, t1_exp, n_exp)) {
                size_t d = 0;
                while (d < n_got && d < n_exp && t1_got[d] == t1_exp[d])
                    d++;
                T1_VIOL("bytes-differ", "%s -> %s: output is %zu octets, reference writer gives %zu; first difference at octet %zu", t1_enc_name[c->a],
                        t1_enc_name[c->b], n_got, n_exp, d);
            } else if ((k = t1_attr_check(f, off_exp, noff, nnoff, why, sizeof(why))) != NULL)
                T1_VIOL(k, "%s -> %s: octets are right (%zu), but %s", t1_enc_name[c->a], t1_enc_name[c->b], n_got, why);
            else if ((k = t1_parse_check(f, c->b, t1_got, n_got, noff, nnoff, why, sizeof(why))) != NULL)
                T1_VIOL(k, "%s -> %s: %s", t1_enc_name[c->a], t1_enc_name[c->b], why);
            if (c->vcl) {
                uint64_t hs = UINT64_MAX;
                uref_block_get_header_size(u, &hs);
                if (hs != off_exp[c->vcl]) {
                    if (g_strict_header)
                        T1_VIOL("header-size-wrong", "%s -> %s: b.header is %" PRIu64 " after conversion, the first VCL NAL (index %d) now starts at %zu (was %zu)",
                                t1_enc_name[c->a], t1_enc_name[c->b], hs, c->vcl, off_exp[c->vcl], off_in[c->vcl]);
                    if (G->info_hdr_mismatch++ == 0)
                        snprintf(G->info_hdr_first, sizeof(G->info_hdr_first), "%s: %s -> %s, b.header %zu -> %" PRIu64 ", first VCL NAL (index %d) now at %zu", id,
                                 t1_enc_name[c->a], t1_enc_name[c->b], off_in[c->vcl], hs, c->vcl, off_exp[c->vcl]);
                }
            }
        }
        /* and back; the offsets are first set to what the reference writer says, so
         * that a wrong attribute (reported above) does not hide the second conversion */
        if (c->a != c->b) {
            t1_write(f, c->b, NULL, t1_exp, off_exp);
            for (int i = 1; i < f->n; i++)
                ubase_assert(uref_h26x_set_nal_offset(u, off_exp[i], i - 1));
            if (c->vcl)
                ubase_assert(uref_block_set_header_size(u, off_exp[c->vcl]));
            err = upipe_h26xf_convert_frame(u, t1_enc[c->b], t1_enc[c->a], t1_fx.ubuf_mgr, annexb);
            G->executions++;
            G->transitions++;
            if (!ubase_check(err))
                T1_VIOL("roundtrip-error", "%s -> %s -> %s: the way back returned error %d", t1_enc_name[c->a], t1_enc_name[c->b], t1_enc_name[c->a], err);
            else if (!t1_read(u, t1_got, &n_got, noff, &nnoff))
                T1_VIOL("unreadable", "round trip output cannot be read");
            else {
                /* identical octets when the input used 4-octet start codes or length prefixes;
                 * with 3-octet start codes the same NAL units behind 4-octet ones */
                n_exp = t1_write(f, c->a, NULL, t1_exp, off_exp);
                bool ident = c->a != 0 || (c->scmask & ((1 << f->n) - 1)) == 0;
                if (ident && (n_exp != n_in || memcmp(t1_exp, t1_in, n_in)))
                    abort(); /* harness self check */
                const char *k;
                if (n_got != n_exp || memcmp(t1_got, t1_exp, n_exp)) {
                    size_t d = 0;
                    while (d < n_got && d < n_exp && t1_got[d] == t1_exp[d])
                        d++;
                    T1_VIOL("roundtrip-differs", "%s -> %s -> %s: %zu octets instead of %zu, first difference at octet %zu%s", t1_enc_name[c->a],
                            t1_enc_name[c->b], t1_enc_name[c->a], n_got, n_exp, d, ident ? " (input must be reproduced exactly)" : "");
                } else if ((k = t1_attr_check(f, off_exp, noff, nnoff, why, sizeof(why))) != NULL)
                    T1_VIOL(k, "%s -> %s -> %s (way back): octets are right, but %s", t1_enc_name[c->a], t1_enc_name[c->b], t1_enc_name[c->a], why);
                else if ((k = t1_parse_check(f, c->a, t1_got, n_got, noff, nnoff, why, sizeof(why))) != NULL)
                    T1_VIOL(k, "%s -> %s -> %s (round trip): %s", t1_enc_name[c->a], t1_enc_name[c->b], t1_enc_name[c->a], why);
            }
        }
    }
    /* the copy taken before must not have been touched (shared buffers) */
    uint64_t knoff[8];
    int knn;
    if (!t1_read(keep, t1_got, &n_got, knoff, &knn) || n_got != n_in || memcmp(t1_got, t1_in, n_in))
        T1_VIOL("shared-copy-modified", "a uref_dup() of the frame taken before the conversion no longer holds the original octets");
    else
        for (int i = 1; i < f->n; i++)
            if (knn != f->n - 1 || knoff[i - 1] != off_in[i]) {
                T1_VIOL("shared-copy-modified", "a uref_dup() of the frame taken before the conversion lost its NAL offset attributes");
                break;
            }
    ubuf_free(annexb);
    uref_free(keep);
    uref_free(u);
    if (t1_fx.cumem.nlive != live0 || t1_fx.pxu.nlive != ulive0)
        T1_VIOL("end:leak", "%d memory area(s) / %d uref(s) still allocated after the frame was released", t1_fx.cumem.nlive - live0,
                t1_fx.pxu.nlive - ulive0);
#undef T1_VIOL
}

/* candidate cut positions: around every NAL start and in the middle of every payload */
static int t1_cands(const struct t1case *c, size_t *cand)
{
    int sc[3];
    for (int i = 0; i < 3; i++)
        sc[i] = (c->scmask >> i) & 1 ? 3 : 4;
    size_t off[4];
    static uint8_t *scratch;
    if (!scratch)
        scratch = malloc(T1_BUF);
    size_t n = t1_write(&c->f, c->a, sc, scratch, off);
    int nc = 0;
    for (int i = 0; i < c->f.n; i++) {
        for (int d = -1; d <= 5; d++) {
            long p = (long)off[i] + d;
            if (p > 0 && (size_t)p < n)
                cand[nc++] = p;
        }
        size_t mid = off[i] + (off[i + 1] - off[i]) / 2 + 3;
        if (mid > 0 && mid < n)
            cand[nc++] = mid;
    }
    /* sort + unique */
    for (int i = 1; i < nc; i++)
        for (int j = i; j > 0 && cand[j - 1] > cand[j]; j--) {
            size_t t = cand[j];
            cand[j] = cand[j - 1];
            cand[j - 1] = t;
        }
    int m = 0;
    for (int i = 0; i < nc; i++)
        if (m == 0 || cand[m - 1] != cand[i])
            cand[m++] = cand[i];
    return m;
}

static void t1_frame(const struct t1frame *f)
{
    for (int a = 0; a < 5; a++) {
        bool rep = true;
        for (int i = 0; i < f->n; i++)
            rep &= enc_fits(a, f->sz[i]);
        if (!rep)
            continue; /* the input cannot be written in this encapsulation */
        for (int scmask = 0; scmask < (a == 0 ? 1 << f->n : 1); scmask++)
            for (int b = 0; b < 5; b++) {
                struct t1case c = {*f, a, b, scmask, 0, {0, 0}, 0};
                for (int vcl = 0; vcl < f->n; vcl++) { /* unsegmented: every position of the first VCL NAL */
                    if (!g_thorough && vcl != f->n - 1)
                        continue;
                    c.vcl = vcl;
                    if (case_selected())
                        t1_run(&c);
                }
                c.vcl = f->n - 1;
                size_t cand[40];
                int nc = t1_cands(&c, cand);
                for (int i = 0; i < nc; i++) {
                    c.ncut = 1;
                    c.cut[0] = cand[i];
                    if (case_selected())
                        t1_run(&c);
                }
                if (g_thorough)
                    for (int i = 0; i < nc; i++)
                        for (int j = i + 1; j < nc; j++) {
                            c.ncut = 2;
                            c.cut[0] = cand[i];
                            c.cut[1] = cand[j];
                            if (case_selected())
                                t1_run(&c);
                        }
                if (deadline_hit())
                    return;
            }
    }
}

static void t1_alloc(void)
{
    fix_init(&t1_fx);
    t1_in = malloc(T1_BUF);
    t1_exp = malloc(T1_BUF);
    t1_got = malloc(T1_BUF);
}

static void t1_main(void)
{
    static const size_t sz_q[] = {1, 2, 255, 256}, sz_t[] = {1, 2, 255, 256, 65535, 65536};
    const size_t *sz = g_thorough ? sz_t : sz_q;
    int ns = g_thorough ? 6 : 4;
    t1_alloc();
    for (int n = 1; n <= 3 && !deadline_hit(); n++) {
        int tot = 1;
        for (int i = 0; i < n; i++)
            tot *= ns;
        for (int k = 0; k < tot && !deadline_hit(); k++) {
            struct t1frame f = {n, {0, 0, 0}, 0};
            int r = k;
            for (int i = 0; i < n; i++) {
                f.sz[i] = sz[r % ns];
                r /= ns;
            }
            t1_frame(&f);
            /* content variants on the small sizes (and on everything in the thorough tier) */
            bool small = true;
            for (int i = 0; i < n; i++)
                small &= f.sz[i] <= 2;
            if (small || g_thorough)
                for (f.pv = 1; f.pv <= 2; f.pv++)
                    t1_frame(&f);
        }
    }
    if (!g_thorough && !deadline_hit()) {
        struct t1frame f = {3, {1, 65536, 2}, 0};
        t1_frame(&f);
    }
    char sig[64];
    const char *m = fix_fini(&t1_fx, sig, sizeof(sig));
    if (m && strcmp(sig, "end:umem-leaked")) /* leaks are reported by the case that caused them */
        {
        char sg[96];
        snprintf(sg, sizeof(sg), "t1:%s", sig);
        viol(sg, "-", "%s", m);
    }
}

static bool t1_replay(const char *id)
{
    struct t1case c;
    memset(&c, 0, sizeof(c));
    char szs[64] = "", cuts[64] = "";
    if (sscanf(id, "t1/n=%d/sz=%63[0-9,]/a=%d/b=%d/sc=%d/vcl=%d/cuts=%63s", &c.f.n, szs, &c.a, &c.b, &c.scmask, &c.vcl, cuts) < 7)
        return false;
    if (c.f.n < 1 || c.f.n > 3 || c.a < 0 || c.a > 4 || c.b < 0 || c.b > 4)
        return false;
    sscanf(szs, "%zu,%zu,%zu", &c.f.sz[0], &c.f.sz[1], &c.f.sz[2]);
    for (int i = 0; i < c.f.n; i++)
        if (c.f.sz[i] < 1 || c.f.sz[i] > 65536)
            return false;
    char *pvs = strstr(cuts, "/pv=");
    if (pvs) {
        c.f.pv = atoi(pvs + 4);
        *pvs = 0;
        if (c.f.pv < 0 || c.f.pv > 2)
            return false;
    }
    if (cuts[0] != '-')
        c.ncut = sscanf(cuts, "%zu,%zu", &c.cut[0], &c.cut[1]);
    t1_alloc();
    printf("NOTE frame of %d NAL unit(s), %s -> %s\n", c.f.n, t1_enc_name[c.a], t1_enc_name[c.b]);
    t1_run(&c);
    char sig[64];
    fix_fini(&t1_fx, sig, sizeof(sig));
    return true;
}

/* ================================================================== */
/* T3 / T4: the framers                                                  */
/* ================================================================== */

/* ---- reference Annex B splitter (H.264 annex B / H.265 annex B): a NAL
 * starts at the zero_byte preceding 00 00 01 if there is one ---- */
struct nalref {
    size_t start, hdr, end; /* start of start code, offset of NAL header, end (= next start) */
};
static int annexb_split(const uint8_t *p, size_t n, struct nalref *out, int max)
{
    int k = 0;
    for (size_t i = 0; i + 2 < n; i++)
        if (p[i] == 0 && p[i + 1] == 0 && p[i + 2] == 1) {
            size_t st = (i > 0 && p[i - 1] == 0) ? i - 1 : i;
            if (k > 0)
                out[k - 1].end = st;
            if (k < max) {
                out[k].start = st;
                out[k].hdr = i + 3;
                out[k].end = n;
                k++;
            }
            i += 2;
        }
    return k;
}

/* ---- test streams ---- */
#define MAXNAL 64
#define MAXAU 16
struct stream {
    const char *name;
    int codec; /* 264 / 265 */
    uint8_t *b;
    size_t n;
    int nau;
    size_t au_start[MAXAU + 1];
    bool au_random[MAXAU], au_key[MAXAU];
    int nnal;
    struct nalref nal[MAXNAL];
    /* parameter set payloads seen in the stream (without start code) */
    int nps;
    const uint8_t *ps[16];
    size_t ps_n[16];
};
#define NSTREAMS 3
static struct stream g_streams[NSTREAMS];

struct sb {
    uint8_t b[8192];
    size_t n;
};
static void sb_nal(struct sb *s, int sc, const uint8_t *nal, size_t n)
{
    assert(s->n + n + 4 <= sizeof(s->b));
    if (sc == 4)
        s->b[s->n++] = 0;
    s->b[s->n++] = 0;
    s->b[s->n++] = 0;
    s->b[s->n++] = 1;
    memcpy(s->b + s->n, nal, n);
    s->n += n;
}
/* header octets + escaped RBSP */
static size_t mk_nal(uint8_t *out, const uint8_t *hdr, int hn, struct bw *w)
{
    memcpy(out, hdr, hn);
    return hn + ep_encode(w->b, bw_bytes(w), out + hn);
}
static void stream_finish(struct stream *st, struct sb *s)
{
    st->b = malloc(s->n);
    memcpy(st->b, s->b, s->n);
    st->n = s->n;
    st->au_start[st->nau] = s->n;
    st->nnal = annexb_split(st->b, st->n, st->nal, MAXNAL);
    st->nps = 0;
    for (int i = 0; i < st->nnal; i++) {
        uint8_t h = st->b[st->nal[i].hdr];
        int t = st->codec == 264 ? h & 0x1f : (h >> 1) & 0x3f;
        bool ps = st->codec == 264 ? (t == 7 || t == 8) : (t >= 32 && t <= 34);
        if (ps && st->nps < 16) {
            st->ps[st->nps] = st->b + st->nal[i].hdr;
            st->ps_n[st->nps++] = st->nal[i].end - st->nal[i].hdr;
        }
    }
}
static void au_begin(struct stream *st, struct sb *s, bool random, bool key)
{
    st->au_start[st->nau] = s->n;
    st->au_random[st->nau] = random;
    st->au_key[st->nau] = key;
    st->nau++;
}

/* H.264 stream 0: the recorded stream of tests/upipe_h264_framer_test.h, three times */
static void build_h264_recorded(struct stream *st)
{
    static struct sb s;
    s.n = 0;
    st->name = "h264-recorded-x3";
    st->codec = 264;
    for (int i = 0; i < 3; i++) {
        au_begin(st, &s, true, true);
        memcpy(s.b + s.n, h264_headers, sizeof(h264_headers));
        s.n += sizeof(h264_headers);
        memcpy(s.b + s.n, h264_pic, sizeof(h264_pic));
        s.n += sizeof(h264_pic);
    }
    stream_finish(st, &s);
}

/* H.264 stream 1: compact stream made of the NAL units of the recorded stream
 * (slice cut short: the framer only reads slice headers) plus access unit
 * delimiters and hand-written non-IDR slice headers */
static void build_h264_compact(struct stream *st)
{
    static struct sb s;
    s.n = 0;
    st->name = "h264-compact";
    st->codec = 264;
    struct nalref hn[8], pn[8];
    int nh = annexb_split(h264_headers, sizeof(h264_headers), hn, 8);
    int np = annexb_split(h264_pic, sizeof(h264_pic), pn, 8);
    assert(nh == 3 && np == 4);
    const uint8_t *sps = h264_headers + hn[0].hdr, *pps = h264_headers + hn[1].hdr;
    size_t sps_n = hn[0].end - hn[0].hdr, pps_n = hn[1].end - hn[1].hdr;
    const uint8_t *seibp = h264_pic + pn[0].hdr, *seipt = h264_pic + pn[1].hdr, *idr = h264_pic + pn[2].hdr, *endstr = h264_pic + pn[3].hdr;
    size_t seibp_n = pn[0].end - pn[0].hdr, seipt_n = pn[1].end - pn[1].hdr, endstr_n = pn[3].end - pn[3].hdr;
    assert((sps[0] & 0x1f) == 7 && (pps[0] & 0x1f) == 8 && (idr[0] & 0x1f) == 5 && (endstr[0] & 0x1f) == 11 && seibp[0] == 6 && seipt[0] == 6);
    size_t idr_n = 24;
    while (idr[idr_n - 1] == 0)
        idr_n++;
    static const uint8_t aud[2] = {0x09, 0x10};
    /* non-IDR slice: first_mb ue(0), slice_type ue(5), pps_id ue(0), frame_num u(4),
     * field_pic_flag u(1), pic_order_cnt_lsb u(4), then arbitrary bits */
    uint8_t p[3][16];
    size_t p_n[3];
    for (int k = 0; k < 3; k++) {
        struct bw w;
        bw_init(&w);
        bw_ue(&w, 0);
        bw_ue(&w, 5);
        bw_ue(&w, 0);
        bw_put(&w, k + 1, 4);
        bw_put(&w, 0, 1);
        bw_put(&w, 2 * (k + 1), 4);
        bw_put(&w, 0xb6d5 + k, 16);
        bw_put(&w, 0x9a, 8);
        bw_trailing(&w);
        static const uint8_t h[1] = {0x41};
        p_n[k] = mk_nal(p[k], h, 1, &w);
    }
    au_begin(st, &s, true, true);
    sb_nal(&s, 4, sps, sps_n);
    sb_nal(&s, 4, pps, pps_n);
    sb_nal(&s, 4, seibp, seibp_n);
    sb_nal(&s, 3, seipt, seipt_n);
    sb_nal(&s, 3, idr, idr_n);
    au_begin(st, &s, false, false);
    sb_nal(&s, 4, aud, 2);
    sb_nal(&s, 3, p[0], p_n[0]);
    au_begin(st, &s, false, false);
    sb_nal(&s, 4, p[1], p_n[1]);
    au_begin(st, &s, true, true);
    sb_nal(&s, 4, aud, 2);
    sb_nal(&s, 4, sps, sps_n);
    sb_nal(&s, 4, pps, pps_n);
    sb_nal(&s, 3, seipt, seipt_n);
    sb_nal(&s, 3, idr, idr_n);
    sb_nal(&s, 3, idr, idr_n);
    sb_nal(&s, 4, endstr, endstr_n);
    au_begin(st, &s, false, false);
    sb_nal(&s, 4, aud, 2);
    sb_nal(&s, 3, p[2], p_n[2]);
    stream_finish(st, &s);
}

/* H.265 stream: written from ITU-T H.265 7.3 (VPS, SPS with VUI, PPS, AUD, SEI,
 * slice segment headers followed by arbitrary slice data) */
static void h265_ptl(struct bw *w)
{
    bw_put(w, 0, 2);          /* general_profile_space */
    bw_put(w, 0, 1);          /* general_tier_flag */
    bw_put(w, 1, 5);          /* general_profile_idc: Main */
    bw_put(w, 0x60000000, 32); /* general_profile_compatibility_flag[] */
    bw_put(w, 1, 1);          /* general_progressive_source_flag */
    bw_put(w, 0, 1);          /* general_interlaced_source_flag */
    bw_put(w, 0, 1);          /* general_non_packed_constraint_flag */
    bw_put(w, 1, 1);          /* general_frame_only_constraint_flag */
    bw_put(w, 0, 44);         /* reserved */
    bw_put(w, 93, 8);         /* general_level_idc 3.1 */
}
static void build_h265(struct stream *st)
{
    static struct sb s;
    s.n = 0;
    st->name = "h265-synthetic";
    st->codec = 265;
    struct bw w;
    uint8_t vps[64], sps[96], pps[32], sei[16], sufsei[16], aud_i[8], aud_p[8], idr0[32], idr1[32], tr[3][32], cra[32];
    size_t vps_n, sps_n, pps_n, sei_n, sufsei_n, aud_n, idr0_n, idr1_n, tr_n[3], cra_n;
    static const uint8_t h_vps[2] = {0x40, 0x01}, h_sps[2] = {0x42, 0x01}, h_pps[2] = {0x44, 0x01}, h_aud[2] = {0x46, 0x01}, h_sei[2] = {0x4e, 0x01},
                         h_sufsei[2] = {0x50, 0x01}, h_idr[2] = {0x26, 0x01}, h_trail_r[2] = {0x02, 0x01}, h_trail_n[2] = {0x00, 0x01},
                         h_cra[2] = {0x2a, 0x01};
    /* video_parameter_set_rbsp */
    bw_init(&w);
    bw_put(&w, 0, 4);  /* vps_video_parameter_set_id */
    bw_put(&w, 3, 2);  /* base_layer_internal / available */
    bw_put(&w, 0, 6);  /* vps_max_layers_minus1 */
    bw_put(&w, 0, 3);  /* vps_max_sub_layers_minus1 */
    bw_put(&w, 1, 1);  /* vps_temporal_id_nesting_flag */
    bw_put(&w, 0xffff, 16);
    h265_ptl(&w);
    bw_put(&w, 1, 1);  /* vps_sub_layer_ordering_info_present_flag */
    bw_ue(&w, 2);
    bw_ue(&w, 0);
    bw_ue(&w, 0);
    bw_put(&w, 0, 6);  /* vps_max_layer_id */
    bw_ue(&w, 0);      /* vps_num_layer_sets_minus1 */
    bw_put(&w, 0, 1);  /* vps_timing_info_present_flag */
    bw_put(&w, 0, 1);  /* vps_extension_flag */
    bw_trailing(&w);
    vps_n = mk_nal(vps, h_vps, 2, &w);
    /* seq_parameter_set_rbsp */
    bw_init(&w);
    bw_put(&w, 0, 4);  /* sps_video_parameter_set_id */
    bw_put(&w, 0, 3);  /* sps_max_sub_layers_minus1 */
    bw_put(&w, 1, 1);  /* sps_temporal_id_nesting_flag */
    h265_ptl(&w);
    bw_ue(&w, 0);      /* sps_seq_parameter_set_id */
    bw_ue(&w, 1);      /* chroma_format_idc */
    bw_ue(&w, 64);     /* pic_width_in_luma_samples */
    bw_ue(&w, 48);     /* pic_height_in_luma_samples */
    bw_put(&w, 0, 1);  /* conformance_window_flag */
    bw_ue(&w, 0);      /* bit_depth_luma_minus8 */
    bw_ue(&w, 0);      /* bit_depth_chroma_minus8 */
    bw_ue(&w, 4);      /* log2_max_pic_order_cnt_lsb_minus4 */
    bw_put(&w, 1, 1);  /* sps_sub_layer_ordering_info_present_flag */
    bw_ue(&w, 2);
    bw_ue(&w, 0);
    bw_ue(&w, 0);
    bw_ue(&w, 0);      /* log2_min_luma_coding_block_size_minus3 */
    bw_ue(&w, 1);
    bw_ue(&w, 0);
    bw_ue(&w, 1);
    bw_ue(&w, 1);
    bw_ue(&w, 1);
    bw_put(&w, 0, 1);  /* scaling_list_enabled_flag */
    bw_put(&w, 0, 1);  /* amp_enabled_flag */
    bw_put(&w, 1, 1);  /* sample_adaptive_offset_enabled_flag */
    bw_put(&w, 0, 1);  /* pcm_enabled_flag */
    bw_ue(&w, 2);      /* num_short_term_ref_pic_sets */
    bw_ue(&w, 1);      /* set 0: num_negative_pics */
    bw_ue(&w, 0);      /* num_positive_pics */
    bw_ue(&w, 0);
    bw_put(&w, 1, 1);
    bw_put(&w, 0, 1);  /* set 1: inter_ref_pic_set_prediction_flag */
    bw_ue(&w, 2);
    bw_ue(&w, 0);
    bw_ue(&w, 0);
    bw_put(&w, 1, 1);
    bw_ue(&w, 0);
    bw_put(&w, 1, 1);
    bw_put(&w, 0, 1);  /* long_term_ref_pics_present_flag */
    bw_put(&w, 1, 1);  /* sps_temporal_mvp_enabled_flag */
    bw_put(&w, 1, 1);  /* strong_intra_smoothing_enabled_flag */
    bw_put(&w, 1, 1);  /* vui_parameters_present_flag */
    bw_put(&w, 1, 1);  /* aspect_ratio_info_present_flag */
    bw_put(&w, 1, 8);  /* aspect_ratio_idc */
    bw_put(&w, 0, 1);  /* overscan_info_present_flag */
    bw_put(&w, 1, 1);  /* video_signal_type_present_flag */
    bw_put(&w, 5, 3);
    bw_put(&w, 0, 1);
    bw_put(&w, 1, 1);  /* colour_description_present_flag */
    bw_put(&w, 1, 8);
    bw_put(&w, 1, 8);
    bw_put(&w, 1, 8);
    bw_put(&w, 0, 1);  /* chroma_loc_info_present_flag */
    bw_put(&w, 0, 1);  /* neutral_chroma_indication_flag */
    bw_put(&w, 0, 1);  /* field_seq_flag */
    bw_put(&w, 1, 1);  /* frame_field_info_present_flag */
    bw_put(&w, 0, 1);  /* default_display_window_flag */
    bw_put(&w, 1, 1);  /* vui_timing_info_present_flag */
    bw_put(&w, 1, 32); /* vui_num_units_in_tick */
    bw_put(&w, 25, 32); /* vui_time_scale */
    bw_put(&w, 0, 1);  /* vui_poc_proportional_to_timing_flag */
    bw_put(&w, 0, 1);  /* vui_hrd_parameters_present_flag */
    bw_put(&w, 0, 1);  /* bitstream_restriction_flag */
    bw_put(&w, 0, 1);  /* sps_extension_present_flag */
    bw_trailing(&w);
    sps_n = mk_nal(sps, h_sps, 2, &w);
    /* pic_parameter_set_rbsp */
    bw_init(&w);
    bw_ue(&w, 0);
    bw_ue(&w, 0);
    bw_put(&w, 0, 1);  /* dependent_slice_segments_enabled_flag */
    bw_put(&w, 0, 1);  /* output_flag_present_flag */
    bw_put(&w, 0, 3);  /* num_extra_slice_header_bits */
    bw_put(&w, 0, 1);
    bw_put(&w, 0, 1);
    bw_ue(&w, 0);
    bw_ue(&w, 0);
    bw_se(&w, 0);
    bw_put(&w, 0, 1);
    bw_put(&w, 0, 1);
    bw_put(&w, 0, 1);
    bw_se(&w, 0);
    bw_se(&w, 0);
    bw_put(&w, 0, 1);
    bw_put(&w, 0, 1);
    bw_put(&w, 0, 1);
    bw_put(&w, 0, 1);
    bw_put(&w, 0, 1);
    bw_put(&w, 0, 1);
    bw_put(&w, 1, 1);  /* pps_loop_filter_across_slices_enabled_flag */
    bw_put(&w, 0, 1);
    bw_put(&w, 0, 1);
    bw_put(&w, 0, 1);
    bw_ue(&w, 0);
    bw_put(&w, 0, 1);
    bw_put(&w, 0, 1);
    bw_trailing(&w);
    pps_n = mk_nal(pps, h_pps, 2, &w);
    /* access unit delimiters */
    bw_init(&w);
    bw_put(&w, 0, 3);
    bw_trailing(&w);
    aud_n = mk_nal(aud_i, h_aud, 2, &w);
    bw_init(&w);
    bw_put(&w, 1, 3);
    bw_trailing(&w);
    mk_nal(aud_p, h_aud, 2, &w);
    /* prefix SEI: pic_timing (payloadType 1, 1 octet): pic_struct u(4)=0, source_scan_type u(2)=1, duplicate_flag u(1)=0, alignment */
    bw_init(&w);
    bw_put(&w, 1, 8);
    bw_put(&w, 1, 8);
    bw_put(&w, 0, 4);
    bw_put(&w, 1, 2);
    bw_put(&w, 0, 1);
    bw_put(&w, 1, 1);
    bw_trailing(&w);
    sei_n = mk_nal(sei, h_sei, 2, &w);
    /* suffix SEI: decoded picture hash (132), 1 + 2 octets of CRC for one plane (shortened, not interpreted by the framer) */
    bw_init(&w);
    bw_put(&w, 132, 8);
    bw_put(&w, 3, 8);
    bw_put(&w, 1, 8);
    bw_put(&w, 0xc3a9, 16);
    bw_trailing(&w);
    sufsei_n = mk_nal(sufsei, h_sufsei, 2, &w);
    /* IDR slice segments */
    bw_init(&w);
    bw_put(&w, 1, 1);  /* first_slice_segment_in_pic_flag */
    bw_put(&w, 0, 1);  /* no_output_of_prior_pics_flag */
    bw_ue(&w, 0);      /* slice_pic_parameter_set_id */
    bw_ue(&w, 2);      /* slice_type I */
    bw_put(&w, 0xd6b5ad, 24);
    bw_put(&w, 0x95, 8);
    bw_trailing(&w);
    idr0_n = mk_nal(idr0, h_idr, 2, &w);
    bw_init(&w);
    bw_put(&w, 0, 1);
    bw_put(&w, 0, 1);
    bw_ue(&w, 0);
    bw_put(&w, 1, 2);  /* slice_segment_address (2 bits for 2x? CTBs: any value) */
    bw_ue(&w, 2);
    bw_put(&w, 0xb5d6ab, 24);
    bw_trailing(&w);
    idr1_n = mk_nal(idr1, h_idr, 2, &w);
    /* trailing pictures */
    for (int k = 0; k < 3; k++) {
        bw_init(&w);
        bw_put(&w, 1, 1);
        bw_ue(&w, 0);
        bw_ue(&w, k == 2 ? 0 : 1); /* B / P */
        bw_put(&w, k + 1, 8);      /* slice_pic_order_cnt_lsb */
        bw_put(&w, 1, 1);          /* short_term_ref_pic_set_sps_flag */
        bw_put(&w, 0xa5d3 + k, 16);
        bw_trailing(&w);
        tr_n[k] = mk_nal(tr[k], k == 2 ? h_trail_n : h_trail_r, 2, &w);
    }
    /* CRA picture */
    bw_init(&w);
    bw_put(&w, 1, 1);
    bw_put(&w, 0, 1);
    bw_ue(&w, 0);
    bw_ue(&w, 2);
    bw_put(&w, 4, 8);
    bw_put(&w, 0xcb95, 16);
    bw_trailing(&w);
    cra_n = mk_nal(cra, h_cra, 2, &w);

    au_begin(st, &s, true, true);
    sb_nal(&s, 4, aud_i, aud_n);
    sb_nal(&s, 4, vps, vps_n);
    sb_nal(&s, 4, sps, sps_n);
    sb_nal(&s, 4, pps, pps_n);
    sb_nal(&s, 3, sei, sei_n);
    sb_nal(&s, 3, idr0, idr0_n);
    sb_nal(&s, 3, idr1, idr1_n);
    au_begin(st, &s, false, false);
    sb_nal(&s, 4, aud_p, aud_n);
    sb_nal(&s, 3, tr[0], tr_n[0]);
    au_begin(st, &s, false, false);
    sb_nal(&s, 4, tr[1], tr_n[1]);
    sb_nal(&s, 3, sufsei, sufsei_n);
    au_begin(st, &s, true, true);
    sb_nal(&s, 4, vps, vps_n);
    sb_nal(&s, 4, sps, sps_n);
    sb_nal(&s, 4, pps, pps_n);
    sb_nal(&s, 3, cra, cra_n);
    au_begin(st, &s, false, false);
    sb_nal(&s, 4, aud_p, aud_n);
    sb_nal(&s, 3, sei, sei_n);
    sb_nal(&s, 3, tr[2], tr_n[2]);
    stream_finish(st, &s);
}

static void build_streams(void)
{
    if (g_streams[0].b)
        return;
    build_h264_recorded(&g_streams[0]);
    build_h264_compact(&g_streams[1]);
    build_h265(&g_streams[2]);
}

/* ---- recording sink keeping whole payloads ---- */
#define ATTRMAX 3000
struct au_rec {
    uint8_t *b;
    size_t n;
    char attrs[ATTRMAX];
    uint64_t noff[MAXNAL];
    int nnoff;
    bool random, key;
};
struct c17_sink {
    struct upipe upipe;
    struct urefcount urefcount;
    struct upipe_mgr mgr;
    int out_encaps;
    bool dead;
    int use_after_dead;
    int nau, nflow, lost;
    struct au_rec au[48];
    char flowdef[ATTRMAX];
};

/* all attributes, flags and dates of a uref, sorted; the private field used by
 * upipe_helper_uref_stream is left out (documented as internal) */
static void attr_dump(struct uref *uref, char *out, size_t n)
{
    size_t o = 0;
    out[0] = 0;
    static struct {
        char s[120];
    } items[80];
    int ni = 0;
    if (uref->udict != NULL) {
        const char *name = NULL;
        enum udict_type type = UDICT_TYPE_END;
        while (ubase_check(udict_iterate(uref->udict, &name, &type)) && type != UDICT_TYPE_END && ni < 80) {
            size_t size = 0;
            const uint8_t *v = NULL;
            udict_get(uref->udict, name, type, &size, &v);
            int k = snprintf(items[ni].s, sizeof(items[ni].s), "%s/%d=", name ? name : "", (int)type);
            for (size_t i = 0; i < size && i < 24 && k + 3 < (int)sizeof(items[ni].s); i++)
                k += snprintf(items[ni].s + k, sizeof(items[ni].s) - k, "%02x", v ? v[i] : 0);
            ni++;
        }
    }
    for (int i = 1; i < ni; i++)
        for (int j = i; j > 0 && strcmp(items[j - 1].s, items[j].s) > 0; j--) {
            char t[120];
            memcpy(t, items[j].s, 120);
            memcpy(items[j].s, items[j - 1].s, 120);
            memcpy(items[j - 1].s, t, 120);
        }
    for (int i = 0; i < ni && o + 130 < n; i++)
        o += snprintf(out + o, n - o, "%s;", items[i].s);
    o += snprintf(out + o, n - o, "flags=%" PRIx64 ";", uref->flags);
    o += snprintf(out + o, n - o, "date_sys=%" PRIu64 ";date_prog=%" PRIu64 ";date_orig=%" PRIu64 ";", uref->date_sys, uref->date_prog, uref->date_orig);
    o += snprintf(out + o, n - o, "dts_pts_delay=%" PRIu64 ";cr_dts_delay=%" PRIu64 ";rap_cr_delay=%" PRIu64 ";", uref->dts_pts_delay, uref->cr_dts_delay,
                  uref->rap_cr_delay);
}

static void c17_sink_input(struct upipe *upipe, struct uref *uref, struct upump **upump_p)
{
    (void)upump_p;
    struct c17_sink *s = container_of(upipe, struct c17_sink, upipe);
    if (s->dead)
        s->use_after_dead++;
    if (s->nau >= 48) {
        s->lost++;
        uref_free(uref);
        return;
    }
    struct au_rec *a = &s->au[s->nau++];
    memset(a, 0, sizeof(*a));
    size_t size = 0;
    if (uref->ubuf != NULL && ubase_check(uref_block_size(uref, &size))) {
        a->b = malloc(size + 1);
        a->n = size;
        if (size && !ubase_check(uref_block_extract(uref, 0, -1, a->b)))
            a->n = 0;
    }
    attr_dump(uref, a->attrs, sizeof(a->attrs));
    uint64_t v;
    while (a->nnoff < MAXNAL && ubase_check(uref_h26x_get_nal_offset(uref, &v, a->nnoff)))
        a->noff[a->nnoff++] = v;
    a->random = ubase_check(uref_flow_get_random(uref));
    a->key = ubase_check(uref_pic_get_key(uref));
    uref_free(uref);
}

static int c17_sink_control(struct upipe *upipe, int command, va_list args)
{
    struct c17_sink *s = container_of(upipe, struct c17_sink, upipe);
    if (s->dead)
        s->use_after_dead++;
    switch (command) {
    case UPIPE_SET_FLOW_DEF: {
        struct uref *flow_def = va_arg(args, struct uref *);
        s->nflow++;
        if (flow_def)
            attr_dump(flow_def, s->flowdef, sizeof(s->flowdef));
        return UBASE_ERR_NONE;
    }
    case UPIPE_REGISTER_REQUEST: {
        struct urequest *req = va_arg(args, struct urequest *);
        if (req->type == UREQUEST_FLOW_FORMAT) {
            struct uref *f = uref_dup(req->uref);
            assert(f);
            uref_flow_delete_global(f);
            ubase_assert(uref_h26x_flow_set_encaps(f, s->out_encaps));
            return urequest_provide_flow_format(req, f);
        }
        return UBASE_ERR_UNHANDLED;
    }
    case UPIPE_UNREGISTER_REQUEST: {
        struct urequest *req = va_arg(args, struct urequest *);
        return req->type == UREQUEST_FLOW_FORMAT ? UBASE_ERR_NONE : UBASE_ERR_UNHANDLED;
    }
    default:
        return UBASE_ERR_UNHANDLED;
    }
}
static void c17_sink_dead(struct urefcount *r)
{
    struct c17_sink *s = container_of(r, struct c17_sink, urefcount);
    s->dead = true;
}
static void c17_sink_init(struct c17_sink *s, int out_encaps)
{
    memset(s, 0, sizeof(*s));
    s->out_encaps = out_encaps;
    s->mgr.refcount = NULL;
    s->mgr.signature = UBASE_FOURCC('c', '1', '7', 's');
    s->mgr.upipe_input = c17_sink_input;
    s->mgr.upipe_control = c17_sink_control;
    urefcount_init(&s->urefcount, c17_sink_dead);
    upipe_init(&s->upipe, &s->mgr, NULL);
    s->upipe.refcount = &s->urefcount;
}
static void c17_sink_free_recs(struct c17_sink *s)
{
    for (int i = 0; i < s->nau; i++)
        free(s->au[i].b);
    s->nau = 0;
}

/* ---- one run of a framer ---- */
struct chunk {
    const uint8_t *p;
    size_t n;
    size_t seg;            /* 0: one segment, else offset of the split inside the chunk */
    const size_t *noff;    /* NAL offset attributes to attach (NALU / frames input) */
    int nnoff;
};
struct run {
    struct c17_sink sink;
    char fini_sig[64];
    char fini_msg[520];
    bool alloc_failed;
    int nerr, nfatal;
};

static void run_framer(int codec, int enc_in, int enc_out, const struct chunk *ch, int nch, bool dates, struct run *r)
{
    static struct px_fix fx;
    fix_init(&fx);
    memset(r->fini_sig, 0, sizeof(r->fini_sig));
    r->fini_msg[0] = 0;
    r->alloc_failed = false;
    c17_sink_init(&r->sink, enc_out);
    struct upipe_mgr *mgr = codec == 264 ? upipe_h264f_mgr_alloc() : upipe_h265f_mgr_alloc();
    assert(mgr);
    struct upipe *f = upipe_void_alloc(mgr, px_probe(&fx));
    assert(f);
    upipe_mgr_release(mgr);
    ubase_assert(upipe_set_output(f, &r->sink.upipe));
    struct uref *fd = uref_block_flow_alloc_def(fx.uref_mgr, codec == 264 ? "h264.pic." : "hevc.pic.");
    assert(fd);
    ubase_assert(uref_h26x_flow_set_encaps(fd, enc_in));
    if (enc_in != UREF_H26X_ENCAPS_ANNEXB)
        ubase_assert(uref_flow_set_complete(fd));
    ubase_assert(upipe_set_flow_def(f, fd));
    uref_free(fd);
    for (int i = 0; i < nch; i++) {
        size_t cut[1] = {ch[i].seg};
        struct ubuf *ubuf = mk_block(&fx, ch[i].p, ch[i].n, cut, ch[i].seg ? 1 : 0);
        struct uref *u = ubuf ? uref_alloc(fx.uref_mgr) : NULL;
        if (u == NULL) {
            if (ubuf)
                ubuf_free(ubuf);
            r->alloc_failed = true; /* cap of the counting managers (256 live objects) */
            break;
        }
        uref_attach_ubuf(u, ubuf);
        for (int k = 0; k < ch[i].nnoff; k++)
            ubase_assert(uref_h26x_set_nal_offset(u, ch[i].noff[k], k));
        if (dates && i == 0) {
            uref_clock_set_dts_prog(u, 270000000);
            uref_clock_set_dts_sys(u, 540000000);
            uref_clock_set_dts_orig(u, 810000000);
            uref_clock_set_dts_pts_delay(u, 0);
            uref_clock_set_rap_sys(u, 42);
        }
        upipe_input(f, u, NULL);
        G->transitions++;
    }
    upipe_release(f);
    if (g_cap_hit)
        r->alloc_failed = true;
    G->executions++;
    r->nerr = px_count_event(&fx, NULL, UPROBE_ERROR);
    r->nfatal = px_count_event(&fx, NULL, UPROBE_FATAL);
    bool still = !r->sink.dead;
    upipe_release(&r->sink.upipe);
    const char *m = fix_fini(&fx, r->fini_sig, sizeof(r->fini_sig));
    if (m)
        snprintf(r->fini_msg, sizeof(r->fini_msg), "%s", m);
    else if (!r->sink.dead) {
        snprintf(r->fini_sig, sizeof(r->fini_sig), "end:output-reference-leaked");
        snprintf(r->fini_msg, sizeof(r->fini_msg), "the output pipe is still referenced after the framer and the harness released it");
    } else if (!still) {
        snprintf(r->fini_sig, sizeof(r->fini_sig), "end:output-over-released");
        snprintf(r->fini_msg, sizeof(r->fini_msg), "the output pipe died while the harness still held its reference");
    } else if (r->sink.use_after_dead) {
        snprintf(r->fini_sig, sizeof(r->fini_sig), "end:output-used-after-release");
        snprintf(r->fini_msg, sizeof(r->fini_msg), "the output pipe was entered after its last release");
    }
}

/* ---- oracle on one run against the construction of the stream ---- */
static const uint8_t syn_aud264[1] = {0x09}, syn_aud265[2] = {0x46, 0x01};

static const char *codec_name(int c) { return c == 264 ? "h264" : "h265"; }

/* name of the first attribute that differs between two dumps */
static void attr_diff(const char *a, const char *b, char *name, size_t nn, char *va, char *vb, size_t vn)
{
    snprintf(name, nn, "?");
    va[0] = vb[0] = 0;
    /* walk items of a; look each up in b */
    for (int pass = 0; pass < 2; pass++) {
        const char *x = pass ? b : a, *y = pass ? a : b;
        const char *p = x;
        while (*p) {
            const char *e = strchr(p, ';');
            if (!e)
                break;
            const char *eq = memchr(p, '=', e - p);
            if (!eq)
                eq = e;
            size_t kn = eq - p + 1; /* including '=' */
            /* find "key=" at an item start in y */
            const char *q = y;
            const char *found = NULL;
            while (*q) {
                const char *qe = strchr(q, ';');
                if (!qe)
                    break;
                if ((size_t)(qe - q) >= kn && !memcmp(q, p, kn)) {
                    found = q;
                    break;
                }
                q = qe + 1;
            }
            bool same = false;
            if (found) {
                const char *fe = strchr(found, ';');
                same = (fe - found) == (e - p) && !memcmp(found, p, e - p);
            }
            if (!same) {
                snprintf(name, nn, "%.*s", (int)(kn - 1), p);
                snprintf(pass ? vb : va, vn, "%.*s", (int)(e - eq), eq);
                if (found) {
                    const char *fe = strchr(found, ';');
                    snprintf(pass ? va : vb, vn, "%.*s", (int)(fe - (found + kn - 1)), found + kn - 1);
                } else
                    snprintf(pass ? va : vb, vn, "(absent)");
                return;
            }
            p = e + 1;
        }
    }
}
/* h26x.n[3]/4 -> h26x.n[] so that signatures do not depend on the index */
static void attr_class(const char *name, char *out, size_t n)
{
    size_t o = 0;
    for (const char *p = name; *p && o + 2 < n; p++) {
        if (*p == '[') {
            out[o++] = '[';
            while (*p && *p != ']')
                p++;
            out[o++] = ']';
            if (!*p)
                break;
        } else if (*p == '/')
            break;
        else
            out[o++] = *p;
    }
    out[o] = 0;
    if (!out[0])
        snprintf(out, n, "%s", name);
}

/* checks the recorded outputs of an uncut (or any) run against the stream:
 * returns false after reporting */
static bool check_against_stream(const struct stream *st, int out, struct run *r, const char *id)
{
    char sig[160];
    const char *cn = codec_name(st->codec);
    struct c17_sink *s = &r->sink;
#define T3_VIOL(kind_, ...)                                                    \
    do {                                                                       \
        snprintf(sig, sizeof(sig), "t3:%s:%s", cn, kind_);                     \
        viol(sig, id, __VA_ARGS__);                                            \
        good = false;                                                          \
    } while (0)
    bool good = true;
    if (r->fini_msg[0])
        T3_VIOL(r->fini_sig, "%s", r->fini_msg);
    if (s->nau != st->nau) {
        size_t tot = 0;
        for (int i = 0; i < s->nau; i++)
            tot += s->au[i].n;
        T3_VIOL("au-count", "%d access unit(s) output (%zu octets in total), the stream %s has %d after its first parameter sets", s->nau, tot, st->name, st->nau);
        return false;
    }
    for (int k = 0; k < st->nau && out != 0; k++) {
        /* other encapsulations: exactly the NAL units of access unit k, written by the reference writer */
        struct au_rec *a = &s->au[k];
        static uint8_t exp[8192];
        size_t eoff[MAXNAL + 1], o = 0;
        int nn = 0, h = enc_hdr(out, 0);
        for (int i = 0; i < st->nnal; i++) {
            if (st->nal[i].start < st->au_start[k] || st->nal[i].start >= st->au_start[k + 1])
                continue;
            size_t len = st->nal[i].end - st->nal[i].hdr;
            eoff[nn++] = o;
            for (int j = 0; j < h; j++)
                exp[o++] = (uint8_t)(len >> (8 * (h - 1 - j)));
            memcpy(exp + o, st->b + st->nal[i].hdr, len);
            o += len;
        }
        if (a->n != o || memcmp(a->b, exp, o)) {
            size_t d = 0;
            while (d < a->n && d < o && a->b[d] == exp[d])
                d++;
            T3_VIOL("au-bytes", "output %d is %zu octets; the %d NAL units of access unit %d in %s encapsulation are %zu octets; first difference at octet %zu", k, a->n, nn, k,
                    t1_enc_name[out], o, d);
            continue;
        }
        int na = a->nnoff;
        if (na == nn && a->noff[na - 1] == a->n)
            na--;
        if (na != nn - 1)
            T3_VIOL(a->nnoff > nn - 1 ? "nal-offset-leftover" : "nal-offset-missing", "output %d (%s) carries %d NAL offset attributes but is made of %d NAL units", k,
                    t1_enc_name[out], a->nnoff, nn);
        for (int i = 1; i < nn && i - 1 < a->nnoff; i++)
            if (a->noff[i - 1] != eoff[i]) {
                T3_VIOL("nal-offset-wrong", "output %d (%s): NAL offset attribute %d is %" PRIu64 " but NAL %d starts at octet %zu", k, t1_enc_name[out], i - 1, a->noff[i - 1], i,
                        eoff[i]);
                break;
            }
        if (a->random != st->au_random[k])
            T3_VIOL(a->random ? "random-flag-spurious" : "random-flag-missing", "output %d (access unit %d of %s): random access flag %s, the access unit %s an IDR/IRAP picture", k, k,
                    st->name, a->random ? "set" : "not set", st->au_random[k] ? "holds" : "does not hold");
    }
    for (int k = 0; k < st->nau && out == 0; k++) {
        struct au_rec *a = &s->au[k];
        size_t want = st->au_start[k + 1] - st->au_start[k];
        if (a->n < want || memcmp(a->b + a->n - want, st->b + st->au_start[k], want)) {
            char hx[100];
            hex(hx, sizeof(hx), a->b, a->n, 24);
            T3_VIOL("au-bytes", "output %d (%zu octets, begins %s) does not end with the octets [%zu,%zu) of the input, which are access unit %d", k, a->n, hx,
                    st->au_start[k], st->au_start[k + 1], k);
            continue;
        }
        /* what precedes must be whole NAL units with 4-octet start codes: the
         * framer's own access unit delimiter or parameter sets of the stream */
        size_t pre = a->n - want;
        struct nalref nr[MAXNAL];
        int nn = annexb_split(a->b, a->n, nr, MAXNAL);
        int npre = 0;
        for (int i = 0; i < nn && nr[i].start < pre; i++, npre++) {
            const uint8_t *p = a->b + nr[i].hdr;
            size_t len = nr[i].end - nr[i].hdr;
            bool ok = nr[i].hdr - nr[i].start == 4 && nr[i].end <= pre;
            bool known = st->codec == 264 ? (len == 1 && p[0] == syn_aud264[0]) : (len == 2 && !memcmp(p, syn_aud265, 2));
            for (int j = 0; j < st->nps && !known; j++)
                known = st->ps_n[j] == len && !memcmp(st->ps[j], p, len);
            if (!ok || !known) {
                char hx[100];
                hex(hx, sizeof(hx), a->b, pre, 32);
                T3_VIOL("au-prefix", "output %d: the %zu octets added in front of access unit %d (%s) are not an access unit delimiter / parameter sets of the stream", k,
                        pre, k, hx);
                break;
            }
        }
        if ((npre == 0) != (pre == 0) || (nn > 0 && nr[0].start != 0))
            T3_VIOL("au-prefix", "output %d: %zu octets in front of access unit %d that do not form NAL units", k, pre, k);
        /* NAL offset attributes = starts of the NAL units of the output; one more
         * attribute equal to the size of the block ends the list for
         * uref_h26x_iterate_nal() and is accepted */
        int na = a->nnoff;
        if (na == nn && a->noff[na - 1] == a->n)
            na--;
        if (na != nn - 1) {
            char lst[200];
            int o = 0;
            lst[0] = 0;
            for (int i = 0; i < a->nnoff && o + 12 < (int)sizeof(lst); i++)
                o += snprintf(lst + o, sizeof(lst) - o, " %" PRIu64, a->noff[i]);
            T3_VIOL(a->nnoff > nn - 1 ? "nal-offset-leftover" : "nal-offset-missing",
                    "output %d (access unit %d, %zu octets) carries the NAL offset attributes%s but is made of %d NAL units%s", k, k, a->n, lst, nn,
                    a->nnoff > nn - 1 ? ": attributes of an earlier access unit were left over, uref_h26x_iterate_nal() walks beyond the buffer" : "");
        }
        for (int i = 1; i < nn && i - 1 < a->nnoff; i++)
            if (a->noff[i - 1] != nr[i].start) {
                T3_VIOL("nal-offset-wrong", "output %d: NAL offset attribute %d is %" PRIu64 " but NAL %d starts at octet %zu", k, i - 1, a->noff[i - 1], i, nr[i].start);
                break;
            }
        if (a->random != st->au_random[k])
            T3_VIOL(a->random ? "random-flag-spurious" : "random-flag-missing", "output %d (access unit %d of %s): random access flag %s, the access unit %s an IDR/IRAP picture", k, k,
                    st->name, a->random ? "set" : "not set", st->au_random[k] ? "holds" : "does not hold");
        if (a->key != st->au_key[k])
            T3_VIOL(a->key ? "key-flag-spurious" : "key-flag-missing", "output %d (access unit %d of %s): key picture flag %s, the first slice %s an I slice", k, k, st->name,
                    a->key ? "set" : "not set", st->au_key[k] ? "is" : "is not");
    }
#undef T3_VIOL
    return good;
}

/* compares a run with the uncut run of the same stream */
static bool check_against_ref(const struct stream *st, struct run *ref, struct run *r, const char *id)
{
    char sig[200];
    const char *cn = codec_name(st->codec);
#define T3_VIOL(kind_, ...)                                                    \
    do {                                                                       \
        snprintf(sig, sizeof(sig), "t3:%s:cut-dependent:%s", cn, kind_);       \
        viol(sig, id, __VA_ARGS__);                                            \
        return false;                                                          \
    } while (0)
    if (r->fini_msg[0]) {
        snprintf(sig, sizeof(sig), "t3:%s:%s", cn, r->fini_sig);
        viol(sig, id, "%s", r->fini_msg);
    }
    struct c17_sink *a = &ref->sink, *b = &r->sink;
    if (a->nau != b->nau)
        T3_VIOL("au-count", "%d access units output, %d when the same octets arrive in one buffer", b->nau, a->nau);
    for (int k = 0; k < a->nau; k++) {
        if (a->au[k].n != b->au[k].n || memcmp(a->au[k].b, b->au[k].b, a->au[k].n)) {
            size_t d = 0;
            while (d < a->au[k].n && d < b->au[k].n && a->au[k].b[d] == b->au[k].b[d])
                d++;
            T3_VIOL("au-bytes", "output %d is %zu octets, %zu when the same octets arrive in one buffer; first difference at octet %zu", k, b->au[k].n, a->au[k].n, d);
        }
        if (strcmp(a->au[k].attrs, b->au[k].attrs)) {
            char name[120], cls[120], va[80], vb[80], kind[160];
            attr_diff(a->au[k].attrs, b->au[k].attrs, name, sizeof(name), va, vb, sizeof(va));
            attr_class(name, cls, sizeof(cls));
            snprintf(kind, sizeof(kind), "attr:%s", cls);
            T3_VIOL(kind, "output %d: attribute %s is %s, but %s when the same octets arrive in one buffer", k, name, vb, va);
        }
    }
    if (a->nflow != b->nflow)
        T3_VIOL("flow-def-count", "%d flow definitions sent downstream, %d when the same octets arrive in one buffer", b->nflow, a->nflow);
    if (strcmp(a->flowdef, b->flowdef)) {
        char name[120], va[80], vb[80];
        attr_diff(a->flowdef, b->flowdef, name, sizeof(name), va, vb, sizeof(va));
        T3_VIOL("flow-def", "flow definition attribute %s is %s, but %s when the same octets arrive in one buffer", name, vb, va);
    }
#undef T3_VIOL
    return true;
}

/* ---- T3 cases ---- */
struct t3case {
    int stream;
    int out;            /* output encapsulation asked by the downstream pipe: index in t1_enc (0 Annex B, 4 length4) */
    int nb;             /* boundaries */
    size_t pos[2];
    char type[2];       /* 'c' chunk cut, 's' segment split inside a chunk */
    int uniform;        /* >0: uniform chunk size instead of boundaries */
    int segmid;         /* uniform: 1 = every chunk in two segments */
};
static void t3_id(const struct t3case *c, char *id, size_t n)
{
    if (c->uniform)
        snprintf(id, n, "t3/s=%d/o=%d/u=%d/m=%d", c->stream, c->out, c->uniform, c->segmid);
    else {
        int o = snprintf(id, n, "t3/s=%d/o=%d/b=", c->stream, c->out);
        for (int i = 0; i < c->nb; i++)
            o += snprintf(id + o, n - o, "%s%zu%c", i ? "," : "", c->pos[i], c->type[i]);
        if (!c->nb)
            snprintf(id + o, n - o, "-");
    }
}

static struct run g_ref[NSTREAMS][5];
static bool g_ref_done[NSTREAMS][5], g_ref_ok[NSTREAMS][5];
static struct run g_run;
#define MAXCH 6000
static struct chunk g_ch[MAXCH];

static int t3_chunks(const struct stream *st, const struct t3case *c, struct chunk *ch)
{
    int n = 0;
    if (c->uniform) {
        for (size_t o = 0; o < st->n; o += c->uniform) {
            size_t len = st->n - o < (size_t)c->uniform ? st->n - o : (size_t)c->uniform;
            ch[n++] = (struct chunk){st->b + o, len, c->segmid && len >= 2 ? len / 2 : 0, NULL, 0};
        }
        return n;
    }
    size_t from = 0;
    size_t seg = 0;
    for (int i = 0; i <= c->nb; i++) {
        size_t to = i < c->nb ? c->pos[i] : st->n;
        if (i < c->nb && c->type[i] == 's') {
            seg = to - from; /* at most one split per chunk: a second one becomes a cut */
            if (i + 1 <= c->nb) {
                size_t to2 = i + 1 < c->nb ? c->pos[i + 1] : st->n;
                ch[n++] = (struct chunk){st->b + from, to2 - from, seg, NULL, 0};
                from = to2;
                i++;
                seg = 0;
                continue;
            }
        }
        ch[n++] = (struct chunk){st->b + from, to - from, 0, NULL, 0};
        from = to;
    }
    return n;
}

static void t3_reference(int si, int out)
{
    if (g_ref_done[si][out])
        return;
    const struct stream *st = &g_streams[si];
    struct chunk ch = {st->b, st->n, 0, NULL, 0};
    char id[64];
    snprintf(id, sizeof(id), "t3/s=%d/o=%d/b=-", si, out);
    run_framer(st->codec, UREF_H26X_ENCAPS_ANNEXB, t1_enc[out], &ch, 1, true, &g_ref[si][out]);
    g_ref_done[si][out] = true;
    g_ref_ok[si][out] = check_against_stream(st, out, &g_ref[si][out], id);
}

static void t3_run(const struct t3case *c)
{
    char id[128];
    t3_id(c, id, sizeof(id));
    const struct stream *st = &g_streams[c->stream];
    t3_reference(c->stream, c->out);
    case_begin(id);
    int n = t3_chunks(st, c, g_ch);
    run_framer(st->codec, UREF_H26X_ENCAPS_ANNEXB, t1_enc[c->out], g_ch, n, true, &g_run);
    if (g_run.alloc_failed) {
        G->skipped++;
        add_note("case %s needs more than 256 live buffers (cap of the counting managers): not evaluated", id);
    } else {
        if (n > 1)
            G->nontrivial++;
        if (g_verbose) {
            for (int k = 0; k < g_run.sink.nau; k++) {
                char hx[80];
                hex(hx, sizeof(hx), g_run.sink.au[k].b, g_run.sink.au[k].n, 20);
                printf("NOTE   output %d: %zu octets %s attrs %s\n", k, g_run.sink.au[k].n, hx, g_run.sink.au[k].attrs);
            }
            printf("NOTE   %d flow definition(s), %d error event(s), last: %s\n", g_run.sink.nflow, g_run.nerr, g_run.sink.flowdef);
        }
        /* compare with the uncut run; the uncut run itself was compared with the construction of the stream */
        bool ok = check_against_ref(st, &g_ref[c->stream][c->out], &g_run, id);
        /* when the uncut run is itself wrong, judge this run on its own too */
        if (ok && !g_ref_ok[c->stream][c->out] && g_replay)
            check_against_stream(st, c->out, &g_run, id);
    }
    c17_sink_free_recs(&g_run.sink);
}

/* pair_window: see below */
static void t3_stream(int si, int out, int maxb, bool seg_types, bool pair_window)
{
    const struct stream *st = &g_streams[si];
    struct t3case c = {si, out, 0, {0, 0}, {'c', 'c'}, 0, 0};
    if (case_selected())
        t3_run(&c);
    for (size_t a = 1; a < st->n && !deadline_hit(); a++)
        for (int ta = 0; ta < (seg_types ? 2 : 1); ta++) {
            c.nb = 1;
            c.pos[0] = a;
            c.type[0] = ta ? 's' : 'c';
            if (case_selected())
                t3_run(&c);
        }
    static bool near[8192];
    memset(near, 0, sizeof(near));
    for (int i = 0; i <= st->nnal; i++) {
        long at = i < st->nnal ? (long)st->nal[i].start : (long)st->n;
        for (long d = -6; d <= 6; d++)
            if (at + d > 0 && at + d < (long)st->n)
                near[at + d] = true;
    }
    if (maxb >= 2)
        for (size_t a = 1; a < st->n && !deadline_hit(); a++)
            for (size_t b = a + 1; b < st->n; b++)
                for (int t = 0; t < (seg_types ? 3 : 1); t++) {
                    /* long streams: pairs at most 256 octets apart + all pairs around NAL starts */
                    if (pair_window && b > a + 256 && !(near[a] && near[b]))
                        continue;
                    /* cut+cut, split+cut (first chunk in two segments), cut+split (second chunk in two segments) */
                    c.nb = 2;
                    c.pos[0] = a;
                    c.pos[1] = b;
                    c.type[0] = t == 1 ? 's' : 'c';
                    c.type[1] = t == 2 ? 's' : 'c';
                    if (case_selected())
                        t3_run(&c);
                }
}

static void t3_uniform(int si, int out, int lo, int hi)
{
    for (int u = lo; u <= hi && !deadline_hit(); u++)
        for (int m = 0; m < 2; m++) {
            struct t3case c = {si, out, 0, {0, 0}, {'c', 'c'}, u, m};
            if (case_selected())
                t3_run(&c);
        }
}

static void t3_main(void)
{
    build_streams();
    for (int si = 0; si < NSTREAMS; si++)
        add_note("stream %d = %s: %zu octets, %d NAL units, %d access units", si, g_streams[si].name, g_streams[si].n, g_streams[si].nnal, g_streams[si].nau);
    /* compact streams: every cutting */
    for (int out = 0; out <= 4; out += 4) {
        for (int si = 1; si < NSTREAMS && !deadline_hit(); si++) {
            t3_stream(si, out, g_thorough ? 2 : 1, true, false);
            t3_uniform(si, out, 1, 16);
        }
        /* recorded stream (5007 octets) */
        if (!deadline_hit()) {
            t3_stream(0, out, g_thorough ? 2 : 1, !g_thorough, true);
            t3_uniform(0, out, 16, 31);
        }
    }
    for (int si = 0; si < NSTREAMS; si++)
        for (int out = 0; out < 5; out++)
            if (g_ref_done[si][out])
                c17_sink_free_recs(&g_ref[si][out].sink);
}

static bool t3_replay(const char *id)
{
    struct t3case c;
    memset(&c, 0, sizeof(c));
    c.type[0] = c.type[1] = 'c';
    char b[64] = "";
    if (sscanf(id, "t3/s=%d/o=%d/u=%d/m=%d", &c.stream, &c.out, &c.uniform, &c.segmid) == 4)
        ;
    else if (sscanf(id, "t3/s=%d/o=%d/b=%63s", &c.stream, &c.out, b) == 3) {
        if (b[0] != '-') {
            c.nb = sscanf(b, "%zu%c,%zu%c", &c.pos[0], &c.type[0], &c.pos[1], &c.type[1]) / 2;
            if (c.nb < 1)
                return false;
        }
    } else
        return false;
    if (c.stream < 0 || c.stream >= NSTREAMS || (c.out != 0 && c.out != 1 && c.out != 4))
        return false;
    build_streams();
    const struct stream *st = &g_streams[c.stream];
    for (int i = 0; i < c.nb; i++)
        if (c.pos[i] == 0 || c.pos[i] >= st->n || (i && c.pos[i] <= c.pos[i - 1]))
            return false;
    printf("NOTE stream %s, %zu octets; NAL units start at:", st->name, st->n);
    for (int i = 0; i < st->nnal; i++)
        printf(" %zu", st->nal[i].start);
    printf("; access units start at:");
    for (int i = 0; i < st->nau; i++)
        printf(" %zu", st->au_start[i]);
    printf("\n");
    if (st->n <= 600) {
        char hx[1400];
        hex(hx, sizeof(hx), st->b, st->n, 600);
        printf("NOTE octets: %s\n", hx);
    }
    t3_run(&c);
    return true;
}
/* ================================================================== */
/* T4: corrupt input                                                     */
/* ================================================================== */
struct t4feed {
    const char *name;
    int enc_in;     /* index in t1_enc */
    int enc_out;
    int chunk;      /* annexb input: 0 = one buffer, else chunk size (x3 for the recorded stream) */
};
static const struct t4feed t4_feeds[] = {
    {"annexb-whole->annexb", 0, 0, 0}, {"annexb-whole->length4", 0, 4, 0}, {"annexb-chunks->nalu", 0, 1, 5}, {"length4-frames->annexb", 4, 0, 0},
    {"length2-frames->annexb", 3, 0, 0}, {"nalu-frames->length4", 1, 4, 0}, {"length1-frames->annexb", 2, 0, 0},
};
#define T4_NFEEDS 7

struct t4case {
    int stream, feed;
    int kind;   /* 0 replace octet, 1 truncate, 2 unchanged (baseline) */
    size_t pos;
    int val;
};
static void t4_id(const struct t4case *c, char *id, size_t n)
{
    if (c->kind == 0)
        snprintf(id, n, "t4/s=%d/f=%d/set=%zu:%02x", c->stream, c->feed, c->pos, c->val);
    else if (c->kind == 1)
        snprintf(id, n, "t4/s=%d/f=%d/trunc=%zu", c->stream, c->feed, c->pos);
    else
        snprintf(id, n, "t4/s=%d/f=%d/base", c->stream, c->feed);
}

/* input of a feed: octets + frame boundaries (+ NAL offsets inside every frame) */
struct t4input {
    uint8_t *b;
    size_t n;
    int nfr;
    size_t fr[MAXAU + 1];
    size_t noff[MAXAU][MAXNAL];
    int nnoff[MAXAU];
};
static struct t4input t4_in[NSTREAMS][T4_NFEEDS];
static bool t4_in_ok[NSTREAMS][T4_NFEEDS];

static bool t4_prepare(int si, int fi)
{
    struct t4input *in = &t4_in[si][fi];
    if (in->b)
        return t4_in_ok[si][fi];
    const struct stream *st = &g_streams[si];
    const struct t4feed *fd = &t4_feeds[fi];
    in->b = malloc(st->n + 4 * MAXNAL + 16);
    t4_in_ok[si][fi] = true;
    if (fd->enc_in == 0) {
        memcpy(in->b, st->b, st->n);
        in->n = st->n;
        in->nfr = 1;
        in->fr[0] = 0;
        in->fr[1] = st->n;
        return true;
    }
    size_t o = 0;
    int ni = 0;
    int h = enc_hdr(fd->enc_in, 0);
    for (int k = 0; k < st->nau; k++) {
        in->fr[k] = o;
        in->nnoff[k] = 0;
        for (; ni < st->nnal && st->nal[ni].start < st->au_start[k + 1]; ni++) {
            size_t len = st->nal[ni].end - st->nal[ni].hdr;
            if (!enc_fits(fd->enc_in, len))
                t4_in_ok[si][fi] = false;
            if (o != in->fr[k])
                in->noff[k][in->nnoff[k]++] = o - in->fr[k];
            for (int j = 0; j < h; j++)
                in->b[o++] = (uint8_t)(len >> (8 * (h - 1 - j)));
            memcpy(in->b + o, st->b + st->nal[ni].hdr, len);
            o += len;
        }
    }
    in->nfr = st->nau;
    in->fr[st->nau] = o;
    in->n = o;
    return t4_in_ok[si][fi];
}

static uint8_t *t4_buf;
static void t4_run(const struct t4case *c)
{
    char id[128];
    t4_id(c, id, sizeof(id));
    const struct stream *st = &g_streams[c->stream];
    const struct t4feed *fd = &t4_feeds[c->feed];
    struct t4input *in = &t4_in[c->stream][c->feed];
    if (!t4_buf)
        t4_buf = malloc(8192);
    if (c->kind == 0 && in->b[c->pos] == c->val) {
        G->skipped++;
        return;
    }
    case_begin(id);
    memcpy(t4_buf, in->b, in->n);
    if (c->kind == 0)
        t4_buf[c->pos] = (uint8_t)c->val;
    int n = 0;
    if (fd->enc_in == 0) {
        size_t total = c->kind == 1 ? c->pos : in->n;
        size_t step = fd->chunk ? (size_t)fd->chunk * (st->n > 1000 ? 3 : 1) : total;
        for (size_t o = 0; o < total; o += step)
            g_ch[n++] = (struct chunk){t4_buf + o, total - o < step ? total - o : step, 0, NULL, 0};
    } else
        for (int k = 0; k < in->nfr; k++) {
            size_t a = in->fr[k], b = in->fr[k + 1];
            int nn = in->nnoff[k];
            if (c->kind == 1 && c->pos >= a && c->pos < b) {
                b = c->pos;
                while (nn > 0 && in->noff[k][nn - 1] >= b - a)
                    nn--;
            }
            if (b > a)
                g_ch[n++] = (struct chunk){t4_buf + a, b - a, 0, fd->enc_in == 1 ? in->noff[k] : NULL, fd->enc_in == 1 ? nn : 0};
        }
    run_framer(st->codec, t1_enc[fd->enc_in], t1_enc[fd->enc_out], g_ch, n, false, &g_run);
    char sig[160];
    if (g_run.alloc_failed) {
        G->skipped++;
    } else if (g_run.fini_msg[0]) {
        snprintf(sig, sizeof(sig), "t4:%s:%s", codec_name(st->codec), g_run.fini_sig);
        viol(sig, id, "after corrupt input (%s, stream %s): %s", fd->name, st->name, g_run.fini_msg);
    } else if (c->kind == 2) {
        if (g_run.sink.nau != st->nau)
            add_note("t4 baseline %s on %s: %d of %d access units output (%d error events)", fd->name, st->name, g_run.sink.nau, st->nau, g_run.nerr);
        G->extra[1 + (g_run.sink.nau == st->nau)]++;
    }
    if (c->kind != 2 && g_run.sink.nau > 0)
        G->nontrivial++;
    if (g_verbose)
        printf("NOTE   %d chunk(s) fed, %d access unit(s) output, %d error / %d fatal event(s)\n", n, g_run.sink.nau, g_run.nerr, g_run.nfatal);
    c17_sink_free_recs(&g_run.sink);
}

static void t4_main(void)
{
    static const int vals[4] = {0x00, 0x01, 0x03, 0xff};
    build_streams();
    size_t stride = g_thorough ? 1 : 3;
    for (int si = NSTREAMS - 1; si >= 0 && !deadline_hit(); si--)
        for (int fi = 0; fi < T4_NFEEDS && !deadline_hit(); fi++) {
            if (!t4_prepare(si, fi)) {
                if (case_selected())
                    add_note("t4: feed %s not applicable to stream %s (a NAL unit does not fit the length prefix)", t4_feeds[fi].name, g_streams[si].name);
                continue;
            }
            struct t4case c = {si, fi, 2, 0, 0};
            if (case_selected())
                t4_run(&c);
            size_t n = t4_in[si][fi].n;
            for (size_t pos = 0; pos < n && !deadline_hit(); pos += stride) {
                for (int v = 0; v < 4; v++) {
                    c = (struct t4case){si, fi, 0, pos, vals[v]};
                    if (case_selected())
                        t4_run(&c);
                }
                if (pos > 0) {
                    c = (struct t4case){si, fi, 1, pos, 0};
                    if (case_selected())
                        t4_run(&c);
                }
            }
        }
}

static bool t4_replay(const char *id)
{
    struct t4case c;
    memset(&c, 0, sizeof(c));
    unsigned val;
    if (sscanf(id, "t4/s=%d/f=%d/set=%zu:%x", &c.stream, &c.feed, &c.pos, &val) == 4) {
        c.kind = 0;
        c.val = val & 0xff;
    } else if (sscanf(id, "t4/s=%d/f=%d/trunc=%zu", &c.stream, &c.feed, &c.pos) == 3)
        c.kind = 1;
    else if (sscanf(id, "t4/s=%d/f=%d/base", &c.stream, &c.feed) == 2)
        c.kind = 2;
    else
        return false;
    if (c.stream < 0 || c.stream >= NSTREAMS || c.feed < 0 || c.feed >= T4_NFEEDS)
        return false;
    build_streams();
    if (!t4_prepare(c.stream, c.feed))
        return false;
    struct t4input *in = &t4_in[c.stream][c.feed];
    if (c.pos >= in->n)
        return false;
    printf("NOTE stream %s, feed %s, input of %zu octets in %d buffer(s)/frame(s)", g_streams[c.stream].name, t4_feeds[c.feed].name, in->n, in->nfr);
    if (in->nfr > 1) {
        printf(", frames start at:");
        for (int k = 0; k < in->nfr; k++)
            printf(" %zu", in->fr[k]);
    }
    printf("\n");
    if (in->n <= 600) {
        char hx[1400];
        hex(hx, sizeof(hx), in->b, in->n, 600);
        printf("NOTE unmodified octets: %s\n", hx);
    }
    t4_run(&c);
    return true;
}




/* ================================================================== */
/* main: argument parsing, guarded execution                            */
/* ================================================================== */
static void run_mode(void)
{
    if (!strcmp(g_mode, "t2"))
        t2_main();
    else if (!strcmp(g_mode, "t1"))
        t1_main();
    else if (!strcmp(g_mode, "t3"))
        t3_main();
    else if (!strcmp(g_mode, "t4"))
        t4_main();
    /*DISPATCH-PLACEHOLDER*/
}

static bool run_replay(const char *id)
{
    if (!strncmp(id, "t2/", 3))
        return t2_replay(id);
    if (!strncmp(id, "t1/", 3))
        return t1_replay(id);
    if (!strncmp(id, "t3/", 3))
        return t3_replay(id);
    if (!strncmp(id, "t4/", 3))
        return t4_replay(id);
    /*REPLAY-PLACEHOLDER*/
    return false;
}

static void crash_kind(const char *err, int status, char *kind, size_t kn, char *where, size_t wn)
{
    snprintf(kind, kn, WIFSIGNALED(status) ? "signal%d" : "exit%d", WIFSIGNALED(status) ? WTERMSIG(status) : WEXITSTATUS(status));
    where[0] = 0;
    if (WIFEXITED(status) && WEXITSTATUS(status) == 77)
        snprintf(kind, kn, "hang");
    const char *p = strstr(err, "ERROR: AddressSanitizer: ");
    if (p) {
        char w[64] = "";
        sscanf(p + 25, "%63[a-zA-Z-]", w);
        snprintf(kind, kn, "asan:%s", w);
    } else if ((p = strstr(err, "Assertion `")) != NULL) {
        char w[64] = "";
        int o = 0;
        for (const char *q = p + 11; *q && *q != '\'' && o < 40; q++)
            w[o++] = (*q == ' ' || *q == '\t') ? '_' : *q;
        w[o] = 0;
        snprintf(kind, kn, "assert:%s", w);
    }
    /* first frame that is not the sanitizer runtime / libc */
    for (const char *q = err; (q = strstr(q, " in ")) != NULL; q += 4) {
        char fn[80] = "";
        sscanf(q + 4, "%79[A-Za-z0-9_]", fn);
        if (fn[0] && strncmp(fn, "__asan", 6) && strncmp(fn, "__interceptor", 13) && strncmp(fn, "__sanitizer", 11) && strcmp(fn, "abort") && strcmp(fn, "on_abort") && strcmp(fn, "gsignal") &&
            strcmp(fn, "raise") && strncmp(fn, "__assert", 8) && strncmp(fn, "__GI_", 5) && strcmp(fn, "memcpy") && strcmp(fn, "memcmp") &&
            strncmp(fn, "__libc", 6) && strncmp(fn, "__pthread", 9) && strcmp(fn, "pthread_kill")) {
            snprintf(where, wn, "%s", fn);
            break;
        }
    }
}

static void on_abort(int sig)
{
    (void)sig;
    static const char m[] = "ABORT stack:\n";
    if (write(2, m, sizeof(m) - 1) < 0) {
    }
    __sanitizer_print_stack_trace();
    _exit(134);
}

int main(int argc, char **argv)
{
    signal(SIGABRT, on_abort);
    const char *mode = NULL;
    for (int i = 1; i < argc; i++) {
        if (!strcmp(argv[i], "--mode") && i + 1 < argc)
            mode = argv[++i];
        else if (!strcmp(argv[i], "--tier") && i + 1 < argc)
            g_thorough = !strcmp(argv[++i], "thorough");
        else if (!strcmp(argv[i], "--shard") && i + 1 < argc)
            sscanf(argv[++i], "%d/%d", &g_shard_i, &g_shard_n);
        else if (!strcmp(argv[i], "--deadline") && i + 1 < argc)
            g_deadline = atof(argv[++i]);
        else if (!strcmp(argv[i], "--replay") && i + 1 < argc)
            g_replay = argv[++i];
        else if (!strcmp(argv[i], "--verbose"))
            g_verbose = true;
        else if (!strcmp(argv[i], "--strict-header"))
            g_strict_header = true;
        else if (!strcmp(argv[i], "--acct") && i + 1 < argc) {
            const char *a = argv[++i];
            g_acct = !strcmp(a, "violations") ? ACCT_VIOLATIONS : !strcmp(a, "only") ? ACCT_ONLY : ACCT_NOTES;
        }
        else {
            fprintf(stderr, "unknown argument %s\n", argv[i]);
            return 2;
        }
    }
    setvbuf(stdout, NULL, _IOLBF, 0);
    g_t0 = v_now();
    v_crash_open();
    G = mmap(NULL, sizeof(*G), PROT_READ | PROT_WRITE, MAP_SHARED | MAP_ANONYMOUS, -1, 0);
    assert(G != MAP_FAILED);
    memset(G, 0, sizeof(*G));

    if (g_replay) {
        g_verbose = true;
        g_shard_n = 1;
        g_thorough = true;
        if (!run_replay(g_replay)) {
            printf("NOTE cannot parse case id %s\n", g_replay);
            return 2;
        }
        for (int i = 0; i < G->nacct_notes; i++)
            v_note("accounting finding (outside the C17 statement, see --acct): %s", G->acct_notes[i]);
        v_stat("accounting_findings", G->acct_findings);
        printf("NOTE replay of %s: %lld violation(s)\n", g_replay, G->violations);
        v_stat("violations", G->violations);
        return 0;
    }
    if (mode == NULL) {
        fprintf(stderr, "--mode t1|t2|t3|t4 required\n");
        return 2;
    }
    g_mode = mode;

    int crashes = 0;
    for (;;) {
        int pfd[2];
        if (pipe(pfd) < 0)
            return 3;
        fflush(stdout);
        pid_t pid = fork();
        if (pid == 0) {
            close(pfd[0]);
            dup2(pfd[1], 2);
            close(pfd[1]);
            run_mode();
            G->done = true;
            fflush(stdout);
            _exit(0);
        }
        close(pfd[1]);
        char err[16384];
        size_t en = 0;
        for (;;) {
            char tmp[4096];
            ssize_t r = read(pfd[0], tmp, sizeof(tmp));
            if (r < 0 && errno == EINTR)
                continue;
            if (r <= 0)
                break;
            if (en + r < sizeof(err) - 1) {
                memcpy(err + en, tmp, r);
                en += r;
            }
        }
        err[en] = 0;
        close(pfd[0]);
        int status = 0;
        while (waitpid(pid, &status, 0) < 0 && errno == EINTR)
            ;
        if (WIFEXITED(status) && WEXITSTATUS(status) == 0 && G->done)
            break;
        /* the worker died on G->cur_case */
        char kind[100], where[100], sig[220], tail[700];
        crash_kind(err, status, kind, sizeof(kind), where, sizeof(where));
        snprintf(sig, sizeof(sig), "%s:crash:%s:%s", mode, kind, where);
        const char *p = strstr(err, "ERROR: AddressSanitizer");
        if (!p)
            p = strstr(err, "Assertion");
        if (!p)
            p = en > 500 ? err + en - 500 : err;
        snprintf(tail, sizeof(tail), "%.650s", p);
        viol(sig, G->cur_case, "worker died (%s) in %s while executing this case; report: %s", kind, where[0] ? where : "?", tail);
        g_resume = G->cur_idx + 1;
        if (++crashes >= 400) {
            v_incomplete("more than 400 crashing cases in this job, enumeration stopped at case index %lld", G->cur_idx);
            break;
        }
    }
    if (G->expired)
        v_incomplete("deadline of %.0f s reached at case index %lld (%s)", g_deadline, G->cur_idx, G->cur_case);
    for (int i = 0; i < G->nnotes; i++)
        v_note("%s", G->notes[i]);
    for (int i = 0; i < G->nsig; i++)
        v_note("signature %s seen in %lld case(s)", G->sigs[i].sig, G->sigs[i].n);
    if (G->info_hdr_mismatch)
        v_note("b.header (header size) after convert_frame differs from the new offset of the first VCL NAL in %lld case(s), first: %s",
               G->info_hdr_mismatch, G->info_hdr_first);
    for (int i = 0; i < G->nacct_notes; i++)
        v_note("accounting finding (outside the C17 statement, see --acct): %s", G->acct_notes[i]);
    v_stat("accounting_findings", G->acct_findings);
    v_stat("findings_suppressed_by_acct", G->suppressed);
    v_stat("states", G->states);
    v_stat("transitions", G->transitions);
    v_stat("executions", G->executions);
    v_stat("nontrivial", G->nontrivial);
    v_stat("violations", G->violations);
    v_stat("skipped_not_meaningful", G->skipped);
    v_stat("crashing_cases", crashes);
    v_stat("info_header_size_mismatch", G->info_hdr_mismatch);
    if (!strcmp(mode, "t2"))
        v_stat("t2_sweep_values", G->extra[0]);
    v_stat("max_wall_ms", (long long)((v_now() - g_t0) * 1000));
    return 0;
}
