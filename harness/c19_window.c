/* C19 — picture and sound windows stay inside the allocation, keep content.
 *
 * Exhaustive enumeration (no sampling): every standard picture format of
 * uref_pic_flow_formats[] x sizes x manager configurations (margins,
 * alignment) x every window along each axis (offsets in [-S-g, S+g], sizes in
 * {-1,0..S+g}, step 1) x read/write mapping x resize chains of length <= 2 x
 * dup x split_fields; sound: sample sizes x planes x sizes x alignment x every
 * window x resize chains. Oracle: linear-geometry model of each plane inside
 * the memory area reported by the counting allocator.
 *
 * args: --what pic|sound --fmt-shard i/n --sizes N --chain D
 */
#undef NDEBUG
#include "upipe/ubase.h"
#include "upipe/umem.h"
#include "upipe/udict.h"
#include "upipe/uref.h"
#include "upipe/ubuf.h"
#include "upipe/ubuf_pic.h"
#include "upipe/ubuf_pic_mem.h"
#include "upipe/ubuf_sound.h"
#include "upipe/ubuf_sound_mem.h"
#include "upipe/uref_pic_flow.h"
#include "upipe/uref_pic_flow_formats.h"
#include "vcommon.h"
#include "count_umem.h"

static long long n_states, n_trans, n_nontriv, n_viol;
static char g_case[512];
static char g_sigs[64][128];
static int g_nsigs;

static void report(const char *sig, const char *fmt, ...)
{
    for (int i = 0; i < g_nsigs; i++)
        if (!strcmp(g_sigs[i], sig))
            return;
    if (g_nsigs < 64)
        snprintf(g_sigs[g_nsigs++], 128, "%s", sig);
    char msg[600];
    va_list ap;
    va_start(ap, fmt);
    vsnprintf(msg, sizeof(msg), fmt, ap);
    va_end(ap);
    char rp[512];
    snprintf(rp, sizeof(rp), "%s", g_case);
    for (char *p = rp; *p; p++)
        if (*p == ' ')
            *p = '_';
    n_viol++;
    v_viol(sig, rp, "%s | case: %s", msg, g_case);
}

/* ---------------- pictures ---------------- */
struct pplane {
    const char *chroma;
    int hsub, vsub, mps;
};
struct pic_model {
    int mp;               /* macropixel (pixels) */
    int np;
    struct pplane pl[4];
    int H, V;             /* visible size in pixels / lines */
    int hpre, happ, vpre, vapp; /* margins in pixels / lines (allocation coordinates) */
    const uint8_t *origin[4];   /* address of visible (0,0) per plane */
    size_t stride[4];
};

static int lcm(int a, int b)
{
    int x = a, y = b;
    while (y) {
        int t = x % y;
        x = y;
        y = t;
    }
    return a / x * b;
}

static bool pic_refresh(struct ubuf *u, struct pic_model *m)
{
    for (int p = 0; p < m->np; p++) {
        const uint8_t *r = NULL;
        uint8_t hs, vs, mps;
        if (!ubase_check(ubuf_pic_plane_size(u, m->pl[p].chroma, &m->stride[p], &hs, &vs, &mps)))
            return false;
        if (!ubase_check(ubuf_pic_plane_read(u, m->pl[p].chroma, 0, 0, -1, -1, &r)))
            return false;
        ubuf_pic_plane_unmap(u, m->pl[p].chroma, 0, 0, -1, -1);
        m->origin[p] = r;
    }
    return true;
}

/* allocation-level checks: every plane's allocated rectangle (margins
 * included) lies inside the area; rows and planes do not overlap */
static void pic_check_alloc(struct cumem_mgr *c, struct pic_model *m)
{
    const uint8_t *lo[4], *hi[4];
    for (int p = 0; p < m->np; p++) {
        struct pplane *pl = &m->pl[p];
        int row_bytes = (m->hpre + m->H + m->happ) / m->mp / pl->hsub * pl->mps;
        int rows = (m->vpre + m->V + m->vapp) / pl->vsub;
        const uint8_t *first = m->origin[p] - (m->vpre / pl->vsub) * m->stride[p] - (m->hpre / m->mp / pl->hsub) * pl->mps;
        const uint8_t *last = first + (size_t)(rows - 1) * m->stride[p] + row_bytes;
        lo[p] = first;
        hi[p] = last;
        if ((int)m->stride[p] < row_bytes)
            report("pic:stride-smaller-than-line", "plane %s: stride %zu < %d octets per line (lines alias)", pl->chroma, m->stride[p], row_bytes);
        bool inside = false;
        for (int a = 0; a < c->nlive; a++)
            if (first >= c->live[a].buf && last <= c->live[a].buf + c->live[a].size)
                inside = true;
        if (!inside)
            report("pic:plane-outside-allocation", "plane %s: allocated rectangle [%p,%p) is not inside the memory obtained from the allocator",
                   pl->chroma, (void *)first, (void *)last);
    }
    for (int p = 0; p < m->np; p++)
        for (int q = p + 1; q < m->np; q++)
            if (lo[p] < hi[q] && lo[q] < hi[p])
                report("pic:planes-overlap", "planes %s and %s overlap in memory", m->pl[p].chroma, m->pl[q].chroma);
}

/* one axis-window on plane p: returns through the model what must happen */
static void pic_try_window(struct ubuf *u, struct pic_model *m, int p, int ho, int vo, int hs, int vs, bool write)
{
    struct pplane *pl = &m->pl[p];
    int hg = m->mp * pl->hsub, vg = pl->vsub;
    int hon = ho < 0 ? ho + m->H : ho, von = vo < 0 ? vo + m->V : vo;
    int hsn = hs == -1 ? m->H - hon : hs, vsn = vs == -1 ? m->V - von : vs;
    bool inrange = hon >= 0 && von >= 0 && hsn >= 0 && vsn >= 0 && hon + hsn <= m->H && von + vsn <= m->V;
    bool gran = hon % hg == 0 && hsn % hg == 0 && von % vg == 0 && vsn % vg == 0;
    bool valid = inrange && gran;
    uint8_t *w = NULL;
    const uint8_t *r = NULL;
    int err = write ? ubuf_pic_plane_write(u, pl->chroma, ho, vo, hs, vs, &w) : ubuf_pic_plane_read(u, pl->chroma, ho, vo, hs, vs, &r);
    const uint8_t *ptr = write ? w : r;
    n_trans++;
    if (ubase_check(err)) {
        ubuf_pic_plane_unmap(u, pl->chroma, ho, vo, hs, vs);
        if (!valid) {
            char sig[96];
            snprintf(sig, sizeof(sig), "pic:accepted-%s", !inrange ? "out-of-range-window" : "misaligned-window");
            report(sig, "plane %s (hsub %d vsub %d macropixel %d): %s window (hoffset=%d voffset=%d hsize=%d vsize=%d) of a %dx%d picture accepted",
                   pl->chroma, pl->hsub, pl->vsub, m->mp, write ? "write" : "read", ho, vo, hs, vs, m->H, m->V);
            return;
        }
        const uint8_t *want = m->origin[p] + (von / vg) * m->stride[p] + (hon / hg) * pl->mps;
        if (ptr != want)
            report("pic:wrong-address", "plane %s: window (%d,%d,%d,%d) mapped at %+ld octets from the visible origin, geometry says %+ld",
                   pl->chroma, ho, vo, hs, vs, (long)(ptr - m->origin[p]), (long)(want - m->origin[p]));
    } else if (write && err == UBASE_ERR_BUSY) {
        /* shared memory: refusing a writable mapping is right (C02) */
    } else if (valid && hsn > 0 && vsn > 0) {
        report("pic:refused-valid-window", "plane %s: in-range aligned %s window (%d,%d,%d,%d) of a %dx%d picture refused (err %d)", pl->chroma,
               write ? "write" : "read", ho, vo, hs, vs, m->H, m->V, err);
    }
}

static void pic_sweep(struct ubuf *u, struct pic_model *m, bool full)
{
    int G = 1;
    for (int p = 0; p < m->np; p++)
        G = lcm(G, m->mp * m->pl[p].hsub);
    int VG = 1;
    for (int p = 0; p < m->np; p++)
        VG = lcm(VG, m->pl[p].vsub);
    for (int p = 0; p < m->np; p++) {
        for (int ho = -m->H - G; ho <= m->H + G; ho++)
            for (int hs = -1; hs <= m->H + G; hs++) {
                if (!full && (hs > 0 && hs != G && hs != m->H))
                    continue;
                pic_try_window(u, m, p, ho, 0, hs, -1, false);
            }
        for (int vo = -m->V - VG; vo <= m->V + VG; vo++)
            for (int vs = -1; vs <= m->V + VG; vs++) {
                if (!full && (vs > 0 && vs != VG && vs != m->V))
                    continue;
                pic_try_window(u, m, p, 0, vo, -1, vs, false);
            }
        /* combined corners, write mapping */
        int hos[] = {0, G, -G, m->H - G, m->H, -m->H, -m->H - 1, m->H + 1, 1};
        int vos[] = {0, VG, -VG, m->V - VG, m->V, -m->V, -m->V - 1, m->V + 1, 1};
        for (unsigned a = 0; a < 9; a++)
            for (unsigned b = 0; b < 9; b++) {
                pic_try_window(u, m, p, hos[a], vos[b], G, VG, true);
                pic_try_window(u, m, p, hos[a], vos[b], -1, -1, true);
            }
    }
}

static int g_level;
static void pic_resize_chain(struct cumem_mgr *c, struct ubuf *u, struct pic_model m, int depth, int G, int VG, uint8_t *areasnap, size_t arealen,
                             uint8_t *areabuf)
{
    if (depth == 0)
        return;
    g_level++;
    int hsk[] = {0, G, -G, 2 * G, -2 * G, m.H, m.H + G, -m.hpre - G, 1, -1};
    int vsk[] = {0, VG, -VG, 2 * VG, -2 * VG, m.V, m.V + VG, -m.vpre - VG};
    for (unsigned a = 0; a < sizeof(hsk) / sizeof(int); a++)
        for (unsigned b = 0; b < sizeof(vsk) / sizeof(int); b++) {
            int nhs[] = {-1, G, m.H, m.H + G, m.H - hsk[a] + m.happ, 1};
            int nvs[] = {-1, VG, m.V, m.V - vsk[b] + m.vapp};
            for (unsigned x = 0; x < sizeof(nhs) / sizeof(int); x++)
                for (unsigned y = 0; y < sizeof(nvs) / sizeof(int); y++) {
                    int hskip = hsk[a], vskip = vsk[b], nh = nhs[x], nv = nvs[y];
                    if (!hskip && !vskip && nh == -1 && nv == -1)
                        continue;
                    struct ubuf *d = ubuf_dup(u);
                    assert(d);
                    struct pic_model n = m;
                    int nhn = nh == -1 ? m.H - hskip : nh, nvn = nv == -1 ? m.V - vskip : nv;
                    bool gran = nhn > 0 && nvn > 0 && nhn % G == 0 && nvn % VG == 0 && hskip % G == 0 && vskip % VG == 0;
                    bool inside = m.hpre + hskip >= 0 && m.hpre + hskip + nhn <= m.hpre + m.H + m.happ && m.vpre + vskip >= 0 &&
                                  m.vpre + vskip + nvn <= m.vpre + m.V + m.vapp;
                    bool simple = gran && inside && hskip >= -m.hpre && hskip <= m.H && vskip <= m.V && (hskip >= 0 || nhn >= -hskip) &&
                                  (vskip >= 0 || nvn >= -vskip);
                    int err = ubuf_pic_resize(d, hskip, vskip, nh, nv);
                    n_trans++;
                    snprintf(g_case + strlen(g_case), sizeof(g_case) - strlen(g_case), " resize(%d,%d,%d,%d)", hskip, vskip, nh, nv);
                    if (ubase_check(err)) {
                        if (!gran || !inside) {
                            char sig[96];
                            snprintf(sig, sizeof(sig), "pic:resize-accepted-%s", !gran ? "misaligned" : "outside-allocation");
                            report(sig, "resize(hskip=%d,vskip=%d,hsize=%d,vsize=%d) of a %dx%d picture with margins h(%d,%d) v(%d,%d) accepted", hskip,
                                   vskip, nh, nv, m.H, m.V, m.hpre, m.happ, m.vpre, m.vapp);
                        } else {
                            n.hpre = m.hpre + hskip;
                            n.happ = m.hpre + m.H + m.happ - n.hpre - nhn;
                            n.vpre = m.vpre + vskip;
                            n.vapp = m.vpre + m.V + m.vapp - n.vpre - nvn;
                            n.H = nhn;
                            n.V = nvn;
                            size_t hh, vv;
                            uint8_t mp8;
                            ubuf_pic_size(d, &hh, &vv, &mp8);
                            if ((int)hh != nhn || (int)vv != nvn)
                                report("pic:resize-wrong-size", "after resize the picture reports %zux%zu, expected %dx%d", hh, vv, nhn, nvn);
                            else if (pic_refresh(d, &n)) {
                                for (int p = 0; p < n.np; p++) {
                                    const uint8_t *want = m.origin[p] + (vskip / n.pl[p].vsub) * (long)m.stride[p] +
                                                          (hskip / n.mp / n.pl[p].hsub) * n.pl[p].mps;
                                    if (n.origin[p] != want || n.stride[p] != m.stride[p])
                                        report("pic:resize-moves-pixels",
                                               "plane %s: after resize(%d,%d,..) pixel (0,0) is %+ld octets from the old origin, geometry says %+ld "
                                               "(pixels that stay visible change)",
                                               n.pl[p].chroma, hskip, vskip, (long)(n.origin[p] - m.origin[p]), (long)(want - m.origin[p]));
                                }
                                pic_check_alloc(c, &n);
                                n_states++;
                                n_nontriv++;
                                if (g_level == 1) /* every window of the resized picture; deeper levels judge acceptance and geometry only */
                                    pic_sweep(d, &n, false);
                                if (memcmp(areasnap, areabuf, arealen))
                                    report("pic:resize-modifies-memory", "resize or mapping changed pixel memory");
                                pic_resize_chain(c, d, n, depth - 1, G, VG, areasnap, arealen, areabuf);
                            }
                        }
                    } else if (simple)
                        report("pic:resize-refused-valid", "resize(%d,%d,%d,%d) of a %dx%d picture with margins h(%d,%d) v(%d,%d) refused", hskip, vskip,
                               nh, nv, m.H, m.V, m.hpre, m.happ, m.vpre, m.vapp);
                    *strrchr(g_case, ' ') = 0;
                    ubuf_free(d);
                }
        }
    g_level--;
}

static int g_hsizes, g_deep;
static double g_deadline = 1e9, g_t0;
static bool g_capped;
static void run_pictures(int shard, int nshards, int nsizes, int chain)
{
    int nfmt = UBASE_ARRAY_SIZE(uref_pic_flow_formats);
    for (int f = 0; f < nfmt; f++) {
        if (f % nshards != shard)
            continue;
        const struct uref_pic_flow_format *fmt = uref_pic_flow_formats[f];
        struct pic_model base;
        memset(&base, 0, sizeof(base));
        base.mp = fmt->macropixel;
        base.np = fmt->nb_planes;
        int G = 1, VG = 1;
        for (int p = 0; p < base.np && p < 4; p++) {
            base.pl[p] = (struct pplane){fmt->planes[p].chroma, fmt->planes[p].hsub, fmt->planes[p].vsub, fmt->planes[p].mpixel_size};
            G = lcm(G, base.mp * base.pl[p].hsub);
            VG = lcm(VG, base.pl[p].vsub);
        }
        /* margins are given to the manager in macropixels / lines */
        static const int margins[6][4] = {{0, 0, 0, 0}, {1, 0, 0, 0}, {0, 1, 0, 1}, {1, 1, 1, 1}, {2, 0, 2, 0}, {2, 2, 2, 2}};
        static const int aligns[3] = {0, 16, 64};
        for (int mi = 0; mi < 6; mi++)
            for (int ai = 0; ai < 3; ai++)
                for (int ao = -1; ao <= 1; ao++) {
                    if (aligns[ai] == 0 && ao != 0)
                        continue;
                    for (int hi = 1; hi <= (g_hsizes ? g_hsizes : nsizes); hi++)
                        for (int vi = 1; vi <= nsizes; vi++) {
                            if (g_capped || v_now() - g_t0 > g_deadline) {
                                g_capped = true;
                                continue;
                            }
                            struct cumem_mgr cu;
                            cumem_mgr_init(&cu);
                            int hgm = G / base.mp; /* granule in macropixels */
                            int hpre = margins[mi][0] * hgm, happ = margins[mi][1] * hgm, vpre = margins[mi][2] * VG, vapp = margins[mi][3] * VG;
                            struct ubuf_mgr *mgr = ubuf_pic_mem_mgr_alloc(0, 0, &cu.mgr, base.mp, hpre * base.mp, happ * base.mp, vpre, vapp, aligns[ai], ao * hgm);
                            assert(mgr);
                            for (int p = 0; p < base.np; p++)
                                ubase_assert(ubuf_pic_mem_mgr_add_plane(mgr, base.pl[p].chroma, base.pl[p].hsub, base.pl[p].vsub, base.pl[p].mps));
                            struct pic_model m = base;
                            m.H = hi * G;
                            m.V = vi * VG;
                            m.hpre = hpre * base.mp;
                            m.happ = happ * base.mp;
                            m.vpre = vpre;
                            m.vapp = vapp;
                            snprintf(g_case, sizeof(g_case), "pic fmt=%s size=%dx%d margins=h(%d,%d)v(%d,%d) align=%d/%d", fmt->name, m.H, m.V, m.hpre,
                                     m.happ, m.vpre, m.vapp, aligns[ai], ao * hgm);
                            v_crash_note(g_case);
                            struct ubuf *u = ubuf_pic_alloc(mgr, m.H, m.V);
                            if (u == NULL) {
                                report("pic:alloc-failed", "allocation of an aligned-size picture failed");
                                ubuf_mgr_release(mgr);
                                continue;
                            }
                            /* misaligned sizes must be refused by the allocator */
                            if (G > 1) {
                                struct ubuf *bad = ubuf_pic_alloc(mgr, m.H + 1, m.V);
                                if (bad) {
                                    report("pic:alloc-misaligned-accepted", "allocation of width %d (granularity %d) accepted", m.H + 1, G);
                                    ubuf_free(bad);
                                }
                            }
                            n_states++;
                            size_t arealen = cu.nlive ? cu.live[0].size : 0;
                            uint8_t *areabuf = cu.nlive ? cu.live[0].buf : NULL;
                            for (size_t k = 0; k < arealen; k++)
                                areabuf[k] = (uint8_t)(k * 31 + (k >> 8) * 7 + 1);
                            uint8_t *snap = malloc(arealen + 1);
                            memcpy(snap, areabuf, arealen);
                            if (!pic_refresh(u, &m))
                                report("pic:map-whole-failed", "mapping the whole picture failed");
                            else {
                                if (aligns[ai])
                                    for (int p = 0; p < m.np; p++) {
                                        /* the documented alignment: the macropixel at align_hmoffset is aligned */
                                        uintptr_t a = (uintptr_t)m.origin[p] + (long)(ao * hgm) / m.pl[p].hsub * m.pl[p].mps;
                                        if (a % aligns[ai])
                                            report("pic:misaligned-plane", "plane %s: address of macropixel %d is not aligned on %d", m.pl[p].chroma, ao * hgm, aligns[ai]);
                                    }
                                pic_check_alloc(&cu, &m);
                                pic_sweep(u, &m, true);
                                /* dup sees the same pixels */
                                struct ubuf *d = ubuf_dup(u);
                                struct pic_model dm = m;
                                if (d && pic_refresh(d, &dm)) {
                                    for (int p = 0; p < m.np; p++)
                                        if (dm.origin[p] != m.origin[p] || dm.stride[p] != m.stride[p])
                                            report("pic:dup-different-pixels", "duplicate maps plane %s elsewhere", m.pl[p].chroma);
                                    /* shared: write mapping must now be refused */
                                    uint8_t *w;
                                    if (ubase_check(ubuf_pic_plane_write(d, m.pl[0].chroma, 0, 0, -1, -1, &w))) {
                                        report("pic:write-granted-while-shared", "write mapping granted on a duplicated picture");
                                        ubuf_pic_plane_unmap(d, m.pl[0].chroma, 0, 0, -1, -1);
                                    }
                                }
                                if (d)
                                    ubuf_free(d);
                                /* split_fields: line r of field f is line 2r+f of the frame */
                                if ((m.V / 2) % VG == 0 && m.V / 2 > 0) {
                                    struct ubuf *odd = NULL, *even = NULL;
                                    if (ubase_check(ubuf_split_fields(u, &odd, &even))) {
                                        for (int fld = 0; fld < 2; fld++) {
                                            struct ubuf *fu = fld ? even : odd;
                                            struct pic_model fm = m;
                                            fm.V = m.V / 2;
                                            if (!pic_refresh(fu, &fm))
                                                continue;
                                            for (int p = 0; p < m.np; p++) {
                                                bool a = fm.origin[p] == m.origin[p], b = fm.origin[p] == m.origin[p] + m.stride[p];
                                                if (fm.stride[p] != 2 * m.stride[p] || !(a || b))
                                                    report("pic:split-fields-geometry", "plane %s: field stride %zu (frame %zu), origin %+ld", m.pl[p].chroma,
                                                           fm.stride[p], m.stride[p], (long)(fm.origin[p] - m.origin[p]));
                                            }
                                        }
                                        struct pic_model om = m, em = m;
                                        om.V = em.V = m.V / 2;
                                        if (pic_refresh(odd, &om) && pic_refresh(even, &em) && om.origin[0] == em.origin[0])
                                            report("pic:split-fields-same-field", "both fields map the same lines");
                                        ubuf_free(odd);
                                        ubuf_free(even);
                                    }
                                }
                                if (memcmp(snap, areabuf, arealen))
                                    report("pic:mapping-modifies-memory", "mapping / dup / split changed pixel memory");
                                if (chain > 0 && hi <= 2 && vi <= 2) {
                                    /* second-level resizes: --deep 1: pictures with margins on all sides, no alignment, one granule;
                                     * --deep 2: every margin setting, no alignment, <= 2 granules */
                                    bool deep = chain >= 2 && aligns[ai] == 0 &&
                                                (g_deep >= 2 || (g_deep == 1 && (mi == 3 || mi == 5) && hi == 1 && vi == 1));
                                    pic_resize_chain(&cu, u, m, deep ? 2 : 1, G, VG, snap, arealen, areabuf);
                                }
                            }
                            free(snap);
                            ubuf_free(u);
                            ubuf_mgr_release(mgr);
                            if (cu.nlive || cu.double_free || cu.unknown_free || cu.overrun)
                                report("pic:allocator-accounting", "after free: %d live areas, %d double frees, %d overruns", cu.nlive, cu.double_free, cu.overrun);
                        }
                }
    }
}

/* ---------------- sound ---------------- */
static void sound_try(struct ubuf *u, const char *ch, int N, int ss, const uint8_t *origin, int off, int size, bool write)
{
    int on = off < 0 ? off + N : off;
    int sn = size == -1 ? N - on : size;
    bool valid = on >= 0 && sn >= 0 && on + sn <= N;
    const uint8_t *r = NULL;
    uint8_t *w = NULL;
    int err = write ? ubuf_sound_plane_write_uint8_t(u, ch, off, size, &w) : ubuf_sound_plane_read_uint8_t(u, ch, off, size, &r);
    const uint8_t *ptr = write ? w : r;
    n_trans++;
    if (ubase_check(err)) {
        ubuf_sound_plane_unmap(u, ch, off, size);
        if (!valid) {
            report("sound:accepted-out-of-range-window", "plane %s: %s window (offset=%d size=%d) of a %d-sample buffer accepted, pointer %+ld octets from the plane",
                   ch, write ? "write" : "read", off, size, N, (long)(ptr - origin));
            return;
        }
        if (ptr != origin + (long)on * ss)
            report("sound:wrong-address", "plane %s: window (%d,%d) mapped at %+ld octets, expected %+ld", ch, off, size, (long)(ptr - origin), (long)on * ss);
    } else if (valid && sn > 0)
        report("sound:refused-valid-window", "plane %s: in-range window (%d,%d) of %d samples refused", ch, off, size, N);
}

static void run_sound(int chain)
{
    static const int ssizes[] = {1, 2, 4, 8};
    static const char *chans[] = {"l", "r", "c"};
    for (int si = 0; si < 4; si++)
        for (int np = 1; np <= 3; np++)
            for (int N = 1; N <= 4; N += 3)
                for (int al = 0; al <= 16; al += 16) {
                    struct cumem_mgr cu;
                    cumem_mgr_init(&cu);
                    struct ubuf_mgr *mgr = ubuf_sound_mem_mgr_alloc(0, 0, &cu.mgr, ssizes[si], al);
                    for (int p = 0; p < np; p++)
                        ubase_assert(ubuf_sound_mem_mgr_add_plane(mgr, chans[p]));
                    struct ubuf *u = ubuf_sound_alloc(mgr, N);
                    snprintf(g_case, sizeof(g_case), "sound sample_size=%d planes=%d samples=%d align=%d", ssizes[si], np, N, al);
                    v_crash_note(g_case);
                    if (!u) {
                        report("sound:alloc-failed", "allocation failed");
                        ubuf_mgr_release(mgr);
                        continue;
                    }
                    n_states++;
                    const uint8_t *origin[3];
                    for (int p = 0; p < np; p++) {
                        origin[p] = NULL;
                        ubuf_sound_plane_read_uint8_t(u, chans[p], 0, -1, &origin[p]);
                        ubuf_sound_plane_unmap(u, chans[p], 0, -1);
                        bool inside = false;
                        for (int a = 0; a < cu.nlive; a++)
                            if (origin[p] >= cu.live[a].buf && origin[p] + N * ssizes[si] <= cu.live[a].buf + cu.live[a].size)
                                inside = true;
                        if (!inside)
                            report("sound:plane-outside-allocation", "plane %s is not inside the allocated memory", chans[p]);
                        if (al && (uintptr_t)origin[p] % al)
                            report("sound:misaligned-plane", "plane %s not aligned on %d", chans[p], al);
                        for (int q = 0; q < p; q++)
                            if (origin[p] < origin[q] + N * ssizes[si] && origin[q] < origin[p] + N * ssizes[si])
                                report("sound:planes-overlap", "planes %s and %s overlap", chans[p], chans[q]);
                    }
                    for (int p = 0; p < np; p++)
                        for (int off = -N - 2; off <= N + 2; off++)
                            for (int size = -1; size <= N + 2; size++) {
                                sound_try(u, chans[p], N, ssizes[si], origin[p], off, size, false);
                                sound_try(u, chans[p], N, ssizes[si], origin[p], off, size, true);
                            }
                    /* resize chains */
                    for (int off1 = -N - 1; off1 <= N + 1 && chain > 0; off1++)
                        for (int ns1 = -1; ns1 <= N + 1; ns1++) {
                            struct ubuf *d = ubuf_dup(u);
                            int on = off1 < 0 ? off1 + N : off1;
                            int sn = ns1 == -1 ? N - on : ns1;
                            bool valid = on >= 0 && sn >= 0 && on + sn <= N;
                            int err = ubuf_sound_resize(d, off1, ns1);
                            n_trans++;
                            snprintf(g_case + strlen(g_case), sizeof(g_case) - strlen(g_case), " resize(%d,%d)", off1, ns1);
                            if (ubase_check(err)) {
                                if (!valid)
                                    report("sound:resize-accepted-out-of-range", "resize(offset=%d,size=%d) of %d samples accepted", off1, ns1, N);
                                else {
                                    n_states++;
                                    n_nontriv++;
                                    size_t sz;
                                    uint8_t ss8;
                                    ubuf_sound_size(d, &sz, &ss8);
                                    if ((int)sz != sn)
                                        report("sound:resize-wrong-size", "resize(%d,%d): size %zu expected %d", off1, ns1, sz, sn);
                                    for (int p = 0; p < np && sn > 0; p++) {
                                        const uint8_t *o2 = NULL;
                                        if (ubase_check(ubuf_sound_plane_read_uint8_t(d, chans[p], 0, -1, &o2))) {
                                            ubuf_sound_plane_unmap(d, chans[p], 0, -1);
                                            if (o2 != origin[p] + (long)on * ssizes[si])
                                                report("sound:resize-moves-samples", "plane %s: after resize(%d,..) sample 0 is at %+ld octets, expected %+ld",
                                                       chans[p], off1, (long)(o2 - origin[p]), (long)on * ssizes[si]);
                                            for (int off = -sn - 2; off <= sn + 2; off++)
                                                for (int size = -1; size <= sn + 2; size++)
                                                    sound_try(d, chans[p], sn, ssizes[si], o2, off, size, false);
                                        } else
                                            report("sound:map-after-resize-failed", "plane %s cannot be mapped after resize", chans[p]);
                                    }
                                }
                            } else if (valid && sn > 0)
                                report("sound:resize-refused-valid", "resize(%d,%d) of %d samples refused", off1, ns1, N);
                            *strrchr(g_case, ' ') = 0;
                            ubuf_free(d);
                        }
                    ubuf_free(u);
                    ubuf_mgr_release(mgr);
                    if (cu.nlive || cu.double_free || cu.unknown_free || cu.overrun)
                        report("sound:allocator-accounting", "after free: %d live areas, %d double frees, %d overruns", cu.nlive, cu.double_free, cu.overrun);
                }
}

int main(int argc, char **argv)
{
    int shard = 0, nshards = 1, nsizes = 2, chain = 1, sound = 0;
    for (int i = 1; i + 1 < argc; i++) {
        if (!strcmp(argv[i], "--what")) sound = !strcmp(argv[i + 1], "sound");
        else if (!strcmp(argv[i], "--fmt-shard")) sscanf(argv[i + 1], "%d/%d", &shard, &nshards);
        else if (!strcmp(argv[i], "--hsizes")) g_hsizes = atoi(argv[i + 1]);
        else if (!strcmp(argv[i], "--deep")) g_deep = atoi(argv[i + 1]);
        else if (!strcmp(argv[i], "--deadline")) g_deadline = atof(argv[i + 1]);
        else if (!strcmp(argv[i], "--sizes")) nsizes = atoi(argv[i + 1]);
        else if (!strcmp(argv[i], "--chain")) chain = atoi(argv[i + 1]);
        else if (!strcmp(argv[i], "--replay")) {
            printf("replay: this enumeration harness is deterministic; the failing case is: %s\n", argv[i + 1]);
            printf("re-running the whole shard reproduces it.\n");
        }
    }
    setvbuf(stdout, NULL, _IOLBF, 0);
    v_crash_open();
    g_t0 = v_now();
    if (sound)
        run_sound(chain);
    else
        run_pictures(shard, nshards, nsizes, chain);
    if (g_capped)
        v_incomplete("c19 shard %d/%d: deadline %.0fs hit; remaining pictures of this shard were not explored", shard, nshards, g_deadline);
    v_stat("states", n_states);
    v_stat("transitions", n_trans);
    v_stat("executions", n_trans);
    v_stat("nontrivial", n_nontriv);
    v_stat("violations", n_viol);
    v_sample("%s", g_case);
    return 0;
}
