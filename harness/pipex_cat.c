/* pipex_cat — explicit-state exploration of control/data/release sequences on
 * every catalogue pipe, with recording neighbours. One binary, four oracles:
 *   --oracle C01  life time / accounting      --oracle C04  event + flow-def order
 *   --oracle C05  no loss / dup / reorder     --oracle C20  getters vs setters
 * See DESIGN.md section 2.5 and section 3 (C01, C04, C05, C20). */
#include "pipex.h"
#include "seqx.h"
#include "simfd.h"

#include "upipe-modules/upipe_idem.h"
#include "upipe-modules/upipe_dup.h"
#include "upipe-modules/upipe_setattr.h"
#include "upipe-modules/upipe_setflowdef.h"
#include "upipe-modules/upipe_probe_uref.h"
#include "upipe-modules/upipe_skip.h"
#include "upipe-modules/upipe_htons.h"
#include "upipe-modules/upipe_delay.h"
#include "upipe-modules/upipe_match_attr.h"
#include "upipe-modules/upipe_null.h"
#include "upipe-modules/upipe_queue_sink.h"
#include "upipe-modules/upipe_queue_source.h"
#include "upipe-modules/upipe_aggregate.h"
#include "upipe-modules/upipe_chunk_stream.h"
#include "upipe-modules/upipe_time_limit.h"
#include "upipe-modules/upipe_genaux.h"
#include "upipe-modules/upipe_buffer.h"
#include "upipe-modules/upipe_rate_limit.h"
#include "upipe-modules/upipe_burst.h"
#include "upipe-modules/upipe_convert_to_block.h"
#include "upipe-modules/upipe_discard_blocking.h"
#include "upipe-modules/upipe_dump.h"
#include "upipe-modules/upipe_noclock.h"
#include "upipe-modules/upipe_nodemux.h"
#include "upipe-modules/upipe_setrap.h"
#include "upipe-modules/upipe_dejitter.h"
#include "upipe-modules/upipe_multicat_probe.h"
#include "upipe-modules/upipe_aes_decrypt.h"
#include "upipe-modules/uref_aes_flow.h"
#include "upipe-modules/upipe_block_to_sound.h"
#include "upipe-modules/upipe_dtsdi.h"
#include "upipe-modules/upipe_rtp_pcm_unpack.h"
#include "upipe-modules/upipe_m3u_reader.h"
#include "upipe/uref_sound_flow.h"
#include "upipe-ts/upipe_ts_sync.h"
#include "upipe-ts/upipe_ts_check.h"
#include "upipe-ts/upipe_ts_align.h"
#include "upipe-ts/upipe_ts_psi_split.h"
#include "upipe-ts/upipe_ts_split.h"
#include "upipe-ts/upipe_ts_pid_filter.h"
#include "upipe-ts/upipe_ts_pcr_interpolator.h"
#include "upipe-ts/upipe_ts_tstd.h"
#include "upipe-ts/upipe_ts_decaps.h"
#include "upipe-ts/upipe_ts_pes_decaps.h"
#include "upipe-ts/upipe_ts_psi_merge.h"
#include "upipe-framers/upipe_opus_framer.h"
#include "upipe-framers/upipe_telx_framer.h"
#include "upipe-framers/upipe_s302_framer.h"
#include "upipe-modules/upipe_void_source.h"
#include "upipe-modules/upipe_even.h"
#include "upipe-modules/upipe_trickplay.h"
#include "upipe-modules/upipe_play.h"
#include "upipe-modules/upipe_stream_switcher.h"
#include "upipe-modules/upipe_separate_fields.h"
#include "upipe-modules/upipe_row_split.h"
#include "upipe-modules/upipe_row_join.h"
#include "upipe-modules/upipe_ntsc_prepend.h"
#include "upipe-modules/upipe_rtp_pcm_pack.h"
#include "upipe-modules/upipe_audio_copy.h"
#include "upipe-modules/upipe_crop.h"
#include "upipe-modules/upipe_subpic_schedule.h"
#include "upipe-modules/upipe_video_blank.h"
#include "upipe-modules/upipe_audio_blank.h"
#include "upipe-modules/upipe_sine_wave_source.h"
#include "upipe-ts/upipe_ts_psi_join.h"
#include "upipe-modules/upipe_blit.h"
#include "upipe-modules/upipe_videocont.h"
#include "upipe-modules/upipe_audiocont.h"
#include "upipe-modules/upipe_audio_split.h"
#include "upipe-modules/upipe_audio_merge.h"
#include "upipe-modules/upipe_grid.h"
#include "upipe-modules/upipe_rtp_h264.h"
#include "upipe-modules/upipe_sync.h"
#include "upipe-modules/upipe_rtp_mpeg4.h"
#include "upipe-modules/upipe_multicat_probe.h"
#include "upipe/ubuf_pic_mem.h"
#include "upipe/ubuf_sound_mem.h"
#include "upipe/uref_pic.h"
#include "upipe/uref_pic_flow.h"
#include "upipe/uref_sound.h"
#include "upipe-ts/uref_ts_flow.h"

enum { O_C01 = 1, O_C04 = 2, O_C05 = 4, O_C20 = 8 };
static int g_oracle = O_C01;
static int g_pool = 0;
static int g_prov = 0;   /* 1: the sinks answer uref_mgr / uclock / ubuf_mgr requests themselves (shared managers), inside register;
                          * 2: the sinks keep these requests and answer them only at the operation "provide" (and before the final teardown) */
static double g_watchdog = 5;
static bool g_dump;
static const struct row *g_row;

/* ---- kinds of rows ---- */
enum {
    K_ONE2ONE, /* one output per input, synchronously, documented change only */
    K_DUP,     /* split: every output receives every input */
    K_SINK,    /* consumes everything */
    K_HOLD,    /* may keep buffers for later; order kept */
    K_RECHUNK, /* regroups octets: only accounting / life-cycle / options here (C14 decides the rest) */
};

#define MAXOPT 4
#define MAXVAL 4
#define NSHAPES 5
#define MAXSEQ 16

struct side;
struct st;

struct optdef {
    const char *name;
    int nvals;
    /* returns the ubase error of the setter */
    int (*set)(struct side *, int vi);
    /* writes a canonical text of the current value */
    int (*get)(struct side *, char *out, size_t n);
    /* canonical text of value vi as the getter should print it */
    void (*valstr)(int vi, char *out, size_t n);
    /* text of the initial value (NULL: read it once after alloc) */
    const char *initial;
    /* the option belongs to input subpipe 0 (only offered while it exists; forgotten when it is released) */
    bool on_sub;
};

struct row {
    const char *name;
    int kind;
    struct upipe *(*alloc)(struct side *);
    int nopts;
    struct optdef opt[MAXOPT];
    const char *bad_def;       /* a definition the pipe must reject (NULL: accepts all) */
    /* fills the expected record for input seq (attrs/bytes/size) from the input uref and the model */
    void (*expect)(struct st *, struct uref *in, int seq, struct px_srec *exp, bool *forwarded);
    bool has_flush;
    bool has_subs;
    bool uses_pumps;
    bool flowdef_in_band;      /* queue: definition reaches the sink only with data */
    const char *out_def_prefix; /* expected prefix of the definition presented to the sink */
    const char *in_def;        /* definition string the pipe expects (NULL: "block.") */
    struct upipe *(*sub_alloc)(struct side *, int k); /* NULL: upipe_void_alloc_sub */
    /* generic rows: attributes the pipe requires in its input definition beyond the definition string (F1 / F2 only) */
    void (*flow_fix)(struct uref *flow, int id);
    int in_scale;              /* every input shape is this many times larger (0: 1) */
    /* the five input shapes carry this content instead of the counting pattern (NULL: px_uref_segs with the shape's sizes);
     * shape 3 (elsewhere the future-dated buffer) is then an ordinary fourth content */
    const struct inshape *in_tab;
    /* builds the input buffer itself (pictures, sound); NULL: in_tab, else px_uref_segs */
    struct uref *(*mk_input)(struct side *, int seq, int sh, struct ubuf **held_p);
    int pic_w, pic_h;          /* picture rows: size of the input pictures (and of the input definition) */
    bool pic_chunks;           /* picture rows: shapes 1 and 3 are the top and bottom halves of a picture (with their vertical position) */
    bool sub_io;               /* input subpipes: flow definitions and buffers go to subpipe 0 (the second subpipe stays an idle input) */
    bool pump_to_main;         /* with sub_io: the main pipe is an input too; it gets its definition at allocation and the buffers of the upstream pump */
    bool endless;              /* a source whose timer re-arms for ever: the loop is not drained before the release */
    bool sound_provenance;     /* sound rows that copy samples: the first sample of a delivered buffer tells which input it came from, hence
                                * under which definition it was input (C04: it must come out under that definition) */
    bool out_not_block;        /* the pipe asks for a non-block buffer manager: the sinks never answer requests themselves (they only have a block manager) */
    unsigned in_shapes;        /* mask of the input shapes offered (0: all five) */
    bool pic_size_oracle;      /* C04: every picture delivered to a sink has the hsize / vsize of the last definition that sink accepted */
    struct upipe *(*tick_pipe)(struct side *); /* with pump_to_main: the pipe that takes the buffers of the upstream pump (NULL: the main pipe) */
    bool sub0_selects;         /* sub_alloc selects subpipe 0 as the input with the subpipe's own command, which is documented to forget the name given to
                                * option 0 (set_input by name): the model of that option goes back to value 0 (no name) */
};

/* content of one input shape of a table-driven row */
struct inshape {
    const char *desc;
    const char *bytes;
    int len;
    int cut;                   /* > 0: two segments, the first of this many octets */
    bool start, end;           /* block start / end flags */
};

struct side {
    struct px_fix fx;
    struct upipe *pipe;
    struct upipe *qsrc;     /* queue row: the source end */
    struct upipe *tail;     /* chain rows: the last pipe (outputs are set on it); NULL = pipe */
    struct upipe *mid;      /* chain rows: middle pipe of a 3-pipe chain */
    struct upipe *subs[2];
    bool with_getters;      /* C20: this side calls every getter after every step */
    struct st *st;
    bool probe_drop;        /* probe_uref: the probe asks to drop */
    int nseq;               /* buffers input on this side so far */
    struct urequest up_req; /* an upstream request registered on the pipe; its callback pushes a buffer */
    bool up_registered;
    int up_provided;
    bool probe_teardown;    /* dup row: on the first source_end of a subpipe the application releases every subpipe */
    struct upump_mgr *src_mgr; /* the upstream's own loop: one idler pump that feeds the pipe (non-NULL upump_p) */
    struct upump *src_pump;
    bool in_pump;           /* currently inside the source pump's callback */
    bool td_last;           /* teardown dispatches the last ready pump instead of the first */
    bool need_output_react; /* the application answers 'need_output' (no output, or the output refused the definition) with set_output(S4) */
    int need_output_reacted;
    struct ubuf *held[MAXSEQ]; /* references kept on shared segments */
    int nheld;
    struct ubuf_mgr *pic_mgr, *sound_mgr; /* picture / sound rows: the upstream's buffer managers (created on first use) */
    struct ubuf_mgr *pic444_mgr, *f32_mgr, *mono_mgr; /* further upstream managers: planar 4:4:4 pictures, interleaved f32 stereo, f32 mono */
    /* per record of the sinks' log: size of the picture delivered / hsize and vsize of the definition offered (-1: none) */
    int rec_w[PX_MAXS], rec_h[PX_MAXS];
};

struct expect {
    bool used;
    bool forwarded;         /* the pipe is documented to forward it (e.g. match_attr predicate) */
    bool future;            /* input carried a date in the future (time_limit holds it) */
    struct px_srec rec;
    int stamp;              /* harness stamp when it was input */
    bool reentrant;         /* input from inside a request callback: the model of the output contract is not applied */
    bool must[PX_NSINKS];   /* model of the output contract: sink k must receive it */
    bool mustnot[PX_NSINKS]; /* ... must not receive it */
    int flow;               /* accepted definition when it was input */
};

/* model of one helper_output instance (documented contract, C04) */
enum { OS_NONE, OS_VALID, OS_INVALID };
struct omodel {
    bool live;
    int flow;   /* id of the stored definition, 0 none */
    int out;    /* sink index + 1, 0 none */
    int ostate;
};
struct stampev {
    int stamp, sink, what; /* what: 0 connect, 1 definition change (sink = -1: all) */
};

struct st {
    struct side a, b;       /* b only used with O_C20 */
    bool two;
    /* model */
    int flow;               /* 0: none accepted, else id of the accepted definition */
    int out;                /* 0 none, 1 S0, 2 S1 */
    bool released;
    int nseq;
    struct expect exp[MAXSEQ];
    int optmodel[MAXOPT];   /* index of the last accepted value, -1: initial */
    char optinit[MAXOPT][96];
    struct omodel om[3];    /* main, sub0, sub1 */
    struct stampev sev[64];
    int nsev;
    uint64_t hist_hash;
    bool model_unreliable;
    bool disturbed_after_input; /* output / sink answer / flush / definition touched after the first input */
    bool ready_at_first_input;  /* S0 connected, accepting, definition accepted when the first buffer came */
    bool flushed, out_changed, sink_toggled, opt_changed_after_input;
    int refused_opt;        /* the step just made was a setter of this option and it was refused (-1: no) */
    int ninputs;
    int nops;
    char viol_sig[128], viol_msg[700];
    bool viol;
};

#define FAIL(st_, sig_, ...)                                                   \
    do {                                                                       \
        if (!(st_)->viol) {                                                    \
            (st_)->viol = true;                                                \
            snprintf((st_)->viol_sig, sizeof((st_)->viol_sig), "%s:%s%s", g_row->name, sig_, g_prov == 2 ? "@late-provider" : ""); \
            snprintf((st_)->viol_msg, sizeof((st_)->viol_msg), __VA_ARGS__);   \
        }                                                                      \
    } while (0)

/* input shapes: total size, segment sizes, future-dated, last segment shared with a reference the harness keeps */
static const struct {
    int size, nseg;
    int seg[2];
    bool future, shared;
} shapes[NSHAPES] = {{2, 1, {2, 0}, false, false}, {5, 2, {3, 2}, false, false}, {0, 1, {0, 0}, false, false},
                     {3, 1, {3, 0}, true, false}, {4, 2, {2, 2}, false, true}};

/* ------------------------------------------------------------------ */
/* option tables                                                        */
/* ------------------------------------------------------------------ */
static void vs_u64(const uint64_t *tab, int vi, char *out, size_t n) { snprintf(out, n, "%" PRIu64, tab[vi]); }

/* skip */
static const uint64_t skip_vals[] = {0, 1, 2};
static int skip_set(struct side *s, int vi) { return upipe_skip_set_offset(s->pipe, skip_vals[vi]); }
static int skip_get(struct side *s, char *o, size_t n)
{
    size_t v = 12345;
    int e = upipe_skip_get_offset(s->pipe, &v);
    snprintf(o, n, "%zu", v);
    return e;
}
static void skip_vs(int vi, char *o, size_t n) { vs_u64(skip_vals, vi, o, n); }

/* delay */
static const int64_t delay_vals[] = {0, 7, -3};
static int delay_set(struct side *s, int vi) { return upipe_delay_set_delay(s->pipe, delay_vals[vi]); }
static int delay_get(struct side *s, char *o, size_t n)
{
    int64_t v = 12345;
    int e = upipe_delay_get_delay(s->pipe, &v);
    snprintf(o, n, "%" PRId64, v);
    return e;
}
static void delay_vs(int vi, char *o, size_t n) { snprintf(o, n, "%" PRId64, delay_vals[vi]); }

/* dictionaries for setattr / setflowdef: value index 0 = NULL, 1 = {x.a=1}, 2 = {x.a=2, x.s="v"} */
static struct uref *mk_dict(struct px_fix *fx, int vi)
{
    if (vi == 0)
        return NULL;
    struct uref *d = uref_alloc(fx->uref_mgr);
    assert(d);
    ubase_assert(uref_attr_set_unsigned(d, vi, UDICT_TYPE_UNSIGNED, "x.a"));
    if (vi == 2)
        ubase_assert(uref_attr_set_string(d, "v", UDICT_TYPE_STRING, "x.s"));
    return d;
}
static void dict_str(struct uref *d, char *o, size_t n)
{
    if (d == NULL) {
        snprintf(o, n, "null");
        return;
    }
    char b[PX_ATTRLEN];
    px_attr_dump(d, b, sizeof(b));
    char *bar = strchr(b, '|');
    if (bar)
        *bar = 0;
    snprintf(o, n, "{%s}", b);
}
static void dict_vs(int vi, char *o, size_t n)
{
    if (vi == 0)
        snprintf(o, n, "null");
    else if (vi == 1)
        snprintf(o, n, "{x.a/%d=0000000000000001;}", UDICT_TYPE_UNSIGNED);
    else
        snprintf(o, n, "{x.a/%d=0000000000000002;x.s/%d=7600;}", UDICT_TYPE_UNSIGNED, UDICT_TYPE_STRING);
}
static int setattr_set(struct side *s, int vi)
{
    struct uref *d = mk_dict(&s->fx, vi);
    int e = upipe_setattr_set_dict(s->pipe, d);
    uref_free(d);
    return e;
}
static int setattr_get(struct side *s, char *o, size_t n)
{
    struct uref *d = (struct uref *)(uintptr_t)0x1234;
    int e = upipe_setattr_get_dict(s->pipe, &d);
    if (d == (struct uref *)(uintptr_t)0x1234)
        snprintf(o, n, "untouched");
    else
        dict_str(d, o, n);
    return e;
}
static int setflowdef_set(struct side *s, int vi)
{
    struct uref *d = mk_dict(&s->fx, vi);
    int e = upipe_setflowdef_set_dict(s->pipe, d);
    uref_free(d);
    return e;
}
static int setflowdef_get(struct side *s, char *o, size_t n)
{
    struct uref *d = (struct uref *)(uintptr_t)0x1234;
    int e = upipe_setflowdef_get_dict(s->pipe, &d);
    if (d == (struct uref *)(uintptr_t)0x1234)
        snprintf(o, n, "untouched");
    else
        dict_str(d, o, n);
    return e;
}

/* match_attr: predicate on x.seq within [min,max]; option = boundaries */
static int match_seq(struct uref *uref, uint64_t min, uint64_t max)
{
    uint64_t v;
    if (!ubase_check(uref_attr_get_unsigned(uref, &v, UDICT_TYPE_UNSIGNED, "x.seq")))
        return UBASE_ERR_INVALID;
    return (v >= min && v <= max) ? UBASE_ERR_NONE : UBASE_ERR_INVALID;
}
static const uint64_t match_min[] = {0, 1, 2}, match_max[] = {100, 1, 0};
static int match_set(struct side *s, int vi)
{
    int e = upipe_match_attr_set_uint64_t(s->pipe, match_seq);
    if (!ubase_check(e))
        return e;
    return upipe_match_attr_set_boundaries(s->pipe, match_min[vi], match_max[vi]);
}

/* output size (agg) */
static const unsigned osz_vals[] = {3, 4, 8};
static int osz_set(struct side *s, int vi) { return upipe_set_output_size(s->pipe, osz_vals[vi]); }
static int osz_get(struct side *s, char *o, size_t n)
{
    unsigned v = 12345;
    int e = upipe_get_output_size(s->pipe, &v);
    snprintf(o, n, "%u", v);
    return e;
}
static void osz_vs(int vi, char *o, size_t n) { snprintf(o, n, "%u", osz_vals[vi]); }

/* chunk_stream (mtu, align): last two are documented as invalid */
static const unsigned cs_mtu[] = {4, 5, 2, 0}, cs_align[] = {2, 2, 2, 1};
static int cs_set(struct side *s, int vi) { return upipe_chunk_stream_set_mtu(s->pipe, cs_mtu[vi], cs_align[vi]); }
static int cs_get(struct side *s, char *o, size_t n)
{
    unsigned m = 12345, a = 54321;
    int e = upipe_chunk_stream_get_mtu(s->pipe, &m, &a);
    snprintf(o, n, "%u/%u", m, a);
    return e;
}
static void cs_vs(int vi, char *o, size_t n) { snprintf(o, n, "%u/%u", cs_mtu[vi], cs_align[vi]); }

/* time_limit */
static const uint64_t tl_vals[] = {0, 100, UINT64_MAX};
static int tl_set(struct side *s, int vi) { return upipe_time_limit_set_limit(s->pipe, tl_vals[vi]); }
static int tl_get(struct side *s, char *o, size_t n)
{
    uint64_t v = 12345;
    int e = upipe_time_limit_get_limit(s->pipe, &v);
    snprintf(o, n, "%" PRIu64, v);
    return e;
}
static void tl_vs(int vi, char *o, size_t n) { vs_u64(tl_vals, vi, o, n); }

/* max length (helper_input: queue sink) */
static const unsigned ml_vals[] = {0, 1, 3};
static int ml_set(struct side *s, int vi) { return upipe_set_max_length(s->pipe, ml_vals[vi]); }
static int ml_get(struct side *s, char *o, size_t n)
{
    unsigned v = 12345;
    int e = upipe_get_max_length(s->pipe, &v);
    snprintf(o, n, "%u", v);
    return e;
}
static void ml_vs(int vi, char *o, size_t n) { snprintf(o, n, "%u", ml_vals[vi]); }

/* genaux getattr */
static int ga_cr_sys(struct uref *u, uint64_t *p) { return uref_clock_get_cr_sys(u, p); }
static int ga_cr_prog(struct uref *u, uint64_t *p) { return uref_clock_get_cr_prog(u, p); }
static int (*const ga_vals[])(struct uref *, uint64_t *) = {ga_cr_sys, ga_cr_prog, NULL};
static int ga_set(struct side *s, int vi) { return upipe_genaux_set_getattr(s->pipe, ga_vals[vi]); }
static int ga_get(struct side *s, char *o, size_t n)
{
    int (*g)(struct uref *, uint64_t *) = (int (*)(struct uref *, uint64_t *))(uintptr_t)0x1234;
    int e = upipe_genaux_get_getattr(s->pipe, &g);
    const char *nm = g == ga_cr_sys ? "cr_sys" : g == ga_cr_prog ? "cr_prog" : g == NULL ? "null" : "other";
    snprintf(o, n, "%s", nm);
    return e;
}
static void ga_vs(int vi, char *o, size_t n) { snprintf(o, n, "%s", vi == 0 ? "cr_sys" : vi == 1 ? "cr_prog" : "null"); }

/* buffer */
static const uint64_t bf_vals[] = {0, 3, 100, 6}; /* 6: every input shape fits alone (<= 5 octets), two of the larger ones do not */
#define BF(NAME, SETTER, GETTER)                                               \
    static int NAME##_set(struct side *s, int vi) { return SETTER(s->pipe, bf_vals[vi]); } \
    static int NAME##_get(struct side *s, char *o, size_t n)                   \
    {                                                                          \
        uint64_t v = 12345;                                                    \
        int e = GETTER(s->pipe, &v);                                           \
        snprintf(o, n, "%" PRIu64, v);                                         \
        return e;                                                              \
    }
BF(bfmax, upipe_buffer_set_max_size, upipe_buffer_get_max_size)
BF(bflow, upipe_buffer_set_low_limit, upipe_buffer_get_low_limit)
BF(bfhigh, upipe_buffer_set_high_limit, upipe_buffer_get_high_limit)
static void bf_vs(int vi, char *o, size_t n) { vs_u64(bf_vals, vi, o, n); }

/* rate_limit */
static const uint64_t rl_vals[] = {UINT64_MAX, 2, 1000};
static int rl_set(struct side *s, int vi) { return upipe_rate_limit_set_limit(s->pipe, rl_vals[vi]); }
static int rl_get(struct side *s, char *o, size_t n)
{
    uint64_t v = 12345;
    int e = upipe_rate_limit_get_limit(s->pipe, &v);
    snprintf(o, n, "%" PRIu64, v);
    return e;
}
static void rl_vs(int vi, char *o, size_t n) { vs_u64(rl_vals, vi, o, n); }
static const uint64_t rd_vals[] = {UCLOCK_FREQ, 10, 1};
static int rd_set(struct side *s, int vi) { return upipe_rate_limit_set_duration(s->pipe, rd_vals[vi]); }
static int rd_get(struct side *s, char *o, size_t n)
{
    uint64_t v = 12345;
    int e = upipe_rate_limit_get_duration(s->pipe, &v);
    snprintf(o, n, "%" PRIu64, v);
    return e;
}
static void rd_vs(int vi, char *o, size_t n) { vs_u64(rd_vals, vi, o, n); }

/* TS packet size (ts_sync / ts_check) and sync count (last value is documented as invalid) */
static const unsigned tsz_vals[] = {2, 3, 188};
static int tsz_set(struct side *s, int vi) { return upipe_set_output_size(s->pipe, tsz_vals[vi]); }
static void tsz_vs(int vi, char *o, size_t n) { snprintf(o, n, "%u", tsz_vals[vi]); }
static const int tsy_vals[] = {2, 3, 1};
static int tsy_set(struct side *s, int vi) { return upipe_ts_sync_set_sync(s->pipe, tsy_vals[vi]); }
static int tsy_get(struct side *s, char *o, size_t n)
{
    int v = 12345;
    int e = upipe_ts_sync_get_sync(s->pipe, &v);
    snprintf(o, n, "%d", v);
    return e;
}
static void tsy_vs(int vi, char *o, size_t n) { snprintf(o, n, "%d", tsy_vals[vi]); }

/* queue sink: the pseudo-output (normally the transfer proxy of the queue source) */
static int qo_set(struct side *s, int vi) { return upipe_set_output(s->pipe, vi == 0 ? NULL : &s->fx.sinks[2 + vi].upipe); }
static int qo_get(struct side *s, char *o, size_t n)
{
    struct upipe *out = (struct upipe *)(uintptr_t)0x77;
    int e = upipe_get_output(s->pipe, &out);
    snprintf(o, n, "%s", out == NULL ? "null" : out == &s->fx.sinks[3].upipe ? "S3" : out == &s->fx.sinks[4].upipe ? "S4" : "other");
    return e;
}
static void qo_vs(int vi, char *o, size_t n) { snprintf(o, n, "%s", vi == 0 ? "null" : vi == 1 ? "S3" : "S4"); }

/* chain rows: delay of the 2nd pipe of setattr > delay > idem */
static int cdelay_set(struct side *s, int vi) { return upipe_delay_set_delay(s->mid, delay_vals[vi]); }
static int cdelay_get(struct side *s, char *o, size_t n)
{
    int64_t v = 12345;
    int e = upipe_delay_get_delay(s->mid, &v);
    snprintf(o, n, "%" PRId64, v);
    return e;
}


/* ---- options of the generic rows (C20 runs the getters on them) ---- */
/* crop: offsets of the rectangle from the left / right / top / bottom border of the 8x4 pictures. Value 0 is what alloc_crop sets; value 1 is not
 * aligned on the chroma grid of a 4:2:0 definition (the pipe rounds its working copy, the configured value stays); value 2 pads (negative offsets);
 * value 3 exceeds the picture (refused as soon as an input definition is there) */
static const int64_t crop_vals[4][4] = {{2, 2, 2, 0}, {3, 1, 1, 1}, {-1, 0, -2, 1}, {6, 4, 0, 0}};
static int crop_set(struct side *s, int vi) { return upipe_crop_set_rect(s->pipe, crop_vals[vi][0], crop_vals[vi][1], crop_vals[vi][2], crop_vals[vi][3]); }
static int crop_get(struct side *s, char *o, size_t n)
{
    int64_t v[4] = {12345, 12345, 12345, 12345};
    int e = upipe_crop_get_rect(s->pipe, &v[0], &v[1], &v[2], &v[3]);
    snprintf(o, n, "%" PRId64 "/%" PRId64 "/%" PRId64 "/%" PRId64, v[0], v[1], v[2], v[3]);
    return e;
}
static void crop_vs(int vi, char *o, size_t n)
{
    snprintf(o, n, "%" PRId64 "/%" PRId64 "/%" PRId64 "/%" PRId64, crop_vals[vi][0], crop_vals[vi][1], crop_vals[vi][2], crop_vals[vi][3]);
}

/* trickplay: playing rate; 0/1 and 0/0 are both a pause (documented: "1/1 = normal play, 0 = pause") */
static const struct urational trick_vals[] = {{1, 1}, {0, 1}, {2, 1}, {0, 0}};
static int trick_set(struct side *s, int vi) { return upipe_trickp_set_rate(s->pipe, trick_vals[vi]); }
static int trick_get(struct side *s, char *o, size_t n)
{
    struct urational r = {12345, 54321};
    int e = upipe_trickp_get_rate(s->pipe, &r);
    snprintf(o, n, "%" PRId64 "/%" PRIu64, r.num, r.den);
    return e;
}
static void trick_vs(int vi, char *o, size_t n) { snprintf(o, n, "%" PRId64 "/%" PRIu64, trick_vals[vi].num, trick_vals[vi].den); }

/* setrap: the random access point written into the buffers (UINT64_MAX: none) */
static const uint64_t rap_vals[] = {UINT64_MAX, 0, 4321};
static int rap_set(struct side *s, int vi) { return upipe_setrap_set_rap(s->pipe, rap_vals[vi]); }
static int rap_get(struct side *s, char *o, size_t n)
{
    uint64_t v = 12345;
    int e = upipe_setrap_get_rap(s->pipe, &v);
    snprintf(o, n, "%" PRIu64, v);
    return e;
}
static void rap_vs(int vi, char *o, size_t n) { vs_u64(rap_vals, vi, o, n); }

/* multicat_probe: rotation interval and offset; an interval of 0 is documented as invalid */
static const uint64_t rot_vals[4][2] = {{UPIPE_MULTICAT_PROBE_DEF_ROTATE, UPIPE_MULTICAT_PROBE_DEF_ROTATE_OFFSET}, {10, 23}, {1, 0}, {0, 5}}; /* (10, 23): an offset beyond the interval is an absolute origin, legal */
static int rot_set(struct side *s, int vi) { return upipe_multicat_probe_set_rotate(s->pipe, rot_vals[vi][0], rot_vals[vi][1]); }
static int rot_get(struct side *s, char *o, size_t n)
{
    uint64_t r = 12345, off = 54321;
    int e = upipe_multicat_probe_get_rotate(s->pipe, &r, &off);
    snprintf(o, n, "%" PRIu64 "+%" PRIu64, r, off);
    return e;
}
static void rot_vs(int vi, char *o, size_t n) { snprintf(o, n, "%" PRIu64 "+%" PRIu64, rot_vals[vi][0], rot_vals[vi][1]); }

/* maximum number of held buffers of input subpipe 0 (helper_input: even, stream_switcher) */
static int subml_set(struct side *s, int vi) { return upipe_set_max_length(s->subs[0], ml_vals[vi]); }
static int subml_get(struct side *s, char *o, size_t n)
{
    unsigned v = 12345;
    int e = upipe_get_max_length(s->subs[0], &v);
    snprintf(o, n, "%u", v);
    return e;
}

/* blit, input subpipe 0: destination rectangle (offsets from the left / right / top / bottom border of the 16x8 output picture). The values differ
 * from one another in one component at a time, some components are equal to each other */
static const uint64_t brect_vals[4][4] = {{0, 0, 0, 0}, {4, 4, 2, 2}, {4, 4, 2, 4}, {2, 4, 2, 2}};
static int brect_set(struct side *s, int vi) { return upipe_blit_sub_set_rect(s->subs[0], brect_vals[vi][0], brect_vals[vi][1], brect_vals[vi][2], brect_vals[vi][3]); }
static int brect_get(struct side *s, char *o, size_t n)
{
    uint64_t v[4] = {12345, 12345, 12345, 12345};
    int e = upipe_blit_sub_get_rect(s->subs[0], &v[0], &v[1], &v[2], &v[3]);
    snprintf(o, n, "%" PRIu64 "/%" PRIu64 "/%" PRIu64 "/%" PRIu64, v[0], v[1], v[2], v[3]);
    return e;
}
static void brect_vs(int vi, char *o, size_t n)
{
    snprintf(o, n, "%" PRIu64 "/%" PRIu64 "/%" PRIu64 "/%" PRIu64, brect_vals[vi][0], brect_vals[vi][1], brect_vals[vi][2], brect_vals[vi][3]);
}
/* blit, input subpipe 0: alpha multiplier, alpha threshold, z-index */
#define BLIT_INT(NAME, SETTER, GETTER, ...)                                    \
    static const int NAME##_vals[] = {__VA_ARGS__};                           \
    static int NAME##_set(struct side *s, int vi) { return SETTER(s->subs[0], NAME##_vals[vi]); } \
    static int NAME##_get(struct side *s, char *o, size_t n)                   \
    {                                                                          \
        int v = 12345;                                                         \
        int e = GETTER(s->subs[0], &v);                                        \
        snprintf(o, n, "%d", v);                                               \
        return e;                                                              \
    }                                                                          \
    static void NAME##_vs(int vi, char *o, size_t n) { snprintf(o, n, "%d", NAME##_vals[vi]); }
BLIT_INT(balpha, upipe_blit_sub_set_alpha, upipe_blit_sub_get_alpha, 0xff, 0x80)
BLIT_INT(bthresh, upipe_blit_sub_set_alpha_threshold, upipe_blit_sub_get_alpha_threshold, 0, 0x40)
BLIT_INT(bz, upipe_blit_sub_set_z_index, upipe_blit_sub_get_z_index, 0, -1, 1)

/* videocont / audiocont: name of the input to select (the input definitions F1 / F2 are named "in1" / "in2"), latency, tolerance / crossblend period */
static const char *const cont_names[] = {NULL, "in1", "in2"};
static void cont_name_vs(int vi, char *o, size_t n) { snprintf(o, n, "%s", cont_names[vi] ? cont_names[vi] : "null"); }
static const uint64_t cont_u64[] = {20, 90000};
static void cont_u64_vs(int vi, char *o, size_t n) { vs_u64(cont_u64, vi, o, n); }
#define CONT_NAME(NAME, SETTER, GETTER)                                        \
    static int NAME##_set(struct side *s, int vi) { return SETTER(s->pipe, cont_names[vi]); } \
    static int NAME##_get(struct side *s, char *o, size_t n)                   \
    {                                                                          \
        const char *v = "untouched";                                           \
        int e = GETTER(s->pipe, &v);                                           \
        snprintf(o, n, "%s", v ? v : "null");                                  \
        return e;                                                              \
    }
#define CONT_U64(NAME, SETTER, GETTER)                                         \
    static int NAME##_set(struct side *s, int vi) { return SETTER(s->pipe, cont_u64[vi]); } \
    static int NAME##_get(struct side *s, char *o, size_t n)                   \
    {                                                                          \
        uint64_t v = 12345;                                                    \
        int e = GETTER(s->pipe, &v);                                           \
        snprintf(o, n, "%" PRIu64, v);                                         \
        return e;                                                              \
    }
CONT_NAME(vcname, upipe_videocont_set_input, upipe_videocont_get_input)
CONT_U64(vclat, upipe_videocont_set_latency, upipe_videocont_get_latency)
CONT_U64(vctol, upipe_videocont_set_tolerance, upipe_videocont_get_tolerance)
CONT_NAME(acname, upipe_audiocont_set_input, upipe_audiocont_get_input)
CONT_U64(aclat, upipe_audiocont_set_latency, upipe_audiocont_get_latency)
CONT_U64(acxb, upipe_audiocont_set_crossblend, upipe_audiocont_get_crossblend)

/* ------------------------------------------------------------------ */
/* allocators                                                            */
/* ------------------------------------------------------------------ */
#define ALLOC_VOID(NAME, MGR)                                                  \
    static struct upipe *alloc_##NAME(struct side *s) { return upipe_void_alloc(MGR(), px_probe(&s->fx)); }
ALLOC_VOID(idem, upipe_idem_mgr_alloc)
ALLOC_VOID(dup, upipe_dup_mgr_alloc)
ALLOC_VOID(setattr, upipe_setattr_mgr_alloc)
ALLOC_VOID(setflowdef, upipe_setflowdef_mgr_alloc)
ALLOC_VOID(probe_uref, upipe_probe_uref_mgr_alloc)
ALLOC_VOID(skip, upipe_skip_mgr_alloc)
ALLOC_VOID(htons, upipe_htons_mgr_alloc)
ALLOC_VOID(delay, upipe_delay_mgr_alloc)
ALLOC_VOID(match_attr, upipe_match_attr_mgr_alloc)
ALLOC_VOID(null, upipe_null_mgr_alloc)
ALLOC_VOID(agg, upipe_agg_mgr_alloc)
ALLOC_VOID(chunk, upipe_chunk_stream_mgr_alloc)
ALLOC_VOID(time_limit, upipe_time_limit_mgr_alloc)
ALLOC_VOID(genaux, upipe_genaux_mgr_alloc)
ALLOC_VOID(buffer, upipe_buffer_mgr_alloc)
ALLOC_VOID(rate_limit, upipe_rate_limit_mgr_alloc)
ALLOC_VOID(ts_sync, upipe_ts_sync_mgr_alloc)
ALLOC_VOID(ts_check, upipe_ts_check_mgr_alloc)
ALLOC_VOID(ts_align, upipe_ts_align_mgr_alloc)
ALLOC_VOID(ts_psi_split, upipe_ts_psi_split_mgr_alloc)
ALLOC_VOID(burst, upipe_burst_mgr_alloc)
ALLOC_VOID(tblk, upipe_tblk_mgr_alloc)
ALLOC_VOID(disblo, upipe_disblo_mgr_alloc)
ALLOC_VOID(dump, upipe_dump_mgr_alloc)
ALLOC_VOID(noclock, upipe_noclock_mgr_alloc)
ALLOC_VOID(nodemux, upipe_nodemux_mgr_alloc)
ALLOC_VOID(setrap, upipe_setrap_mgr_alloc)

ALLOC_VOID(ts_split, upipe_ts_split_mgr_alloc)

/* ---- second batch of generic rows ---- */
ALLOC_VOID(dejitter, upipe_dejitter_mgr_alloc)
ALLOC_VOID(multicat_probe, upipe_multicat_probe_mgr_alloc)
ALLOC_VOID(aes_decrypt, upipe_aes_decrypt_mgr_alloc)
ALLOC_VOID(dtsdi, upipe_dtsdi_mgr_alloc)
ALLOC_VOID(rtp_pcm_unpack, upipe_rtp_pcm_unpack_mgr_alloc)
ALLOC_VOID(m3u_reader, upipe_m3u_reader_mgr_alloc)
ALLOC_VOID(ts_pcr_interpolator, upipe_ts_pcr_interpolator_mgr_alloc)
ALLOC_VOID(ts_tstd, upipe_ts_tstd_mgr_alloc)

/* PID of the test buffer number seq (octets 1 and 2 of its payload, see px_octet) */
static unsigned pidf_pid(int seq) { return ((unsigned)(px_octet(seq, 1) & 0x1f) << 8) | px_octet(seq, 2); }
static struct upipe *alloc_ts_pidf(struct side *s)
{
    struct upipe *p = upipe_void_alloc(upipe_ts_pidf_mgr_alloc(), px_probe(&s->fx));
    assert(p);
    for (int seq = 0; seq < MAXSEQ; seq++) /* two buffers out of three pass the filter */
        if (seq % 3 != 2)
            ubase_assert(upipe_ts_pidf_add_pid(p, pidf_pid(seq)));
    return p;
}

/* block_to_sound is allocated with the sound format it has to announce: s32, 2 channels in one plane, 8 octets per sample */
static struct upipe *alloc_block_to_sound(struct side *s)
{
    struct uref *f = uref_sound_flow_alloc_def(s->fx.uref_mgr, "s32.", 2, 8);
    assert(f);
    ubase_assert(uref_sound_flow_add_plane(f, "lr"));
    ubase_assert(uref_sound_flow_set_rate(f, 48000));
    struct upipe *p = upipe_flow_alloc(upipe_block_to_sound_mgr_alloc(), px_probe(&s->fx), f);
    uref_free(f);
    return p;
}

/* a test buffer with given octets (same attributes and dates as px_uref_segs) */
static struct uref *cat_uref_data(struct px_fix *fx, int seq, const void *data, const int *sizes, int nseg, struct ubuf **held_p)
{
    struct uref *uref = NULL;
    const uint8_t *d = data;
    for (int sg = 0; sg < nseg; sg++) {
        struct ubuf *ubuf = ubuf_block_alloc(fx->ubuf_mgr, sizes[sg]);
        assert(ubuf);
        if (sizes[sg]) {
            uint8_t *w;
            int sz = -1;
            ubase_assert(ubuf_block_write(ubuf, 0, &sz, &w));
            memcpy(w, d, sizes[sg]);
            ubuf_block_unmap(ubuf, 0);
            d += sizes[sg];
        }
        if (sg == nseg - 1 && held_p != NULL) {
            *held_p = ubuf_dup(ubuf);
            assert(*held_p);
        }
        if (uref == NULL) {
            uref = uref_alloc(fx->uref_mgr);
            assert(uref);
            uref_attach_ubuf(uref, ubuf);
        } else
            ubase_assert(ubuf_block_append(uref->ubuf, ubuf));
    }
    ubase_assert(uref_attr_set_unsigned(uref, seq, UDICT_TYPE_UNSIGNED, "x.seq"));
    uref_clock_set_cr_sys(uref, 5000 + 10 * seq);
    uref_clock_set_cr_prog(uref, 7000 + 10 * seq);
    uref_clock_set_cr_orig(uref, 9000 + 10 * seq);
    uref_clock_set_cr_dts_delay(uref, 3);
    uref_clock_set_dts_pts_delay(uref, 4);
    return uref;
}

/* table-driven input: shape sh of the row's table */
static struct uref *mk_table(struct side *s, int seq, int sh, struct ubuf **held_p)
{
    const struct inshape *t = &g_row->in_tab[sh];
    int sizes[2] = {t->cut ? t->cut : t->len, t->len - t->cut};
    struct uref *u = cat_uref_data(&s->fx, seq, t->bytes, sizes, t->cut ? 2 : 1, held_p);
    if (t->start)
        uref_block_set_start(u);
    if (t->end)
        uref_block_set_end(u);
    return u;
}
#define INS(desc_, str_, cut_, start_, end_) {desc_, str_, (int)sizeof(str_) - 1, cut_, start_, end_}

/* m3u_reader: pieces of a playlist; shape 0 opens a file (start flag), shape 4 closes it (end flag) */
static const struct inshape tab_m3u[NSHAPES] = {
    INS("#EXTM3U,start", "#EXTM3U\n", 0, true, false),
    INS("#EXTINF+uri(2 segs)", "#EXTINF:2,\na.ts\n", 11, false, false),
    INS("empty", "", 0, false, false),
    INS("#EXT-X-VERSION", "#EXT-X-VERSION:3\n", 0, false, false),
    INS("uri+#EXT-X-ENDLIST(2 segs,2nd shared),end", "b.ts\n#EXT-X-ENDLIST\n", 9, false, true),
};

/* dtsdi: shape 0 is a file header (version 0, 525i59.94, 16-bit full frames; the pipe wants 24 octets even for this 16-octet header), the rest payload */
static const struct inshape tab_dtsdi[NSHAPES] = {
    INS("file header", "DekTec.dtsdi\x00\x02\x01\x01\x00\x00\x00\x00\x00\x00\x00\x00", 0, false, false),
    INS("5 octets(2 segs)", "\x11\x12\x13\x14\x15", 3, false, false),
    INS("empty", "", 0, false, false),
    INS("header v1", "DekTec.dtsdi\x01\x02\x01\x01\x10\x00\x00\x00\x01\x00\x00\x00", 0, false, false),
    INS("4 octets(2 segs,2nd shared)", "\x21\x22\x23\x24", 2, false, false),
};

/* telx framer: frames are delimited by the start / end flags only */
static const struct inshape tab_startend[NSHAPES] = {
    INS("6 octets,start", "\x01\x02\x03\x04\x05\x06", 0, true, false),
    INS("5 octets(2 segs)", "\x11\x12\x13\x14\x15", 3, false, false),
    INS("empty", "", 0, false, false),
    INS("4 octets,start+end", "\x31\x32\x33\x34", 0, true, true),
    INS("4 octets(2 segs,2nd shared),end", "\x41\x42\x43\x44", 2, false, true),
};
/* s302 framer: a frame is a 4-octet header (payload size 10, 2 channels, 16 bit) + 10 octets; shapes 0+1+4 make one, shape 3 is one */
static const struct inshape tab_s302[NSHAPES] = {
    INS("header+3,start", "\x00\x0a\x00\x00\x01\x02\x03", 0, true, false),
    INS("5 octets(2 segs)", "\x11\x12\x13\x14\x15", 3, false, false),
    INS("empty", "", 0, false, false),
    INS("whole frame,start+end", "\x00\x0a\x00\x00\x31\x32\x33\x34\x35\x36\x37\x38\x39\x3a", 0, true, true),
    INS("2 octets(2 segs,2nd shared),end", "\x41\x42", 1, false, true),
};
/* opus framer (TS encapsulation): control header 0x7fe0, size, then the packet */
static const struct inshape tab_opus[NSHAPES] = {
    INS("whole frame of 3", "\x7f\xe0\x03\x08\xaa\xbb", 0, false, false),
    INS("whole frame of 3(2 segs)", "\x7f\xe0\x03\x08\xcc\xdd", 3, false, false),
    INS("empty", "", 0, false, false),
    INS("garbage+first octet of a header", "\x01\x02\x7f", 0, false, false),
    INS("rest of a frame of 2(2 segs,2nd shared)", "\xe0\x02\x08\xee", 3, false, false),
};
/* ts_decaps: TS packets cut short (PID 0x44); counters 0,1,3(jump),2 */
static const struct inshape tab_ts[NSHAPES] = {
    INS("unit start,cc0", "\x47\x40\x44\x10\x01\x02\x03\x04", 0, false, false),
    INS("cc1(2 segs, header split)", "\x47\x00\x44\x11\x11\x12\x13", 3, false, false),
    INS("empty", "", 0, false, false),
    INS("cc3", "\x47\x00\x44\x13\x31\x32", 0, false, false),
    INS("cc2,adaptation field of 2(2 segs,2nd shared)", "\x47\x00\x44\x32\x02\x00\xff\x41", 6, false, false),
};
/* ts_pes_decaps: PES headers (stream 0xe0) and payload pieces */
static const struct inshape tab_pes[NSHAPES] = {
    INS("unbounded PES header+2,start", "\x00\x00\x01\xe0\x00\x00\x80\x00\x00\x01\x02", 0, true, false),
    INS("5 octets(2 segs)", "\x11\x12\x13\x14\x15", 3, false, false),
    INS("empty", "", 0, false, false),
    INS("PES header with PTS,length 10,+2,start", "\x00\x00\x01\xe0\x00\x0a\x80\x80\x05\x21\x00\x01\x00\x01\x31\x32", 0, true, false),
    INS("PES header split(2 segs,2nd shared),start", "\x00\x00\x01\xe0\x00\x00\x80\x00\x00\x41", 5, true, false),
};
/* ts_psi_merge: TS payloads carrying sections of table 0x42 (no syntax indicator) */
static const struct inshape tab_psi[NSHAPES] = {
    INS("pointer 0,section of 8,start", "\x00\x42\x30\x05\x01\x02\x03\x04\x05", 0, true, false),
    INS("pointer 0,first 5 of a section of 8(2 segs),start", "\x00\x42\x30\x05\x11\x12", 2, true, false),
    INS("empty", "", 0, false, false),
    INS("pointer 3,end of a section,new section of 5,start", "\x03\x31\x32\x33\x42\x30\x02\x34\x35", 0, true, false),
    INS("3 octets(2 segs,2nd shared)", "\x41\x42\x43", 1, false, false),
};

ALLOC_VOID(telxf, upipe_telxf_mgr_alloc)
ALLOC_VOID(s302f, upipe_s302f_mgr_alloc)
ALLOC_VOID(opusf, upipe_opusf_mgr_alloc)
ALLOC_VOID(ts_decaps, upipe_ts_decaps_mgr_alloc)
ALLOC_VOID(ts_pesd, upipe_ts_pesd_mgr_alloc)
ALLOC_VOID(ts_psim, upipe_ts_psim_mgr_alloc)

/* main pipe and subpipes are inputs: the main pipe gets its definition here */
static struct upipe *alloc_with_main_def(struct side *s, struct upipe_mgr *mgr)
{
    struct upipe *p = upipe_void_alloc(mgr, px_probe(&s->fx));
    assert(p);
    struct uref *f = px_flow(&s->fx, "block.", 8);
    ubase_assert(upipe_set_flow_def(p, f));
    uref_free(f);
    return p;
}
static struct upipe *alloc_dejitter_both(struct side *s) { return alloc_with_main_def(s, upipe_dejitter_mgr_alloc()); }
static struct upipe *alloc_subpic_both(struct side *s) { return alloc_with_main_def(s, upipe_subpic_schedule_mgr_alloc()); }
ALLOC_VOID(subpic, upipe_subpic_schedule_mgr_alloc)
ALLOC_VOID(even, upipe_even_mgr_alloc)
ALLOC_VOID(trickp, upipe_trickp_mgr_alloc)
ALLOC_VOID(play, upipe_play_mgr_alloc)
ALLOC_VOID(stream_switcher, upipe_stream_switcher_mgr_alloc)

/* void source: allocated with its output definition ("void." + the interval between two buffers) */
static struct upipe *alloc_voidsrc(struct side *s)
{
    struct uref *f = px_flow(&s->fx, "void.", 9);
    ubase_assert(uref_clock_set_duration(f, 1000));
    struct upipe *p = upipe_flow_alloc(upipe_voidsrc_mgr_alloc(), px_probe(&s->fx), f);
    uref_free(f);
    return p;
}

/* ---- picture and sound inputs ---- */
/* planar 4:2:0, 8 bits, with room above and below (ntsc_prepend wants 5 + 1 lines) */
static struct ubuf_mgr *side_pic_mgr(struct side *s)
{
    if (s->pic_mgr == NULL) {
        s->pic_mgr = ubuf_pic_mem_mgr_alloc(g_pool, g_pool, s->fx.umem_mgr, 1, 0, 0, 6, 2, 0, 0);
        assert(s->pic_mgr);
        ubase_assert(ubuf_pic_mem_mgr_add_plane(s->pic_mgr, "y8", 1, 1, 1));
        ubase_assert(ubuf_pic_mem_mgr_add_plane(s->pic_mgr, "u8", 2, 2, 1));
        ubase_assert(ubuf_pic_mem_mgr_add_plane(s->pic_mgr, "v8", 2, 2, 1));
    }
    return s->pic_mgr;
}
/* s32, two channels interleaved in one plane */
static struct ubuf_mgr *side_sound_mgr(struct side *s)
{
    if (s->sound_mgr == NULL) {
        s->sound_mgr = ubuf_sound_mem_mgr_alloc(g_pool, g_pool, s->fx.umem_mgr, 8, 0);
        assert(s->sound_mgr);
        ubase_assert(ubuf_sound_mem_mgr_add_plane(s->sound_mgr, "lr"));
    }
    return s->sound_mgr;
}
static void cat_stamp(struct uref *u, int seq)
{
    ubase_assert(uref_attr_set_unsigned(u, seq, UDICT_TYPE_UNSIGNED, "x.seq"));
    uref_clock_set_cr_sys(u, 5000 + 10 * seq);
    uref_clock_set_cr_prog(u, 7000 + 10 * seq);
    uref_clock_set_cr_orig(u, 9000 + 10 * seq);
    uref_clock_set_cr_dts_delay(u, 3);
    uref_clock_set_dts_pts_delay(u, 4);
}
/* pictures: shape 0 progressive, 1 top field first (or the top half), 2 no attribute, 3 bottom field first (or the bottom half), 4 shared with the upstream */
static struct uref *mk_pic(struct side *s, int seq, int sh, struct ubuf **held_p)
{
    int w = g_row->pic_w, h = g_row->pic_h, vpos = -1;
    if (g_row->pic_chunks) {
        vpos = sh == 3 ? h / 2 : sh == 2 ? -1 : 0;
        if (sh == 1 || sh == 3)
            h /= 2;
    }
    struct uref *u = uref_pic_alloc(s->fx.uref_mgr, side_pic_mgr(s), w, h);
    assert(u);
    static const char *const chroma[3] = {"y8", "u8", "v8"};
    for (int pl = 0; pl < 3; pl++) {
        uint8_t *b;
        size_t stride;
        uint8_t hsub, vsub;
        ubase_assert(uref_pic_plane_size(u, chroma[pl], &stride, &hsub, &vsub, NULL));
        ubase_assert(uref_pic_plane_write(u, chroma[pl], 0, 0, -1, -1, &b));
        for (int y = 0; y < h / vsub; y++)
            memset(b + y * stride, (uint8_t)(seq * 16 + pl * 4 + y), w / hsub);
        ubase_assert(uref_pic_plane_unmap(u, chroma[pl], 0, 0, -1, -1));
    }
    cat_stamp(u, seq);
    if (sh == 0)
        ubase_assert(uref_pic_set_progressive(u));
    if (sh == 1)
        ubase_assert(uref_pic_set_tff(u));
    if (vpos >= 0)
        ubase_assert(uref_pic_set_vposition(u, vpos));
    if (held_p != NULL) {
        *held_p = ubuf_dup(u->ubuf);
        assert(*held_p);
    }
    return u;
}
static void fix_pic(struct uref *f, int id)
{
    (void)id;
    ubase_assert(uref_pic_flow_set_macropixel(f, 1));
    ubase_assert(uref_pic_flow_set_planes(f, 0));
    ubase_assert(uref_pic_flow_add_plane(f, 1, 1, 1, "y8"));
    ubase_assert(uref_pic_flow_add_plane(f, 2, 2, 1, "u8"));
    ubase_assert(uref_pic_flow_add_plane(f, 2, 2, 1, "v8"));
    ubase_assert(uref_pic_flow_set_hsize(f, g_row->pic_w));
    ubase_assert(uref_pic_flow_set_vsize(f, g_row->pic_h));
    ubase_assert(uref_pic_flow_set_hsize_visible(f, g_row->pic_w));
    ubase_assert(uref_pic_flow_set_vsize_visible(f, g_row->pic_h));
    ubase_assert(uref_pic_flow_set_vprepend(f, 6));
    ubase_assert(uref_pic_flow_set_vappend(f, 2));
    struct urational fps = {25, 1};
    ubase_assert(uref_pic_flow_set_fps(f, fps));
}
/* sound: 2, 5, 1, 3, 4 (shared) samples */
static struct uref *mk_sound(struct side *s, int seq, int sh, struct ubuf **held_p)
{
    static const int n[NSHAPES] = {2, 5, 1, 3, 4};
    struct uref *u = uref_sound_alloc(s->fx.uref_mgr, side_sound_mgr(s), n[sh]);
    assert(u);
    int32_t *w;
    ubase_assert(uref_sound_write_int32_t(u, 0, -1, &w, 1));
    for (int i = 0; i < 2 * n[sh]; i++)
        w[i] = (int32_t)((uint32_t)(seq * 16 + i + 1) << 24 | 0x00345600);
    ubase_assert(uref_sound_unmap(u, 0, -1, 1));
    cat_stamp(u, seq);
    if (held_p != NULL) {
        *held_p = ubuf_dup(u->ubuf);
        assert(*held_p);
    }
    return u;
}
static void fix_sound(struct uref *f, int id)
{
    (void)id;
    ubase_assert(uref_sound_flow_set_channels(f, 2));
    ubase_assert(uref_sound_flow_set_sample_size(f, 8));
    ubase_assert(uref_sound_flow_set_planes(f, 0));
    ubase_assert(uref_sound_flow_add_plane(f, "lr"));
    ubase_assert(uref_sound_flow_set_rate(f, 48000));
}

ALLOC_VOID(separate_fields, upipe_separate_fields_mgr_alloc)
ALLOC_VOID(row_join, upipe_row_join_mgr_alloc)
ALLOC_VOID(ntsc_prepend, upipe_ntsc_prepend_mgr_alloc)
/* rtp_pcm_pack: packets of 2 samples instead of a 1440-octet MTU, so that something comes out */
static struct upipe *alloc_rtp_pcm_pack(struct side *s)
{
    struct upipe *p = upipe_void_alloc(upipe_rtp_pcm_pack_mgr_alloc(), px_probe(&s->fx));
    assert(p);
    ubase_assert(upipe_set_option(p, "output-samples", "2"));
    return p;
}
/* row_split is allocated with the height of its chunks */
static struct upipe *alloc_row_split(struct side *s)
{
    struct uref *f = px_flow(&s->fx, "pic.", 9);
    ubase_assert(uref_pic_flow_set_vsize(f, 2));
    struct upipe *p = upipe_flow_alloc(upipe_row_split_mgr_alloc(), px_probe(&s->fx), f);
    uref_free(f);
    return p;
}
/* audio_copy is allocated with the number of samples of its output buffers */
/* audio_copy: the two input definitions differ by their sample rate, which the pipe carries over to its output definition: the rate
 * the sink last accepted tells which input definition it stands for */
static void fix_sound_rate(struct uref *f, int id)
{
    fix_sound(f, id);
    ubase_assert(uref_sound_flow_set_rate(f, id == 2 ? 44100 : 48000));
}
static struct upipe *alloc_audio_copy(struct side *s)
{
    struct uref *f = px_flow(&s->fx, "sound.s32.", 9); /* the attributes given here override those of the input definition */
    ubase_assert(uref_sound_flow_set_samples(f, 3));
    struct upipe *p = upipe_flow_alloc(upipe_audio_copy_mgr_alloc(), px_probe(&s->fx), f);
    uref_free(f);
    return p;
}

/* crop: 2 columns off each side and 2 lines off the top of the 8x4 pictures */
static struct upipe *alloc_crop(struct side *s)
{
    struct upipe *p = upipe_void_alloc(upipe_crop_mgr_alloc(), px_probe(&s->fx));
    assert(p);
    ubase_assert(upipe_crop_set_rect(p, 2, 2, 2, 0));
    return p;
}
/* the blank generators are allocated with the format they produce and are driven by buffers without payload ("void.") */
static struct uref *mk_void(struct side *s, int seq, int sh, struct ubuf **held_p)
{
    (void)sh, (void)held_p;
    struct uref *u = uref_alloc(s->fx.uref_mgr);
    assert(u);
    cat_stamp(u, seq);
    return u;
}
static struct upipe *alloc_vblk(struct side *s)
{
    struct uref *f = px_flow(&s->fx, "pic.", 9);
    fix_pic(f, 9);
    struct upipe *p = upipe_flow_alloc(upipe_vblk_mgr_alloc(), px_probe(&s->fx), f);
    uref_free(f);
    return p;
}
static struct upipe *alloc_ablk(struct side *s)
{
    struct uref *f = px_flow(&s->fx, "sound.s32.", 9);
    fix_sound(f, 9);
    ubase_assert(uref_sound_flow_set_samples(f, 3));
    struct upipe *p = upipe_flow_alloc(upipe_ablk_mgr_alloc(), px_probe(&s->fx), f);
    uref_free(f);
    return p;
}
ALLOC_VOID(sinesrc, upipe_sinesrc_mgr_alloc)
/* ts_psi_join is allocated with its output definition; its subpipes are the inputs */
static struct upipe *alloc_ts_psi_join(struct side *s)
{
    struct uref *f = px_flow(&s->fx, "block.mpegtspsi.", 9);
    struct upipe *p = upipe_flow_alloc(upipe_ts_psi_join_mgr_alloc(), px_probe(&s->fx), f);
    uref_free(f);
    return p;
}

/* attributes the pipes require in their input definition */
static void fix_aes(struct uref *f, int id)
{
    uint8_t key[16], iv[16];
    for (int i = 0; i < 16; i++) {
        key[i] = (uint8_t)(id * 31 + i);
        iv[i] = (uint8_t)(id * 17 + 3 * i);
    }
    ubase_assert(uref_aes_set_method(f, "AES-128"));
    ubase_assert(uref_aes_set_key(f, key, 16));
    ubase_assert(uref_aes_set_iv(f, iv, 16));
}
static void fix_pcm(struct uref *f, int id)
{
    ubase_assert(uref_sound_flow_set_rate(f, 48000));
    ubase_assert(uref_sound_flow_set_channels(f, id)); /* F1 mono, F2 stereo */
}
static void fix_tstd(struct uref *f, int id)
{
    ubase_assert(uref_block_flow_set_octetrate(f, 2000 * id));
    ubase_assert(uref_block_flow_set_buffer_size(f, 100));
}

/* output subpipes of the TS splitters are allocated with their own flow definition (filter / PID) */
static struct upipe *sub_psi_split(struct side *s, int k)
{
    struct uref *f = px_flow(&s->fx, "block.mpegtspsi.", 10 + k);
    uint8_t filter[2] = {(uint8_t)(k ? 0x42 : 0x00), 0}, mask[2] = {(uint8_t)(k ? 0xff : 0x00), 0};
    ubase_assert(uref_ts_flow_set_psi_filter(f, filter, mask, 2));
    struct upipe *sub = upipe_flow_alloc_sub(s->pipe, px_probe(&s->fx), f);
    uref_free(f);
    return sub;
}
static struct upipe *sub_ts_split(struct side *s, int k)
{
    struct uref *f = px_flow(&s->fx, "block.mpegts.", 10 + k);
    ubase_assert(uref_ts_flow_set_pid(f, 68 + k));
    struct upipe *sub = upipe_flow_alloc_sub(s->pipe, px_probe(&s->fx), f);
    uref_free(f);
    return sub;
}

/* chains of in-thread pipes: inputs and definitions enter the first, outputs are set on the last */
static struct upipe *alloc_chain_skip_htons(struct side *s)
{
    struct upipe *p1 = upipe_void_alloc(upipe_skip_mgr_alloc(), px_probe(&s->fx));
    s->tail = upipe_void_alloc(upipe_htons_mgr_alloc(), px_probe(&s->fx));
    assert(p1 && s->tail);
    ubase_assert(upipe_set_output(p1, s->tail));
    return p1;
}
static struct upipe *alloc_chain_setattr_delay_idem(struct side *s)
{
    struct upipe *p1 = upipe_void_alloc(upipe_setattr_mgr_alloc(), px_probe(&s->fx));
    s->mid = upipe_void_alloc(upipe_delay_mgr_alloc(), px_probe(&s->fx));
    s->tail = upipe_void_alloc(upipe_idem_mgr_alloc(), px_probe(&s->fx));
    assert(p1 && s->mid && s->tail);
    ubase_assert(upipe_set_output(p1, s->mid));
    ubase_assert(upipe_set_output(s->mid, s->tail));
    return p1;
}

static int g_qlen = 1;
static struct upipe *alloc_qsink(struct side *s)
{
    s->qsrc = upipe_qsrc_alloc(upipe_qsrc_mgr_alloc(), px_probe(&s->fx), g_qlen);
    assert(s->qsrc);
    struct upipe *qsink = upipe_qsink_alloc(upipe_qsink_mgr_alloc(), px_probe(&s->fx), s->qsrc);
    assert(qsink);
    ubase_assert(upipe_attach_upump_mgr(s->qsrc));
    return qsink;
}

/* the same pair, but nobody ever gives the queue source an event loop: the queue is only emptied when the source dies */
static struct upipe *alloc_qsink_noloop(struct side *s)
{
    s->fx.provide_upump_mgr = false;
    s->qsrc = upipe_qsrc_alloc(upipe_qsrc_mgr_alloc(), px_probe(&s->fx), 4);
    assert(s->qsrc);
    struct upipe *qsink = upipe_qsink_alloc(upipe_qsink_mgr_alloc(), px_probe(&s->fx), s->qsrc);
    assert(qsink);
    return qsink;
}


/* ---- crop with options, blit, videocont, audiocont ---- */
/* planar 4:4:4, 8 bits (a definition without chroma subsampling) */
static struct ubuf_mgr *side_pic444_mgr(struct side *s)
{
    if (s->pic444_mgr == NULL) {
        s->pic444_mgr = ubuf_pic_mem_mgr_alloc(g_pool, g_pool, s->fx.umem_mgr, 1, 0, 0, 6, 2, 0, 0);
        assert(s->pic444_mgr);
        ubase_assert(ubuf_pic_mem_mgr_add_plane(s->pic444_mgr, "y8", 1, 1, 1));
        ubase_assert(ubuf_pic_mem_mgr_add_plane(s->pic444_mgr, "u8", 1, 1, 1));
        ubase_assert(ubuf_pic_mem_mgr_add_plane(s->pic444_mgr, "v8", 1, 1, 1));
    }
    return s->pic444_mgr;
}
/* one plane of two interleaved f32 channels */
static struct ubuf_mgr *side_f32_mgr(struct side *s)
{
    if (s->f32_mgr == NULL) {
        s->f32_mgr = ubuf_sound_mem_mgr_alloc(g_pool, g_pool, s->fx.umem_mgr, 8, 0);
        assert(s->f32_mgr);
        ubase_assert(ubuf_sound_mem_mgr_add_plane(s->f32_mgr, "lr"));
    }
    return s->f32_mgr;
}
/* dates well above one second: videocont subtracts its retention time (one second) from the dates it compares */
static void cat_stamp_late(struct uref *u, int seq)
{
    ubase_assert(uref_attr_set_unsigned(u, seq, UDICT_TYPE_UNSIGNED, "x.seq"));
    uref_clock_set_cr_sys(u, UINT64_C(1000000000) + 10 * seq);
    uref_clock_set_cr_prog(u, UINT64_C(2000000000) + 10 * seq);
    uref_clock_set_cr_orig(u, UINT64_C(3000000000) + 10 * seq);
    uref_clock_set_cr_dts_delay(u, 3);
    uref_clock_set_dts_pts_delay(u, 4);
}
/* a w x h picture from manager mgr, every line of every plane filled with its own octet; shapes as mk_pic (0 progressive, 1 top field first,
 * 4 shared with the upstream) */
static struct uref *cat_pic(struct side *s, struct ubuf_mgr *mgr, int seq, int sh, int w, int h, struct ubuf **held_p)
{
    struct uref *u = uref_pic_alloc(s->fx.uref_mgr, mgr, w, h);
    assert(u);
    static const char *const chroma[3] = {"y8", "u8", "v8"};
    for (int pl = 0; pl < 3; pl++) {
        uint8_t *b;
        size_t stride;
        uint8_t hsub, vsub;
        ubase_assert(uref_pic_plane_size(u, chroma[pl], &stride, &hsub, &vsub, NULL));
        ubase_assert(uref_pic_plane_write(u, chroma[pl], 0, 0, -1, -1, &b));
        for (int y = 0; y < h / vsub; y++)
            memset(b + y * stride, (uint8_t)(seq * 16 + pl * 4 + y), w / hsub);
        ubase_assert(uref_pic_plane_unmap(u, chroma[pl], 0, 0, -1, -1));
    }
    if (sh == 0)
        ubase_assert(uref_pic_set_progressive(u));
    if (sh == 1)
        ubase_assert(uref_pic_set_tff(u));
    if (held_p != NULL) {
        *held_p = ubuf_dup(u->ubuf);
        assert(*held_p);
    }
    return u;
}
/* picture definition: planar 8 bits, 4:2:0 or 4:4:4, w x h */
static void fix_pic_fmt(struct uref *f, int w, int h, bool c444)
{
    ubase_assert(uref_pic_flow_set_macropixel(f, 1));
    ubase_assert(uref_pic_flow_set_planes(f, 0));
    ubase_assert(uref_pic_flow_add_plane(f, 1, 1, 1, "y8"));
    ubase_assert(uref_pic_flow_add_plane(f, c444 ? 1 : 2, c444 ? 1 : 2, 1, "u8"));
    ubase_assert(uref_pic_flow_add_plane(f, c444 ? 1 : 2, c444 ? 1 : 2, 1, "v8"));
    ubase_assert(uref_pic_flow_set_hsize(f, w));
    ubase_assert(uref_pic_flow_set_vsize(f, h));
    ubase_assert(uref_pic_flow_set_hsize_visible(f, w));
    ubase_assert(uref_pic_flow_set_vsize_visible(f, h));
    struct urational fps = {25, 1};
    ubase_assert(uref_pic_flow_set_fps(f, fps));
}

/* crop: F1 is a 4:2:0 definition, F2 a 4:4:4 one; the pictures follow the definition in force */
static void fix_crop(struct uref *f, int id) { fix_pic_fmt(f, g_row->pic_w, g_row->pic_h, id == 2); }
static struct uref *mk_crop(struct side *s, int seq, int sh, struct ubuf **held_p)
{
    struct uref *u = cat_pic(s, s->st->flow == 2 ? side_pic444_mgr(s) : side_pic_mgr(s), seq, sh, g_row->pic_w, g_row->pic_h, held_p);
    cat_stamp(u, seq);
    return u;
}

/* blit: the main pipe takes the 16x8 background pictures (definition given at allocation, pictures from the upstream's pump) and is given an event
 * loop, so that it announces when it is ready to prepare a picture (the probe then asks for it, like uprobe_blit_prepare); the input subpipes take
 * the pictures to blit: F1 is 4x2 at (2,2), F2 2x2 at (8,4) */
static struct upipe *alloc_blit(struct side *s)
{
    struct upipe *p = upipe_void_alloc(upipe_blit_mgr_alloc(), px_probe(&s->fx));
    assert(p);
    ubase_assert(upipe_attach_upump_mgr(p));
    struct uref *f = px_flow(&s->fx, "pic.", 8);
    fix_pic_fmt(f, g_row->pic_w, g_row->pic_h, false);
    ubase_assert(upipe_set_flow_def(p, f));
    uref_free(f);
    return p;
}
static void fix_blit_sub(struct uref *f, int id)
{
    fix_pic_fmt(f, id == 1 ? 4 : 2, 2, false);
    ubase_assert(uref_pic_set_hposition(f, id == 1 ? 2 : 8));
    ubase_assert(uref_pic_set_vposition(f, id == 1 ? 2 : 4));
}
static struct uref *mk_blit(struct side *s, int seq, int sh, struct ubuf **held_p)
{
    struct uref *u = s->in_pump ? cat_pic(s, side_pic_mgr(s), seq, sh, g_row->pic_w, g_row->pic_h, held_p)
                                : cat_pic(s, side_pic_mgr(s), seq, sh, s->st->flow == 2 ? 2 : 4, 2, held_p);
    cat_stamp(u, seq);
    return u;
}

/* videocont: the main pipe is the reference input (8x4 pictures whose dates pace the output; definition given at allocation, pictures from the
 * upstream's pump), the subpipes take the pictures to show; subpipe 0 is selected as the input when it is allocated (set_input by name is an
 * option). F1 (named "in1") is 8x4, F2 ("in2") 4x4; the pictures follow the definition in force */
static struct upipe *alloc_videocont(struct side *s)
{
    struct upipe *p = upipe_void_alloc(upipe_videocont_mgr_alloc(), px_probe(&s->fx));
    assert(p);
    struct uref *f = px_flow(&s->fx, "pic.", 8);
    fix_pic_fmt(f, g_row->pic_w, g_row->pic_h, false);
    ubase_assert(upipe_set_flow_def(p, f));
    uref_free(f);
    return p;
}
static struct upipe *sub_videocont(struct side *s, int k)
{
    struct upipe *sub = upipe_void_alloc_sub(s->pipe, px_probe(&s->fx));
    assert(sub);
    if (k == 0)
        ubase_assert(upipe_videocont_sub_set_input(sub));
    return sub;
}
static void fix_videocont_sub(struct uref *f, int id)
{
    fix_pic_fmt(f, id == 1 ? 8 : 4, 4, false);
    ubase_assert(uref_flow_set_name(f, id == 1 ? "in1" : "in2"));
}
static struct uref *mk_videocont(struct side *s, int seq, int sh, struct ubuf **held_p)
{
    struct uref *u = s->in_pump ? cat_pic(s, side_pic_mgr(s), seq, sh, g_row->pic_w, g_row->pic_h, held_p)
                                : cat_pic(s, side_pic_mgr(s), seq, sh, s->st->flow == 2 ? 4 : 8, 4, held_p);
    cat_stamp_late(u, seq);
    return u;
}

/* audiocont: same structure with sound (one plane of two interleaved f32 channels, 48 kHz); every buffer lasts as long as the distance between
 * the dates of two consecutive test buffers. F2 differs from F1 by its name only ("in1" / "in2"): the pipe refuses another format */
static void fix_f32(struct uref *f, int id)
{
    ubase_assert(uref_sound_flow_set_channels(f, 2));
    ubase_assert(uref_sound_flow_set_sample_size(f, 8));
    ubase_assert(uref_sound_flow_set_planes(f, 0));
    ubase_assert(uref_sound_flow_add_plane(f, "lr"));
    ubase_assert(uref_sound_flow_set_rate(f, 48000));
    if (id == 1 || id == 2)
        ubase_assert(uref_flow_set_name(f, id == 1 ? "in1" : "in2"));
}
static struct upipe *alloc_audiocont(struct side *s)
{
    struct uref *f = px_flow(&s->fx, "sound.f32.", 8);
    fix_f32(f, 8);
    struct upipe *p = upipe_flow_alloc(upipe_audiocont_mgr_alloc(), px_probe(&s->fx), f);
    assert(p);
    ubase_assert(upipe_set_flow_def(p, f));
    uref_free(f);
    return p;
}
static struct upipe *sub_audiocont(struct side *s, int k)
{
    struct upipe *sub = upipe_void_alloc_sub(s->pipe, px_probe(&s->fx));
    assert(sub);
    if (k == 0)
        ubase_assert(upipe_audiocont_sub_set_input(sub));
    return sub;
}
static struct uref *mk_f32(struct side *s, int seq, int sh, struct ubuf **held_p)
{
    static const int n[NSHAPES] = {2, 5, 1, 3, 4};
    struct uref *u = uref_sound_alloc(s->fx.uref_mgr, side_f32_mgr(s), n[sh]);
    assert(u);
    float *w;
    ubase_assert(uref_sound_write_float(u, 0, -1, &w, 1));
    for (int i = 0; i < 2 * n[sh]; i++)
        w[i] = (float)(seq * 16 + i + 1) / 256;
    ubase_assert(uref_sound_unmap(u, 0, -1, 1));
    cat_stamp_late(u, seq);
    ubase_assert(uref_clock_set_duration(u, 10));
    if (held_p != NULL) {
        *held_p = ubuf_dup(u->ubuf);
        assert(*held_p);
    }
    return u;
}

/* audio_split: interleaved s32 stereo in (mk_sound); the output subpipes are allocated with the channel they extract (left / right, one plane) */
ALLOC_VOID(audio_split, upipe_audio_split_mgr_alloc)
static struct upipe *sub_audio_split(struct side *s, int k)
{
    struct uref *f = uref_sound_flow_alloc_def(s->fx.uref_mgr, "", 1, 0);
    assert(f);
    ubase_assert(uref_flow_set_id(f, 10 + k));
    ubase_assert(uref_sound_flow_add_plane(f, k ? "r" : "l"));
    ubase_assert(uref_audio_split_set_bitfield(f, k ? 0x2 : 0x1));
    struct upipe *sub = upipe_flow_alloc_sub(s->pipe, px_probe(&s->fx), f);
    uref_free(f);
    return sub;
}
/* audio_merge is allocated with its output definition (planar f32 stereo); its subpipes are the inputs, one planar channel each (F2 announces
 * a latency, which the pipe copies to its output definition) */
static struct upipe *alloc_audio_merge(struct side *s)
{
    struct uref *f = uref_sound_flow_alloc_def(s->fx.uref_mgr, "f32.", 2, 4);
    assert(f);
    ubase_assert(uref_flow_set_id(f, 9));
    ubase_assert(uref_sound_flow_add_plane(f, "l"));
    ubase_assert(uref_sound_flow_add_plane(f, "r"));
    ubase_assert(uref_sound_flow_set_rate(f, 48000));
    struct upipe *p = upipe_flow_alloc(upipe_audio_merge_mgr_alloc(), px_probe(&s->fx), f);
    uref_free(f);
    return p;
}
static void fix_mono(struct uref *f, int id)
{
    ubase_assert(uref_sound_flow_set_channels(f, 1));
    ubase_assert(uref_sound_flow_set_sample_size(f, 4));
    ubase_assert(uref_sound_flow_set_planes(f, 0));
    ubase_assert(uref_sound_flow_add_plane(f, "l"));
    ubase_assert(uref_sound_flow_set_rate(f, 48000));
    if (id == 2)
        ubase_assert(uref_clock_set_latency(f, 50));
}
static struct uref *mk_mono(struct side *s, int seq, int sh, struct ubuf **held_p)
{
    static const int n[NSHAPES] = {2, 5, 1, 3, 4};
    if (s->mono_mgr == NULL) {
        s->mono_mgr = ubuf_sound_mem_mgr_alloc(g_pool, g_pool, s->fx.umem_mgr, 4, 0);
        assert(s->mono_mgr);
        ubase_assert(ubuf_sound_mem_mgr_add_plane(s->mono_mgr, "l"));
    }
    struct uref *u = uref_sound_alloc(s->fx.uref_mgr, s->mono_mgr, n[sh]);
    assert(u);
    float *w;
    ubase_assert(uref_sound_write_float(u, 0, -1, &w, 1));
    for (int i = 0; i < n[sh]; i++)
        w[i] = (float)(seq * 16 + i + 1) / 256;
    ubase_assert(uref_sound_unmap(u, 0, -1, 1));
    cat_stamp(u, seq);
    if (held_p != NULL) {
        *held_p = ubuf_dup(u->ubuf);
        assert(*held_p);
    }
    return u;
}

/* grid: the first subpipe is a grid input (pictures: F1 8x4, F2 4x4), the second a grid output, allocated with its reference definition and
 * connected to the input; the buffers of the upstream pump (no payload, dated) go to the grid output and pace it; its output is S3 */
static struct upipe *alloc_grid(struct side *s)
{
    struct upipe *p = upipe_void_alloc(upipe_grid_mgr_alloc(), px_probe(&s->fx));
    assert(p);
    ubase_assert(upipe_attach_uclock(p));
    return p;
}
static struct upipe *sub_grid(struct side *s, int k)
{
    if (k == 0)
        return upipe_grid_alloc_input(s->pipe, px_probe(&s->fx));
    struct upipe *out = upipe_grid_alloc_output(s->pipe, px_probe(&s->fx));
    assert(out);
    struct uref *f = px_flow(&s->fx, "pic.", 9);
    ubase_assert(upipe_set_flow_def(out, f));
    uref_free(f);
    ubase_assert(upipe_grid_out_set_input(out, s->subs[0]));
    return out;
}
static struct upipe *tick_grid(struct side *s) { return s->subs[1]; }
static struct uref *mk_grid(struct side *s, int seq, int sh, struct ubuf **held_p)
{
    struct uref *u;
    if (s->in_pump) {
        u = uref_alloc(s->fx.uref_mgr);
        assert(u);
    } else
        u = cat_pic(s, side_pic_mgr(s), seq, sh, s->st->flow == 2 ? 4 : 8, 4, held_p);
    cat_stamp(u, seq);
    return u;
}

/* rtp_h264: access units in Annex B form (the pipe emits one buffer per NAL unit); shape 3 ends with an end-of-sequence and an end-of-stream NAL unit, which
 * consist of their header octet only */
static const struct inshape tab_h264[NSHAPES] = {
    INS("AUD+SPS", "\x00\x00\x01\x09\xf0\x00\x00\x01\x67\x42\x00\x1e", 0, false, false),
    INS("IDR slice,4-octet start code(2 segs)", "\x00\x00\x00\x01\x65\x88\x84\x21", 5, false, false),
    INS("empty", "", 0, false, false),
    INS("slice+end of sequence+end of stream", "\x00\x00\x01\x41\x9a\x02\x00\x00\x01\x0a\x00\x00\x01\x0b", 0, false, false),
    INS("no start code(2 segs,2nd shared)", "\x11\x12\x13\x14", 2, false, false),
};
ALLOC_VOID(rtp_h264, upipe_rtp_h264_mgr_alloc)
ALLOC_VOID(rtp_mpeg4, upipe_rtp_mpeg4_mgr_alloc)

/* sync: the main pipe takes the pictures (8x4, 25 frames per second; definition given at allocation, pictures from the upstream's pump) and is
 * attached to the clock; the input subpipes take interleaved s32 stereo sound (mk_sound); outputs on the main pipe (S0) and on the subpipes */
static struct upipe *alloc_sync(struct side *s)
{
    struct upipe *p = upipe_void_alloc(upipe_sync_mgr_alloc(), px_probe(&s->fx));
    assert(p);
    ubase_assert(upipe_attach_uclock(p));
    struct uref *f = px_flow(&s->fx, "pic.", 8);
    fix_pic_fmt(f, g_row->pic_w, g_row->pic_h, false);
    ubase_assert(upipe_set_flow_def(p, f));
    uref_free(f);
    return p;
}
static struct uref *mk_sync(struct side *s, int seq, int sh, struct ubuf **held_p)
{
    if (!s->in_pump)
        return mk_sound(s, seq, sh, held_p);
    struct uref *u = cat_pic(s, side_pic_mgr(s), seq, sh, g_row->pic_w, g_row->pic_h, held_p);
    cat_stamp(u, seq);
    return u;
}

/* ------------------------------------------------------------------ */
/* expected transformations (documented changes), written independently   */
/* ------------------------------------------------------------------ */
static void exp_identity(struct st *st, struct uref *in, int seq, struct px_srec *e, bool *fw) { (void)st, (void)in, (void)seq, (void)e; *fw = true; }

static int opt_cur(struct st *st, int oi) { return st->optmodel[oi]; }

static void exp_skip(struct st *st, struct uref *in, int seq, struct px_srec *e, bool *fw)
{
    (void)in, (void)seq;
    int vi = opt_cur(st, 0);
    int off = vi < 0 ? 0 : (int)skip_vals[vi];
    *fw = true;
    if (off <= e->size) {
        int total = e->size;
        e->size = total - off;
        e->nbytes = e->size > PX_MAXBYTES ? PX_MAXBYTES : e->size;
        for (int i = 0; i < e->nbytes; i++)
            e->bytes[i] = px_octet(seq, off + i);
    } /* else: documented nowhere; the alphabet never skips more than the size */
}

static void exp_htons(struct st *st, struct uref *in, int seq, struct px_srec *e, bool *fw)
{
    (void)st, (void)in, (void)seq;
    *fw = true;
    for (int i = 0; i + 1 < e->nbytes; i += 2) {
        uint8_t t = e->bytes[i];
        e->bytes[i] = e->bytes[i + 1];
        e->bytes[i + 1] = t;
    }
}

static void exp_delay(struct st *st, struct uref *in, int seq, struct px_srec *e, bool *fw)
{
    (void)seq;
    *fw = true;
    int vi = opt_cur(st, 0);
    int64_t d = vi < 0 ? 0 : delay_vals[vi];
    /* independent arithmetic on a scratch copy: the three dates move by d when set */
    struct uref *c = uref_dup(in);
    assert(c);
    int type;
    uint64_t date;
    uref_clock_get_date_sys(c, &date, &type);
    if (type != UREF_DATE_NONE)
        c->date_sys = date + (uint64_t)d;
    uref_clock_get_date_prog(c, &date, &type);
    if (type != UREF_DATE_NONE)
        c->date_prog = date + (uint64_t)d;
    uref_clock_get_date_orig(c, &date, &type);
    if (type != UREF_DATE_NONE)
        c->date_orig = date + (uint64_t)d;
    px_attr_dump(c, e->attrs, sizeof(e->attrs));
    uref_free(c);
}

static void exp_setattr(struct st *st, struct uref *in, int seq, struct px_srec *e, bool *fw)
{
    (void)seq;
    *fw = true;
    int vi = opt_cur(st, 0);
    if (vi <= 0)
        return;
    struct uref *c = uref_dup(in);
    assert(c);
    ubase_assert(uref_attr_set_unsigned(c, vi, UDICT_TYPE_UNSIGNED, "x.a"));
    if (vi == 2)
        ubase_assert(uref_attr_set_string(c, "v", UDICT_TYPE_STRING, "x.s"));
    px_attr_dump(c, e->attrs, sizeof(e->attrs));
    uref_free(c);
}

static void exp_skip_htons(struct st *st, struct uref *in, int seq, struct px_srec *e, bool *fw)
{
    exp_skip(st, in, seq, e, fw);
    exp_htons(st, in, seq, e, fw);
}

static void exp_setattr_delay(struct st *st, struct uref *in, int seq, struct px_srec *e, bool *fw)
{
    (void)seq;
    *fw = true;
    int vi = opt_cur(st, 0), di = opt_cur(st, 1);
    int64_t d = di < 0 ? 0 : delay_vals[di];
    struct uref *c = uref_dup(in);
    assert(c);
    if (vi > 0) {
        ubase_assert(uref_attr_set_unsigned(c, vi, UDICT_TYPE_UNSIGNED, "x.a"));
        if (vi == 2)
            ubase_assert(uref_attr_set_string(c, "v", UDICT_TYPE_STRING, "x.s"));
    }
    int type;
    uint64_t date;
    uref_clock_get_date_sys(c, &date, &type);
    if (type != UREF_DATE_NONE)
        c->date_sys = date + (uint64_t)d;
    uref_clock_get_date_prog(c, &date, &type);
    if (type != UREF_DATE_NONE)
        c->date_prog = date + (uint64_t)d;
    uref_clock_get_date_orig(c, &date, &type);
    if (type != UREF_DATE_NONE)
        c->date_orig = date + (uint64_t)d;
    px_attr_dump(c, e->attrs, sizeof(e->attrs));
    uref_free(c);
}

static void exp_match(struct st *st, struct uref *in, int seq, struct px_srec *e, bool *fw)
{
    (void)in, (void)e;
    int vi = opt_cur(st, 0);
    *fw = vi < 0 ? true : ((uint64_t)seq >= match_min[vi] && (uint64_t)seq <= match_max[vi]);
}

static void exp_probe(struct st *st, struct uref *in, int seq, struct px_srec *e, bool *fw)
{
    (void)in, (void)seq, (void)e;
    *fw = !st->a.probe_drop;
}

static void exp_genaux(struct st *st, struct uref *in, int seq, struct px_srec *e, bool *fw)
{
    (void)seq;
    int vi = opt_cur(st, 0);
    uint64_t v = 0;
    int ok = vi == 1 ? uref_clock_get_cr_prog(in, &v) : uref_clock_get_cr_sys(in, &v);
    *fw = ubase_check(ok);
    e->size = 8;
    e->nbytes = 8;
    for (int i = 0; i < 8; i++)
        e->bytes[i] = (uint8_t)(v >> (56 - 8 * i));
}

/* ------------------------------------------------------------------ */
/* the catalogue                                                         */
/* ------------------------------------------------------------------ */
static const struct row rows[] = {
    {.name = "idem", .kind = K_ONE2ONE, .alloc = alloc_idem, .expect = exp_identity, .out_def_prefix = "block."},
    {.name = "skip", .kind = K_ONE2ONE, .alloc = alloc_skip, .expect = exp_skip, .bad_def = "pic.", .out_def_prefix = "block.",
     .nopts = 1, .opt = {{"offset", 3, skip_set, skip_get, skip_vs, "0"}}},
    {.name = "htons", .kind = K_ONE2ONE, .alloc = alloc_htons, .expect = exp_htons, .bad_def = "pic.", .out_def_prefix = "block."},
    {.name = "delay", .kind = K_ONE2ONE, .alloc = alloc_delay, .expect = exp_delay, .out_def_prefix = "block.",
     .nopts = 1, .opt = {{"delay", 3, delay_set, delay_get, delay_vs, "0"}}},
    {.name = "setattr", .kind = K_ONE2ONE, .alloc = alloc_setattr, .expect = exp_setattr, .out_def_prefix = "block.",
     .nopts = 1, .opt = {{"dict", 3, setattr_set, setattr_get, dict_vs, "null"}}},
    {.name = "setflowdef", .kind = K_ONE2ONE, .alloc = alloc_setflowdef, .expect = exp_identity, .out_def_prefix = "block.",
     .nopts = 1, .opt = {{"dict", 3, setflowdef_set, setflowdef_get, dict_vs, "null"}}},
    {.name = "probe_uref", .kind = K_ONE2ONE, .alloc = alloc_probe_uref, .expect = exp_probe, .out_def_prefix = "block."},
    {.name = "match_attr", .kind = K_ONE2ONE, .alloc = alloc_match_attr, .expect = exp_match, .out_def_prefix = "block.",
     .nopts = 1, .opt = {{"bounds", 3, match_set, NULL, NULL, NULL}}},
    {.name = "skip>htons", .kind = K_ONE2ONE, .alloc = alloc_chain_skip_htons, .expect = exp_skip_htons, .bad_def = "pic.", .out_def_prefix = "block.",
     .nopts = 1, .opt = {{"offset", 3, skip_set, skip_get, skip_vs, "0"}}},
    {.name = "setattr>delay>idem", .kind = K_ONE2ONE, .alloc = alloc_chain_setattr_delay_idem, .expect = exp_setattr_delay, .out_def_prefix = "block.",
     .nopts = 2, .opt = {{"dict", 3, setattr_set, setattr_get, dict_vs, "null"}, {"delay", 3, cdelay_set, cdelay_get, delay_vs, "0"}}},
    {.name = "null", .kind = K_SINK, .alloc = alloc_null},
    {.name = "dup", .kind = K_DUP, .alloc = alloc_dup, .expect = exp_identity, .has_subs = true, .out_def_prefix = "block."},
    {.name = "time_limit", .kind = K_HOLD, .alloc = alloc_time_limit, .expect = exp_identity, .has_flush = true, .uses_pumps = true,
     .out_def_prefix = "block.", .nopts = 1, .opt = {{"limit", 3, tl_set, tl_get, tl_vs, "18446744073709551615"}}},
    {.name = "genaux", .kind = K_HOLD, .alloc = alloc_genaux, .expect = exp_genaux, .out_def_prefix = "block.aux.",
     .nopts = 1, .opt = {{"getattr", 3, ga_set, ga_get, ga_vs, NULL}}},
    {.name = "buffer", .kind = K_HOLD, .alloc = alloc_buffer, .expect = exp_identity, .uses_pumps = true, .bad_def = "pic.",
     .out_def_prefix = "block.", .nopts = 3,
     .opt = {{"max_size", 4, bfmax_set, bfmax_get, bf_vs, "0"}, {"low", 3, bflow_set, bflow_get, bf_vs, "0"}, {"high", 3, bfhigh_set, bfhigh_get, bf_vs, "0"}}},
    {.name = "rate_limit", .kind = K_HOLD, .alloc = alloc_rate_limit, .expect = exp_identity, .uses_pumps = true, .out_def_prefix = "block.",
     .nopts = 2, .opt = {{"limit", 3, rl_set, rl_get, rl_vs, "18446744073709551615"}, {"duration", 3, rd_set, rd_get, rd_vs, "27000000"}}},
    {.name = "qsink", .kind = K_HOLD, .alloc = alloc_qsink, .expect = exp_identity, .has_flush = true, .uses_pumps = true, .flowdef_in_band = true,
     .out_def_prefix = "block.", .nopts = 2, .opt = {{"max_length", 3, ml_set, ml_get, ml_vs, "0"}, {"pseudo_output", 3, qo_set, qo_get, qo_vs, "null"}}},
    {.name = "qsink_noloop", .kind = K_HOLD, .alloc = alloc_qsink_noloop, .expect = exp_identity, .has_flush = true, .flowdef_in_band = true,
     .out_def_prefix = "block."},
    {.name = "agg", .kind = K_RECHUNK, .alloc = alloc_agg, .bad_def = "pic.", .out_def_prefix = "block.",
     .nopts = 1, .opt = {{"output_size", 3, osz_set, osz_get, osz_vs, "1316"}}},
    {.name = "chunk", .kind = K_RECHUNK, .alloc = alloc_chunk, .bad_def = "pic.", .out_def_prefix = "block.",
     .nopts = 1, .opt = {{"mtu", 4, cs_set, cs_get, cs_vs, "1460/4"}}},
    {.name = "ts_sync", .kind = K_RECHUNK, .alloc = alloc_ts_sync, .bad_def = "pic.", .out_def_prefix = "block.mpegts.",
     .nopts = 2, .opt = {{"output_size", 3, tsz_set, osz_get, tsz_vs, "188"}, {"sync", 3, tsy_set, tsy_get, tsy_vs, "2"}}},
    {.name = "ts_check", .kind = K_RECHUNK, .alloc = alloc_ts_check, .bad_def = "pic.", .out_def_prefix = "block.mpegts.",
     .nopts = 1, .opt = {{"output_size", 3, tsz_set, osz_get, tsz_vs, "188"}}},
    {.name = "ts_align", .kind = K_RECHUNK, .alloc = alloc_ts_align, .bad_def = "pic.", .out_def_prefix = "block.mpegts."},
    /* further module pipes, generic oracles only (accounting, life cycle, flow negotiation, generic getters) */
    {.name = "burst", .kind = K_RECHUNK, .alloc = alloc_burst, .bad_def = "pic.", .uses_pumps = true},
    {.name = "convert_to_block", .kind = K_RECHUNK, .alloc = alloc_tblk},
    {.name = "discard_blocking", .kind = K_RECHUNK, .alloc = alloc_disblo, .uses_pumps = true,
     .nopts = 1, .opt = {{"max_length", 3, ml_set, ml_get, ml_vs, NULL}}},
    {.name = "dump", .kind = K_RECHUNK, .alloc = alloc_dump, .bad_def = "pic."},
    {.name = "noclock", .kind = K_RECHUNK, .alloc = alloc_noclock},
    {.name = "nodemux", .kind = K_RECHUNK, .alloc = alloc_nodemux},
    {.name = "setrap", .kind = K_RECHUNK, .alloc = alloc_setrap,
     .nopts = 1, .opt = {{"rap", 3, rap_set, rap_get, rap_vs, "18446744073709551615"}}},
    {.name = "dejitter", .kind = K_RECHUNK, .alloc = alloc_dejitter},
    {.name = "multicat_probe", .kind = K_RECHUNK, .alloc = alloc_multicat_probe,
     .nopts = 1, .opt = {{"rotate", 4, rot_set, rot_get, rot_vs, "97200000000+0"}}},
    {.name = "aes_decrypt", .kind = K_RECHUNK, .alloc = alloc_aes_decrypt, .bad_def = "pic.", .in_def = "block.aes.", .flow_fix = fix_aes, .in_scale = 8,
     .out_def_prefix = "block."},
    {.name = "aes_decrypt_clear", .kind = K_RECHUNK, .alloc = alloc_aes_decrypt, .bad_def = "pic.", .out_def_prefix = "block."},
    {.name = "block_to_sound", .kind = K_RECHUNK, .alloc = alloc_block_to_sound, .bad_def = "pic.", .in_scale = 16, .out_def_prefix = "sound.s32.", .out_not_block = true},
    {.name = "dtsdi", .kind = K_RECHUNK, .alloc = alloc_dtsdi, .in_tab = tab_dtsdi}, /* (its output size is derived from the file header: not an option) */
    {.name = "rtp_pcm_unpack", .kind = K_RECHUNK, .alloc = alloc_rtp_pcm_unpack, .bad_def = "block.", .in_def = "block.s24be.sound.", .flow_fix = fix_pcm,
     .in_scale = 12, .out_def_prefix = "sound.s32.", .out_not_block = true},
    {.name = "m3u_reader", .kind = K_RECHUNK, .alloc = alloc_m3u_reader, .bad_def = "pic.", .in_tab = tab_m3u, .out_def_prefix = "block.m3u."},
    {.name = "ts_pidf", .kind = K_RECHUNK, .alloc = alloc_ts_pidf, .bad_def = "block.", .in_def = "block.mpegts.", .out_def_prefix = "block.mpegts."},
    {.name = "ts_pcr_interpolator", .kind = K_RECHUNK, .alloc = alloc_ts_pcr_interpolator, .bad_def = "block.", .in_def = "block.mpegts.", .out_def_prefix = "block.mpegts."},
    {.name = "ts_tstd", .kind = K_RECHUNK, .alloc = alloc_ts_tstd, .bad_def = "pic.", .flow_fix = fix_tstd},
    {.name = "ts_decaps", .kind = K_RECHUNK, .alloc = alloc_ts_decaps, .bad_def = "block.", .in_def = "block.mpegts.mpegtspsi.", .in_tab = tab_ts, .out_def_prefix = "block.mpegtspsi."},
    {.name = "ts_pes_decaps", .kind = K_RECHUNK, .alloc = alloc_ts_pesd, .bad_def = "block.", .in_def = "block.mpegtspes.mpeg2video.pic.", .in_tab = tab_pes,
     .out_def_prefix = "block.mpeg2video.pic."},
    {.name = "ts_psi_merge", .kind = K_RECHUNK, .alloc = alloc_ts_psim, .bad_def = "block.", .in_def = "block.mpegtspsi.", .in_tab = tab_psi, .out_def_prefix = "block.mpegtspsi."},
    {.name = "telx_framer", .kind = K_RECHUNK, .alloc = alloc_telxf, .bad_def = "block.mpegts.", .in_def = "block.dvb_teletext.", .in_tab = tab_startend,
     .out_def_prefix = "block.dvb_teletext."},
    {.name = "s302_framer", .kind = K_RECHUNK, .alloc = alloc_s302f, .bad_def = "block.mpegts.", .in_def = "block.s302m.sound.", .in_tab = tab_s302,
     .out_def_prefix = "block.s302m.sound."},
    {.name = "opus_framer", .kind = K_RECHUNK, .alloc = alloc_opusf, .bad_def = "block.mpegts.", .in_def = "block.opus.", .in_tab = tab_opus, .out_def_prefix = "block.opus."},
    {.name = "rtp_h264", .kind = K_RECHUNK, .alloc = alloc_rtp_h264, .bad_def = "block.", .in_def = "block.h264.", .in_tab = tab_h264, .out_def_prefix = "block.h264."},
    /* (ADTS frames: 7 octets of header, then the payload; the shorter shapes are refused) */
    {.name = "rtp_mpeg4", .kind = K_RECHUNK, .alloc = alloc_rtp_mpeg4, .bad_def = "block.", .in_def = "block.aac.sound.", .in_scale = 4, .out_def_prefix = "block.aac.sound."},
    {.name = "void_source", .kind = K_RECHUNK, .alloc = alloc_voidsrc, .uses_pumps = true, .endless = true, .out_def_prefix = "void."},
    /* picture and sound inputs (buffers from the upstream's own picture / sound manager) */
    {.name = "separate_fields", .kind = K_RECHUNK, .alloc = alloc_separate_fields, .bad_def = "block.", .in_def = "pic.", .flow_fix = fix_pic, .mk_input = mk_pic,
     .pic_w = 8, .pic_h = 4, .out_def_prefix = "pic.", .out_not_block = true},
    {.name = "row_split", .kind = K_RECHUNK, .alloc = alloc_row_split, .bad_def = "block.", .in_def = "pic.", .flow_fix = fix_pic, .mk_input = mk_pic,
     .pic_w = 8, .pic_h = 4, .out_def_prefix = "pic.", .out_not_block = true},
    {.name = "row_join", .kind = K_RECHUNK, .alloc = alloc_row_join, .bad_def = "block.", .in_def = "pic.", .flow_fix = fix_pic, .mk_input = mk_pic,
     .pic_w = 8, .pic_h = 4, .pic_chunks = true, .out_def_prefix = "pic.", .out_not_block = true},
    {.name = "ntsc_prepend", .kind = K_RECHUNK, .alloc = alloc_ntsc_prepend, .bad_def = "block.", .in_def = "pic.", .flow_fix = fix_pic, .mk_input = mk_pic,
     .pic_w = 720, .pic_h = 480, .out_def_prefix = "pic.", .out_not_block = true},
    {.name = "rtp_pcm_pack", .kind = K_RECHUNK, .alloc = alloc_rtp_pcm_pack, .bad_def = "block.", .in_def = "sound.s32.", .flow_fix = fix_sound, .mk_input = mk_sound,
     .out_def_prefix = "block.s24be.sound."},
    {.name = "audio_copy", .kind = K_RECHUNK, .alloc = alloc_audio_copy, .bad_def = "block.", .in_def = "sound.s32.", .flow_fix = fix_sound_rate, .mk_input = mk_sound, .sound_provenance = true,
     .out_def_prefix = "sound.s32.", .out_not_block = true},
    {.name = "crop", .kind = K_RECHUNK, .alloc = alloc_crop, .bad_def = "block.", .in_def = "pic.", .flow_fix = fix_crop, .mk_input = mk_crop,
     .pic_w = 8, .pic_h = 4, .out_def_prefix = "pic.", .out_not_block = true, .pic_size_oracle = true,
     .nopts = 1, .opt = {{"rect", 4, crop_set, crop_get, crop_vs, "2/2/2/0"}}},
    {.name = "video_blank", .kind = K_RECHUNK, .alloc = alloc_vblk, .bad_def = "block.", .in_def = "void.", .mk_input = mk_void, .pic_w = 8, .pic_h = 4,
     .out_def_prefix = "pic.", .out_not_block = true},
    {.name = "audio_blank", .kind = K_RECHUNK, .alloc = alloc_ablk, .bad_def = "block.", .in_def = "void.", .mk_input = mk_void, .out_def_prefix = "sound.s32.",
     .out_not_block = true},
    {.name = "sine_wave_source", .kind = K_RECHUNK, .alloc = alloc_sinesrc, .uses_pumps = true, .endless = true, .out_def_prefix = "sound.s16.", .out_not_block = true},
    /* pipes whose subpipes are inputs: definitions and buffers go to subpipe 0, outputs are set on the subpipes (S2 / S3) or on the main pipe */
    {.name = "dejitter_sub", .kind = K_RECHUNK, .alloc = alloc_dejitter_both, .has_subs = true, .sub_io = true, .pump_to_main = true},
    {.name = "subpic_schedule", .kind = K_RECHUNK, .alloc = alloc_subpic},
    {.name = "subpic_schedule_sub", .kind = K_RECHUNK, .alloc = alloc_subpic_both, .has_subs = true, .sub_io = true, .pump_to_main = true},
    {.name = "even", .kind = K_RECHUNK, .alloc = alloc_even, .has_subs = true, .sub_io = true,
     .nopts = 1, .opt = {{"sub0.max_length", 3, subml_set, subml_get, ml_vs, NULL, .on_sub = true}}},
    {.name = "trickplay", .kind = K_RECHUNK, .alloc = alloc_trickp, .has_subs = true, .sub_io = true,
     .nopts = 1, .opt = {{"rate", 4, trick_set, trick_get, trick_vs, "1/1"}}},
    {.name = "play", .kind = K_RECHUNK, .alloc = alloc_play, .has_subs = true, .sub_io = true},
    {.name = "stream_switcher", .kind = K_RECHUNK, .alloc = alloc_stream_switcher, .has_subs = true, .sub_io = true},
    /* (the same pipe with the option of its input subpipe: a row of its own, one operation shallower, so that the row above keeps its depth) */
    {.name = "stream_switcher_ml", .kind = K_RECHUNK, .alloc = alloc_stream_switcher, .has_subs = true, .sub_io = true,
     .nopts = 1, .opt = {{"sub0.max_length", 3, subml_set, subml_get, ml_vs, NULL, .on_sub = true}}},
    /* pipes with a reference input (main pipe: definition at allocation, buffers from the upstream's pump) and input subpipes */
    {.name = "blit", .kind = K_RECHUNK, .alloc = alloc_blit, .has_subs = true, .sub_io = true, .pump_to_main = true, .uses_pumps = true, .bad_def = "block.",
     .in_def = "pic.", .flow_fix = fix_blit_sub, .mk_input = mk_blit, .pic_w = 16, .pic_h = 8, .out_def_prefix = "pic.", .out_not_block = true,
     .pic_size_oracle = true, .in_shapes = 1 << 0 | 1 << 4, .nopts = 4,
     .opt = {{"sub0.rect", 4, brect_set, brect_get, brect_vs, "0/0/0/0", .on_sub = true}, {"sub0.alpha", 2, balpha_set, balpha_get, balpha_vs, "255", .on_sub = true},
             {"sub0.alpha_threshold", 2, bthresh_set, bthresh_get, bthresh_vs, "0", .on_sub = true}, {"sub0.z_index", 3, bz_set, bz_get, bz_vs, "0", .on_sub = true}}},
    {.name = "videocont", .kind = K_RECHUNK, .alloc = alloc_videocont, .has_subs = true, .sub_io = true, .pump_to_main = true, .sub_alloc = sub_videocont, .sub0_selects = true,
     .bad_def = "block.", .in_def = "pic.", .flow_fix = fix_videocont_sub, .mk_input = mk_videocont, .pic_w = 8, .pic_h = 4, .out_def_prefix = "pic.",
     .out_not_block = true, .pic_size_oracle = true, .in_shapes = 1 << 0 | 1 << 4, .nopts = 3,
     .opt = {{"input", 3, vcname_set, vcname_get, cont_name_vs, "null"}, {"latency", 2, vclat_set, vclat_get, cont_u64_vs, "0"},
             {"tolerance", 2, vctol_set, vctol_get, cont_u64_vs, "1080000"}}},
    {.name = "audiocont", .kind = K_RECHUNK, .alloc = alloc_audiocont, .has_subs = true, .sub_io = true, .pump_to_main = true, .sub_alloc = sub_audiocont, .sub0_selects = true,
     .bad_def = "sound.s16.", .in_def = "sound.f32.", .flow_fix = fix_f32, .mk_input = mk_f32, .out_def_prefix = "sound.f32.", .out_not_block = true,
     .in_shapes = 1 << 0 | 1 << 1 | 1 << 4, .nopts = 3,
     .opt = {{"input", 3, acname_set, acname_get, cont_name_vs, "null"}, {"latency", 2, aclat_set, aclat_get, cont_u64_vs, "0"},
             {"crossblend", 2, acxb_set, acxb_get, cont_u64_vs, "5400000"}}},
    {.name = "sync", .kind = K_RECHUNK, .alloc = alloc_sync, .has_subs = true, .sub_io = true, .pump_to_main = true, .uses_pumps = true, .bad_def = "block.",
     .in_def = "sound.s32.", .flow_fix = fix_sound, .mk_input = mk_sync, .pic_w = 8, .pic_h = 4, .out_not_block = true, .in_shapes = 1 << 0 | 1 << 1 | 1 << 4,
     .endless = true /* once a picture has come, the pipe's timer re-arms for every frame period and repeats the last picture */},
    {.name = "grid", .kind = K_RECHUNK, .alloc = alloc_grid, .has_subs = true, .sub_io = true, .pump_to_main = true, .sub_alloc = sub_grid, .tick_pipe = tick_grid,
     .uses_pumps = true, .bad_def = "block.", .in_def = "pic.", .flow_fix = fix_videocont_sub, .mk_input = mk_grid, .pic_w = 8, .pic_h = 4, .out_def_prefix = "pic.",
     .out_not_block = true, .pic_size_oracle = true, .in_shapes = 1 << 0 | 1 << 4},
    {.name = "audio_merge", .kind = K_RECHUNK, .alloc = alloc_audio_merge, .has_subs = true, .sub_io = true, .bad_def = "block.", .in_def = "sound.f32.",
     .flow_fix = fix_mono, .mk_input = mk_mono, .out_def_prefix = "sound.f32.", .out_not_block = true},
    {.name = "audio_split", .kind = K_RECHUNK, .alloc = alloc_audio_split, .bad_def = "block.", .in_def = "sound.s32.", .flow_fix = fix_sound, .mk_input = mk_sound,
     .out_def_prefix = "sound.s32.", .out_not_block = true, .has_subs = true, .sub_alloc = sub_audio_split},
    {.name = "ts_psi_join", .kind = K_RECHUNK, .alloc = alloc_ts_psi_join, .has_subs = true, .sub_io = true, .bad_def = "block.", .in_def = "block.mpegtspsi.",
     .in_tab = tab_psi, .out_def_prefix = "block.mpegtspsi."},
    {.name = "ts_psi_split", .kind = K_RECHUNK, .alloc = alloc_ts_psi_split, .bad_def = "block.", .in_def = "block.mpegtspsi.", .out_def_prefix = "block.mpegtspsi.",
     .has_subs = true, .sub_alloc = sub_psi_split},
    {.name = "ts_split", .kind = K_RECHUNK, .alloc = alloc_ts_split, .bad_def = "block.", .in_def = "block.mpegts.", .out_def_prefix = "block.mpegts.",
     .has_subs = true, .sub_alloc = sub_ts_split},
};
#define NROWS ((int)(sizeof(rows) / sizeof(rows[0])))

/* ------------------------------------------------------------------ */
/* alphabet                                                              */
/* ------------------------------------------------------------------ */
enum {
    OP_FLOW1, OP_FLOW2, OP_FLOWBAD,
    OP_IN0, /* .. OP_IN0 + NSHAPES - 1 */
    OP_OUT_S0 = OP_IN0 + NSHAPES, OP_OUT_S1, OP_OUT_NULL,
    OP_TOGGLE_S0,
    OP_FLUSH,
    OP_OPT0, /* oi * MAXVAL + vi */
    OP_SUB_ALLOC = OP_OPT0 + MAXOPT * MAXVAL,
    OP_SUB_OUT, /* sub 0 -> S2 / sub 1 -> S3 */
    OP_SUB_REL0, OP_SUB_REL1,
    OP_PUMP0, OP_PUMP1,
    OP_PROBE_DROP,
    OP_UPREQ,          /* register / withdraw an upstream uref_mgr request whose answer makes the upstream push a buffer */
    OP_PROBE_TEARDOWN, /* dup: from now on the application releases every subpipe on the first source_end */
    OP_IN_PUMP,        /* the upstream's pump fires: a buffer is input with a non-NULL upump_p (the pipe may block that pump) */
    OP_TD_ORDER,       /* from now on loops dispatch the last ready pump first (affects the teardown as well) */
    OP_PROVIDE,        /* (--prov 2) the sinks answer the uref_mgr / uclock / ubuf_mgr requests they have been keeping */
    OP_NEED_OUTPUT,    /* from now on the application answers 'need_output' by connecting the accepting sink S2 */
    OP_SUB1_FLOW,      /* rows with input subpipes: the second input gets a definition announcing a latency (what its siblings advertise may change) */
    OP_RELEASE,
    NOPS
};

static void opstr(int op, char *b, size_t n)
{
    if (op == OP_FLOW1) snprintf(b, n, "set_flow_def(F1)");
    else if (op == OP_FLOW2) snprintf(b, n, "set_flow_def(F2)");
    else if (op == OP_FLOWBAD) snprintf(b, n, "set_flow_def(bad)");
    else if (op >= OP_IN0 && op < OP_IN0 + NSHAPES && g_row && g_row->mk_input)
        snprintf(b, n, "input(%s shape %d)", g_row->mk_input == mk_void ? "no payload," : g_row->pic_w ? "picture" : "sound", op - OP_IN0);
    else if (op >= OP_IN0 && op < OP_IN0 + NSHAPES && g_row && g_row->in_tab)
        snprintf(b, n, "input(%s)", g_row->in_tab[op - OP_IN0].desc);
    else if (op >= OP_IN0 && op < OP_IN0 + NSHAPES)
        snprintf(b, n, "input(size=%d,segs=%d%s%s%s)", shapes[op - OP_IN0].size * (g_row && g_row->in_scale ? g_row->in_scale : 1), shapes[op - OP_IN0].nseg, shapes[op - OP_IN0].nseg == 2 && shapes[op - OP_IN0].seg[0] == 3 ? ":3+2" : "",
                 shapes[op - OP_IN0].future ? ",future" : "", shapes[op - OP_IN0].shared ? ",2nd segment shared" : "");
    else if (op == OP_OUT_S0) snprintf(b, n, "set_output(S0)");
    else if (op == OP_OUT_S1) snprintf(b, n, "set_output(S1:rejecting)");
    else if (op == OP_OUT_NULL) snprintf(b, n, "set_output(NULL)");
    else if (op == OP_TOGGLE_S0) snprintf(b, n, "toggle(S0 accept/reject)");
    else if (op == OP_FLUSH) snprintf(b, n, "flush");
    else if (op >= OP_OPT0 && op < OP_OPT0 + MAXOPT * MAXVAL) {
        int oi = (op - OP_OPT0) / MAXVAL, vi = (op - OP_OPT0) % MAXVAL;
        char v[96] = "?";
        if (g_row && oi < g_row->nopts && vi < g_row->opt[oi].nvals && g_row->opt[oi].valstr)
            g_row->opt[oi].valstr(vi, v, sizeof(v));
        snprintf(b, n, "set_%s(%s)", g_row && oi < g_row->nopts ? g_row->opt[oi].name : "opt", v);
    } else if (op == OP_SUB_ALLOC) snprintf(b, n, "alloc_sub");
    else if (op == OP_SUB_OUT) snprintf(b, n, "sub.set_output");
    else if (op == OP_SUB_REL0) snprintf(b, n, "release(sub0)");
    else if (op == OP_SUB_REL1) snprintf(b, n, "release(sub1)");
    else if (op == OP_PUMP0) snprintf(b, n, "dispatch(ready pump 0)");
    else if (op == OP_PUMP1) snprintf(b, n, "dispatch(ready pump 1)");
    else if (op == OP_PROBE_DROP) snprintf(b, n, "toggle(probe drops)");
    else if (op == OP_UPREQ) snprintf(b, n, "toggle(upstream request, pushes a buffer when answered)");
    else if (op == OP_PROBE_TEARDOWN) snprintf(b, n, "probe releases all subpipes on source_end");
    else if (op == OP_IN_PUMP && g_row && g_row->pump_to_main) snprintf(b, n, "source pump fires: input(shape 0) with upump_p into the main pipe");
    else if (op == OP_IN_PUMP) snprintf(b, n, "source pump fires: input(size=2) with upump_p");
    else if (op == OP_TD_ORDER) snprintf(b, n, "loops dispatch the last ready pump first");
    else if (op == OP_PROVIDE) snprintf(b, n, "sinks answer the requests they kept");
    else if (op == OP_NEED_OUTPUT) snprintf(b, n, "application answers need_output with set_output(S4)");
    else if (op == OP_SUB1_FLOW) snprintf(b, n, "sub1.set_flow_def(F2 with latency 5000)");
    else if (op == OP_RELEASE) snprintf(b, n, "release");
    else snprintf(b, n, "op%d", op);
}

/* ------------------------------------------------------------------ */
static void sev_add(struct st *st, int stamp, int sink, int what);
static int on_event(struct px_fix *fx, struct upipe *upipe, int event, va_list args)
{
    struct side *s = fx->user;
    /* (local events share their numbers: the signature tells them apart, and must be looked at before anything is taken from args) */
    if (event == UPROBE_BLIT_PREPARE_READY && ubase_get_signature(args) == UPIPE_BLIT_SIGNATURE) {
        /* what uprobe_blit_prepare does: the application asks for the picture as soon as the pipe says it can prepare one */
        (void)va_arg(args, unsigned);
        struct upump **upump_p = va_arg(args, struct upump **);
        return upipe_blit_prepare(upipe, upump_p);
    }
    if (event == UPROBE_PROBE_UREF) {
        unsigned sig = va_arg(args, unsigned);
        if (sig == UPIPE_PROBE_UREF_SIGNATURE) {
            (void)va_arg(args, struct uref *);
            (void)va_arg(args, struct upump **);
            bool *drop = va_arg(args, bool *);
            *drop = s->probe_drop;
            return UBASE_ERR_NONE;
        }
    }
    if (event == UPROBE_NEED_OUTPUT && s->need_output_react && s->pipe != NULL && upipe == (s->tail ? s->tail : s->pipe)) {
        /* documented use of the event: "the output rejected the flow definition / there is no output": connect another one */
        struct upipe *cur = NULL;
        if (ubase_check(upipe_get_output(upipe, &cur)) && cur != &fx->sinks[4].upipe) {
            s->need_output_reacted++;
            struct st *st = s->st;
            if (s == &st->a && st->out != 5) { /* not predicted (a buffer pushed from inside a callback): the model follows the application's call */
                st->out = st->om[0].out = 5;
                st->om[0].ostate = OS_NONE;
                sev_add(st, fx->stamp, 4, 0);
            }
            return upipe_set_output(upipe, &fx->sinks[4].upipe);
        }
        return UBASE_ERR_NONE;
    }
    if (event == UPROBE_SOURCE_END && s->probe_teardown) {
        /* the application tears the pipeline down as soon as one branch ends */
        s->probe_teardown = false;
        for (int k = 0; k < 2; k++)
            if (s->subs[k]) {
                struct upipe *sub = s->subs[k];
                s->subs[k] = NULL;
                upipe_release(sub);
            }
        return UBASE_ERR_NONE;
    }
    return UBASE_ERR_UNHANDLED;
}

static struct st *g_cur_st;
/* the pipe that takes the flow definitions and the buffers */
static struct upipe *in_pipe(struct side *s) { return g_row->sub_io ? s->subs[0] : s->pipe; }
static void do_input(struct st *st, struct side *s, int sh, bool primary, bool reentrant);
static int up_provide(struct urequest *urequest, va_list args)
{
    struct side *s = urequest_get_opaque(urequest, struct side *);
    struct uref_mgr *m = va_arg(args, struct uref_mgr *);
    uref_mgr_release(m);
    s->up_provided++;
    struct st *st = g_cur_st;
    /* the upstream now has what it was waiting for and pushes a buffer at once */
    if (s->pipe != NULL && in_pipe(s) != NULL && st->flow != 0)
        do_input(st, s, 0, s == &st->a, true);
    return UBASE_ERR_NONE;
}

static void src_pump_cb(struct upump *upump)
{
    struct side *s = upump_get_opaque(upump, struct side *);
    struct st *st = g_cur_st;
    if (s->pipe == NULL || (!g_row->pump_to_main && (in_pipe(s) == NULL || st->flow == 0)))
        return;
    if (g_row->tick_pipe && g_row->tick_pipe(s) == NULL)
        return;
    s->in_pump = true;
    do_input(st, s, 0, s == &st->a, false);
    s->in_pump = false;
}

/* the recording sinks, plus the size of every picture delivered and the hsize / vsize of every definition offered (index = record number) */
static void cat_sink_input(struct upipe *upipe, struct uref *uref, struct upump **upump_p)
{
    struct px_fix *fx = px_sink_from_upipe(upipe)->fx;
    struct side *s = fx->user;
    if (fx->nsrec < PX_MAXS) {
        size_t w, h;
        s->rec_w[fx->nsrec] = s->rec_h[fx->nsrec] = -1;
        if (uref->ubuf != NULL && ubase_check(uref_pic_size(uref, &w, &h, NULL))) {
            s->rec_w[fx->nsrec] = (int)w;
            s->rec_h[fx->nsrec] = (int)h;
        }
        const int32_t *smp;
        if (g_row->sound_provenance && uref->ubuf != NULL && ubase_check(uref_sound_read_int32_t(uref, 0, 1, &smp, 1))) {
            s->rec_w[fx->nsrec] = -2; /* marks a provenance record: rec_h = sequence number of the input the first sample came from */
            s->rec_h[fx->nsrec] = (int)((((uint32_t)smp[0] >> 24) - 1) / 16);
            uref_sound_unmap(uref, 0, 1, 1);
        }
    }
    px_sink_input(upipe, uref, upump_p);
}
static int cat_sink_control(struct upipe *upipe, int command, va_list args)
{
    struct px_fix *fx = px_sink_from_upipe(upipe)->fx;
    struct side *s = fx->user;
    if (command == UPIPE_SET_FLOW_DEF && fx->nsrec < PX_MAXS) {
        va_list copy;
        va_copy(copy, args);
        struct uref *flow_def = va_arg(copy, struct uref *);
        va_end(copy);
        uint64_t w, h;
        s->rec_w[fx->nsrec] = s->rec_h[fx->nsrec] = -1;
        if (flow_def != NULL && ubase_check(uref_pic_flow_get_hsize(flow_def, &w)) && ubase_check(uref_pic_flow_get_vsize(flow_def, &h))) {
            s->rec_w[fx->nsrec] = (int)w;
            s->rec_h[fx->nsrec] = (int)h;
        }
        uint64_t rate;
        if (g_row->sound_provenance && flow_def != NULL && ubase_check(uref_sound_flow_get_rate(flow_def, &rate))) {
            s->rec_w[fx->nsrec] = -3; /* definition record of a provenance row: rec_h = sample rate */
            s->rec_h[fx->nsrec] = (int)rate;
        }
    }
    return px_sink_control(upipe, command, args);
}

static void side_init(struct st *st, struct side *s, bool with_getters)
{
    struct px_cfg cfg = {.pool = g_pool, .prepend = g_pool ? 4 : 0, .append = 0, .align = 0};
    px_fix_init(&s->fx, &cfg);
    s->fx.user = s;
    s->fx.on_event = on_event;
    s->st = st;
    s->with_getters = with_getters;
    s->fx.sinks[1].reject = true;
    for (int i = 0; i < PX_NSINKS; i++) {
        s->fx.sinks[i].unhandled_requests = true; /* requests end up at the probes, which provide */
        s->fx.sinks[i].sync_provide = g_prov == 1 && !g_row->out_not_block; /* ... or the sinks answer with the shared managers */
        s->fx.sinks[i].defer_provide = g_prov == 2 && (!g_row->out_not_block || g_row->sound_provenance); /* ... or later, when the history says so */
        s->fx.sinks[i].mgr.upipe_input = cat_sink_input;
        s->fx.sinks[i].mgr.upipe_control = cat_sink_control;
    }
    urequest_init_uref_mgr(&s->up_req, up_provide, NULL);
    urequest_set_opaque(&s->up_req, s);
    s->src_mgr = vmock_mgr_alloc(g_pool, g_pool);
    s->src_pump = upump_alloc_idler(s->src_mgr, src_pump_cb, s, NULL);
    assert(s->src_mgr && s->src_pump);
    upump_start(s->src_pump);
    if (g_prov == 2 && g_row->sound_provenance)
        s->fx.alt_ubuf_mgr = side_sound_mgr(s); /* the late providers hand out the upstream's sound manager */
    s->pipe = g_row->alloc(s);
    assert(s->pipe);
    if (s->qsrc) /* the far end of the queue delivers into S0 */
        ubase_assert(upipe_set_output(s->qsrc, &s->fx.sinks[0].upipe));
}

static void *init(void)
{
    simfd_reset();
    pxm_begin();
    struct st *st = calloc(1, sizeof(*st));
    st->two = (g_oracle & O_C20) != 0;
    for (int i = 0; i < MAXOPT; i++)
        st->optmodel[i] = -1;
    side_init(st, &st->a, st->two);
    if (st->two)
        side_init(st, &st->b, false);
    for (int oi = 0; oi < g_row->nopts; oi++) {
        if (g_row->opt[oi].initial)
            snprintf(st->optinit[oi], sizeof(st->optinit[oi]), "%s", g_row->opt[oi].initial);
    }
    st->om[0].live = true;
    if (g_row->flowdef_in_band) {
        st->out = 1;
        st->om[0].out = 1;
    }
    pxm_pause();
    return st;
}

/* C20: every getter of the row, compared with the model of the last accepted setter */
static void run_getters(struct st *st, struct side *s, const char *when)
{
    for (int oi = 0; oi < g_row->nopts; oi++) {
        const struct optdef *o = &g_row->opt[oi];
        if (o->get == NULL || (o->on_sub && s->subs[0] == NULL))
            continue;
        char got[96] = "", want[96];
        int e = o->get(s, got, sizeof(got));
        if (st->optmodel[oi] < 0 && o->initial == NULL) {
            if (!ubase_check(e))
                FAIL(st, "get:error", "getter of option '%s' returned error %d %s", o->name, e, when);
            continue; /* initial value is an inline function's address: not comparable */
        }
        if (st->optmodel[oi] < 0)
            snprintf(want, sizeof(want), "%s", st->optinit[oi]);
        else
            o->valstr(st->optmodel[oi], want, sizeof(want));
        if (!ubase_check(e)) {
            char sg[64];
            snprintf(sg, sizeof(sg), "get-%s:error", o->name);
            FAIL(st, sg, "getter of option '%s' returned error %d %s", o->name, e, when);
        } else if (strcmp(got, want)) {
            char sg[64];
            snprintf(sg, sizeof(sg), st->refused_opt == oi ? "get-%s:changed-by-refused-setter" : "get-%s:wrong-value", o->name);
            FAIL(st, sg, "getter of option '%s' returned %s, last accepted value is %s (%s)", o->name, got, want, when);
        }
    }
    /* generic getters: output and flow definition */
    struct upipe *out = (struct upipe *)(uintptr_t)0x77;
    int e = upipe_get_output(s->tail ? s->tail : s->pipe, &out);
    if (ubase_check(e) && !g_row->flowdef_in_band) {
        struct upipe *want = st->out == 0 ? NULL : &s->fx.sinks[st->out - 1].upipe;
        if (out != want)
            FAIL(st, "get-output:wrong-value", "upipe_get_output returned %p, last set output is %p (%s)", (void *)out, (void *)want, when);
    }
    struct uref *fd = NULL;
    e = upipe_get_flow_def(s->pipe, &fd);
    if (ubase_check(e) && !strcmp(g_row->name, "setflowdef") && st->flow != 0) {
        /* documented: the output definition is the input definition plus the attributes of the dictionary */
        uint64_t id = 0, xa = 0;
        const char *xs = NULL;
        int vi = st->optmodel[0] < 0 ? 0 : st->optmodel[0];
        bool has_a = fd != NULL && ubase_check(uref_attr_get_unsigned(fd, &xa, UDICT_TYPE_UNSIGNED, "x.a"));
        bool has_s = fd != NULL && ubase_check(uref_attr_get_string(fd, &xs, UDICT_TYPE_STRING, "x.s"));
        if (fd == NULL || !ubase_check(uref_flow_get_id(fd, &id)) || (int)id != st->flow)
            FAIL(st, "get-flow-def:wrong-value", "upipe_get_flow_def returned id %d, accepted definition has id %d (%s)", fd ? (int)id : -1, st->flow, when);
        else if (has_a != (vi > 0) || (has_a && (int)xa != vi) || has_s != (vi == 2))
            FAIL(st, "get-flow-def:stale-dictionary", "upipe_get_flow_def carries x.a=%s%d x.s=%s but the dictionary in force is value #%d (%s)", has_a ? "" : "absent/",
                 (int)xa, has_s ? "present" : "absent", vi, when);
    }
    if (ubase_check(e) && g_row->kind != K_RECHUNK && strcmp(g_row->name, "genaux") && strcmp(g_row->name, "setflowdef")) {
        uint64_t id = 0;
        if (st->flow == 0) {
            if (fd != NULL)
                FAIL(st, "get-flow-def:wrong-value", "upipe_get_flow_def returned a definition although none was accepted (%s)", when);
        } else if (fd == NULL || !ubase_check(uref_flow_get_id(fd, &id)) || (int)id != st->flow)
            FAIL(st, "get-flow-def:wrong-value", "upipe_get_flow_def returned id %d, accepted definition has id %d (%s)", fd ? (int)id : -1, st->flow, when);
    }
}

static bool sink_last_accepts(struct px_fix *fx, int sink, int since_stamp)
{
    bool ok = false;
    for (int i = 0; i < fx->nsrec; i++)
        if (fx->srec[i].sink == sink && fx->srec[i].kind == PXS_FLOWDEF && fx->srec[i].stamp >= since_stamp)
            ok = fx->srec[i].result == UBASE_ERR_NONE;
    return ok;
}

static int dispatch(struct side *s, int which)
{
    struct vmock_pump *r[8];
    int n = px_ready_pumps(&s->fx, r, 8);
    if (which >= n)
        return -1;
    if (s->td_last)
        which = n - 1 - which;
    if (r[which]->event == UPUMP_TYPE_TIMER)
        s->fx.clock.now += r[which]->after ? r[which]->after : 1;
    vmock_dispatch(r[which]);
    return 0;
}

/* ---- model of the output contract (C04 statement / helper_output) ---- */
static void sev_add(struct st *st, int stamp, int sink, int what);
static bool om_deliver(struct st *st, struct omodel *m, struct px_fix *fx)
{
    if (!m->live || m->flow == 0)
        return false;
    bool react = st->a.need_output_react && m == &st->om[0];
    if (m->out == 0) {
        if (!react)
            return false;
        /* no output: need_output is thrown, the application connects S4 */
        m->out = st->out = 5;
        m->ostate = OS_NONE;
        sev_add(st, fx->stamp, 4, 0);
    }
    if (m->ostate == OS_NONE) {
        if (!fx->sinks[m->out - 1].reject)
            m->ostate = OS_VALID;
        else if (react && m->out != 5) {
            /* refused: need_output is thrown, the application connects S4, which gets the definition and accepts */
            m->out = st->out = 5;
            m->ostate = OS_VALID;
            sev_add(st, fx->stamp, 4, 0);
        } else
            m->ostate = OS_INVALID;
    }
    return m->ostate == OS_VALID;
}
static void om_flow(struct omodel *m, int id)
{
    if (m->live && m->flow != id) {
        m->flow = id;
        m->ostate = OS_NONE;
    }
}
static void sev_add(struct st *st, int stamp, int sink, int what)
{
    if (st->nsev < 64)
        st->sev[st->nsev++] = (struct stampev){stamp, sink, what};
}

static void do_input(struct st *st, struct side *s, int sh, bool primary, bool reentrant)
{
    struct px_fix *fx = &s->fx;
    {
        int seq = s->nseq++;
        if (seq >= MAXSEQ - 1)
            return;
        struct ubuf *held = NULL;
        int sc = g_row->in_scale ? g_row->in_scale : 1;
        int seg[2] = {shapes[sh].seg[0] * sc, shapes[sh].seg[1] * sc};
        bool custom = g_row->mk_input != NULL || g_row->in_tab != NULL;
        struct uref *u = g_row->mk_input ? g_row->mk_input(s, seq, sh, shapes[sh].shared ? &held : NULL)
                         : g_row->in_tab ? mk_table(s, seq, sh, shapes[sh].shared ? &held : NULL)
                                         : px_uref_segs(fx, seq, seg, shapes[sh].nseg, true, shapes[sh].shared ? &held : NULL);
        if (held != NULL && s->nheld < MAXSEQ)
            s->held[s->nheld++] = held;
        if (shapes[sh].future && !custom)
            uref_clock_set_cr_sys(u, fx->clock.now + 500);
        if (primary) {
            struct expect *x = &st->exp[seq];
            memset(x, 0, sizeof(*x));
            x->used = true;
            x->future = shapes[sh].future;
            x->stamp = fx->stamp;
            x->rec.seq = seq;
            x->rec.size = shapes[sh].size * sc;
            x->rec.nbytes = x->rec.size > PX_MAXBYTES ? PX_MAXBYTES : x->rec.size;
            for (int i = 0; i < x->rec.nbytes; i++)
                x->rec.bytes[i] = px_octet(seq, i);
            px_attr_dump(u, x->rec.attrs, sizeof(x->rec.attrs));
            x->forwarded = true;
            x->reentrant = reentrant;
            x->flow = st->flow;
            if (g_row->expect)
                g_row->expect(st, u, seq, &x->rec, &x->forwarded);
            if (st->ninputs == 0)
                st->ready_at_first_input = st->flow != 0 && st->out == 1 && !fx->sinks[0].reject;
            if (reentrant || st->model_unreliable) {
                x->reentrant = true;
                /* nothing is predicted for a buffer pushed from inside a callback (or after one) */
            } else if ((g_row->kind == K_ONE2ONE || g_row->kind == K_DUP) && x->forwarded) {
                for (int k = 0; k < PX_NSINKS; k++)
                    x->mustnot[k] = true;
                for (int m = 2; m >= 0; m--) /* subpipes first, like the list walk; order is irrelevant to the result */
                    if (om_deliver(st, &st->om[m], fx)) {
                        x->must[st->om[m].out - 1] = true;
                        x->mustnot[st->om[m].out - 1] = false;
                    }
            } else if ((g_row->kind == K_ONE2ONE || g_row->kind == K_DUP))
                for (int k = 0; k < PX_NSINKS; k++)
                    x->mustnot[k] = true;
        }
        upipe_input(s->in_pump && g_row->pump_to_main ? (g_row->tick_pipe ? g_row->tick_pipe(s) : s->pipe) : in_pipe(s), u, s->in_pump ? &s->src_pump : NULL);
    }
}

static int apply_side(struct st *st, struct side *s, int op, bool primary)
{
    struct px_fix *fx = &s->fx;
    int e = UBASE_ERR_NONE;
    if (op == OP_FLOW1 || op == OP_FLOW2 || op == OP_FLOWBAD) {
        struct uref *f = op == OP_FLOWBAD ? px_flow(fx, g_row->bad_def, 3) : px_flow(fx, g_row->in_def ? g_row->in_def : "block.", op == OP_FLOW1 ? 1 : 2);
        if (op == OP_FLOWBAD) { /* attributes a pipe may be tempted to read before it has validated the definition */
            ubase_assert(uref_block_flow_set_size(f, 2));
            ubase_assert(uref_block_flow_set_octetrate(f, 1000));
            ubase_assert(uref_clock_set_latency(f, 77));
        } else if (g_row->flow_fix)
            g_row->flow_fix(f, op == OP_FLOW1 ? 1 : 2);
        e = upipe_set_flow_def(in_pipe(s), f);
        uref_free(f);
    } else if (op >= OP_IN0 && op < OP_IN0 + NSHAPES) {
        do_input(st, s, op - OP_IN0, primary, false);
    } else if (op == OP_OUT_S0 || op == OP_OUT_S1 || op == OP_OUT_NULL) {
        struct upipe *o = op == OP_OUT_NULL ? NULL : &fx->sinks[op - OP_OUT_S0].upipe;
        e = upipe_set_output(s->tail ? s->tail : s->pipe, o);
    } else if (op == OP_TOGGLE_S0) {
        fx->sinks[0].reject = !fx->sinks[0].reject;
    } else if (op == OP_FLUSH) {
        e = upipe_flush(s->pipe);
    } else if (op >= OP_OPT0 && op < OP_OPT0 + MAXOPT * MAXVAL) {
        int oi = (op - OP_OPT0) / MAXVAL, vi = (op - OP_OPT0) % MAXVAL;
        e = g_row->opt[oi].set(s, vi);
    } else if (op == OP_SUB_ALLOC) {
        int k = s->subs[0] == NULL ? 0 : 1;
        s->subs[k] = g_row->sub_alloc ? g_row->sub_alloc(s, k) : upipe_void_alloc_sub(s->pipe, px_probe(fx));
        assert(s->subs[k]);
    } else if (op == OP_SUB_OUT) {
        for (int k = 0; k < 2; k++)
            if (s->subs[k])
                e = upipe_set_output(s->subs[k], &fx->sinks[2 + k].upipe);
    } else if (op == OP_SUB_REL0 || op == OP_SUB_REL1) {
        int k = op - OP_SUB_REL0;
        upipe_release(s->subs[k]);
        s->subs[k] = NULL;
    } else if (op == OP_PUMP0 || op == OP_PUMP1) {
        if (dispatch(s, op - OP_PUMP0) < 0)
            return -1;
    } else if (op == OP_PROBE_DROP) {
        s->probe_drop = !s->probe_drop;
    } else if (op == OP_UPREQ) {
        if (!s->up_registered) {
            s->up_registered = true;
            upipe_register_request(s->pipe, &s->up_req);
        } else {
            upipe_unregister_request(s->pipe, &s->up_req);
            s->up_registered = false;
        }
    } else if (op == OP_PROBE_TEARDOWN) {
        s->probe_teardown = true;
    } else if (op == OP_IN_PUMP) {
        if (vmock_pump_from_upump(s->src_pump)->active)
            vmock_dispatch(vmock_pump_from_upump(s->src_pump));
    } else if (op == OP_TD_ORDER) {
        s->td_last = true;
    } else if (op == OP_PROVIDE) {
        px_provide_pending(fx);
    } else if (op == OP_NEED_OUTPUT) {
        s->need_output_react = true;
    } else if (op == OP_SUB1_FLOW) {
        struct uref *f = px_flow(fx, g_row->in_def ? g_row->in_def : "block.", 2);
        if (g_row->flow_fix)
            g_row->flow_fix(f, 2);
        ubase_assert(uref_clock_set_latency(f, 5000));
        e = upipe_set_flow_def(s->subs[1], f);
        uref_free(f);
    } else if (op == OP_RELEASE) {
        if (s->up_registered) { /* a requester withdraws its request before letting go of the pipe */
            upipe_unregister_request(s->pipe, &s->up_req);
            s->up_registered = false;
        }
        upipe_release(s->pipe);
        s->pipe = NULL;
        /* the application's handles on the inner pipes of a chain go at the same time */
        upipe_release(s->mid);
        upipe_release(s->tail);
        s->mid = s->tail = NULL;
    }
    return e;
}

static bool op_enabled(struct st *st, int op)
{
    const struct row *r = g_row;
    struct side *s = &st->a;
    if (st->released) /* the application let go of the pipe: only the loop and the subpipes remain */
        return (op == OP_PUMP0 || op == OP_PUMP1) ? r->uses_pumps
             : (op == OP_SUB_REL0) ? s->subs[0] != NULL
             : (op == OP_SUB_REL1) ? s->subs[1] != NULL : false;
    if (r->sub_io && s->subs[0] == NULL && (op == OP_FLOW1 || op == OP_FLOW2 || op == OP_FLOWBAD || (op >= OP_IN0 && op < OP_IN0 + NSHAPES) || (op == OP_IN_PUMP && !r->pump_to_main)))
        return false; /* the input subpipe does not exist (yet / any more) */
    if (op == OP_FLOWBAD)
        return r->bad_def != NULL;
    if (op >= OP_IN0 && op < OP_IN0 + NSHAPES) {
        int sh = op - OP_IN0;
        if (!st->flow || st->nseq >= MAXSEQ - 1)
            return false;
        if (r->in_shapes && !(r->in_shapes & 1u << sh))
            return false;
        if (shapes[sh].future && strcmp(r->name, "time_limit") && !r->in_tab && !r->mk_input)
            return false;
        if (!strncmp(r->name, "skip", 4) && st->optmodel[0] >= 0 && (int)skip_vals[st->optmodel[0]] > shapes[sh].size)
            return false; /* skipping more than the buffer holds is not defined */
        if (!strcmp(r->name, "genaux") && st->optmodel[0] == 2)
            return false;
        return true;
    }
    if (op == OP_OUT_S0 || op == OP_OUT_S1 || op == OP_OUT_NULL)
        return r->kind != K_SINK && !r->flowdef_in_band;
    if (op == OP_TOGGLE_S0)
        return r->kind != K_SINK;
    if (op == OP_FLUSH)
        return r->has_flush;
    if (op >= OP_OPT0 && op < OP_OPT0 + MAXOPT * MAXVAL) {
        int oi = (op - OP_OPT0) / MAXVAL, vi = (op - OP_OPT0) % MAXVAL;
        return oi < r->nopts && vi < r->opt[oi].nvals && (!r->opt[oi].on_sub || s->subs[0] != NULL);
    }
    if (op == OP_SUB_ALLOC)
        return r->has_subs && (s->subs[0] == NULL || s->subs[1] == NULL);
    if (op == OP_SUB_OUT)
        return r->has_subs && (s->subs[0] != NULL || s->subs[1] != NULL);
    if (op == OP_SUB_REL0)
        return s->subs[0] != NULL;
    if (op == OP_SUB_REL1)
        return s->subs[1] != NULL;
    if (op == OP_PUMP0 || op == OP_PUMP1)
        return r->uses_pumps;
    if (op == OP_PROBE_DROP)
        return !strcmp(r->name, "probe_uref");
    if (op == OP_UPREQ) /* (not together with the need_output handler: the upstream would re-enter the pipe from inside that handler) */
        return (r->kind == K_ONE2ONE || r->kind == K_DUP || r->kind == K_HOLD) && !s->need_output_react;
    if (op == OP_PROBE_TEARDOWN)
        return r->has_subs && !r->sub_io && !s->probe_teardown;
    if (op == OP_IN_PUMP)
        return r->kind != K_SINK && (st->flow != 0 || r->pump_to_main) && st->nseq < MAXSEQ - 1 && vmock_pump_from_upump(s->src_pump)->active &&
               (!r->tick_pipe || r->tick_pipe(s) != NULL) &&
               !(!strncmp(r->name, "skip", 4) && st->optmodel[0] >= 0 && (int)skip_vals[st->optmodel[0]] > shapes[0].size) &&
               !(!strcmp(r->name, "genaux") && st->optmodel[0] == 2);
    if (op == OP_TD_ORDER)
        return r->uses_pumps && !s->td_last;
    if (op == OP_PROVIDE)
        return g_prov == 2 && px_pending_requests(&s->fx) > 0;
    if (op == OP_SUB1_FLOW)
        return r->sub_io && s->subs[1] != NULL;
    if (op == OP_NEED_OUTPUT)
        return r->kind == K_ONE2ONE && !r->has_subs && !s->need_output_react && !s->up_registered;
    return true;
}

/* ---- per-step oracles ---- */

static int apply(void *vst, int op, bool check)
{
    struct st *st = vst;
    (void)check;
    if (!op_enabled(st, op))
        return SEQX_DISABLED;
    if ((op == OP_PUMP0 || op == OP_PUMP1)) {
        struct vmock_pump *r[8];
        if (px_ready_pumps(&st->a.fx, r, 8) <= op - OP_PUMP0)
            return SEQX_DISABLED;
    }
    pxm_resume();
    v_watchdog(g_watchdog);
    g_cur_st = st;
    struct px_fix *fx = &st->a.fx;
    int srec0 = fx->nsrec;
    int nseq0 = st->a.nseq;
    int stamp0 = fx->stamp;
    bool first_sub = op == OP_SUB_ALLOC && st->a.subs[0] == NULL;
    int ea = apply_side(st, &st->a, op, true);
    if (ea == -1 && (op == OP_PUMP0 || op == OP_PUMP1)) {
        pxm_pause();
        return SEQX_DISABLED;
    }
    if (st->two) {
        bool setter = op == OP_FLOW1 || op == OP_FLOW2 || op == OP_FLOWBAD || (op >= OP_OPT0 && op < OP_OPT0 + MAXOPT * MAXVAL);
        if (setter && !ubase_check(ea)) {
            /* a refused setter must leave everything as it was: the second instance simply does not get the call */
        } else {
            int eb = apply_side(st, &st->b, op, false);
            if (ubase_check(ea) != ubase_check(eb))
                FAIL(st, "diff:setter-result", "the same call returned %d on the instance without getters / refused setters and %d on the other", eb, ea);
        }
    }
    st->nops++;

    /* model update */
    bool is_input = (op >= OP_IN0 && op < OP_IN0 + NSHAPES) || op == OP_IN_PUMP;
    if ((op == OP_FLOW1 || op == OP_FLOW2) && ubase_check(ea)) {
        int id = op == OP_FLOW1 ? 1 : 2;
        if (id != st->flow)
            sev_add(st, stamp0, -1, 1);
        st->flow = id;
        om_flow(&st->om[0], id);
        if (g_row->kind == K_DUP) {
            om_flow(&st->om[1], id);
            om_flow(&st->om[2], id);
        }
    }
    if (st->a.nseq != nseq0) {
        st->ninputs += st->a.nseq - nseq0;
        st->nseq = st->a.nseq;
        if (!is_input)
            st->model_unreliable = true; /* buffers were pushed from inside a callback: the simple model of the output state no longer follows */
    }
    if (op == OP_OUT_S0 || op == OP_OUT_S1 || op == OP_OUT_NULL) {
        if (ubase_check(ea)) {
            st->out = op == OP_OUT_NULL ? 0 : op - OP_OUT_S0 + 1;
            st->om[0].out = st->out;
            st->om[0].ostate = OS_NONE;
            if (st->out)
                sev_add(st, stamp0, st->out - 1, 0);
        }
        st->out_changed = true;
    }
    if (op == OP_SUB_ALLOC) {
        int k = st->om[1].live ? 2 : 1;
        st->om[k] = (struct omodel){true, st->flow, 0, OS_NONE};
        if (first_sub && g_row->sub0_selects)
            st->optmodel[0] = 0;
    }
    if (op == OP_SUB_OUT)
        for (int k = 1; k <= 2; k++)
            if (st->om[k].live) {
                st->om[k].out = 2 + k;
                st->om[k].ostate = OS_NONE;
                sev_add(st, stamp0, 1 + k, 0);
            }
    if (op == OP_SUB_REL0 || op == OP_SUB_REL1)
        st->om[1 + op - OP_SUB_REL0].live = false;
    if (op == OP_SUB_REL0 && g_row->sub_io)
        st->flow = 0; /* a new input subpipe starts without a definition */
    if (op == OP_SUB_REL0)
        for (int oi = 0; oi < g_row->nopts; oi++)
            if (g_row->opt[oi].on_sub)
                st->optmodel[oi] = -1; /* ... and with the initial values of its options */
    if (op == OP_TOGGLE_S0)
        st->sink_toggled = true;
    if (op == OP_FLUSH)
        st->flushed = true;
    if (op >= OP_OPT0 && op < OP_OPT0 + MAXOPT * MAXVAL) {
        int oi = (op - OP_OPT0) / MAXVAL, vi = (op - OP_OPT0) % MAXVAL;
        if (ubase_check(ea)) {
            /* setflowdef: a new dictionary is a new output definition (documented), the output is asked again */
            if (!strcmp(g_row->name, "setflowdef") && oi == 0 && (st->optmodel[oi] < 0 ? 0 : st->optmodel[oi]) != vi && st->flow != 0) {
                st->om[0].ostate = OS_NONE;
                sev_add(st, stamp0, -1, 2);
            }
            st->optmodel[oi] = vi;
        }
        if (st->ninputs)
            st->opt_changed_after_input = true;
    }
    if (op == OP_RELEASE)
        st->released = true;
    if (st->ninputs && !is_input && (op == OP_FLOW1 || op == OP_FLOW2 || op == OP_FLOWBAD || op == OP_OUT_S0 || op == OP_OUT_S1 ||
                                     op == OP_OUT_NULL || op == OP_TOGGLE_S0 || op == OP_FLUSH || op == OP_PROBE_DROP))
        st->disturbed_after_input = true;
    st->hist_hash = st->hist_hash * 1000003ULL + (uint64_t)op + 1;

    /* ---- C20 ---- */
    st->refused_opt = op >= OP_OPT0 && op < OP_OPT0 + MAXOPT * MAXVAL && !ubase_check(ea) ? (op - OP_OPT0) / MAXVAL : -1;
    if ((g_oracle & O_C20) && !st->released) {
        char when[160], ob[96];
        opstr(op, ob, sizeof(ob));
        snprintf(when, sizeof(when), "after step %d: %s", st->nops, ob);
        run_getters(st, &st->a, when);
    }

    /* ---- C04: a sink that was given a buffer during this step must have accepted, as its last definition, the one the pipe
     * advertises now (a definition amended in place never reaches the output) ---- */
    /* (not for the step in which late providers answer: a definition queued behind held buffers is then applied in the same step,
     * after the buffers of the previous flow went out - the pipe rightly advertises the new one at the end of the step) */
    if ((g_oracle & O_C04) && !st->released && !(g_prov == 2 && op == OP_PROVIDE)) {
        struct { struct upipe *p; int sink; } outs[3] = {{st->a.tail ? st->a.tail : st->a.pipe, g_row->sub_io || g_row->flowdef_in_band ? -1 : st->out - 1},
                                                          {st->a.subs[0], st->om[1].live && st->om[1].out ? st->om[1].out - 1 : -1},
                                                          {st->a.subs[1], st->om[2].live && st->om[2].out ? st->om[2].out - 1 : -1}};
        for (int oi = 0; oi < 3; oi++) {
            if (outs[oi].p == NULL || outs[oi].sink < 0)
                continue;
            bool got = false;
            for (int i = srec0; i < fx->nsrec; i++)
                got |= fx->srec[i].kind == PXS_INPUT && fx->srec[i].sink == outs[oi].sink;
            if (!got)
                continue;
            struct uref *fd = NULL;
            if (!ubase_check(upipe_get_flow_def(outs[oi].p, &fd)) || fd == NULL)
                continue;
            char now[sizeof(fx->srec[0].attrs)];
            px_attr_dump(fd, now, sizeof(now));
            const struct px_srec *last = NULL;
            for (int i = 0; i < fx->nsrec; i++)
                if (fx->srec[i].kind == PXS_FLOWDEF && fx->srec[i].sink == outs[oi].sink)
                    last = &fx->srec[i];
            if (last != NULL && last->result == UBASE_ERR_NONE && strcmp(last->attrs, now))
                FAIL(st, "flow:definition-changed-without-set_flow_def", "sink %d received a buffer, the last definition it accepted is [%s] but the pipe now advertises [%s]",
                     outs[oi].sink, last->attrs, now);
        }
    }

    /* ---- C05, synchronous part for one-to-one pipes ---- */
    if ((g_oracle & O_C05) && g_row->kind == K_ONE2ONE && !is_input && st->a.nseq == nseq0 && op != OP_PROVIDE) {
        for (int i = srec0; i < fx->nsrec; i++)
            if (fx->srec[i].kind == PXS_INPUT)
                FAIL(st, "c05:output-without-input", "a one-to-one pipe delivered buffer seq=%" PRId64 " during a call that is not an input", fx->srec[i].seq);
    }
    (void)stamp0;
    pxm_pause();
    if (st->viol) {
        snprintf(seqx_sig, sizeof(seqx_sig), "%s", st->viol_sig);
        snprintf(seqx_msg, sizeof(seqx_msg), "%s", st->viol_msg);
        st->viol = false; /* reported once; teardown still runs in final_check */
        return SEQX_VIOL;
    }
    return SEQX_OK;
}

/* compares what sink `sink` received with the expectations; rules depend on the kind */
static void check_c05(struct st *st, struct side *s)
{
    struct px_fix *fx = &s->fx;
    const struct row *r = g_row;
    int nsinks = r->has_subs ? 4 : s->need_output_react ? PX_NSINKS : 2;
    for (int k = 0; k < nsinks; k++) {
        int64_t last = -1;
        for (int i = 0; i < fx->nsrec; i++) {
            struct px_srec *g = &fx->srec[i];
            if (g->sink != k || g->kind != PXS_INPUT)
                continue;
            if (r->kind == K_RECHUNK)
                continue;
            if (g->seq < 0 || g->seq >= st->nseq || !st->exp[g->seq].used) {
                FAIL(st, "c05:unknown-buffer", "sink %d received a buffer with sequence attribute %" PRId64 " that was never input", k, g->seq);
                continue;
            }
            struct expect *x = &st->exp[g->seq];
            if (g->seq == last)
                FAIL(st, "c05:duplicated", "sink %d received buffer seq=%" PRId64 " twice", k, g->seq);
            else if (g->seq < last && !(s->need_output_reacted && (x->reentrant || st->exp[last].reentrant)))
                /* (a buffer pushed from inside a request callback that runs inside the application's need_output handler overtakes
                 * the buffer whose delivery triggered the handler: the upstream re-entered the pipe, not a reordering by the pipe) */
                FAIL(st, "c05:reordered", "sink %d received buffer seq=%" PRId64 " after seq=%" PRId64, k, g->seq, last);
            if (g->seq > last)
                last = g->seq;
            if (!x->forwarded)
                FAIL(st, "c05:forwarded-unexpectedly", "sink %d received buffer seq=%" PRId64 " that the pipe is documented to drop", k, g->seq);
            if (g_prov == 2 && st->opt_changed_after_input)
                continue; /* a buffer kept while the pipe waited for a manager is transformed with the options in force when it is finally processed */
            if (g->size != x->rec.size || g->nbytes != x->rec.nbytes || memcmp(g->bytes, x->rec.bytes, g->nbytes > 0 ? g->nbytes : 0))
                FAIL(st, "c05:payload-changed", "sink %d: buffer seq=%" PRId64 " arrived with size %d (expected %d) / different octets (first %02x, expected %02x)", k,
                     g->seq, g->size, x->rec.size, g->nbytes > 0 ? g->bytes[0] : 0, x->rec.nbytes > 0 ? x->rec.bytes[0] : 0);
            if (strcmp(g->attrs, x->rec.attrs))
                FAIL(st, "c05:attributes-changed", "sink %d: buffer seq=%" PRId64 " arrived with attributes [%s], documented result is [%s]", k, g->seq, g->attrs,
                     x->rec.attrs);
            if ((r->kind == K_ONE2ONE || r->kind == K_DUP) && g->stamp < x->stamp)
                FAIL(st, "c05:time-travel", "buffer seq=%" PRId64 " recorded before it was input", g->seq);
        }
    }
}

/* one-to-one and duplicating pipes: the model of the output contract says
 * exactly which sink had to receive which input */
static void check_c05_must(struct st *st, struct side *s)
{
    struct px_fix *fx = &s->fx;
    if (g_row->kind != K_ONE2ONE && g_row->kind != K_DUP)
        return;
    if (g_prov == 2)
        return; /* a pipe may keep buffers while it waits for a manager; what then happens to them is judged by check_c05 and the accounting */
    for (int q = 0; q < st->nseq; q++) {
        struct expect *x = &st->exp[q];
        if (!x->used || x->reentrant)
            continue;
        for (int k = 0; k < PX_NSINKS; k++) {
            int n = 0;
            for (int i = 0; i < fx->nsrec; i++)
                if (fx->srec[i].kind == PXS_INPUT && fx->srec[i].sink == k && fx->srec[i].seq == q)
                    n++;
            if (x->must[k] && n == 0)
                FAIL(st, "c05:lost", "buffer seq=%d never reached sink %d although the pipe had a definition and a connected, accepting output", q, k);
            if (x->mustnot[k] && n > 0)
                FAIL(st, "c05:delivered-to-wrong-output", "buffer seq=%d reached sink %d, which was not a connected accepting output when it was input", q, k);
        }
    }
}

/* holding pipes: with an accepting output connected before the first buffer and
 * nothing re-plumbed since, everything must have come out once the loop is quiescent */
static void check_c05_complete(struct st *st, struct side *s)
{
    struct px_fix *fx = &s->fx;
    if (g_row->kind != K_HOLD || !st->ready_at_first_input || st->disturbed_after_input || st->released)
        return;
    if (!strcmp(g_row->name, "buffer") && ((st->optmodel[0] != 2 && st->optmodel[0] != 3) || st->opt_changed_after_input))
        return; /* max_size below the input size: documented to wait for room (until the next input) */
    for (int q = 0; q < st->nseq; q++) {
        struct expect *x = &st->exp[q];
        if (!x->used || !x->forwarded)
            continue;
        int n = 0;
        for (int i = 0; i < fx->nsrec; i++)
            if (fx->srec[i].kind == PXS_INPUT && fx->srec[i].sink == 0 && fx->srec[i].seq == q)
                n++;
        if (n == 0)
            FAIL(st, "c05:held-buffer-lost", "buffer seq=%d was never delivered although the output stayed connected and accepting and the event loop ran until quiescent", q);
    }
}

/* one-to-one pipes: an input is delivered during the input call, or never */
static void check_c05_sync(struct st *st, struct side *s)
{
    struct px_fix *fx = &s->fx;
    if (g_row->kind != K_ONE2ONE && g_row->kind != K_DUP)
        return;
    if (g_prov == 2)
        return;
    for (int q = 0; q < st->nseq; q++) {
        struct expect *x = &st->exp[q];
        if (!x->used)
            continue;
        int next_stamp = q + 1 < st->nseq && st->exp[q + 1].used ? st->exp[q + 1].stamp : 1 << 30;
        for (int i = 0; i < fx->nsrec; i++) {
            struct px_srec *g = &fx->srec[i];
            if (g->kind == PXS_INPUT && g->seq == q && g->stamp >= next_stamp)
                FAIL(st, "c05:delivered-late", "buffer seq=%d was delivered after the next buffer had been input (a one-to-one pipe does not keep buffers)", q);
        }
    }
}

static int final_check(void *vst)
{
    struct st *st = vst;
    pxm_resume();
    v_watchdog(g_watchdog);
    g_cur_st = st;
    struct side *sides[2] = {&st->a, st->two ? &st->b : NULL};
    bool was_released = st->released;
    if (g_prov == 2) /* the providers answer what they still keep before the application lets go */
        for (int k = 0; k < 2; k++)
            if (sides[k])
                px_provide_pending(&sides[k]->fx);
    if (!was_released && g_row->uses_pumps && !g_row->endless) {
        /* let the loop deliver what is held before the application lets go */
        for (int k = 0; k < 2; k++) {
            int budget = 200;
            while (sides[k] && budget-- > 0 && dispatch(sides[k], 0) == 0)
                ;
        }
    }
    st->nseq = st->a.nseq; /* callbacks may have pushed buffers while the loop ran */
    if (g_oracle & O_C05)
        check_c05_complete(st, &st->a);
    /* the application lets go of everything; then the loop runs until quiescent */
    for (int k = 0; k < 2; k++) {
        struct side *s = sides[k];
        if (!s)
            continue;
        for (int i = 0; i < 2; i++)
            if (s->subs[i]) {
                upipe_release(s->subs[i]);
                s->subs[i] = NULL;
            }
        if (s->pipe) {
            if (s->up_registered) {
                upipe_unregister_request(s->pipe, &s->up_req);
                s->up_registered = false;
            }
            upipe_release(s->pipe);
            s->pipe = NULL;
            upipe_release(s->mid);
            upipe_release(s->tail);
            s->mid = s->tail = NULL;
        }
        if (s->qsrc) {
            upipe_release(s->qsrc);
            s->qsrc = NULL;
        }
        int budget = 200;
        while (budget-- > 0 && dispatch(s, 0) == 0)
            ;
        if (budget <= 0)
            FAIL(st, "end:loop-never-quiescent", "the event loop still had ready pumps after 200 dispatches following the release of every pipe");
    }
    struct px_fix *fx = &st->a.fx;
    if (g_dump) { /* --dump (with --replay): what the probe and the sinks of the first instance recorded */
        for (int i = 0, j = 0; i < fx->nerec || j < fx->nsrec;) {
            if (j >= fx->nsrec || (i < fx->nerec && fx->erec[i].stamp < fx->srec[j].stamp)) {
                printf("  [%d] pipe %p event %s %s\n", fx->erec[i].stamp, (void *)fx->erec[i].pipe, px_event_name(fx->erec[i].event), fx->erec[i].text);
                i++;
            } else {
                struct px_srec *g = &fx->srec[j];
                if (g->kind == PXS_FLOWDEF)
                    printf("  [%d] sink %d set_flow_def \"%s\" id=%d %dx%d -> %d\n", g->stamp, g->sink, g->def, g->flow_id, st->a.rec_w[j], st->a.rec_h[j], g->result);
                else if (g->kind == PXS_INPUT)
                    printf("  [%d] sink %d input seq=%" PRId64 " size=%d pic=%dx%d\n", g->stamp, g->sink, g->seq, g->size, st->a.rec_w[j], st->a.rec_h[j]);
                else
                    printf("  [%d] sink %d %s type %d\n", g->stamp, g->sink, g->kind == PXS_REGISTER ? "register" : g->kind == PXS_UNREGISTER ? "unregister" : "control", g->kind == PXS_OTHERCTL ? g->result : g->req_type);
                j++;
            }
        }
    }

    if (g_oracle & O_C04) {
        char sg[96];
        const char *m = px_check_lifecycle(fx, sg, sizeof(sg));
        if (m)
            FAIL(st, sg, "%s", m);
        /* every pipe that became ready must be dead exactly once by now */
        for (int i = 0; i < fx->nerec; i++)
            if (fx->erec[i].event == UPROBE_READY) {
                struct upipe *p = fx->erec[i].pipe;
                if (px_dead_stamp(fx, p) < 0)
                    FAIL(st, "life:never-dead", "pipe %p threw 'ready' but never 'dead' although everything was released", (void *)p);
            }
        /* sink side */
        for (int k = 0; k < PX_NSINKS; k++) {
            bool have = false, ok = false;
            int cur_id = -1;
            for (int i = 0; i < fx->nsrec; i++) {
                struct px_srec *g = &fx->srec[i];
                if (g->sink != k)
                    continue;
                if (g->kind == PXS_FLOWDEF) {
                    have = true;
                    ok = g->result == UBASE_ERR_NONE;
                    cur_id = g->flow_id;
                    if (g_row->out_def_prefix && strncmp(g->def, g_row->out_def_prefix, strlen(g_row->out_def_prefix)))
                        FAIL(st, "flow:wrong-definition", "sink %d was offered definition \"%s\", expected \"%s...\"", k, g->def, g_row->out_def_prefix);
                } else if (g->kind == PXS_INPUT) {
                    if (!have)
                        FAIL(st, "flow:data-before-definition", "sink %d received a buffer (seq=%" PRId64 ") before any flow definition", k, g->seq);
                    else if (!ok)
                        FAIL(st, "flow:data-while-rejecting", "sink %d received a buffer (seq=%" PRId64 ") although it rejected the last flow definition", k, g->seq);
                    else if (g_row->sound_provenance && st->a.rec_w[i] == -2 && st->a.rec_h[i] >= 0 && st->a.rec_h[i] < st->nseq &&
                             st->exp[st->a.rec_h[i]].used && !st->exp[st->a.rec_h[i]].reentrant) {
                        int cur_rate = -1;
                        for (int j = 0; j < i; j++)
                            if (fx->srec[j].sink == k && fx->srec[j].kind == PXS_FLOWDEF && st->a.rec_w[j] == -3)
                                cur_rate = st->a.rec_h[j];
                        int in_flow = st->exp[st->a.rec_h[i]].flow;
                        if (cur_rate != (in_flow == 2 ? 44100 : 48000))
                            FAIL(st, "flow:stale-definition", "sink %d received samples of input %d, which was input under definition F%d (%d Hz), while the last definition it accepted announces %d Hz", k,
                                 st->a.rec_h[i], in_flow, in_flow == 2 ? 44100 : 48000, cur_rate);
                    } else if (g_row->kind == K_HOLD && !g_row->flowdef_in_band && g->seq >= 0 && g->seq < st->nseq) {
                        /* a pipe that keeps buffers: each must still come out under the definition in force when it went in */
                        struct expect *x = &st->exp[g->seq];
                        if (!x->reentrant && cur_id != x->flow)
                            FAIL(st, "flow:stale-definition", "sink %d received held buffer seq=%" PRId64 " of flow %d while the last definition it accepted was flow %d", k,
                                 g->seq, x->flow, cur_id);
                    } else if ((g_row->kind == K_ONE2ONE || g_row->kind == K_DUP) && g->seq >= 0 && g->seq < st->nseq) {
                        struct expect *x = &st->exp[g->seq];
                        if (x->reentrant)
                            continue;
                        if (cur_id != x->flow)
                            FAIL(st, "flow:stale-definition", "sink %d received buffer seq=%" PRId64 " of flow %d while the last definition it accepted was flow %d", k,
                                 g->seq, x->flow, cur_id);
                        /* (re)connection or definition change since that set_flow_def ? */
                        int def_stamp = -1;
                        for (int j = 0; j < i; j++)
                            if (fx->srec[j].sink == k && fx->srec[j].kind == PXS_FLOWDEF)
                                def_stamp = fx->srec[j].stamp;
                        /* A change of the input definition (what == 1) is judged by flow:stale-definition above: the
                         * sink must hold the definition in force when the buffer was input. A change that was undone
                         * before any buffer (F1, F2, F1) leaves the sink with the current definition; in a chain the
                         * second pipe rightly does not repeat it (found by the depth-6 tier on skip>htons). */
                        for (int j = 0; j < st->nsev; j++)
                            if (st->sev[j].what != 1 && st->sev[j].stamp < g->stamp && st->sev[j].stamp > def_stamp &&
                                (st->sev[j].sink == k || st->sev[j].sink == -1))
                                FAIL(st, st->sev[j].what ? "flow:no-definition-after-change" : "flow:no-definition-after-connect",
                                     "sink %d received buffer seq=%" PRId64 " without a new set_flow_def after %s", k, g->seq,
                                     st->sev[j].what ? "the flow definition changed" : "it was connected");
                    }
                }
            }
            (void)cur_id;
        }
        /* picture rows: a picture delivered to a sink has the size announced by the last definition that sink accepted */
        for (int k = 0; k < PX_NSINKS && g_row->pic_size_oracle; k++) {
            int def_w = -1, def_h = -1;
            for (int i = 0; i < fx->nsrec; i++) {
                struct px_srec *g = &fx->srec[i];
                if (g->sink != k)
                    continue;
                if (g->kind == PXS_FLOWDEF && g->result == UBASE_ERR_NONE) {
                    def_w = st->a.rec_w[i];
                    def_h = st->a.rec_h[i];
                } else if (g->kind == PXS_INPUT && st->a.rec_w[i] >= 0 && def_w >= 0 && (st->a.rec_w[i] != def_w || st->a.rec_h[i] != def_h))
                    FAIL(st, "flow:picture-size-differs-from-definition", "sink %d received a %dx%d picture (seq=%" PRId64 ") while the last flow definition it accepted announces %dx%d",
                         k, st->a.rec_w[i], st->a.rec_h[i], g->seq, def_w, def_h);
            }
        }
    }
    st->nseq = st->a.nseq;
    if (g_oracle & O_C05) {
        check_c05(st, &st->a);
        check_c05_sync(st, &st->a);
        check_c05_must(st, &st->a);
    }
    if (g_oracle & O_C20) {
        /* differential: the sinks of the two sides must have seen the same definitions and buffers */
        struct px_fix *fb = &st->b.fx;
        int i = 0, j = 0, rec = 0;
        for (;;) {
            while (i < fx->nsrec && fx->srec[i].kind != PXS_FLOWDEF && fx->srec[i].kind != PXS_INPUT)
                i++;
            while (j < fb->nsrec && fb->srec[j].kind != PXS_FLOWDEF && fb->srec[j].kind != PXS_INPUT)
                j++;
            if (i >= fx->nsrec || j >= fb->nsrec)
                break;
            struct px_srec *x = &fx->srec[i], *y = &fb->srec[j];
            if (x->sink != y->sink || x->kind != y->kind || x->result != y->result || x->seq != y->seq || x->size != y->size ||
                x->nbytes != y->nbytes || memcmp(x->bytes, y->bytes, x->nbytes > 0 ? x->nbytes : 0) || strcmp(x->attrs, y->attrs) ||
                strcmp(x->def, y->def)) {
                FAIL(st, "diff:sink-log", "record %d at the sinks differs between the instance with interleaved getters and refused setters (kind %d seq %" PRId64 " size %d) and the instance without (kind %d seq %" PRId64 " size %d)",
                     rec, x->kind, x->seq, x->size, y->kind, y->seq, y->size);
                break;
            }
            i++, j++, rec++;
        }
        while (i < fx->nsrec && fx->srec[i].kind != PXS_FLOWDEF && fx->srec[i].kind != PXS_INPUT)
            i++;
        while (j < fb->nsrec && fb->srec[j].kind != PXS_FLOWDEF && fb->srec[j].kind != PXS_INPUT)
            j++;
        if (!st->viol && (i < fx->nsrec) != (j < fb->nsrec))
            FAIL(st, "diff:sink-log-length", "the sinks of the instance with interleaved getters (and refused setters) saw %s definitions/buffers than those of the instance without", i < fx->nsrec ? "more" : "fewer");
    }

    /* ---- teardown; C01 end state ---- */
    for (int k = 0; k < 2; k++)
        if (sides[k]) {
            /* the upstream goes away last: its pump must have been released by every pipe that blocked it */
            struct vmock_mgr *sm = vmock_mgr_from_upump_mgr(sides[k]->src_mgr);
            bool blocked = !vmock_pump_from_upump(sides[k]->src_pump)->active;
            if (blocked && (g_oracle & O_C01))
                FAIL(st, "end:source-pump-left-blocked", "the upstream's pump is still blocked after every pipe was released and the loop ran until idle");
            upump_free(sides[k]->src_pump);
            if ((sm->npumps || uatomic_load(&sm->urefcount.refcount) != 1) && (g_oracle & O_C01))
                FAIL(st, "end:source-loop-leak", "the upstream's loop manager has %d pump(s) and %u reference(s) left", sm->npumps,
                     (unsigned)uatomic_load(&sm->urefcount.refcount));
            upump_mgr_release(sides[k]->src_mgr);
            free(sm);
            for (int i = 0; i < sides[k]->nheld; i++)
                ubuf_free(sides[k]->held[i]);
            sides[k]->nheld = 0;
            struct ubuf_mgr *aux[2] = {sides[k]->pic_mgr, sides[k]->sound_mgr};
            for (int i = 0; i < 2; i++)
                if (aux[i] != NULL) {
                    if (aux[i]->refcount && uatomic_load(&aux[i]->refcount->refcount) != 1 && (g_oracle & O_C01))
                        FAIL(st, "end:upstream-ubuf-mgr-refs", "the upstream's %s manager has %u references after teardown (expected 1)", i ? "sound" : "picture",
                             (unsigned)uatomic_load(&aux[i]->refcount->refcount));
                    ubuf_mgr_release(aux[i]);
                }
            sides[k]->pic_mgr = sides[k]->sound_mgr = NULL;
            struct ubuf_mgr *aux2[3] = {sides[k]->pic444_mgr, sides[k]->f32_mgr, sides[k]->mono_mgr};
            for (int i = 0; i < 3; i++)
                if (aux2[i] != NULL) {
                    if (aux2[i]->refcount && uatomic_load(&aux2[i]->refcount->refcount) != 1 && (g_oracle & O_C01))
                        FAIL(st, "end:upstream-ubuf-mgr-refs", "the upstream's %s manager has %u references after teardown (expected 1)", i == 0 ? "4:4:4 picture" : i == 1 ? "f32 stereo" : "f32 mono",
                             (unsigned)uatomic_load(&aux2[i]->refcount->refcount));
                    ubuf_mgr_release(aux2[i]);
                }
            sides[k]->pic444_mgr = sides[k]->f32_mgr = sides[k]->mono_mgr = NULL;
            urequest_clean(&sides[k]->up_req);
        }
    char sg[96] = "";
    const char *m = px_fix_fini(&st->a.fx, sg, sizeof(sg));
    if (m && (g_oracle & O_C01))
        FAIL(st, sg, "%s", m);
    if (st->two) {
        m = px_fix_fini(&st->b.fx, sg, sizeof(sg));
        if (m && (g_oracle & O_C01))
            FAIL(st, sg, "%s", m);
    }
    bool viol = st->viol;
    if (viol) {
        snprintf(seqx_sig, sizeof(seqx_sig), "%s", st->viol_sig);
        snprintf(seqx_msg, sizeof(seqx_msg), "%s", st->viol_msg);
    }
    free(st);
    char leak[200];
    int left = pxm_end(leak, sizeof(leak));
    if (!viol && (g_oracle & O_C01)) {
        if (pxm.overflow) {
            snprintf(seqx_sig, sizeof(seqx_sig), "engine:tracker-overflow");
            snprintf(seqx_msg, sizeof(seqx_msg), "allocation tracker overflow");
            return SEQX_VIOL;
        }
        if (left) {
            snprintf(seqx_sig, sizeof(seqx_sig), "%s:end:heap-blocks-left%s", g_row->name, g_prov == 2 ? "@late-provider" : "");
            snprintf(seqx_msg, sizeof(seqx_msg), "%d heap block(s) allocated during the history are still allocated after everything was released (sizes: %s)", left, leak);
            return SEQX_VIOL;
        }
    }
    return viol ? SEQX_VIOL : SEQX_OK;
}

static void canon(void *vst, struct vbuf *out)
{
    /* pipe-private state is not visible: no merging, the key is the history itself
     * (nops is part of it through the running hash of the logs) */
    struct st *st = vst;
    struct px_fix *fx = &st->a.fx;
    vbuf_u32(out, st->nops);
    for (int i = 0; i < fx->nsrec; i++) {
        vbuf_u32(out, fx->srec[i].kind * 16 + fx->srec[i].sink);
        vbuf_u64(out, (uint64_t)fx->srec[i].seq);
        vbuf_u32(out, fx->srec[i].result);
    }
    for (int i = 0; i < fx->nerec; i++)
        vbuf_u32(out, fx->erec[i].event);
    /* plus the model, plus a per-history discriminator supplied by apply() */
    vbuf_put(out, &st->flow, sizeof(st->flow));
    vbuf_put(out, &st->out, sizeof(st->out));
    vbuf_put(out, st->optmodel, sizeof(st->optmodel));
    vbuf_put(out, &st->hist_hash, sizeof(st->hist_hash));
}

/* --only a,b,c: the exploration offers these operations only (a start-state prefix and a replayed history are not restricted) */
static bool g_only_set, g_only[128];
static bool enabled_cb(void *vst, int op)
{
    struct st *st = vst;
    if (g_only_set && !g_only[op])
        return false;
    if (!op_enabled(st, op))
        return false;
    if ((op == OP_PUMP0 || op == OP_PUMP1)) {
        struct vmock_pump *r[8];
        if (px_ready_pumps(&st->a.fx, r, 8) <= op - OP_PUMP0)
            return false;
    }
    return true;
}

static bool nontrivial(void *vst)
{
    struct st *st = vst;
    struct px_fix *fx = &st->a.fx;
    for (int i = 0; i < fx->nsrec; i++)
        if (fx->srec[i].kind == PXS_INPUT)
            return true;
    return false;
}

int main(int argc, char **argv)
{
    const char *rowname = "idem";
    const char *oracle = "C01";
    for (int i = 1; i < argc; i++) {
        if (!strcmp(argv[i], "--row") && i + 1 < argc)
            rowname = argv[++i];
        else if (!strcmp(argv[i], "--oracle") && i + 1 < argc)
            oracle = argv[++i];
        else if (!strcmp(argv[i], "--pool") && i + 1 < argc)
            g_pool = atoi(argv[++i]);
        else if (!strcmp(argv[i], "--qlen") && i + 1 < argc)
            g_qlen = atoi(argv[++i]);
        else if (!strcmp(argv[i], "--prov") && i + 1 < argc)
            g_prov = atoi(argv[++i]);
        else if (!strcmp(argv[i], "--dump"))
            g_dump = true;
        else if (!strcmp(argv[i], "--only") && i + 1 < argc) {
            int ops[128], n = seqx_parse_hist(argv[++i], ops, 128);
            g_only_set = true;
            for (int k = 0; k < n; k++)
                if (ops[k] >= 0 && ops[k] < 128)
                    g_only[ops[k]] = true;
        }
        else if (!strcmp(argv[i], "--list")) {
            for (int r = 0; r < NROWS; r++)
                printf("%s\n", rows[r].name);
            return 0;
        }
    }
    for (int r = 0; r < NROWS; r++)
        if (!strcmp(rows[r].name, rowname))
            g_row = &rows[r];
    if (!g_row) {
        fprintf(stderr, "unknown row %s\n", rowname);
        return 2;
    }
    g_oracle = !strcmp(oracle, "C01") ? O_C01 : !strcmp(oracle, "C04") ? O_C04 : !strcmp(oracle, "C05") ? O_C05 : !strcmp(oracle, "C20") ? O_C20 : O_C01 | O_C04 | O_C05;
    static struct seqx_spec spec;
    char nm[64];
    snprintf(nm, sizeof(nm), "pipex_cat:%s:%s:pool%d:prov%d", rowname, oracle, g_pool, g_prov);
    spec.name = strdup(nm);
    spec.nops = NOPS;
    spec.init = init;
    spec.apply = apply;
    spec.canon = canon;
    spec.opstr = opstr;
    spec.nontrivial = nontrivial;
    spec.final_check = final_check;
    spec.enabled = enabled_cb;
    return seqx_main(&spec, argc, argv, 4);
}
