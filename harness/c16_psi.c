/* C16 — PSI sections are reassembled, routed and joined without loss.
 * Exhaustive enumeration (no sampling) on the real upipe_ts_psi_merge /
 * upipe_ts_psi_split / upipe_ts_psi_join:
 *   --mode merge : section sequences x contents x every cutting into payloads x
 *                  stuffing x segmentation x faults, reference serialiser written
 *                  from ISO/IEC 13818-1 2.4.4 (pointer_field, stuffing rules)
 *   --mode split : filter/mask sets x section leading octets, outputs added and
 *                  removed between sections, reference matcher
 *   --mode join  : op sequences add/release input, input section, release main
 * DESIGN.md section 3, C16. Every case has an id accepted by --replay. */
#include "pipex.h"

#include "upipe/uref_flow.h"
#include "upipe-ts/upipe_ts_psi_merge.h"
#include "upipe-ts/upipe_ts_psi_split.h"
#include "upipe-ts/upipe_ts_psi_join.h"
#include "upipe-ts/uref_ts_flow.h"

/* every case allocates and frees ~140 kB of fixture logs: a smaller quarantine
 * than ASan's default 256 MB keeps the working set in cache (use-after-free
 * inside a case is still caught: a case frees far less than this) */
const char *__asan_default_options(void) { return "quarantine_size_mb=16"; }

/* ------------------------------------------------------------------ */
/* bookkeeping                                                          */
/* ------------------------------------------------------------------ */
static long long g_states, g_cases, g_inputs, g_nontrivial, g_viol;
static char g_sigs[96][160];
static int g_nsigs;
static double g_t0, g_deadline = 60;
static bool g_capped, g_verbose, g_dry;
static int g_shard, g_nshards = 1;
static long long g_shard_ctr;

static void report(const char *caseid, const char *sig, const char *fmt, ...)
{
    char msg[900];
    va_list ap;
    va_start(ap, fmt);
    vsnprintf(msg, sizeof(msg), fmt, ap);
    va_end(ap);
    g_viol++;
    if (!g_verbose) {
        for (int i = 0; i < g_nsigs; i++)
            if (!strcmp(g_sigs[i], sig))
                return;
        if (g_nsigs >= 96)
            return;
        snprintf(g_sigs[g_nsigs++], 160, "%s", sig);
    }
    v_viol(sig, caseid, "%s | case %s", msg, caseid);
}

static bool deadline_hit(void)
{
    if (g_capped)
        return true;
    static unsigned calls;
    if ((++calls & 63) == 0 && v_now() - g_t0 > g_deadline)
        g_capped = true;
    return g_capped;
}

static void hexstr(const uint8_t *p, int n, char *out, size_t cap)
{
    size_t o = 0;
    out[0] = 0;
    for (int i = 0; i < n && o + 8 < cap; i++) {
        if (i == 24 && n > 32) {
            o += snprintf(out + o, cap - o, "..(%d)..", n - 32);
            i = n - 8;
        }
        o += snprintf(out + o, cap - o, "%02x", p[i]);
    }
}

/* ------------------------------------------------------------------ */
/* recording sinks that keep the whole payload                           */
/* ------------------------------------------------------------------ */
#define NSINK 3
#define MAXOUT 160
#define ARENA (1 << 17)
struct orec {
    int sink, size, off, step;
    int64_t seq;
    bool ok;
};
static struct {
    struct orec r[MAXOUT];
    int n, used, step;
    bool overflow;
    uint8_t arena[ARENA];
} g_out;

struct c16_sink {
    struct upipe upipe;
    struct urefcount urefcount;
    struct upipe_mgr mgr;
    int idx;
    bool dead;
    int after_dead, flowdefs, data_before_def;
};
static struct c16_sink g_sinks[NSINK];

static void sink_input(struct upipe *upipe, struct uref *uref, struct upump **upump_p)
{
    (void)upump_p;
    struct c16_sink *s = container_of(upipe, struct c16_sink, upipe);
    if (s->dead)
        s->after_dead++;
    if (!s->flowdefs)
        s->data_before_def++;
    if (g_out.n < MAXOUT) {
        struct orec *r = &g_out.r[g_out.n++];
        r->sink = s->idx;
        r->step = g_out.step;
        r->seq = -1;
        r->size = -1;
        r->off = g_out.used;
        r->ok = true;
        uint64_t seq;
        if (ubase_check(uref_attr_get_unsigned(uref, &seq, UDICT_TYPE_UNSIGNED, "x.seq")))
            r->seq = (int64_t)seq;
        size_t size;
        if (uref->ubuf != NULL && ubase_check(uref_block_size(uref, &size))) {
            r->size = (int)size;
            if (g_out.used + (int)size > ARENA) {
                g_out.overflow = true;
                r->ok = false;
            } else if (size && !ubase_check(uref_block_extract(uref, 0, (int)size, g_out.arena + g_out.used)))
                r->ok = false;
            else
                g_out.used += (int)size;
        }
    } else
        g_out.overflow = true;
    uref_free(uref);
}

static int sink_control(struct upipe *upipe, int command, va_list args)
{
    struct c16_sink *s = container_of(upipe, struct c16_sink, upipe);
    (void)args;
    if (s->dead)
        s->after_dead++;
    if (command == UPIPE_SET_FLOW_DEF) {
        s->flowdefs++;
        return UBASE_ERR_NONE;
    }
    return UBASE_ERR_UNHANDLED;
}

static void sink_dead(struct urefcount *urefcount)
{
    struct c16_sink *s = container_of(urefcount, struct c16_sink, urefcount);
    s->dead = true;
}

static void sinks_init(void)
{
    g_out.n = g_out.used = g_out.step = 0;
    g_out.overflow = false;
    for (int i = 0; i < NSINK; i++) {
        struct c16_sink *s = &g_sinks[i];
        memset(s, 0, sizeof(*s));
        s->idx = i;
        s->mgr.signature = UBASE_FOURCC('c', '1', '6', 's');
        s->mgr.upipe_input = sink_input;
        s->mgr.upipe_control = sink_control;
        urefcount_init(&s->urefcount, sink_dead);
        upipe_init(&s->upipe, &s->mgr, NULL);
        s->upipe.refcount = &s->urefcount;
    }
}

/* releases the harness' references; returns a description of what is wrong or NULL */
static const char *sinks_fini(char *sig, size_t sign)
{
    static char msg[200];
    const char *res = NULL;
    for (int i = 0; i < NSINK; i++) {
        struct c16_sink *s = &g_sinks[i];
        if (s->dead && res == NULL) {
            snprintf(sig, sign, "end:output-over-released");
            snprintf(msg, sizeof(msg), "sink %d died while the harness still held its reference", i);
            res = msg;
        }
        if (!s->dead)
            upipe_release(&s->upipe);
        if (!s->dead && res == NULL) {
            snprintf(sig, sign, "end:output-reference-leaked");
            snprintf(msg, sizeof(msg), "sink %d still referenced after everything was released", i);
            res = msg;
        }
        if (s->after_dead && res == NULL) {
            snprintf(sig, sign, "end:output-used-after-its-last-release");
            snprintf(msg, sizeof(msg), "sink %d entered %d time(s) after its last release", i, s->after_dead);
            res = msg;
        }
    }
    return res;
}

/* fixture + heap tracker around one case */
static struct px_fix g_fx;
/* refused memory (merge fault 'a'): ubuf_block_mem.c / ubuf_mem_common.c are compiled with -Dmalloc=vf_malloc; together with the
 * counting umem manager, "the k-th next memory request" covers buffer areas, dictionaries and buffer descriptors */
void *vf_malloc(size_t n);
void *vf_malloc(size_t n)
{
    if (g_fx.cumem.fail_in > 0 && --g_fx.cumem.fail_in == 0) {
        g_fx.cumem.faults++;
        return NULL;
    }
    return (malloc)(n);
}
static bool g_tight_dicts; /* dictionaries grow by one octet at a time: every added attribute is a memory request */
static void fix_begin(void)
{
    pxm_begin();
    struct px_cfg cfg = {.pool = 0, .prepend = 0, .append = 0, .align = 0, .udict_min = g_tight_dicts ? 1 : 0, .udict_extra = g_tight_dicts ? 1 : 0};
    px_fix_init(&g_fx, &cfg);
    sinks_init();
}
/* returns NULL if the end state is clean */
static const char *fix_end(char *sig, size_t sign)
{
    static char msg[700];
    char s1[96] = "", s2[96] = "";
    const char *m1 = sinks_fini(s1, sizeof(s1));
    const char *m2 = px_fix_fini(&g_fx, s2, sizeof(s2));
    char leak[200];
    int left = pxm_end(leak, sizeof(leak));
    if (m1) {
        snprintf(sig, sign, "%s", s1);
        snprintf(msg, sizeof(msg), "%s", m1);
        return msg;
    }
    if (m2) {
        snprintf(sig, sign, "%s", s2);
        snprintf(msg, sizeof(msg), "%s", m2);
        return msg;
    }
    if (pxm.overflow) {
        snprintf(sig, sign, "engine:tracker-overflow");
        snprintf(msg, sizeof(msg), "allocation tracker overflow");
        return msg;
    }
    if (left) {
        snprintf(sig, sign, "end:heap-blocks-left");
        snprintf(msg, sizeof(msg), "%d heap block(s) allocated during the case are still allocated after everything was released (sizes: %s)", left, leak);
        return msg;
    }
    return NULL;
}

/* a block uref from octets; seg 0: one buffer, 1: two segments cut after the
 * first octet, 2: two segments cut in the middle, 3: cut after the second octet */
static struct uref *mk_uref(const uint8_t *b, int n, int seg)
{
    int cutat = seg == 1 ? 1 : seg == 2 ? n / 2 : seg == 3 ? 2 : 0;
    if (n < 2 || cutat <= 0 || cutat >= n)
        cutat = 0;
    struct uref *uref = NULL;
    int done = 0;
    for (int sg = 0; sg < (cutat ? 2 : 1); sg++) {
        int part = cutat ? (sg == 0 ? cutat : n - cutat) : n;
        struct ubuf *ubuf = ubuf_block_alloc(g_fx.ubuf_mgr, part);
        assert(ubuf);
        uint8_t *w;
        int sz = -1;
        ubase_assert(ubuf_block_write(ubuf, 0, &sz, &w));
        assert(sz == part);
        memcpy(w, b + done, part);
        ubuf_block_unmap(ubuf, 0);
        if (uref == NULL) {
            uref = uref_alloc(g_fx.uref_mgr);
            assert(uref);
            uref_attach_ubuf(uref, ubuf);
        } else
            ubase_assert(ubuf_block_append(uref->ubuf, ubuf));
        done += part;
    }
    return uref;
}

/* ================================================================== */
/* MERGE                                                                */
/* ================================================================== */
#define MAXSEC 3
#define MAXSECSZ 4100
#define MAXCUT 70
#define MAXPAY (MAXCUT + 1)

static const struct {
    char c;
    int len, syn;
} KINDS[] = {{'0', 0, 0}, {'1', 1, 0}, {'2', 2, 0}, {'5', 5, 0}, {'9', 9, 0}, {'s', 9, 1}, {'L', 4093, 0}, {'l', 4093, 1}};
#define NKINDS 8
static int kind_of(char c)
{
    for (int i = 0; i < NKINDS; i++)
        if (KINDS[i].c == c)
            return i;
    return -1;
}

/* single-octet corruptions of the 3-octet section header */
#define NCORR 7
static const struct {
    int byte;
    const char *what;
} CORR[NCORR] = {{0, "table_id:=ff"}, {0, "table_id^=80"}, {1, "syntax bit flipped"}, {1, "length|=f00"},
                 {2, "length^=01"},   {2, "length^=02"},   {2, "length low octet:=ff"}};
static uint8_t corr_apply(int v, uint8_t b)
{
    switch (v) {
    case 0: return 0xff;
    case 1: return b ^ 0x80;
    case 2: return b ^ 0x80;
    case 3: return b | 0x0f;
    case 4: return b ^ 0x01;
    case 5: return b ^ 0x02;
    default: return 0xff;
    }
}

struct mcase {
    int nsec;
    int kind[MAXSEC];
    char content;        /* d distinct, f payload 0xff, h payload looks like section headers */
    int ncut;
    int cut[MAXCUT];     /* increasing positions in the concatenated sections, 0 < cut < L */
    int stuff_size;      /* octets of 0xff stuffing appended to the payloads selected by stuff_mask */
    uint64_t stuff_mask;
    int seg;
    char ftype;          /* n none, d discontinuity flag on payload fa, m payload fa missing, c section fa corrupted by CORR[fb] */
    int fa, fb;
};

static struct mlayout {
    uint8_t sec[MAXSEC][MAXSECSZ];
    int size[MAXSEC], off[MAXSEC + 1];
    int L;
    uint8_t stream[MAXSEC * MAXSECSZ]; /* what is transmitted (after corruption) */
    int npay;
    int pa[MAXPAY], pb[MAXPAY], pf[MAXPAY];
    bool pusi[MAXPAY], elig[MAXPAY];
    int sp[MAXSEC], ep[MAXSEC];
    int corr_off; /* stream offset of the corrupted octet, -1 */
} ML;

static void mcase_str(const struct mcase *c, char *out, size_t n)
{
    size_t o = snprintf(out, n, "merge:");
    for (int i = 0; i < c->nsec; i++)
        o += snprintf(out + o, n - o, "%c", KINDS[c->kind[i]].c);
    o += snprintf(out + o, n - o, ":%c:", c->content);
    if (c->ncut == 0)
        o += snprintf(out + o, n - o, "-");
    for (int i = 0; i < c->ncut; i++)
        o += snprintf(out + o, n - o, "%s%d", i ? "." : "", c->cut[i]);
    if (c->stuff_mask == 0)
        o += snprintf(out + o, n - o, ":0");
    else
        o += snprintf(out + o, n - o, ":%dx%" PRIx64, c->stuff_size, c->stuff_mask);
    o += snprintf(out + o, n - o, ":%d:", c->seg);
    if (c->ftype == 'n')
        snprintf(out + o, n - o, "n");
    else if (c->ftype == 'c' || c->ftype == 'a')
        snprintf(out + o, n - o, "%c%d.%d", c->ftype, c->fa, c->fb);
    else
        snprintf(out + o, n - o, "%c%d", c->ftype, c->fa);
}

static bool mcase_parse(const char *str, struct mcase *c)
{
    char kinds[8], cont, cuts[400], stuff[40], fault[16];
    memset(c, 0, sizeof(*c));
    if (sscanf(str, "merge:%7[^:]:%c:%399[^:]:%39[^:]:%d:%15s", kinds, &cont, cuts, stuff, &c->seg, fault) != 6)
        return false;
    c->nsec = (int)strlen(kinds);
    if (c->nsec < 1 || c->nsec > MAXSEC)
        return false;
    for (int i = 0; i < c->nsec; i++)
        if ((c->kind[i] = kind_of(kinds[i])) < 0)
            return false;
    c->content = cont;
    if (strcmp(cuts, "-")) {
        char *p = cuts;
        while (*p && c->ncut < MAXCUT) {
            c->cut[c->ncut++] = (int)strtol(p, &p, 10);
            if (*p == '.')
                p++;
        }
    }
    if (strcmp(stuff, "0")) {
        if (sscanf(stuff, "%dx%" SCNx64, &c->stuff_size, &c->stuff_mask) != 2)
            return false;
    }
    c->ftype = fault[0];
    if (c->ftype == 'c') {
        if (sscanf(fault + 1, "%d.%d", &c->fa, &c->fb) != 2 || c->fb < 0 || c->fb >= NCORR)
            return false;
    } else if (c->ftype == 'a') {
        if (sscanf(fault + 1, "%d.%d", &c->fa, &c->fb) != 2 || c->fb < 1 || c->fb > 4)
            return false;
    } else if (c->ftype != 'n')
        c->fa = atoi(fault + 1);
    return true;
}

/* reference serialiser, part 1: the sections (ISO/IEC 13818-1 2.4.4.10/11:
 * table_id(8) section_syntax_indicator(1) private_indicator(1) reserved(2)
 * section_length(12), then section_length octets) */
static void ml_sections(const struct mcase *c)
{
    ML.L = 0;
    for (int i = 0; i < c->nsec; i++) {
        int len = KINDS[c->kind[i]].len;
        uint8_t *s = ML.sec[i];
        s[0] = (uint8_t)(0x40 + i);
        s[1] = (uint8_t)((KINDS[c->kind[i]].syn ? 0x80 : 0) | 0x30 | (len >> 8));
        s[2] = (uint8_t)(len & 0xff);
        for (int j = 0; j < len; j++) {
            if (c->content == 'f')
                s[3 + j] = 0xff;
            else if (c->content == 'h') /* 5x 30 00: a complete zero-length section if (wrongly) parsed */
                s[3 + j] = j % 3 == 0 ? (uint8_t)(0x50 + i) : j % 3 == 1 ? 0x30 : 0x00;
            else
                s[3 + j] = (uint8_t)((i + 1) * 0x20 + (j % 29) + 1);
        }
        ML.size[i] = 3 + len;
        ML.off[i] = ML.L;
        memcpy(ML.stream + ML.L, s, ML.size[i]);
        ML.L += ML.size[i];
    }
    ML.off[c->nsec] = ML.L;
}

/* part 2: payloads. A payload in which a section begins carries
 * payload_unit_start_indicator and a pointer_field giving the distance to the
 * first section beginning in it (2.4.4.1/2.4.4.2); stuffing (0xff) only after
 * the last octet of a section and then up to the end of the payload (2.4.4). */
static bool ml_payloads(const struct mcase *c)
{
    ML.npay = c->ncut + 1;
    for (int p = 0; p < ML.npay; p++) {
        ML.pa[p] = p ? c->cut[p - 1] : 0;
        ML.pb[p] = p < c->ncut ? c->cut[p] : ML.L;
        if (ML.pb[p] <= ML.pa[p] || ML.pb[p] > ML.L)
            return false;
        ML.pusi[p] = false;
        ML.pf[p] = 0;
        ML.elig[p] = false;
        for (int i = 0; i < c->nsec; i++) {
            if (!ML.pusi[p] && ML.off[i] >= ML.pa[p] && ML.off[i] < ML.pb[p]) {
                ML.pusi[p] = true;
                ML.pf[p] = ML.off[i] - ML.pa[p];
            }
            if (ML.off[i + 1] == ML.pb[p])
                ML.elig[p] = true;
        }
        if (ML.pf[p] > 255)
            return false; /* not expressible: the muxer would have had to cut elsewhere */
        if (((c->stuff_mask >> p) & 1) && !ML.elig[p])
            return false;
    }
    for (int i = 0; i < c->nsec; i++)
        for (int p = 0; p < ML.npay; p++) {
            if (ML.off[i] >= ML.pa[p] && ML.off[i] < ML.pb[p])
                ML.sp[i] = p;
            if (ML.off[i + 1] - 1 >= ML.pa[p] && ML.off[i + 1] - 1 < ML.pb[p])
                ML.ep[i] = p;
        }
    ML.corr_off = -1;
    if (c->ftype == 'c') {
        if (c->fa < 0 || c->fa >= c->nsec)
            return false;
        int o = ML.off[c->fa] + CORR[c->fb].byte;
        uint8_t nb = corr_apply(c->fb, ML.stream[o]);
        if (nb == ML.stream[o])
            return false; /* no change: not a fault */
        ML.stream[o] = nb;
        ML.corr_off = o;
    } else if (c->ftype == 'd' || c->ftype == 'm') {
        if (c->fa < 0 || c->fa >= ML.npay)
            return false;
    }
    return true;
}

static int ml_payload_bytes(const struct mcase *c, int p, uint8_t *out)
{
    int n = 0;
    if (ML.pusi[p])
        out[n++] = (uint8_t)ML.pf[p];
    memcpy(out + n, ML.stream + ML.pa[p], ML.pb[p] - ML.pa[p]);
    n += ML.pb[p] - ML.pa[p];
    if ((c->stuff_mask >> p) & 1)
        for (int k = 0; k < c->stuff_size; k++)
            out[n++] = 0xff;
    return n;
}

static uint8_t g_paybuf[MAXSEC * MAXSECSZ + 64];

/* runs the real merger on the case; outputs end up in g_out */
static const char *merge_run(const struct mcase *c, char *sig, size_t sign)
{
    fix_begin();
    struct upipe *psim = upipe_void_alloc(upipe_ts_psim_mgr_alloc(), px_probe(&g_fx));
    assert(psim);
    struct uref *f = px_flow(&g_fx, "block.mpegtspsi.", 1);
    ubase_assert(upipe_set_flow_def(psim, f));
    uref_free(f);
    ubase_assert(upipe_set_output(psim, &g_sinks[0].upipe));
    bool disc_next = false;
    for (int p = 0; p < ML.npay; p++) {
        if (c->ftype == 'm' && p == c->fa) {
            disc_next = true; /* the TS layer sees the continuity_counter gap on the next packet */
            continue;
        }
        int n = ml_payload_bytes(c, p, g_paybuf);
        struct uref *u = mk_uref(g_paybuf, n, c->seg);
        if (ML.pusi[p])
            uref_block_set_start(u);
        if (disc_next || (c->ftype == 'd' && p == c->fa))
            uref_flow_set_discontinuity(u);
        disc_next = false;
        g_out.step = p;
        g_inputs++;
        if (c->ftype == 'a' && p == c->fa)
            g_fx.cumem.fail_in = c->fb; /* the fb-th memory request made while this payload is handled is refused */
        upipe_input(psim, u, NULL);
        g_fx.cumem.fail_in = 0;
    }
    upipe_release(psim);
    return fix_end(sig, sign);
}

static const char *fclass(char t) { return t == 'n' ? "nofault" : t == 'd' ? "disc" : t == 'm' ? "missing" : t == 'a' ? "refused-memory" : "corrupt"; }

static void merge_check(const struct mcase *c, const char *cid, const char *endmsg, const char *endsig)
{
    char sig[160], a[200], b[200];
    const char *fc = fclass(c->ftype);
    if (endmsg) {
        snprintf(sig, sizeof(sig), "merge:%s", endsig);
        report(cid, sig, "%s", endmsg);
    }
    if (g_out.overflow) {
        snprintf(sig, sizeof(sig), "merge:%s:output-flood", fc);
        report(cid, sig, "more than %d outputs / %d octets", MAXOUT, ARENA);
        return;
    }
    int nout = g_out.n, idx[MAXOUT];
    for (int j = 0; j < nout; j++) {
        struct orec *r = &g_out.r[j];
        idx[j] = -1;
        if (!r->ok || r->size < 0) {
            snprintf(sig, sizeof(sig), "merge:%s:unreadable-output", fc);
            report(cid, sig, "output %d has no readable block", j);
            return;
        }
        for (int i = 0; i < c->nsec; i++)
            if (r->size == ML.size[i] && !memcmp(g_out.arena + r->off, ML.sec[i], r->size))
                idx[j] = i;
    }
    enum { REQ, OPT, FORB } need[MAXSEC];
    if (c->ftype != 'c') {
        for (int i = 0; i < c->nsec; i++) {
            need[i] = REQ;
            if (c->ftype == 'd' && ML.sp[i] < c->fa && c->fa <= ML.ep[i])
                need[i] = OPT; /* all octets did arrive; dropping it is what the flag asks for */
            if (c->ftype == 'm' && ML.sp[i] <= c->fa && c->fa <= ML.ep[i])
                need[i] = FORB; /* octets are missing: cannot be output complete */
            if (c->ftype == 'a' && ML.sp[i] <= c->fa && c->fa <= ML.ep[i])
                need[i] = OPT; /* part of it was in the payload during which memory was refused: output whole or not at all */
        }
        int last = -1;
        bool seen[MAXSEC] = {false, false, false};
        for (int j = 0; j < nout; j++) {
            struct orec *r = &g_out.r[j];
            if (idx[j] < 0) {
                hexstr(g_out.arena + r->off, r->size, a, sizeof(a));
                snprintf(sig, sizeof(sig), "merge:%s:wrong-output", fc);
                report(cid, sig, "output %d (%d octets: %s), emitted while payload %d was fed, is not one of the original sections", j, r->size, a, r->step);
                return;
            }
            if (seen[idx[j]]) {
                snprintf(sig, sizeof(sig), "merge:%s:duplicated", fc);
                report(cid, sig, "section %d output twice", idx[j]);
                return;
            }
            if (idx[j] < last) {
                snprintf(sig, sizeof(sig), "merge:%s:reordered", fc);
                report(cid, sig, "section %d output after section %d", idx[j], last);
                return;
            }
            if (need[idx[j]] == FORB) {
                snprintf(sig, sizeof(sig), "merge:%s:output-of-incomplete-section", fc);
                report(cid, sig, "section %d output although payload %d carrying part of it was never fed", idx[j], c->fa);
                return;
            }
            seen[idx[j]] = true;
            last = idx[j];
        }
        for (int i = 0; i < c->nsec; i++)
            if (need[i] == REQ && !seen[i]) {
                hexstr(ML.sec[i], ML.size[i], a, sizeof(a));
                if (c->ftype == 'n')
                    snprintf(sig, sizeof(sig), "merge:nofault:section-lost");
                else
                    snprintf(sig, sizeof(sig), "merge:%s:section-lost-%s", fc, ML.ep[i] < c->fa ? "before-fault" : "after-next-unit-start");
                report(cid, sig, "section %d (%d octets: %s; payloads %d..%d) was never output (%d output(s) in total)", i, ML.size[i], a, ML.sp[i], ML.ep[i], nout);
                return;
            }
        return;
    }
    /* corrupted header octet: sections wholly before it come first and exact; the
     * sections beginning in or after the next unit-start payload come last and
     * exact; in between (damage zone) only self-consistent sections */
    int s = c->fa, cp = 0, q = -1;
    for (int p = 0; p < ML.npay; p++)
        if (ML.corr_off >= ML.pa[p] && ML.corr_off < ML.pb[p])
            cp = p;
    for (int p = ML.npay - 1; p > cp; p--)
        if (ML.pusi[p])
            q = p;
    int after[MAXSEC], nafter = 0;
    for (int i = s + 1; i < c->nsec; i++)
        if (q >= 0 && ML.sp[i] >= q)
            after[nafter++] = i;
    for (int i = 0; i < s; i++)
        if (i >= nout || idx[i] != i) {
            hexstr(ML.sec[i], ML.size[i], a, sizeof(a));
            snprintf(sig, sizeof(sig), "merge:corrupt:section-lost-before-fault");
            report(cid, sig, "section %d (%s), complete before the corrupted octet, is not output number %d", i, a, i);
            return;
        }
    for (int k = 0; k < nafter; k++) {
        int j = nout - nafter + k;
        if (j < s || idx[j] != after[k]) {
            hexstr(ML.sec[after[k]], ML.size[after[k]], a, sizeof(a));
            if (j >= s && j < nout)
                hexstr(g_out.arena + g_out.r[j].off, g_out.r[j].size, b, sizeof(b));
            else
                snprintf(b, sizeof(b), "nothing");
            snprintf(sig, sizeof(sig), "merge:corrupt:no-resync-at-next-unit-start:%s",
                     c->fb == 0 ? "table-id-ff" : c->fb == 1 ? "table-id" : c->fb == 2 ? "syntax-bit" : "length");
            report(cid, sig,
                   "%s in section %d (payload %d); section %d (%s) begins in payload %d, the first unit start after the fault is payload %d "
                   "(pointer_field %d): it must be output number %d from the end, %d output(s) were made, found there: %s",
                   CORR[c->fb].what, s, cp, after[k], a, ML.sp[after[k]], q, ML.pf[q], nafter - k, nout, b);
            return;
        }
    }
    int lastidx = s - 1;
    for (int j = s; j < nout - nafter; j++) {
        struct orec *r = &g_out.r[j];
        const uint8_t *o = g_out.arena + r->off;
        if (r->size < 3 || r->size != 3 + (((o[1] & 0xf) << 8) | o[2])) {
            hexstr(o, r->size, a, sizeof(a));
            snprintf(sig, sizeof(sig), "merge:corrupt:inconsistent-output");
            report(cid, sig, "output %d (%d octets: %s) does not have the size its own section_length announces", j, r->size, a);
            return;
        }
        if (idx[j] >= 0) {
            if (idx[j] <= lastidx || (nafter && idx[j] >= after[0])) {
                snprintf(sig, sizeof(sig), "merge:corrupt:duplicated-or-reordered");
                report(cid, sig, "output %d is section %d, out of order or duplicated", j, idx[j]);
                return;
            }
            lastidx = idx[j];
        }
    }
}

static void merge_describe(const struct mcase *c)
{
    char a[200];
    for (int i = 0; i < c->nsec; i++) {
        hexstr(ML.sec[i], ML.size[i], a, sizeof(a));
        printf("  section %d: %d octets %s  (payloads %d..%d)\n", i, ML.size[i], a, ML.sp[i], ML.ep[i]);
    }
    for (int p = 0; p < ML.npay; p++) {
        int n = ml_payload_bytes(c, p, g_paybuf);
        hexstr(g_paybuf, n, a, sizeof(a));
        printf("  payload %d: %s%s%s %s\n", p, ML.pusi[p] ? "[unit_start] " : "", (c->ftype == 'd' && p == c->fa) || (c->ftype == 'm' && p == c->fa + 1) ? "[discontinuity] " : "",
               c->ftype == 'm' && p == c->fa ? "[NOT FED] " : "", a);
    }
}

/* returns false if the case id does not describe a constructible case */
static bool merge_case(const struct mcase *c)
{
    char cid[600], esig[96] = "";
    ml_sections(c);
    if (!ml_payloads(c))
        return false;
    if (g_dry) { /* sizing only: count the case, run nothing */
        g_cases++;
        return true;
    }
    mcase_str(c, cid, sizeof(cid));
    if (v_crash_fd >= 0)
        v_crash_note(cid);
    v_watchdog(10);
    if (g_verbose) {
        printf("case %s\n", cid);
        merge_describe(c);
    }
    const char *m = merge_run(c, esig, sizeof(esig));
    if (g_verbose)
        for (int j = 0; j < g_out.n; j++) {
            char a[200];
            hexstr(g_out.arena + g_out.r[j].off, g_out.r[j].size, a, sizeof(a));
            printf("  output %d (during payload %d): %d octets %s\n", j, g_out.r[j].step, g_out.r[j].size, a);
        }
    merge_check(c, cid, m, esig);
    g_cases++;
    for (int i = 0; i < c->nsec; i++)
        if (ML.sp[i] != ML.ep[i]) {
            g_nontrivial++;
            break;
        }
    return true;
}

/* ---- enumeration ---- */
static struct {
    const char *kinds, *longkinds, *contents, *faults;
    int maxsec, maxcuts;
    int nstuff, stuff[4];
    int nsegs, segs[4];
    int fault_seg_only; /* >= 0: faulted cases only with this segmentation */
    bool fault_stuff_all_or_none;
} MP = {"01259s", "", "dfh", "ndmc", 3, 3, 1, {2}, 2, {0, 2}, -1, false};

static void merge_faults(struct mcase *c, int npay)
{
    for (const char *f = MP.faults; *f && !g_capped; f++) {
        c->ftype = *f;
        c->fa = c->fb = 0;
        if (*f != 'n' && MP.fault_seg_only >= 0 && c->seg != MP.fault_seg_only)
            continue;
        if (*f == 'n')
            merge_case(c);
        else if (*f == 'd' || *f == 'm')
            for (c->fa = 0; c->fa < npay; c->fa++)
                merge_case(c);
        else if (*f == 'a')
            for (c->fa = 0; c->fa < npay; c->fa++)
                for (c->fb = 1; c->fb <= 3; c->fb++)
                    merge_case(c);
        else if (*f == 'c')
            for (c->fa = 0; c->fa < c->nsec; c->fa++)
                for (c->fb = 0; c->fb < NCORR; c->fb++)
                    merge_case(c);
        if (deadline_hit())
            return;
    }
    c->ftype = 'n';
}

/* one (sections, content, cutting): all stuffing variants x segmentations x faults */
static void merge_base(struct mcase *c)
{
    if (g_shard_ctr++ % g_nshards != g_shard)
        return;
    if (deadline_hit())
        return;
    c->stuff_mask = 0;
    c->stuff_size = 0;
    c->ftype = 'n';
    ml_sections(c);
    if (!ml_payloads(c))
        return;
    g_states++;
    int npay = ML.npay, ne = 0, el[MAXPAY];
    for (int p = 0; p < npay; p++)
        if (ML.elig[p])
            el[ne++] = p;
    if (ne > 5)
        ne = 5; /* regular cutting of long streams: only the first five eligible payloads vary */
    for (int si = -1; si < MP.nstuff && !g_capped; si++) {
        unsigned nsub = si < 0 ? 1 : (1u << ne);
        for (unsigned sub = si < 0 ? 0 : 1; sub < nsub && !g_capped; sub++) {
            c->stuff_size = si < 0 ? 0 : MP.stuff[si];
            c->stuff_mask = 0;
            for (int k = 0; k < ne; k++)
                if ((sub >> k) & 1)
                    c->stuff_mask |= 1ull << el[k];
            for (int gi = 0; gi < MP.nsegs && !g_capped; gi++) {
                c->seg = MP.segs[gi];
                merge_faults(c, npay);
            }
        }
    }
}

static void merge_cuts_rec(struct mcase *c, const int *pos, int npos, int from)
{
    merge_base(c);
    if (c->ncut >= MP.maxcuts || g_capped)
        return;
    for (int k = from; k < npos && !g_capped; k++) {
        c->cut[c->ncut++] = pos[k];
        merge_cuts_rec(c, pos, npos, k + 1);
        c->ncut--;
    }
}

static int cmp_int(const void *a, const void *b) { return *(const int *)a - *(const int *)b; }

static void merge_sequence(struct mcase *c)
{
    int L = 0, off[MAXSEC + 1];
    for (int i = 0; i < c->nsec; i++) {
        off[i] = L;
        L += 3 + KINDS[c->kind[i]].len;
    }
    off[c->nsec] = L;
    static int pos[MAXSEC * MAXSECSZ];
    int npos = 0;
    if (L <= 64)
        for (int x = 1; x < L; x++)
            pos[npos++] = x;
    else {
        /* long sections: every position within 4 octets after / 2 before each
         * section boundary, plus the middle and the 184th octet of long sections */
        int cand[128], nc = 0;
        for (int i = 0; i <= c->nsec; i++)
            for (int d = -2; d <= 4; d++)
                cand[nc++] = off[i] + d;
        for (int i = 0; i < c->nsec; i++)
            if (off[i + 1] - off[i] > 64) {
                cand[nc++] = off[i] + (off[i + 1] - off[i]) / 2;
                cand[nc++] = off[i] + 183;
                cand[nc++] = off[i] + 256 + 3;
            }
        qsort(cand, nc, sizeof(int), cmp_int);
        for (int k = 0; k < nc; k++)
            if (cand[k] > 0 && cand[k] < L && (npos == 0 || pos[npos - 1] != cand[k]))
                pos[npos++] = cand[k];
    }
    for (const char *ct = MP.contents; *ct && !g_capped; ct++) {
        if (*ct != 'd' && L == 3 * c->nsec)
            continue; /* no payload octets: all contents coincide */
        c->content = *ct;
        c->ncut = 0;
        merge_cuts_rec(c, pos, npos, 0);
    }
}

static void merge_enum(void)
{
    int nk = (int)strlen(MP.kinds), nl = (int)strlen(MP.longkinds);
    struct mcase c;
    for (int n = 1; n <= MP.maxsec && !g_capped; n++) {
        long long total = 1;
        for (int i = 0; i < n; i++)
            total *= nk;
        for (long long t = 0; t < total && !g_capped; t++) {
            memset(&c, 0, sizeof(c));
            c.nsec = n;
            long long x = t;
            for (int i = 0; i < n; i++) {
                c.kind[i] = kind_of(MP.kinds[x % nk]);
                x /= nk;
            }
            if (nl == 0)
                merge_sequence(&c);
            else /* exactly one long section, at every position */
                for (int li = 0; li < n; li++)
                    for (int lk = 0; lk < nl; lk++) {
                        /* the short kind at position li is replaced: visit each combination once */
                        if (c.kind[li] != kind_of(MP.kinds[0]))
                            continue;
                        struct mcase c2 = c;
                        c2.kind[li] = kind_of(MP.longkinds[lk]);
                        merge_sequence(&c2);
                    }
        }
    }
}

/* TS-like cutting: payloads of a fixed size P after a first payload of phase
 * octets, any number of payloads; stuffing only in the last payload */
static void merge_ts_enum(int psize)
{
    int nk = (int)strlen(MP.kinds), nl = (int)strlen(MP.longkinds);
    struct mcase c;
    for (int n = 1; n <= MP.maxsec && !g_capped; n++) {
        long long total = 1;
        for (int i = 0; i < n; i++)
            total *= nk;
        for (long long t = 0; t < total && !g_capped; t++)
            for (int li = 0; li < n; li++)
                for (int lk = 0; lk < nl && !g_capped; lk++) {
                    memset(&c, 0, sizeof(c));
                    c.nsec = n;
                    long long x = t;
                    for (int i = 0; i < n; i++) {
                        c.kind[i] = kind_of(MP.kinds[x % nk]);
                        x /= nk;
                    }
                    if (c.kind[li] != kind_of(MP.kinds[0]))
                        continue;
                    c.kind[li] = kind_of(MP.longkinds[lk]);
                    int L = 0;
                    for (int i = 0; i < n; i++)
                        L += 3 + KINDS[c.kind[i]].len;
                    for (const char *ct = MP.contents; *ct && !g_capped; ct++)
                        for (int phase = 1; phase <= psize && !g_capped; phase++) {
                            c.content = *ct;
                            c.ncut = 0;
                            for (int x2 = phase; x2 < L && c.ncut < MAXCUT; x2 += psize)
                                c.cut[c.ncut++] = x2;
                            merge_base(&c);
                        }
                }
    }
}

/* ================================================================== */
/* SPLIT and JOIN: scripted cases                                       */
/* ================================================================== */
#define MAXOPS 16
#define MAXIN 40
#define INSZ 272
struct sop {
    char t;           /* a add, r release sub, s input section (split) / i input on sub (join), S sweep, m release main */
    int k;            /* slot */
    bool nofilter;
    uint8_t f[2], m[2];
    int ty, seg;      /* section type / shape, segmentation */
};
struct script {
    int n;
    struct sop op[MAXOPS];
    int endorder;     /* 0: subs then main, 1: main then subs */
};

static const uint8_t SB0[3] = {0x42, 0x43, 0x52}, SB1[3] = {0x30, 0xb0, 0x31};

static void script_str(const char *mode, const struct script *s, char *out, size_t n)
{
    size_t o = snprintf(out, n, "%s:", mode);
    for (int i = 0; i < s->n; i++) {
        const struct sop *p = &s->op[i];
        if (p->t == 'a' && !strcmp(mode, "split")) {
            if (p->nofilter)
                o += snprintf(out + o, n - o, "a%d.-,", p->k);
            else
                o += snprintf(out + o, n - o, "a%d.%02x%02x.%02x%02x,", p->k, p->f[0], p->f[1], p->m[0], p->m[1]);
        } else if (p->t == 'A')
            o += snprintf(out + o, n - o, "A%d.%d,", p->k, p->ty);
        else if (p->t == 'a' || p->t == 'r')
            o += snprintf(out + o, n - o, "%c%d,", p->t, p->k);
        else if (p->t == 's')
            o += snprintf(out + o, n - o, "s%d.%d,", p->ty, p->seg);
        else if (p->t == 'i')
            o += snprintf(out + o, n - o, "i%d.%d,", p->k, p->ty);
        else
            o += snprintf(out + o, n - o, "%c,", p->t);
    }
    snprintf(out + o, n - o, "e%d", s->endorder);
}

static bool script_parse(const char *str, const char *mode, struct script *s)
{
    memset(s, 0, sizeof(*s));
    size_t ml = strlen(mode);
    if (strncmp(str, mode, ml) || str[ml] != ':')
        return false;
    const char *p = str + ml + 1;
    while (*p) {
        if (*p == 'e') {
            s->endorder = atoi(p + 1);
            return true;
        }
        if (s->n >= MAXOPS)
            return false;
        struct sop *o = &s->op[s->n++];
        o->t = *p++;
        unsigned a, b, c2, d;
        int used = 0;
        if (o->t == 'a' && !strcmp(mode, "split")) {
            if (sscanf(p, "%d.-%n", &o->k, &used) >= 1 && used > 0 && p[used - 1] == '-')
                o->nofilter = true;
            else if (sscanf(p, "%d.%2x%2x.%2x%2x%n", &o->k, &a, &b, &c2, &d, &used) == 5) {
                o->f[0] = (uint8_t)a, o->f[1] = (uint8_t)b, o->m[0] = (uint8_t)c2, o->m[1] = (uint8_t)d;
            } else
                return false;
        } else if (o->t == 'a' || o->t == 'r') {
            if (sscanf(p, "%d%n", &o->k, &used) != 1)
                return false;
        } else if (o->t == 's') {
            if (sscanf(p, "%d.%d%n", &o->ty, &o->seg, &used) != 2)
                return false;
        } else if (o->t == 'i' || o->t == 'A') {
            if (sscanf(p, "%d.%d%n", &o->k, &o->ty, &used) != 2)
                return false;
        } else if (o->t != 'S' && o->t != 'm')
            return false;
        p += used;
        if (*p != ',')
            return false;
        p++;
        if (o->k < 0 || o->k >= NSINK)
            return false;
    }
    return false;
}

static uint8_t g_in[MAXIN][INSZ];
static int g_insz[MAXIN], g_insrc[MAXIN], g_nin;

/* section number n of type ty (split): leading octets from SB0 x SB1, section_length low octet 9 */
static int split_section(int n, int ty, uint8_t *out)
{
    uint8_t b0 = SB0[ty / 3], b1 = SB1[ty % 3];
    int len = ((b1 & 0xf) << 8) | 9;
    out[0] = b0;
    out[1] = b1;
    out[2] = 9;
    for (int j = 0; j < len; j++)
        out[3 + j] = (uint8_t)(n * 16 + j + 1);
    return 3 + len;
}

/* reference matcher: the property statement, octet by octet */
static bool ref_match(const struct sop *flt, const uint8_t *sec, int size)
{
    if (flt->nofilter || size < 2)
        return false;
    for (int i = 0; i < 2; i++)
        if ((sec[i] & flt->m[i]) != flt->f[i])
            return false;
    return true;
}

static int g_exp[NSINK][MAXIN * 2], g_nexp[NSINK];
static bool g_case_nt;

/* compares what each sink got with g_exp; mode names the signature prefix */
static void routed_check(const char *mode, const char *cid, int nsinks)
{
    char sig[160], a[120], b[120];
    if (g_out.overflow) {
        snprintf(sig, sizeof(sig), "%s:output-flood", mode);
        report(cid, sig, "more than %d outputs", MAXOUT);
        return;
    }
    for (int k = 0; k < nsinks; k++) {
        int got[MAXOUT], ng = 0;
        for (int j = 0; j < g_out.n; j++) {
            struct orec *r = &g_out.r[j];
            if (r->sink != k)
                continue;
            if (r->seq < 0 || r->seq >= g_nin) {
                snprintf(sig, sizeof(sig), "%s:unknown-buffer", mode);
                report(cid, sig, "sink %d received a buffer whose sequence attribute (%" PRId64 ") matches no input", k, r->seq);
                return;
            }
            int n = (int)r->seq;
            if (!r->ok || r->size != g_insz[n] || memcmp(g_out.arena + r->off, g_in[n], r->size)) {
                hexstr(g_out.arena + r->off, r->size > 0 ? r->size : 0, a, sizeof(a));
                hexstr(g_in[n], g_insz[n], b, sizeof(b));
                snprintf(sig, sizeof(sig), "%s:modified", mode);
                report(cid, sig, "sink %d received section #%d as %d octets %s, it was input as %d octets %s", k, n, r->size, a, g_insz[n], b);
                return;
            }
            got[ng++] = n;
        }
        for (int x = 0; x < ng || x < g_nexp[k]; x++) {
            if (x < ng && x < g_nexp[k] && got[x] == g_exp[k][x])
                continue;
            /* classify the first difference */
            int g = x < ng ? got[x] : -1, e = x < g_nexp[k] ? g_exp[k][x] : -1;
            bool g_expected = false, e_got = false, g_dup = false;
            for (int y = 0; y < g_nexp[k]; y++)
                if (g >= 0 && g_exp[k][y] == g)
                    g_expected = true;
            for (int y = 0; y < ng; y++) {
                if (e >= 0 && got[y] == e)
                    e_got = true;
                if (y < x && g >= 0 && got[y] == g)
                    g_dup = true;
            }
            if (g >= 0 && !g_expected) {
                hexstr(g_in[g], g_insz[g] < 6 ? g_insz[g] : 6, a, sizeof(a));
                snprintf(sig, sizeof(sig), "%s:delivered-to-wrong-output", mode);
                report(cid, sig, "sink %d received section #%d (leading octets %s) which the reference does not route to it", k, g, a);
            } else if (g >= 0 && g_dup) {
                snprintf(sig, sizeof(sig), "%s:duplicated", mode);
                report(cid, sig, "sink %d received section #%d twice", k, g);
            } else if (e >= 0 && !e_got) {
                hexstr(g_in[e], g_insz[e] < 6 ? g_insz[e] : 6, a, sizeof(a));
                snprintf(sig, sizeof(sig), "%s:section-lost", mode);
                report(cid, sig, "sink %d never received section #%d (leading octets %s, from input %d) which the reference routes to it", k, e, a, g_insrc[e]);
            } else {
                snprintf(sig, sizeof(sig), "%s:reordered", mode);
                report(cid, sig, "sink %d received section #%d where #%d was expected", k, g, e);
            }
            return;
        }
    }
}

static void split_feed(struct upipe *split, const struct sop *live[NSINK], int ty, int seg)
{
    assert(g_nin < MAXIN);
    int n = g_nin++;
    g_insz[n] = split_section(n, ty, g_in[n]);
    g_insrc[n] = 0;
    struct uref *u = mk_uref(g_in[n], g_insz[n], seg);
    ubase_assert(uref_attr_set_unsigned(u, n, UDICT_TYPE_UNSIGNED, "x.seq"));
    bool any = false;
    for (int k = 0; k < NSINK; k++)
        if (live[k] != NULL && ref_match(live[k], g_in[n], g_insz[n])) {
            g_exp[k][g_nexp[k]++] = n;
            any = true;
        }
    if (any)
        g_case_nt = true; /* marks the case non-trivial */
    g_inputs++;
    upipe_input(split, u, NULL);
}

static bool split_case(const struct script *s)
{
    char cid[700], esig[96] = "";
    script_str("split", s, cid, sizeof(cid));
    if (v_crash_fd >= 0)
        v_crash_note(cid);
    v_watchdog(10);
    fix_begin();
    g_nin = 0;
    g_case_nt = false;
    memset(g_nexp, 0, sizeof(g_nexp));
    struct upipe *split = upipe_void_alloc(upipe_ts_psi_split_mgr_alloc(), px_probe(&g_fx));
    assert(split);
    struct uref *fd = px_flow(&g_fx, "block.mpegtspsi.", 1);
    ubase_assert(upipe_set_flow_def(split, fd));
    struct upipe *sub[NSINK] = {NULL, NULL, NULL};
    const struct sop *live[NSINK] = {NULL, NULL, NULL};
    bool valid = true;
    for (int i = 0; i < s->n && valid; i++) {
        const struct sop *o = &s->op[i];
        if (o->t == 'a') {
            if (sub[o->k] != NULL) {
                valid = false;
                break;
            }
            struct uref *f2 = uref_dup(fd);
            assert(f2);
            if (!o->nofilter)
                ubase_assert(uref_ts_flow_set_psi_filter(f2, o->f, o->m, 2));
            sub[o->k] = upipe_flow_alloc_sub(split, px_probe(&g_fx), f2);
            uref_free(f2);
            assert(sub[o->k]);
            ubase_assert(upipe_set_output(sub[o->k], &g_sinks[o->k].upipe));
            live[o->k] = o;
        } else if (o->t == 'r') {
            if (sub[o->k] == NULL) {
                valid = false;
                break;
            }
            upipe_release(sub[o->k]);
            sub[o->k] = NULL;
            live[o->k] = NULL;
        } else if (o->t == 's')
            split_feed(split, live, o->ty, o->seg);
        else if (o->t == 'S')
            for (int ty = 0; ty < 9; ty++)
                for (int seg = 0; seg < 4; seg++)
                    if (seg != 2)
                        split_feed(split, live, ty, seg);
    }
    uref_free(fd);
    if (s->endorder == 1)
        upipe_release(split);
    for (int k = 0; k < NSINK; k++)
        if (sub[k])
            upipe_release(sub[k]);
    if (s->endorder != 1)
        upipe_release(split);
    bool nontrivial = g_case_nt;
    const char *m = fix_end(esig, sizeof(esig));
    if (!valid)
        return false;
    if (g_verbose) {
        printf("case %s\n", cid);
        for (int n = 0; n < g_nin; n++) {
            char a[120];
            hexstr(g_in[n], g_insz[n], a, sizeof(a));
            printf("  section #%d: %d octets %s\n", n, g_insz[n], a);
        }
        for (int k = 0; k < NSINK; k++) {
            printf("  sink %d expected:", k);
            for (int x = 0; x < g_nexp[k]; x++)
                printf(" #%d", g_exp[k][x]);
            printf("   got:");
            for (int j = 0; j < g_out.n; j++)
                if (g_out.r[j].sink == k)
                    printf(" #%" PRId64, g_out.r[j].seq);
            printf("\n");
        }
    }
    if (m) {
        char sig[160];
        snprintf(sig, sizeof(sig), "split:%s", esig);
        report(cid, sig, "%s", m);
    }
    routed_check("split", cid, NSINK);
    g_cases++;
    if (nontrivial)
        g_nontrivial++;
    return true;
}

/* ---- split enumeration ---- */
static struct sop g_filters[80];
static int g_nfilters;
static void build_filters(bool small)
{
    static const uint8_t masks[4] = {0x00, 0x0f, 0xf0, 0xff};
    g_nfilters = 0;
    if (small) {
        static const uint8_t t[6][4] = {{0x42, 0x00, 0xff, 0x00}, {0x40, 0x30, 0xf0, 0xf0}, {0x00, 0x00, 0x00, 0x00},
                                        {0x02, 0x01, 0x0f, 0x0f}, {0x43, 0xb0, 0xff, 0xff}, {0x52, 0x00, 0xff, 0x0f}};
        for (int i = 0; i < 6; i++) {
            struct sop *o = &g_filters[g_nfilters++];
            memset(o, 0, sizeof(*o));
            o->t = 'a';
            o->f[0] = t[i][0], o->f[1] = t[i][1], o->m[0] = t[i][2], o->m[1] = t[i][3];
        }
        struct sop *o = &g_filters[g_nfilters++];
        memset(o, 0, sizeof(*o));
        o->t = 'a';
        o->nofilter = true;
        return;
    }
    for (int m0 = 0; m0 < 4; m0++)
        for (int i0 = 0; i0 < 3; i0++) {
            uint8_t f0 = SB0[i0] & masks[m0];
            bool dup0 = false;
            for (int y = 0; y < i0; y++)
                if ((SB0[y] & masks[m0]) == f0)
                    dup0 = true;
            if (dup0)
                continue;
            for (int m1 = 0; m1 < 4; m1++)
                for (int i1 = 0; i1 < 3; i1++) {
                    uint8_t f1 = SB1[i1] & masks[m1];
                    bool dup1 = false;
                    for (int y = 0; y < i1; y++)
                        if ((SB1[y] & masks[m1]) == f1)
                            dup1 = true;
                    if (dup1)
                        continue;
                    struct sop *o = &g_filters[g_nfilters++];
                    memset(o, 0, sizeof(*o));
                    o->t = 'a';
                    o->f[0] = f0, o->f[1] = f1, o->m[0] = masks[m0], o->m[1] = masks[m1];
                }
        }
}

/* static sets: nout outputs with every combination of filters, then the sweep of all section types */
static void split_static(int nout)
{
    long long total = 1;
    for (int i = 0; i < nout; i++)
        total *= g_nfilters;
    for (long long t = 0; t < total && !deadline_hit(); t++) {
        if (g_shard_ctr++ % g_nshards != g_shard)
            continue;
        struct script s;
        memset(&s, 0, sizeof(s));
        long long x = t;
        for (int k = 0; k < nout; k++) {
            s.op[s.n] = g_filters[x % g_nfilters];
            s.op[s.n].k = k;
            s.n++;
            x /= g_nfilters;
        }
        s.op[s.n++].t = 'S';
        s.endorder = (int)(t & 1);
        g_states++;
        split_case(&s);
    }
}

/* dynamic: every op sequence up to the depth over add(filter) / release(slot) / input(type) */
static const int DYN_TYPES[3] = {0, 4, 8};
static void split_dfs(struct script *s, int depth, bool livek[NSINK], int nin)
{
    if (s->n > 0 && !deadline_hit()) {
        if (g_shard_ctr++ % g_nshards == g_shard) {
            g_states++;
            for (s->endorder = 0; s->endorder < 2; s->endorder++)
                split_case(s);
        }
    }
    if (s->n >= depth || g_capped)
        return;
    struct sop *o = &s->op[s->n];
    int freek = -1;
    for (int k = NSINK - 1; k >= 0; k--)
        if (!livek[k])
            freek = k;
    if (freek >= 0)
        for (int f = 0; f < g_nfilters; f++) {
            *o = g_filters[f];
            o->k = freek;
            livek[freek] = true;
            s->n++;
            split_dfs(s, depth, livek, nin);
            s->n--;
            livek[freek] = false;
        }
    for (int k = 0; k < NSINK; k++)
        if (livek[k]) {
            memset(o, 0, sizeof(*o));
            o->t = 'r';
            o->k = k;
            livek[k] = false;
            s->n++;
            split_dfs(s, depth, livek, nin);
            s->n--;
            livek[k] = true;
        }
    if (nin < 3)
        for (int t = 0; t < 3; t++) {
            memset(o, 0, sizeof(*o));
            o->t = 's';
            o->ty = DYN_TYPES[t];
            o->seg = (t + nin) % 2 ? 1 : 0;
            s->n++;
            split_dfs(s, depth, livek, nin + 1);
            s->n--;
        }
}

/* ================================================================== */
/* JOIN                                                                 */
/* ================================================================== */
static int join_section(int n, int shape, uint8_t *out)
{
    int len = shape == 0 ? 0 : shape == 1 ? 9 : 200;
    out[0] = (uint8_t)(0x60 + n);
    out[1] = (uint8_t)(0x30 | (len >> 8));
    out[2] = (uint8_t)len;
    for (int j = 0; j < len; j++)
        out[3 + j] = (uint8_t)(n * 16 + j + 1);
    return 3 + len;
}

static bool join_case(const struct script *s)
{
    char cid[400], esig[96] = "";
    script_str("join", s, cid, sizeof(cid));
    if (v_crash_fd >= 0)
        v_crash_note(cid);
    v_watchdog(10);
    fix_begin();
    g_nin = 0;
    memset(g_nexp, 0, sizeof(g_nexp));
    struct uref *fd = px_flow(&g_fx, "block.mpegtspsi.", 1);
    struct upipe *join = upipe_flow_alloc(upipe_ts_psi_join_mgr_alloc(), px_probe(&g_fx), fd);
    assert(join);
    ubase_assert(upipe_set_output(join, &g_sinks[0].upipe));
    struct upipe *sub[NSINK] = {NULL, NULL, NULL};
    bool valid = true, main_released = false;
    unsigned srcmask = 0;
    for (int i = 0; i < s->n && valid; i++) {
        const struct sop *o = &s->op[i];
        if (o->t == 'a') {
            if (sub[o->k] != NULL || main_released) {
                valid = false;
                break;
            }
            sub[o->k] = upipe_void_alloc_sub(join, px_probe(&g_fx));
            assert(sub[o->k]);
            ubase_assert(upipe_set_flow_def(sub[o->k], fd));
        } else if (o->t == 'A') {
            /* a new input whose definition makes the joiner rebuild its own (octet rate, section interval, latency), with the
             * ty-th memory request refused meanwhile; the input then gets its definition again, undisturbed. The joiner may
             * refuse or complain, but the inputs already there and this one must keep flowing. */
            if (sub[o->k] != NULL || main_released) {
                valid = false;
                break;
            }
            sub[o->k] = upipe_void_alloc_sub(join, px_probe(&g_fx));
            assert(sub[o->k]);
            struct uref *fd2 = uref_dup(fd);
            ubase_assert(uref_block_flow_set_octetrate(fd2, 1000 + 100 * o->k));
            ubase_assert(uref_ts_flow_set_psi_section_interval(fd2, 27000 * (o->k + 1)));
            ubase_assert(uref_clock_set_latency(fd2, 1234));
            g_fx.cumem.fail_in = o->ty;
            (void)upipe_set_flow_def(sub[o->k], fd2);
            g_fx.cumem.fail_in = 0;
            (void)upipe_set_flow_def(sub[o->k], fd2);
            uref_free(fd2);
        } else if (o->t == 'r') {
            if (sub[o->k] == NULL) {
                valid = false;
                break;
            }
            upipe_release(sub[o->k]);
            sub[o->k] = NULL;
        } else if (o->t == 'm') {
            if (main_released) {
                valid = false;
                break;
            }
            upipe_release(join); /* the inputs keep the joiner alive */
            main_released = true;
        } else if (o->t == 'i') {
            if (sub[o->k] == NULL || g_nin >= MAXIN) {
                valid = false;
                break;
            }
            int n = g_nin++;
            g_insz[n] = join_section(n, o->ty, g_in[n]);
            g_insrc[n] = o->k;
            srcmask |= 1u << o->k;
            struct uref *u = mk_uref(g_in[n], g_insz[n], o->ty == 1 ? 2 : 0);
            ubase_assert(uref_attr_set_unsigned(u, n, UDICT_TYPE_UNSIGNED, "x.seq"));
            g_exp[0][g_nexp[0]++] = n;
            g_inputs++;
            upipe_input(sub[o->k], u, NULL);
        }
    }
    uref_free(fd);
    if (s->endorder == 1 && !main_released) {
        upipe_release(join);
        main_released = true;
    }
    for (int k = 0; k < NSINK; k++)
        if (sub[k])
            upipe_release(sub[k]);
    if (!main_released)
        upipe_release(join);
    const char *m = fix_end(esig, sizeof(esig));
    if (!valid)
        return false;
    if (g_verbose) {
        printf("case %s\n", cid);
        for (int n = 0; n < g_nin; n++) {
            char a[120];
            hexstr(g_in[n], g_insz[n], a, sizeof(a));
            printf("  section #%d on input %d: %d octets %s\n", n, g_insrc[n], g_insz[n], a);
        }
        printf("  sink got:");
        for (int j = 0; j < g_out.n; j++)
            printf(" #%" PRId64, g_out.r[j].seq);
        printf("\n");
    }
    if (m) {
        char sig[160];
        snprintf(sig, sizeof(sig), "join:%s", esig);
        report(cid, sig, "%s", m);
    }
    /* the statement: every section of every input exactly once, per-input order
     * kept, unmodified. routed_check compares with the global input order, which
     * implies it; a difference is then re-judged against the weaker statement. */
    long long v0 = g_viol;
    int ns0 = g_nsigs;
    routed_check("join", cid, 1);
    if (g_viol != v0 && g_nsigs > ns0 && strstr(g_sigs[g_nsigs - 1], ":reordered")) {
        /* global order differs: is the per-input order still kept? */
        bool per_input_ok = true;
        int last[NSINK] = {-1, -1, -1};
        for (int j = 0; j < g_out.n; j++) {
            int n = (int)g_out.r[j].seq, k = g_insrc[n];
            if (n < last[k])
                per_input_ok = false;
            last[k] = n;
        }
        if (per_input_ok)
            v_note("join: global order differs from input order but per-input order is kept (case %s)", cid);
    }
    g_cases++;
    if (__builtin_popcount(srcmask) >= 2)
        g_nontrivial++;
    return true;
}

static bool g_join_faults;
static void join_dfs(struct script *s, int depth, int maxin, bool livek[NSINK], int nin, bool mainrel)
{
    if (s->n > 0 && !deadline_hit()) {
        if (g_shard_ctr++ % g_nshards == g_shard) {
            g_states++;
            for (s->endorder = 0; s->endorder < (mainrel ? 1 : 2); s->endorder++)
                join_case(s);
            s->endorder = 0;
        }
    }
    if (s->n >= depth || g_capped)
        return;
    struct sop *o = &s->op[s->n];
    int freek = -1;
    for (int k = NSINK - 1; k >= 0; k--)
        if (!livek[k])
            freek = k;
    if (freek >= 0 && !mainrel) {
        memset(o, 0, sizeof(*o));
        o->t = 'a';
        o->k = freek;
        livek[freek] = true;
        s->n++;
        join_dfs(s, depth, maxin, livek, nin, mainrel);
        s->n--;
        if (g_join_faults)
            for (int ty = 1; ty <= 6; ty++) {
                memset(o, 0, sizeof(*o));
                o->t = 'A';
                o->k = freek;
                o->ty = ty;
                s->n++;
                join_dfs(s, depth, maxin, livek, nin, mainrel);
                s->n--;
            }
        livek[freek] = false;
    }
    for (int k = 0; k < NSINK; k++)
        if (livek[k]) {
            memset(o, 0, sizeof(*o));
            o->t = 'r';
            o->k = k;
            livek[k] = false;
            s->n++;
            join_dfs(s, depth, maxin, livek, nin, mainrel);
            s->n--;
            livek[k] = true;
        }
    if (!mainrel && (livek[0] || livek[1] || livek[2])) {
        memset(o, 0, sizeof(*o));
        o->t = 'm';
        s->n++;
        join_dfs(s, depth, maxin, livek, nin, true);
        s->n--;
    }
    if (nin < maxin)
        for (int k = 0; k < NSINK; k++)
            if (livek[k])
                for (int sh = 0; sh < 2; sh++) {
                    memset(o, 0, sizeof(*o));
                    o->t = 'i';
                    o->k = k;
                    o->ty = sh;
                    s->n++;
                    join_dfs(s, depth, maxin, livek, nin + 1, mainrel);
                    s->n--;
                }
}

/* ================================================================== */
static int parse_list(const char *s, int *out, int max)
{
    int n = 0;
    while (*s && n < max) {
        out[n++] = (int)strtol(s, (char **)&s, 10);
        if (*s == ',')
            s++;
    }
    return n;
}

int main(int argc, char **argv)
{
    const char *mode = "merge", *replay = NULL, *sub = "static";
    int depth = 5, nout = 2, maxin = 4, psize = 184;
    bool small = false;
    for (int i = 1; i < argc; i++) {
        if (!strcmp(argv[i], "--mode") && i + 1 < argc) mode = argv[++i];
        else if (!strcmp(argv[i], "--replay") && i + 1 < argc) replay = argv[++i];
        else if (!strcmp(argv[i], "--deadline") && i + 1 < argc) g_deadline = atof(argv[++i]);
        else if (!strcmp(argv[i], "--shard") && i + 1 < argc) sscanf(argv[++i], "%d/%d", &g_shard, &g_nshards);
        else if (!strcmp(argv[i], "--kinds") && i + 1 < argc) MP.kinds = argv[++i];
        else if (!strcmp(argv[i], "--long") && i + 1 < argc) MP.longkinds = argv[++i];
        else if (!strcmp(argv[i], "--contents") && i + 1 < argc) MP.contents = argv[++i];
        else if (!strcmp(argv[i], "--faults") && i + 1 < argc) MP.faults = argv[++i];
        else if (!strcmp(argv[i], "--join-faults") && i + 1 < argc) g_join_faults = g_tight_dicts = atoi(argv[++i]) != 0;
        else if (!strcmp(argv[i], "--maxsec") && i + 1 < argc) MP.maxsec = atoi(argv[++i]);
        else if (!strcmp(argv[i], "--maxcuts") && i + 1 < argc) MP.maxcuts = atoi(argv[++i]);
        else if (!strcmp(argv[i], "--stuff") && i + 1 < argc) MP.nstuff = parse_list(argv[++i], MP.stuff, 4);
        else if (!strcmp(argv[i], "--segs") && i + 1 < argc) MP.nsegs = parse_list(argv[++i], MP.segs, 4);
        else if (!strcmp(argv[i], "--fault-seg") && i + 1 < argc) MP.fault_seg_only = atoi(argv[++i]);
        else if (!strcmp(argv[i], "--dry-run")) g_dry = true;
        else if (!strcmp(argv[i], "--psize") && i + 1 < argc) psize = atoi(argv[++i]);
        else if (!strcmp(argv[i], "--sub") && i + 1 < argc) sub = argv[++i];
        else if (!strcmp(argv[i], "--depth") && i + 1 < argc) depth = atoi(argv[++i]);
        else if (!strcmp(argv[i], "--nout") && i + 1 < argc) nout = atoi(argv[++i]);
        else if (!strcmp(argv[i], "--maxin") && i + 1 < argc) maxin = atoi(argv[++i]);
        else if (!strcmp(argv[i], "--filters") && i + 1 < argc) small = !strcmp(argv[++i], "small");
        else {
            fprintf(stderr, "unknown argument %s\n", argv[i]);
            return 2;
        }
    }
    if (MP.maxsec > MAXSEC || MP.maxcuts > MAXCUT || depth > MAXOPS - 1 || nout > NSINK)
        return 2;
    setvbuf(stdout, NULL, _IOLBF, 0);
    printf("NOTE c16_psi mode=%s\n", replay ? "replay" : mode);
    if (replay) {
        g_verbose = true;
        bool ok = false;
        struct script s;
        struct mcase c;
        if (!strncmp(replay, "merge:", 6))
            ok = mcase_parse(replay, &c) && merge_case(&c);
        else if (!strncmp(replay, "split:", 6))
            ok = script_parse(replay, "split", &s) && split_case(&s);
        else if (!strncmp(replay, "join:", 5))
            ok = script_parse(replay, "join", &s) && join_case(&s);
        if (!ok) {
            fprintf(stderr, "cannot parse / construct case %s\n", replay);
            return 2;
        }
        printf("%s\n", g_viol ? "VIOLATION" : "ok");
        return 0;
    }
    v_crash_open();
    g_t0 = v_now();
    char smp[700] = "";
    if (!strcmp(mode, "merge")) {
        merge_enum();
        snprintf(smp, sizeof(smp), "merge:5s0:d:2.9.14:2x8:2:d2");
    } else if (!strcmp(mode, "merge-ts")) {
        merge_ts_enum(psize);
        snprintf(smp, sizeof(smp), "merge:L:d:100.284.468.652.836.1020.1204.1388.1572.1756.1940.2124.2308.2492.2676.2860.3044.3228.3412.3596.3780.3964:0:0:n");
    } else if (!strcmp(mode, "split")) {
        build_filters(small);
        if (!strcmp(sub, "static"))
            split_static(nout);
        else {
            struct script s;
            memset(&s, 0, sizeof(s));
            bool livek[NSINK] = {false, false, false};
            split_dfs(&s, depth, livek, 0);
        }
        snprintf(smp, sizeof(smp), "split:a0.4200.ff00,a1.4030.f0f0,s0.1,r0,s4.0,e0");
    } else if (!strcmp(mode, "join")) {
        struct script s;
        memset(&s, 0, sizeof(s));
        bool livek[NSINK] = {false, false, false};
        join_dfs(&s, depth, maxin, livek, 0, false);
        snprintf(smp, sizeof(smp), "join:a0,a1,i0.1,i1.0,r0,i1.1,e0");
    } else
        return 2;
    v_stat("states", g_states);
    v_stat("transitions", g_inputs);
    v_stat("executions", g_cases);
    v_stat("nontrivial", g_nontrivial);
    v_stat("violations", g_nsigs);
    v_stat("violating_cases", g_viol);
    if (g_capped)
        v_incomplete("c16 %s: deadline %.0fs hit after %lld cases", mode, g_deadline, g_cases);
    v_sample("%s", smp);
    return 0;
}
