/* C14 — stream re-chunking pipes conserve bytes and ignore chunk boundaries.
 * Exhaustive enumeration of byte streams (small alphabet) x all cuttings into
 * buffers (plus segmented chunks, inserted empty buffers, a discontinuity) x
 * configurations, on the real upipe_aggregate / upipe_chunk_stream /
 * upipe_ts_sync / upipe_ts_check / upipe_ts_align. DESIGN.md section 3, C14. */
#include "pipex.h"

#include "upipe-modules/upipe_aggregate.h"
#include "upipe-modules/upipe_chunk_stream.h"
#include "upipe-ts/upipe_ts_sync.h"
#include "upipe-ts/upipe_ts_check.h"
#include "upipe-ts/upipe_ts_align.h"
#include "upipe/uref_block_flow.h"

#define MAXN 14
#define MAXU 40

enum { P_AGG, P_CHUNK, P_SYNC, P_CHECK, P_ALIGN, P_CHECKAGG, NPIPES };
static const char *pnames[] = {"agg", "chunk", "ts_sync", "ts_check", "ts_align", "ts_check>agg"};
/* variant: the whole stream as ONE buffer whose segments are the chunks of the cutting */
#define V_SEGMENTS 1000

struct cfg {
    int pipe;
    int a, b;      /* agg: mtu, input-size hint; chunk: mtu, align; ts: packet size, sync count */
};

struct units {
    int n;
    int len[MAXU];
    uint8_t b[MAXU][16];
};

struct casei {
    struct cfg c;
    int n;                 /* stream length */
    uint8_t s[MAXN];
    unsigned cut;          /* bit i set: cut after octet i (i < n-1) */
    int variant;           /* 0 plain, 1 chunks of >= 2 octets as two segments, 2..: empty buffer inserted before chunk (variant-2),
                            * V_SEGMENTS: one buffer, the chunks are its segments */
    int disc;              /* -1 none, else: chunk index carrying the discontinuity attribute (ts_sync) */
};

static long long g_execs, g_cases, g_nontrivial, g_viol;
static char g_sigs[64][160];
static int g_nsigs;
static double g_t0, g_deadline = 60;
static bool g_capped;

static void case_str(const struct casei *c, char *out, size_t n)
{
    size_t o = snprintf(out, n, "%s:%d:%d:", pnames[c->c.pipe], c->c.a, c->c.b);
    for (int i = 0; i < c->n; i++)
        o += snprintf(out + o, n - o, "%02x", c->s[i]);
    snprintf(out + o, n - o, ":%x:%d:%d", c->cut, c->variant, c->disc);
}

static bool case_parse(const char *str, struct casei *c)
{
    char pn[16], hex[64];
    memset(c, 0, sizeof(*c));
    if (sscanf(str, "%15[^:]:%d:%d:%63[^:]:%x:%d:%d", pn, &c->c.a, &c->c.b, hex, &c->cut, &c->variant, &c->disc) != 7) {
        /* empty stream */
        if (sscanf(str, "%15[^:]:%d:%d::%x:%d:%d", pn, &c->c.a, &c->c.b, &c->cut, &c->variant, &c->disc) != 6)
            return false;
        hex[0] = 0;
    }
    c->c.pipe = -1;
    for (int i = 0; i < NPIPES; i++)
        if (!strcmp(pn, pnames[i]))
            c->c.pipe = i;
    c->n = (int)strlen(hex) / 2;
    for (int i = 0; i < c->n; i++) {
        unsigned v;
        sscanf(hex + 2 * i, "%2x", &v);
        c->s[i] = (uint8_t)v;
    }
    return c->c.pipe >= 0;
}

static void report(const struct casei *c, const char *sig, const char *fmt, ...)
{
    char full[160], cs[200], msg[600];
    snprintf(full, sizeof(full), "%s:%s", pnames[c->c.pipe], sig);
    va_list ap;
    va_start(ap, fmt);
    vsnprintf(msg, sizeof(msg), fmt, ap);
    va_end(ap);
    g_viol++;
    for (int i = 0; i < g_nsigs; i++)
        if (!strcmp(g_sigs[i], full))
            return;
    if (g_nsigs < 64)
        snprintf(g_sigs[g_nsigs++], 160, "%s", full);
    case_str(c, cs, sizeof(cs));
    v_viol(full, cs, "%s | case %s", msg, cs);
}

/* ---- running one case on the real pipe ---- */
static bool g_verbose;

static struct upipe *mk_pipe(struct px_fix *fx, const struct cfg *c)
{
    struct upipe_mgr *mgr = NULL;
    switch (c->pipe) {
    case P_AGG: mgr = upipe_agg_mgr_alloc(); break;
    case P_CHUNK: mgr = upipe_chunk_stream_mgr_alloc(); break;
    case P_SYNC: mgr = upipe_ts_sync_mgr_alloc(); break;
    case P_CHECK: mgr = upipe_ts_check_mgr_alloc(); break;
    case P_ALIGN: mgr = upipe_ts_align_mgr_alloc(); break;
    case P_CHECKAGG: mgr = upipe_ts_check_mgr_alloc(); break;
    }
    struct upipe *p = upipe_void_alloc(mgr, px_probe(fx));
    assert(p);
    if (c->pipe == P_CHECKAGG) { /* ts_check (packets of a) -> aggregate (units of at most b) -> sink */
        struct upipe *agg = upipe_void_alloc(upipe_agg_mgr_alloc(), px_probe(fx));
        assert(agg);
        ubase_assert(upipe_set_output_size(agg, c->b));
        ubase_assert(upipe_set_output(agg, &fx->sinks[0].upipe));
        ubase_assert(upipe_set_output_size(p, c->a));
        struct uref *f = px_flow(fx, "block.", 1);
        ubase_assert(upipe_set_flow_def(p, f));
        uref_free(f);
        ubase_assert(upipe_set_output(p, agg));
        upipe_release(agg);
        return p;
    }
    /* options first (nothing is pending), then the definition, then the output */
    struct uref *f = px_flow(fx, "block.", 1);
    if (c->pipe == P_AGG) {
        ubase_assert(upipe_set_output_size(p, c->a));
        if (c->b)
            ubase_assert(uref_block_flow_set_size(f, c->b));
    } else if (c->pipe == P_CHUNK) {
        ubase_assert(upipe_chunk_stream_set_mtu(p, c->a, c->b));
    } else if (c->pipe == P_SYNC) {
        ubase_assert(upipe_set_output_size(p, c->a));
        ubase_assert(upipe_ts_sync_set_sync(p, c->b));
    } else if (c->pipe == P_CHECK) {
        ubase_assert(upipe_set_output_size(p, c->a));
    }
    ubase_assert(upipe_set_flow_def(p, f));
    uref_free(f);
    if (c->pipe == P_ALIGN) { /* the inner ts_sync exists once the definition is set */
        ubase_assert(upipe_set_output_size(p, c->a));
        ubase_assert(upipe_ts_sync_set_sync(p, c->b));
    }
    ubase_assert(upipe_set_output(p, &fx->sinks[0].upipe));
    return p;
}

/* returns false if the fixture reported an accounting problem (msg filled) */
static bool run_case(const struct casei *c, struct units *out, char *acct, size_t acctn, char *acct_sig, size_t sn)
{
    struct px_fix fx;
    struct px_cfg pc = {.pool = 0, .prepend = 0, .append = 0, .align = 0};
    px_fix_init(&fx, &pc);
    for (int i = 0; i < PX_NSINKS; i++)
        fx.sinks[i].unhandled_requests = true;
    struct upipe *p = mk_pipe(&fx, &c->c);
    int cs[MAXN + 1], cl[MAXN + 1], nchunks = 0;
    if (c->n == 0) {
        cs[0] = 0;
        cl[0] = 0;
        nchunks = 1;
    } else {
        int start = 0;
        for (int i = 0; i < c->n; i++)
            if (i == c->n - 1 || ((c->cut >> i) & 1)) {
                cs[nchunks] = start;
                cl[nchunks++] = i + 1 - start;
                start = i + 1;
            }
    }
    if (c->variant == V_SEGMENTS) {
        struct uref *u = NULL;
        for (int chunk = 0; chunk < nchunks; chunk++) {
            struct ubuf *ub = ubuf_block_alloc(fx.ubuf_mgr, cl[chunk]);
            assert(ub);
            if (cl[chunk]) {
                uint8_t *w;
                int sz = -1;
                ubase_assert(ubuf_block_write(ub, 0, &sz, &w));
                memcpy(w, c->s + cs[chunk], cl[chunk]);
                ubuf_block_unmap(ub, 0);
            }
            if (!u) {
                u = uref_alloc(fx.uref_mgr);
                assert(u);
                uref_attach_ubuf(u, ub);
            } else
                ubase_assert(ubuf_block_append(u->ubuf, ub));
        }
        upipe_input(p, u, NULL);
        nchunks = 0;
    }
    for (int chunk = 0; chunk <= nchunks && c->variant != V_SEGMENTS; chunk++) {
        if (c->variant >= 2 && c->variant - 2 == chunk) {
            struct uref *e = px_uref(&fx, 0, 0, 1, false);
            upipe_input(p, e, NULL);
        }
        if (chunk == nchunks)
            break;
        int len = cl[chunk];
        int nseg = (c->variant == 1 && len >= 2) ? 2 : 1;
        /* build the chunk with the stream's own octets */
        struct uref *u = NULL;
        int done = 0;
        for (int sg = 0; sg < nseg; sg++) {
            int part = sg == nseg - 1 ? len - done : len / 2;
            struct ubuf *ub = ubuf_block_alloc(fx.ubuf_mgr, part);
            assert(ub);
            if (part) {
                uint8_t *w;
                int sz = -1;
                ubase_assert(ubuf_block_write(ub, 0, &sz, &w));
                memcpy(w, c->s + cs[chunk] + done, part);
                ubuf_block_unmap(ub, 0);
            }
            if (!u) {
                u = uref_alloc(fx.uref_mgr);
                assert(u);
                uref_attach_ubuf(u, ub);
            } else
                ubase_assert(ubuf_block_append(u->ubuf, ub));
            done += part;
        }
        if (c->disc == chunk)
            uref_flow_set_discontinuity(u);
        upipe_input(p, u, NULL);
        if (c->c.pipe == P_CHUNK) {
            /* setter calls the documentation says are refused (mtu 0, alignment 0, alignment larger than the mtu), between any
             * two chunks: whatever they return, they must not change how the stream is cut (the oracles below are unchanged) */
            (void)upipe_chunk_stream_set_mtu(p, 0, 1);
            (void)upipe_chunk_stream_set_mtu(p, c->c.a, 0);
            (void)upipe_chunk_stream_set_mtu(p, c->c.a, 2 * c->c.a);
        }
    }
    upipe_release(p);
    out->n = 0;
    for (int i = 0; i < fx.nsrec; i++) {
        struct px_srec *r = &fx.srec[i];
        if (r->kind != PXS_INPUT || r->sink != 0)
            continue;
        if (out->n < MAXU) {
            out->len[out->n] = r->size;
            memcpy(out->b[out->n], r->bytes, r->nbytes > 16 ? 16 : (r->nbytes > 0 ? r->nbytes : 0));
            out->n++;
        }
    }
    bool overflow = fx.log_overflow;
    const char *m = px_fix_fini(&fx, acct_sig, sn);
    g_execs++;
    if (overflow) {
        snprintf(acct_sig, sn, "output-flood");
        snprintf(acct, acctn, "more than %d records at the sinks", PX_MAXS);
        return false;
    }
    if (m) {
        snprintf(acct, acctn, "%s", m);
        return false;
    }
    return true;
}

/* ---- oracles ---- */
static bool units_equal(const struct units *a, const struct units *b)
{
    if (a->n != b->n)
        return false;
    for (int i = 0; i < a->n; i++)
        if (a->len[i] != b->len[i] || memcmp(a->b[i], b->b[i], a->len[i] > 16 ? 16 : a->len[i]))
            return false;
    return true;
}

static void units_str(const struct units *u, char *out, size_t n)
{
    size_t o = 0;
    out[0] = 0;
    for (int i = 0; i < u->n && o + 40 < n; i++) {
        o += snprintf(out + o, n - o, "%s[", i ? " " : "");
        for (int k = 0; k < u->len[i] && k < 16 && o + 4 < n; k++)
            o += snprintf(out + o, n - o, "%02x", u->b[i][k]);
        o += snprintf(out + o, n - o, "]");
    }
}

/* outputs are, in order and without overlap, substrings of the input */
static bool in_order_substrings(const struct casei *c, const struct units *u, int *consumed_to)
{
    int pos = 0;
    for (int i = 0; i < u->n; i++) {
        int L = u->len[i];
        bool found = false;
        for (int p = pos; p + L <= c->n; p++)
            if (!memcmp(c->s + p, u->b[i], L)) {
                pos = p + L;
                found = true;
                break;
            }
        if (!found)
            return false;
    }
    *consumed_to = pos;
    return true;
}

/* reference for ts_sync written from its documentation: N sync octets one packet apart lock,
 * octets before them are dropped; at the end (release) while locked, whole packets that start
 * with the sync octet are still output */
static void ref_ts_sync(const uint8_t *s, int n, int p, int nsync, struct units *o)
{
    int pos = 0;
    bool acquired = false;
    o->n = 0;
    for (;;) {
        int cand = -1;
        bool undecided = false;
        for (int c = pos; c < n; c++) {
            if (s[c] != 0x47)
                continue;
            bool ok = true;
            for (int k = 1; k < nsync; k++) {
                if (c + k * p >= n) {
                    undecided = true;
                    break;
                }
                if (s[c + k * p] != 0x47) {
                    ok = false;
                    break;
                }
            }
            if (undecided || ok) {
                cand = c;
                break;
            }
        }
        if (cand < 0) { /* nothing that could be a packet start: everything is dropped */
            if (pos < n)
                acquired = false;
            pos = n;
            break;
        }
        if (cand > pos)
            acquired = false;
        pos = cand;
        if (undecided)
            break;
        memcpy(o->b[o->n], s + pos, p);
        o->len[o->n++] = p;
        pos += p;
        acquired = true;
    }
    if (acquired)
        while (n - pos >= p && s[pos] == 0x47 && o->n < MAXU) {
            memcpy(o->b[o->n], s + pos, p);
            o->len[o->n++] = p;
            pos += p;
        }
}

static void check_case(const struct casei *c, const struct units *got, const struct units *uncut, bool acct_ok, const char *acct_sig,
                       const char *acct)
{
    char gs[400], es[400];
    if (!acct_ok) {
        report(c, acct_sig, "%s", acct);
        return;
    }
    units_str(got, gs, sizeof(gs));
    int used = 0;
    /* (the aggregator concatenates whole accepted buffers: judged by the conservation rule below) */
    if (c->c.pipe != P_AGG && c->c.pipe != P_CHECKAGG && !in_order_substrings(c, got, &used)) {
        report(c, "not-input-bytes-in-order", "outputs %s are not non-overlapping in-order pieces of the input", gs);
        return;
    }
    int total = 0;
    for (int i = 0; i < got->n; i++)
        total += got->len[i];
    switch (c->c.pipe) {
    case P_AGG: {
        /* accepted octets = buffers of size 1..mtu; every one exactly once; units <= mtu */
        uint8_t acc[MAXN];
        int na = 0, start = 0;
        unsigned cut = c->variant == V_SEGMENTS ? 0 : c->cut; /* one buffer, whatever its segments */
        for (int i = 0; i < c->n; i++) {
            bool last = i == c->n - 1;
            if (last || ((cut >> i) & 1)) {
                int len = i + 1 - start;
                if (len >= 1 && len <= c->c.a) {
                    memcpy(acc + na, c->s + start, len);
                    na += len;
                }
                start = i + 1;
            }
        }
        uint8_t cat[MAXU * 16];
        int nc = 0;
        for (int i = 0; i < got->n; i++) {
            if (got->len[i] > c->c.a || got->len[i] < 1)
                report(c, "unit-size", "output unit of %d octets with MTU %d (outputs %s)", got->len[i], c->c.a, gs);
            memcpy(cat + nc, got->b[i], got->len[i] > 16 ? 16 : got->len[i]);
            nc += got->len[i];
        }
        if (nc != na || memcmp(cat, acc, na))
            report(c, "conservation", "outputs %s carry %d octets, the accepted input buffers carry %d (every accepted octet must come out exactly once)", gs,
                   nc, na);
        break;
    }
    case P_CHUNK: {
        int size = (c->c.a / c->c.b) * c->c.b;
        int full = c->n / size, rem = c->n % size, tail = (rem / c->c.b) * c->c.b;
        struct units e = {0};
        for (int i = 0; i < full; i++) {
            memcpy(e.b[e.n], c->s + i * size, size);
            e.len[e.n++] = size;
        }
        if (tail) {
            memcpy(e.b[e.n], c->s + full * size, tail);
            e.len[e.n++] = tail;
        }
        if (!units_equal(got, &e)) {
            units_str(&e, es, sizeof(es));
            report(c, "wrong-units", "outputs %s, expected %s (chunks of %d, aligned remainder at release)", gs, es, size);
        }
        break;
    }
    case P_SYNC:
    case P_ALIGN: {
        for (int i = 0; i < got->n; i++)
            if (got->len[i] != c->c.a || got->b[i][0] != 0x47)
                report(c, "not-a-packet", "output unit %d is %d octets starting with %02x (packet size %d)", i, got->len[i], got->b[i][0], c->c.a);
        if (c->disc < 0) {
            struct units e;
            ref_ts_sync(c->s, c->n, c->c.a, c->c.b, &e);
            if (!units_equal(got, &e)) {
                units_str(&e, es, sizeof(es));
                report(c, "wrong-packets", "outputs %s, reference synchroniser gives %s", gs, es);
            }
        }
        break;
    }
    case P_CHECK:
        for (int i = 0; i < got->n; i++)
            if (got->len[i] != c->c.a || got->b[i][0] != 0x47)
                report(c, "not-a-packet", "output unit %d is %d octets starting with %02x (packet size %d)", i, got->len[i], got->b[i][0], c->c.a);
        break;
    case P_CHECKAGG: {
        /* what ts_check alone lets through for the same feeding, regrouped: sizes <= MTU, every octet once, in order */
        struct casei alone = *c;
        alone.c.pipe = P_CHECK;
        alone.c.b = 0;
        struct units pk;
        char a2[300] = "", s2[96] = "";
        run_case(&alone, &pk, a2, sizeof(a2), s2, sizeof(s2));
        uint8_t want[MAXU * 16], cat[MAXU * 16];
        int nw = 0, nc = 0;
        for (int i = 0; i < pk.n; i++) {
            memcpy(want + nw, pk.b[i], pk.len[i] > 16 ? 16 : pk.len[i]);
            nw += pk.len[i];
        }
        for (int i = 0; i < got->n; i++) {
            if (got->len[i] > c->c.b || got->len[i] < 1 || got->len[i] % c->c.a)
                report(c, "unit-size", "output unit of %d octets with packets of %d and MTU %d (outputs %s)", got->len[i], c->c.a, c->c.b, gs);
            memcpy(cat + nc, got->b[i], got->len[i] > 16 ? 16 : got->len[i]);
            nc += got->len[i];
        }
        if (nc != nw || memcmp(cat, want, nw)) {
            units_str(&pk, es, sizeof(es));
            report(c, "conservation", "outputs %s carry %d octets, the packets ts_check lets through alone are %s (%d octets)", gs, nc, es, nw);
        }
        break;
    }
    }
    /* one buffer: its segmentation is invisible */
    if (uncut != NULL && c->variant == V_SEGMENTS && !units_equal(got, uncut)) {
        units_str(uncut, es, sizeof(es));
        report(c, "segmentation-dependent", "outputs %s for one buffer made of these segments differ from the outputs for the same buffer in one segment: %s", gs, es);
    }
    /* stream parsers: independent of the cutting */
    if (uncut != NULL && (c->c.pipe == P_CHUNK || c->c.pipe == P_SYNC || c->c.pipe == P_ALIGN) && c->disc < 0 && !units_equal(got, uncut)) {
        units_str(uncut, es, sizeof(es));
        report(c, "cut-dependent", "outputs %s differ from the outputs of the same stream fed as one buffer: %s", gs, es);
    }
    if (got->n > 0)
        g_nontrivial++;
}

static void do_case(struct casei *c, const struct units *uncut, struct units *res)
{
    char cs[200], acct[300] = "", asig[96] = "";
    if (v_crash_fd >= 0) {
        case_str(c, cs, sizeof(cs));
        v_crash_note(cs);
    }
    v_watchdog(5);
    struct units got;
    bool ok = run_case(c, &got, acct, sizeof(acct), asig, sizeof(asig));
    check_case(c, &got, uncut, ok, asig, acct);
    g_cases++;
    if (res)
        *res = got;
    if (g_verbose) {
        char gs[400];
        units_str(&got, gs, sizeof(gs));
        case_str(c, cs, sizeof(cs));
        printf("case %s -> %s %s\n", cs, gs, ok ? "" : acct);
    }
}

/* all cuttings and variants of one stream under one configuration */
static void do_stream(struct casei *base, bool variants)
{
    struct units uncut;
    base->cut = 0;
    base->variant = 0;
    base->disc = -1;
    do_case(base, NULL, &uncut);
    int n = base->n;
    unsigned ncuts = n >= 2 ? 1u << (n - 1) : 1;
    for (unsigned cut = 0; cut < ncuts; cut++) {
        base->cut = cut;
        int nchunks = 1 + __builtin_popcount(cut);
        int nvar = variants ? 2 + nchunks + 1 : 1;
        for (int v = 0; v < nvar; v++) {
            if (cut == 0 && v == 0)
                continue;
            base->variant = v;
            do_case(base, &uncut, NULL);
        }
        if (variants && cut != 0) {
            base->variant = V_SEGMENTS;
            do_case(base, &uncut, NULL);
            base->variant = 0;
        }
        if (base->c.pipe == P_SYNC && variants && n >= 2)
            for (int d = 1; d < nchunks; d++) { /* a discontinuity flushes what is pending */
                base->variant = 0;
                base->disc = d;
                do_case(base, NULL, NULL);
                base->disc = -1;
            }
    }
}

int main(int argc, char **argv)
{
    const char *pipe = "ts_sync", *replay = NULL, *alpha = "470001";
    int maxn = 6, shard = 0, nshards = 1, minn = 0;
    bool variants = true;
    for (int i = 1; i < argc; i++) {
        if (!strcmp(argv[i], "--pipe") && i + 1 < argc) pipe = argv[++i];
        else if (!strcmp(argv[i], "--maxn") && i + 1 < argc) maxn = atoi(argv[++i]);
        else if (!strcmp(argv[i], "--minn") && i + 1 < argc) minn = atoi(argv[++i]);
        else if (!strcmp(argv[i], "--alphabet") && i + 1 < argc) alpha = argv[++i];
        else if (!strcmp(argv[i], "--deadline") && i + 1 < argc) g_deadline = atof(argv[++i]);
        else if (!strcmp(argv[i], "--shard") && i + 1 < argc) sscanf(argv[++i], "%d/%d", &shard, &nshards);
        else if (!strcmp(argv[i], "--variants") && i + 1 < argc) variants = atoi(argv[++i]) != 0;
        else if (!strcmp(argv[i], "--replay") && i + 1 < argc) replay = argv[++i];
    }
    setvbuf(stdout, NULL, _IOLBF, 0);
    if (replay) {
        struct casei c;
        if (!case_parse(replay, &c)) {
            fprintf(stderr, "cannot parse case\n");
            return 2;
        }
        g_verbose = true;
        struct units uncut, got;
        struct casei u = c;
        u.cut = 0;
        u.variant = 0;
        u.disc = -1;
        do_case(&u, NULL, &uncut);
        do_case(&c, &uncut, &got);
        printf("%s\n", g_viol ? "VIOLATION" : "ok");
        return g_viol ? 1 : 0;
    }
    v_crash_open();
    g_t0 = v_now();
    int pi = -1;
    for (int i = 0; i < NPIPES; i++)
        if (!strcmp(pipe, pnames[i]))
            pi = i;
    if (pi < 0)
        return 2;
    uint8_t sym[8];
    int nsym = (int)strlen(alpha) / 2;
    for (int i = 0; i < nsym; i++) {
        unsigned v;
        sscanf(alpha + 2 * i, "%2x", &v);
        sym[i] = (uint8_t)v;
    }
    struct cfg cfgs[16];
    int ncfg = 0;
    if (pi == P_AGG) {
        int mt[] = {1, 3, 4, 8};
        for (int i = 0; i < 4; i++)
            for (int h = 0; h <= 2; h += 2)
                cfgs[ncfg++] = (struct cfg){pi, mt[i], h};
    } else if (pi == P_CHUNK) {
        int m[][2] = {{2, 1}, {4, 2}, {5, 2}, {6, 4}, {7, 3}};
        for (int i = 0; i < 5; i++)
            cfgs[ncfg++] = (struct cfg){pi, m[i][0], m[i][1]};
    } else if (pi == P_SYNC || pi == P_ALIGN) {
        for (int p = 2; p <= 4; p++)
            for (int s = 2; s <= 3; s++)
                cfgs[ncfg++] = (struct cfg){pi, p, s};
    } else if (pi == P_CHECKAGG) {
        for (int p = 2; p <= 3; p++)
            for (int m = 2; m <= 3; m++)
                cfgs[ncfg++] = (struct cfg){pi, p, m * p};
    } else
        for (int p = 2; p <= 4; p++)
            cfgs[ncfg++] = (struct cfg){pi, p, 0};

    long long streams = 0, idx = 0;
    int completed_n = -1;
    for (int n = minn; n <= maxn && !g_capped; n++) {
        long long count = 1;
        bool distinct = (pi == P_AGG || pi == P_CHUNK);
        if (!distinct)
            for (int i = 0; i < n; i++)
                count *= nsym;
        for (long long k = 0; k < count && !g_capped; k++) {
            struct casei c;
            memset(&c, 0, sizeof(c));
            c.n = n;
            long long t = k;
            for (int i = 0; i < n; i++) {
                c.s[i] = distinct ? (uint8_t)(0x10 + i) : sym[t % nsym];
                t /= nsym;
            }
            for (int ci = 0; ci < ncfg; ci++, idx++) {
                if (idx % nshards != shard)
                    continue;
                if (v_now() - g_t0 > g_deadline) {
                    g_capped = true;
                    break;
                }
                c.c = cfgs[ci];
                do_stream(&c, variants);
                streams++;
            }
        }
        if (!g_capped)
            completed_n = n;
    }
    v_stat("states", streams);
    v_stat("transitions", g_cases);
    v_stat("executions", g_execs);
    v_stat("nontrivial", g_nontrivial);
    v_stat("violations", g_nsigs);
    v_stat("max_stream_length_completed", completed_n);
    if (g_capped)
        v_incomplete("c14 %s: deadline %.0fs hit; stream lengths <= %d fully explored", pipe, g_deadline, completed_n);
    struct casei smp;
    memset(&smp, 0, sizeof(smp));
    smp.c = cfgs[0];
    smp.n = maxn < 4 ? maxn : 4;
    for (int i = 0; i < smp.n; i++)
        smp.s[i] = sym[i % nsym];
    smp.cut = 5;
    smp.disc = -1;
    char cs[200];
    case_str(&smp, cs, sizeof(cs));
    v_sample("%s", cs);
    return 0;
}
