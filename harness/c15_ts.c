/* c15_ts — C15 "TS and PES packetisation round-trips payload, timing and
 * continuity". Exhaustive enumeration (inside stated bounds) of packet
 * sequences / access units / cuttings on the real upipe_ts_decaps,
 * upipe_ts_pes_decaps, upipe_ts_pes_encaps and upipe_ts_encaps, against
 * reference TS / PES coders written from ISO/IEC 13818-1 2.4.3 (they do not
 * use the bitstream shim).
 *
 *   --mode t1   ts_decaps on reference packet sequences
 *   --mode t2   pes_encaps -> reference PES parser -> pes_decaps, and
 *               reference PES packets cut into 1..3 chunks -> pes_decaps
 *   --mode t3   ts_encaps driven like a mux -> reference TS parser ->
 *               ts_decaps -> pes_decaps
 *   --mode t5   PID routing: upipe_ts_pid_filter and upipe_ts_split on every PID
 *   --mode t4   robustness: T1/T2 inputs with every header octet replaced /
 *               every truncation
 *   --tier quick|thorough  --shard i/n  --deadline s  --replay <case-id>
 */
#include "pipex.h"

#include "upipe/uref_block_flow.h"
#include "upipe-ts/upipe_ts_decaps.h"
#include "upipe-ts/upipe_ts_pes_decaps.h"
#include "upipe-ts/upipe_ts_pes_encaps.h"
#include "upipe-ts/upipe_ts_encaps.h"
#include "upipe-ts/upipe_ts_mux.h"
#include "upipe-ts/uref_ts_flow.h"
#include "upipe-ts/upipe_ts_pid_filter.h"
#include "upipe-ts/upipe_ts_split.h"

#define POW33 (UINT64_C(1) << 33)

/* ------------------------------------------------------------------ */
/* globals                                                              */
/* ------------------------------------------------------------------ */
static bool g_thorough;
static bool g_verbose;          /* --replay */
static int g_shard_i = 0, g_shard_n = 1;
static double g_deadline = 1e9, g_t0;
static bool g_expired;
static long long g_counter;     /* global case counter for sharding */
static long long st_states, st_exec, st_nontrivial, st_viol, st_trans;
static long long st_illformed, st_skipped, st_outputs, st_packets;
static const char *g_replay;

/* at most VIOL_PER_SIG lines per signature and job */
#define VIOL_PER_SIG 2
static struct {
    char sig[96];
    int n;
} g_sigs[128];
static int g_nsigs;

static void report(const char *sig, const char *id, const char *fmt, ...)
{
    char msg[900];
    va_list ap;
    va_start(ap, fmt);
    vsnprintf(msg, sizeof(msg), fmt, ap);
    va_end(ap);
    st_viol++;
    int i;
    for (i = 0; i < g_nsigs; i++)
        if (!strcmp(g_sigs[i].sig, sig))
            break;
    if (i == g_nsigs) {
        if (g_nsigs == 128)
            return;
        snprintf(g_sigs[i].sig, sizeof(g_sigs[i].sig), "%s", sig);
        g_sigs[i].n = 0;
        g_nsigs++;
    }
    if (g_sigs[i].n++ < VIOL_PER_SIG || g_verbose)
        v_viol(sig, id, "%s", msg);
}

static bool take_case(void)
{
    if (g_expired)
        return false;
    long long c = g_counter++;
    if (c % g_shard_n != g_shard_i)
        return false;
    if ((st_exec & 255) == 0 && v_now() - g_t0 > g_deadline) {
        g_expired = true;
        return false;
    }
    st_states++;
    return true;
}

#define VLOG(...)                                                              \
    do {                                                                       \
        if (g_verbose) {                                                       \
            printf("NOTE " __VA_ARGS__);                                       \
            printf("\n");                                                      \
        }                                                                      \
    } while (0)

static void hexstr(const uint8_t *p, int n, char *out, size_t cap)
{
    size_t o = 0;
    out[0] = 0;
    for (int i = 0; i < n && o + 3 < cap; i++)
        o += snprintf(out + o, cap - o, "%02x", p[i]);
}

/* ------------------------------------------------------------------ */
/* exact umem manager: every area is a malloc of exactly the requested   */
/* size, so that ASan sees any access one octet outside an input packet  */
/* ------------------------------------------------------------------ */
struct xumem {
    struct urefcount rc;
    struct umem_mgr mgr;
    long live;
    bool dead;
};
static bool xu_alloc(struct umem_mgr *mgr, struct umem *umem, size_t size)
{
    struct xumem *x = container_of(mgr, struct xumem, mgr);
    uint8_t *b = malloc(size);
    if (b == NULL)
        return false;
    memset(b, 0xCD, size);
    umem->mgr = mgr;
    umem->buffer = b;
    umem->size = umem->real_size = size;
    x->live++;
    return true;
}
static bool xu_realloc(struct umem *umem, size_t new_size)
{
    uint8_t *b = realloc(umem->buffer, new_size);
    if (b == NULL && new_size)
        return false;
    umem->buffer = b;
    umem->size = umem->real_size = new_size;
    return true;
}
static void xu_free(struct umem *umem)
{
    struct xumem *x = container_of(umem->mgr, struct xumem, mgr);
    free(umem->buffer);
    umem->buffer = NULL;
    umem->mgr = NULL;
    x->live--;
}
static void xu_dead(struct urefcount *rc)
{
    struct xumem *x = container_of(rc, struct xumem, rc);
    x->dead = true;
}
static void xu_init(struct xumem *x)
{
    memset(x, 0, sizeof(*x));
    urefcount_init(&x->rc, xu_dead);
    x->mgr.refcount = &x->rc;
    x->mgr.umem_alloc = xu_alloc;
    x->mgr.umem_realloc = xu_realloc;
    x->mgr.umem_free = xu_free;
}

/* ------------------------------------------------------------------ */
/* recording sink keeping whole payloads; may forward to a next pipe     */
/* ------------------------------------------------------------------ */
struct ochunk {
    int off, size;
    int during;         /* harness step during which it arrived */
    bool start, end, disc, random, error, ref;
    bool has_dts_orig, has_pts_orig, has_dpd;
    uint64_t dts_orig, pts_orig, dpd;
};
#define NSK 3
struct cx;
struct osink {
    struct upipe upipe;
    struct upipe_mgr mgr;
    struct urefcount rc;
    bool dead, inited;
    struct cx *cx;
    struct upipe *next;
    struct vbuf data;
    struct ochunk *ch;
    int nch, cap;
    char def[64];
    int nflow, flow_err;
    int after_dead;
};

struct cx {
    struct px_fix fx;
    struct xumem xm;
    struct ubuf_mgr *in_mgr;
    struct osink sk[NSK];
    int step;           /* current harness step (index of the input) */
    /* events */
    int n_ref;
    uint64_t ref_val[64];
    int ref_disc[64], ref_step[64];
    bool ref_flag[64];
    int n_ts, n_acq, n_lost, n_fatal, n_error;
    /* ts_encaps status */
    int n_status;
    uint64_t s_cr, s_dts, s_pcr;
    bool s_ready;
};

static void osink_input(struct upipe *upipe, struct uref *uref, struct upump **upump_p)
{
    struct osink *s = container_of(upipe, struct osink, upipe);
    if (s->dead)
        s->after_dead++;
    if (s->nch == s->cap) {
        s->cap = s->cap ? s->cap * 2 : 16;
        s->ch = realloc(s->ch, s->cap * sizeof(*s->ch));
    }
    struct ochunk *c = &s->ch[s->nch++];
    memset(c, 0, sizeof(*c));
    c->during = s->cx->step;
    c->off = (int)s->data.n;
    size_t size = 0;
    if (uref->ubuf != NULL && ubase_check(uref_block_size(uref, &size)) && size) {
        size_t o = s->data.n;
        vbuf_put(&s->data, NULL, 0);
        if (s->data.n + size > s->data.cap) {
            s->data.cap = (s->data.n + size) * 2 + 64;
            s->data.p = realloc(s->data.p, s->data.cap);
        }
        if (!ubase_check(uref_block_extract(uref, 0, (int)size, s->data.p + o)))
            memset(s->data.p + o, 0xEE, size);
        s->data.n += size;
    }
    c->size = (int)size;
    c->start = ubase_check(uref_block_get_start(uref));
    c->end = ubase_check(uref_block_get_end(uref));
    c->disc = ubase_check(uref_flow_get_discontinuity(uref));
    c->random = ubase_check(uref_flow_get_random(uref));
    c->error = ubase_check(uref_flow_get_error(uref));
    c->ref = ubase_check(uref_clock_get_ref(uref));
    c->has_dts_orig = ubase_check(uref_clock_get_dts_orig(uref, &c->dts_orig));
    c->has_pts_orig = ubase_check(uref_clock_get_pts_orig(uref, &c->pts_orig));
    c->has_dpd = ubase_check(uref_clock_get_dts_pts_delay(uref, &c->dpd));
    if (s->next != NULL)
        upipe_input(s->next, uref, upump_p);
    else
        uref_free(uref);
}

static int osink_control(struct upipe *upipe, int command, va_list args)
{
    struct osink *s = container_of(upipe, struct osink, upipe);
    if (s->dead)
        s->after_dead++;
    switch (command) {
    case UPIPE_SET_FLOW_DEF: {
        struct uref *fd = va_arg(args, struct uref *);
        const char *def = NULL;
        s->nflow++;
        if (fd != NULL && ubase_check(uref_flow_get_def(fd, &def)) && def)
            snprintf(s->def, sizeof(s->def), "%s", def);
        if (s->next != NULL) {
            int e = upipe_set_flow_def(s->next, fd);
            if (!ubase_check(e))
                s->flow_err++;
            return e;
        }
        return UBASE_ERR_NONE;
    }
    default: /* requests: the pipe then asks its probe, which provides */
        return UBASE_ERR_UNHANDLED;
    }
}

static void osink_dead(struct urefcount *rc)
{
    struct osink *s = container_of(rc, struct osink, rc);
    s->dead = true;
}

static void osink_init(struct cx *cx, struct osink *s)
{
    memset(s, 0, sizeof(*s));
    s->cx = cx;
    s->mgr.signature = UBASE_FOURCC('c', '1', '5', 's');
    s->mgr.upipe_input = osink_input;
    s->mgr.upipe_control = osink_control;
    urefcount_init(&s->rc, osink_dead);
    upipe_init(&s->upipe, &s->mgr, NULL);
    s->upipe.refcount = &s->rc;
    s->inited = true;
}

static const uint8_t *och_data(struct osink *s, struct ochunk *c) { return s->data.p + c->off; }

/* ---- event hook ---- */
static int cx_event(struct px_fix *fx, struct upipe *upipe, int event, va_list args)
{
    struct cx *cx = fx->user;
    (void)upipe;
    switch (event) {
    case UPROBE_CLOCK_REF: {
        struct uref *uref = va_arg(args, struct uref *);
        uint64_t v = va_arg(args, uint64_t);
        int d = va_arg(args, int);
        if (cx->n_ref < 64) {
            cx->ref_val[cx->n_ref] = v;
            cx->ref_disc[cx->n_ref] = d;
            cx->ref_step[cx->n_ref] = cx->step;
            cx->ref_flag[cx->n_ref] = uref != NULL && ubase_check(uref_clock_get_ref(uref));
        }
        cx->n_ref++;
        return UBASE_ERR_NONE;
    }
    case UPROBE_CLOCK_TS:
        cx->n_ts++;
        return UBASE_ERR_NONE;
    case UPROBE_SYNC_ACQUIRED:
        cx->n_acq++;
        return UBASE_ERR_NONE;
    case UPROBE_SYNC_LOST:
        cx->n_lost++;
        return UBASE_ERR_NONE;
    case UPROBE_FATAL:
        cx->n_fatal++;
        return UBASE_ERR_NONE;
    case UPROBE_ERROR:
        cx->n_error++;
        return UBASE_ERR_NONE;
    case UPROBE_NEED_OUTPUT:
    case UPROBE_NEW_FLOW_DEF:
        return UBASE_ERR_NONE;
    case UPROBE_TS_MUX_LAST_CC:
        return UBASE_ERR_NONE;
    case UPROBE_TS_ENCAPS_STATUS: {
        unsigned sig = va_arg(args, unsigned);
        if (sig != UPIPE_TS_ENCAPS_SIGNATURE)
            return UBASE_ERR_UNHANDLED;
        cx->s_cr = va_arg(args, uint64_t);
        cx->s_dts = va_arg(args, uint64_t);
        cx->s_pcr = va_arg(args, uint64_t);
        cx->s_ready = !!va_arg(args, int);
        cx->n_status++;
        return UBASE_ERR_NONE;
    }
    default:
        return UBASE_ERR_UNHANDLED;
    }
}

static void cx_init(struct cx *cx)
{
    memset(cx, 0, sizeof(*cx));
    struct px_cfg cfg = {.pool = 0, .prepend = 0, .append = 0, .align = 0};
    px_fix_init(&cx->fx, &cfg);
    cx->fx.user = cx;
    cx->fx.on_event = cx_event;
    xu_init(&cx->xm);
    cx->in_mgr = ubuf_block_mem_mgr_alloc(0, 0, &cx->xm.mgr, 0, 0, 0, 0);
    assert(cx->in_mgr);
    for (int i = 0; i < NSK; i++)
        osink_init(cx, &cx->sk[i]);
    cx->s_cr = cx->s_dts = cx->s_pcr = UINT64_MAX;
}

/* the caller has released its pipes. Returns NULL or a description. */
static const char *cx_fini(struct cx *cx, char *sig, size_t sign)
{
    static char msg[300];
    const char *res = NULL;
    for (int i = 0; i < NSK; i++) {
        struct osink *s = &cx->sk[i];
        unsigned refs = uatomic_load(&s->rc.refcount);
        if (res == NULL && (s->dead || refs != 1)) {
            snprintf(sig, sign, "end:sink-refs");
            snprintf(msg, sizeof(msg), "sink %d has %u references after the pipes were released (expected 1)%s", i, refs, s->dead ? " and died" : "");
            res = msg;
        }
        if (res == NULL && s->after_dead) {
            snprintf(sig, sign, "end:sink-used-after-release");
            snprintf(msg, sizeof(msg), "sink %d used after its last release", i);
            res = msg;
        }
        upipe_clean(&s->upipe);
        vbuf_free(&s->data);
        free(s->ch);
        s->ch = NULL;
    }
    ubuf_mgr_release(cx->in_mgr);
    if (res == NULL && (cx->xm.live != 0 || uatomic_load(&cx->xm.rc.refcount) != 1)) {
        snprintf(sig, sign, "end:input-buffer-leaked");
        snprintf(msg, sizeof(msg), "%ld input packet area(s) still allocated, umem manager refs %u", cx->xm.live, (unsigned)uatomic_load(&cx->xm.rc.refcount));
        res = msg;
    }
    char s2[64];
    const char *r2 = px_fix_fini(&cx->fx, s2, sizeof(s2));
    if (res == NULL && r2 != NULL) {
        snprintf(sig, sign, "%s", s2);
        snprintf(msg, sizeof(msg), "%s", r2);
        res = msg;
    }
    return res;
}

/* builds a block uref in the exact-size manager, as 1..3 segments cut at c1 < c2
 * (0 = no cut). Returns NULL if a zero-size segment cannot be allocated. */
static struct uref *mk_uref(struct cx *cx, const uint8_t *d, int n, int c1, int c2)
{
    int cuts[4] = {0, 0, 0, 0}, nc = 1;
    if (c1 > 0 && c1 < n)
        cuts[nc++] = c1;
    if (c2 > c1 && c2 < n)
        cuts[nc++] = c2;
    cuts[nc] = n;
    struct uref *uref = uref_alloc(cx->fx.uref_mgr);
    assert(uref);
    for (int k = 0; k < nc; k++) {
        int part = cuts[k + 1] - cuts[k];
        struct ubuf *ubuf = ubuf_block_alloc(cx->in_mgr, part);
        if (ubuf == NULL) {
            uref_free(uref);
            return NULL;
        }
        if (part) {
            uint8_t *w;
            int sz = -1;
            ubase_assert(ubuf_block_write(ubuf, 0, &sz, &w));
            assert(sz == part);
            memcpy(w, d + cuts[k], part);
            ubuf_block_unmap(ubuf, 0);
        }
        if (uref->ubuf == NULL)
            uref_attach_ubuf(uref, ubuf);
        else
            ubase_assert(ubuf_block_append(uref->ubuf, ubuf));
    }
    return uref;
}

/* ------------------------------------------------------------------ */
/* reference TS packet coder: ISO/IEC 13818-1 2.4.3.2 - 2.4.3.5         */
/* ------------------------------------------------------------------ */
struct rts {
    bool tei, pusi, prio;
    unsigned pid, scr;
    bool af, pl;
    unsigned cc;
    int af_len;
    bool di, rai, espi, pcrf, opcrf, splf, privf, extf;
    uint64_t pcr_base;
    unsigned pcr_ext;
    int pl_off;         /* parser: offset of the payload (188 if none) */
};

/* payload: 188 - header octets are copied from pl */
static int rts_build(const struct rts *r, const uint8_t *pl, uint8_t out[188])
{
    out[0] = 0x47;
    out[1] = (uint8_t)((r->tei << 7) | (r->pusi << 6) | (r->prio << 5) | ((r->pid >> 8) & 0x1f));
    out[2] = (uint8_t)(r->pid & 0xff);
    out[3] = (uint8_t)(((r->scr & 3) << 6) | (r->af << 5) | (r->pl << 4) | (r->cc & 0xf));
    int o = 4;
    if (r->af) {
        out[o++] = (uint8_t)r->af_len;
        int end = o + r->af_len;
        if (r->af_len > 0) {
            out[o++] = (uint8_t)((r->di << 7) | (r->rai << 6) | (r->espi << 5) | (r->pcrf << 4) | (r->opcrf << 3) | (r->splf << 2) |
                                 (r->privf << 1) | r->extf);
            if (r->pcrf) {
                uint64_t b = r->pcr_base;
                unsigned e = r->pcr_ext;
                out[o++] = (uint8_t)(b >> 25);
                out[o++] = (uint8_t)(b >> 17);
                out[o++] = (uint8_t)(b >> 9);
                out[o++] = (uint8_t)(b >> 1);
                out[o++] = (uint8_t)(((b & 1) << 7) | 0x7e | ((e >> 8) & 1));
                out[o++] = (uint8_t)(e & 0xff);
            }
            while (o < end)
                out[o++] = 0xff; /* stuffing_byte */
        }
        o = end;
    }
    int n = 188 - o;
    if (n > 0)
        memcpy(out + o, pl, n);
    return o;
}

/* returns NULL if the packet is conformant, else what is wrong */
static const char *rts_parse(const uint8_t *p, struct rts *r)
{
    memset(r, 0, sizeof(*r));
    if (p[0] != 0x47)
        return "sync_byte is not 0x47";
    r->tei = p[1] >> 7;
    r->pusi = (p[1] >> 6) & 1;
    r->prio = (p[1] >> 5) & 1;
    r->pid = ((p[1] & 0x1f) << 8) | p[2];
    r->scr = p[3] >> 6;
    r->af = (p[3] >> 5) & 1;
    r->pl = (p[3] >> 4) & 1;
    r->cc = p[3] & 0xf;
    if (!r->af && !r->pl)
        return "adaptation_field_control is '00' (reserved)";
    int o = 4;
    if (r->af) {
        r->af_len = p[o++];
        if (r->pl && r->af_len > 182)
            return "adaptation_field_length > 182 with payload";
        if (!r->pl && r->af_len != 183)
            return "adaptation_field_length != 183 without payload";
        int end = o + r->af_len;
        if (r->af_len > 0) {
            uint8_t f = p[o++];
            r->di = f >> 7;
            r->rai = (f >> 6) & 1;
            r->espi = (f >> 5) & 1;
            r->pcrf = (f >> 4) & 1;
            r->opcrf = (f >> 3) & 1;
            r->splf = (f >> 2) & 1;
            r->privf = (f >> 1) & 1;
            r->extf = f & 1;
            if (r->opcrf || r->splf || r->privf || r->extf)
                return "unexpected optional adaptation field (OPCR/splice/private/extension)";
            if (r->pcrf) {
                if (o + 6 > end)
                    return "PCR does not fit in the adaptation field";
                r->pcr_base = ((uint64_t)p[o] << 25) | ((uint64_t)p[o + 1] << 17) | ((uint64_t)p[o + 2] << 9) | ((uint64_t)p[o + 3] << 1) | (p[o + 4] >> 7);
                if ((p[o + 4] & 0x7e) != 0x7e)
                    return "reserved bits of the PCR are not '111111'";
                r->pcr_ext = ((p[o + 4] & 1) << 8) | p[o + 5];
                if (r->pcr_ext >= 300)
                    return "program_clock_reference_extension >= 300";
                o += 6;
            }
            for (; o < end; o++)
                if (p[o] != 0xff)
                    return "stuffing_byte is not 0xff";
        }
        o = end;
    }
    r->pl_off = r->pl ? o : 188;
    if (r->pl && o >= 188)
        return "payload flag set but no payload octet";
    return NULL;
}

/* ------------------------------------------------------------------ */
/* reference PES coder: ISO/IEC 13818-1 2.4.3.6 / 2.4.3.7                */
/* ------------------------------------------------------------------ */
struct rpes {
    unsigned sid;
    bool opt;           /* stream ids with the optional header */
    int length;         /* PES_packet_length */
    unsigned scr, prio, align, copyright, orig;
    int ptsdts;         /* PTS_DTS_flags 0, 2, 3 */
    unsigned other_flags; /* ESCR..extension */
    uint64_t pts, dts;
    int hdl;            /* PES_header_data_length */
    int stuffing;       /* builder: stuffing octets */
    int pl_off;         /* parser */
};

static bool sid_has_opt(unsigned sid)
{
    /* table 2-21: these carry PES_packet_data_byte / padding directly */
    return !(sid == 0xbc || sid == 0xbe || sid == 0xbf || sid == 0xf0 || sid == 0xf1 || sid == 0xff || sid == 0xf2 || sid == 0xf8);
}

static void put_ts33(struct vbuf *b, unsigned prefix, uint64_t v)
{
    vbuf_u8(b, (uint8_t)((prefix << 4) | (((v >> 30) & 7) << 1) | 1));
    vbuf_u8(b, (uint8_t)((v >> 22) & 0xff));
    vbuf_u8(b, (uint8_t)((((v >> 15) & 0x7f) << 1) | 1));
    vbuf_u8(b, (uint8_t)((v >> 7) & 0xff));
    vbuf_u8(b, (uint8_t)(((v & 0x7f) << 1) | 1));
}

/* length_mode: 0 exact, 1 zero (unbounded) */
static void rpes_build(const struct rpes *r, const uint8_t *pl, int pl_len, int length_mode, struct vbuf *b)
{
    vbuf_reset(b);
    vbuf_u8(b, 0);
    vbuf_u8(b, 0);
    vbuf_u8(b, 1);
    vbuf_u8(b, (uint8_t)r->sid);
    int hdl = (r->ptsdts == 2 ? 5 : r->ptsdts == 3 ? 10 : 0) + r->stuffing;
    int total = 6 + (r->opt ? 3 + hdl : 0) + pl_len;
    int len = length_mode ? 0 : total - 6;
    vbuf_u8(b, (uint8_t)(len >> 8));
    vbuf_u8(b, (uint8_t)len);
    if (r->opt) {
        vbuf_u8(b, (uint8_t)(0x80 | ((r->scr & 3) << 4) | (r->prio << 3) | (r->align << 2) | (r->copyright << 1) | r->orig));
        vbuf_u8(b, (uint8_t)((r->ptsdts << 6) | (r->other_flags & 0x3f)));
        vbuf_u8(b, (uint8_t)hdl);
        if (r->ptsdts == 2)
            put_ts33(b, 2, r->pts);
        else if (r->ptsdts == 3) {
            put_ts33(b, 3, r->pts);
            put_ts33(b, 1, r->dts);
        }
        for (int i = 0; i < r->stuffing; i++)
            vbuf_u8(b, 0xff);
    }
    vbuf_put(b, pl, pl_len);
}

static const char *get_ts33(const uint8_t *p, unsigned prefix, uint64_t *v)
{
    if ((p[0] >> 4) != prefix)
        return "wrong 4-bit prefix of a PTS/DTS field";
    if (!(p[0] & 1) || !(p[2] & 1) || !(p[4] & 1))
        return "marker_bit of a PTS/DTS field is 0";
    *v = ((uint64_t)((p[0] >> 1) & 7) << 30) | ((uint64_t)p[1] << 22) | ((uint64_t)(p[2] >> 1) << 15) | ((uint64_t)p[3] << 7) | (p[4] >> 1);
    return NULL;
}

static const char *rpes_parse(const uint8_t *p, size_t n, struct rpes *r)
{
    memset(r, 0, sizeof(*r));
    if (n < 6)
        return "shorter than 6 octets";
    if (p[0] != 0 || p[1] != 0 || p[2] != 1)
        return "packet_start_code_prefix is not 000001";
    r->sid = p[3];
    if (r->sid < 0xbc)
        return "stream_id < 0xbc";
    r->length = (p[4] << 8) | p[5];
    if (r->length != 0 && (size_t)r->length + 6 != n)
        return "PES_packet_length does not match the packet size";
    r->opt = sid_has_opt(r->sid);
    r->pl_off = 6;
    if (!r->opt)
        return NULL;
    if (n < 9)
        return "no room for the optional header";
    if ((p[6] & 0xc0) != 0x80)
        return "optional header does not begin with '10'";
    r->scr = (p[6] >> 4) & 3;
    r->prio = (p[6] >> 3) & 1;
    r->align = (p[6] >> 2) & 1;
    r->copyright = (p[6] >> 1) & 1;
    r->orig = p[6] & 1;
    r->ptsdts = p[7] >> 6;
    r->other_flags = p[7] & 0x3f;
    r->hdl = p[8];
    if (r->ptsdts == 1)
        return "PTS_DTS_flags == '01' (forbidden)";
    if (r->other_flags)
        return "unexpected ESCR/ES_rate/trick/copy/CRC/extension flag";
    int need = r->ptsdts == 2 ? 5 : r->ptsdts == 3 ? 10 : 0;
    if (r->hdl < need)
        return "PES_header_data_length too small for the flagged fields";
    if ((size_t)9 + r->hdl > n)
        return "PES_header_data_length beyond the packet";
    const char *e;
    if (r->ptsdts == 2) {
        if ((e = get_ts33(p + 9, 2, &r->pts)))
            return e;
        r->dts = r->pts;
    } else if (r->ptsdts == 3) {
        if ((e = get_ts33(p + 9, 3, &r->pts)))
            return e;
        if ((e = get_ts33(p + 14, 1, &r->dts)))
            return e;
    }
    for (int i = need; i < r->hdl; i++)
        if (p[9 + i] != 0xff)
            return "stuffing_byte in the PES header is not 0xff";
    r->stuffing = r->hdl - need;
    r->pl_off = 9 + r->hdl;
    return NULL;
}

/* deterministic, position dependent payload octets with a long period */
static inline uint8_t pat(unsigned tag, unsigned i)
{
    unsigned x = tag * 2654435761u + i * 40503u + (i >> 8) * 97u;
    return (uint8_t)((x >> 7) ^ (x >> 15) ^ i);
}

/* ================================================================== */
/* T1: ts_decaps on reference packet sequences                          */
/* ================================================================== */
enum { SH_P, SH_A0, SH_A1, SH_A7, SH_A100, SH_A182, SH_O, SH_OP, NSHAPE };
static const int sh_af[NSHAPE] = {-1, 0, 1, 7, 100, 182, 183, 183};
static const bool sh_pcr[NSHAPE] = {0, 0, 0, 1, 0, 0, 0, 1};
static const bool sh_pl[NSHAPE] = {1, 1, 1, 1, 1, 1, 0, 0};
static const char *sh_name[NSHAPE] = {"payload", "af0+payload", "af1+payload", "af7(PCR)+payload", "af100+payload", "af182+payload", "af183-only", "af183-only(PCR)"};
enum { ST_P1, ST_DUP, ST_SAME, ST_P2, ST_P15, NSTEP };
static const char *st_name[NSTEP] = {"cc+1", "duplicate", "cc+0,other-content", "cc+2", "cc+15"};
static const int st_delta[NSTEP] = {1, 0, 0, 2, 15};

struct tpk {
    int shape;
    bool pusi, tei, di, rai;
    int step;
};
struct mut {
    int kind; /* 0 none, 1 octet replaced, 2 truncated, 3 octet xor-ed */
    int idx, pos, val;
};

static unsigned tpk_code(const struct tpk *t)
{
    return (unsigned)t->shape | (t->pusi << 3) | (t->tei << 4) | (t->di << 5) | (t->rai << 6) | ((unsigned)t->step << 7);
}
static void tpk_decode(unsigned c, struct tpk *t)
{
    t->shape = c & 7;
    t->pusi = (c >> 3) & 1;
    t->tei = (c >> 4) & 1;
    t->di = (c >> 5) & 1;
    t->rai = (c >> 6) & 1;
    t->step = (c >> 7) & 7;
}
static bool tpk_valid(const struct tpk *t)
{
    if (t->shape < 0 || t->shape >= NSHAPE || t->step < 0 || t->step >= NSTEP)
        return false;
    if ((t->di || t->rai) && sh_af[t->shape] < 1)
        return false;
    if (t->pusi && !sh_pl[t->shape])
        return false;
    return true;
}
static int tpk_region(const struct tpk *t) /* header + adaptation field octets */
{
    int af = sh_af[t->shape];
    return 4 + (af >= 0 ? 1 + af : 0);
}

static void t1_id(char *id, size_t n, const struct tpk *seq, int len, int ci, int cp, const struct mut *mu)
{
    size_t o = (size_t)snprintf(id, n, "t1:");
    for (int i = 0; i < len; i++)
        o += snprintf(id + o, n - o, "%s%03x", i ? "-" : "", tpk_code(&seq[i]));
    if (cp > 0)
        o += snprintf(id + o, n - o, "/c%d.%d", ci, cp);
    if (mu && mu->kind == 1)
        o += snprintf(id + o, n - o, "/m%d.%d.%02x", mu->idx, mu->pos, mu->val);
    else if (mu && mu->kind == 3)
        o += snprintf(id + o, n - o, "/x%d.%d.%02x", mu->idx, mu->pos, mu->val);
    else if (mu && mu->kind == 2)
        o += snprintf(id + o, n - o, "/t%d.%d", mu->idx, mu->pos);
}

struct exp1 {
    bool out;
    int disc; /* 0 must be absent, 1 must be present, 2 unconstrained */
    bool start, random, error, ref, pcr;
    uint64_t pcrval;
    int refdisc;
};

#define T1_MAXN 5
#define T1_PID 0x1abc

static void run_t1(const struct tpk *seq, int n, int ci, int cp, const struct mut *mu)
{
    char id[160];
    t1_id(id, sizeof(id), seq, n, ci, cp, mu);
    v_crash_note(id);
    v_watchdog(20);
    uint8_t pk[T1_MAXN][188];
    int len[T1_MAXN], tag[T1_MAXN], ploff[T1_MAXN];
    struct rts hd[T1_MAXN];
    unsigned cc = 14;
    for (int i = 0; i < n; i++) {
        uint8_t pl[188];
        if (i > 0 && seq[i].step == ST_DUP) {
            hd[i] = hd[i - 1];
            tag[i] = tag[i - 1];
            if (hd[i].pcrf) /* "a valid value shall be encoded" in the PCR of the copy */
                hd[i].pcr_base = (hd[i].pcr_base + 1) & (POW33 - 1);
        } else {
            const struct tpk *t = &seq[i];
            struct rts *h = &hd[i];
            memset(h, 0, sizeof(*h));
            h->tei = t->tei;
            h->pusi = t->pusi;
            h->prio = i & 1;
            h->pid = T1_PID;
            h->af = sh_af[t->shape] >= 0;
            h->pl = sh_pl[t->shape];
            h->af_len = h->af ? sh_af[t->shape] : 0;
            h->di = t->di;
            h->rai = t->rai;
            h->pcrf = sh_pcr[t->shape];
            h->pcr_base = (UINT64_C(0x155555555) + (uint64_t)i * 0x01010101) & (POW33 - 1);
            h->pcr_ext = 299 - i;
            if (i > 0)
                cc = (cc + st_delta[t->step]) & 0xf;
            h->cc = cc;
            tag[i] = i + 1;
        }
        for (int k = 0; k < 188; k++)
            pl[k] = pat(tag[i], k);
        ploff[i] = rts_build(&hd[i], pl, pk[i]);
        len[i] = 188;
        cc = hd[i].cc;
    }
    if (mu && mu->kind == 1)
        pk[mu->idx][mu->pos] = (uint8_t)mu->val;
    else if (mu && mu->kind == 3)
        pk[mu->idx][mu->pos] ^= (uint8_t)mu->val;
    else if (mu && mu->kind == 2)
        len[mu->idx] = mu->pos;

    /* ---- reference model (2.4.3.3 continuity_counter semantics) ---- */
    struct exp1 ex[T1_MAXN];
    int stop = n, gaps = 0, gaps_payloadless = 0;
    bool any_di = false;
    memset(ex, 0, sizeof(ex));
    if (!mu || mu->kind == 0) {
        int last_cc = -1;
        bool dup_used = false, pend_gap = false, pend_any = false;
        for (int i = 0; i < n; i++) {
            struct rts *h = &hd[i];
            struct exp1 *e = &ex[i];
            bool di = h->af && h->af_len > 0 && h->di;
            any_di |= di;
            e->pcr = h->af && h->af_len > 0 && h->pcrf;
            e->pcrval = h->pcr_base * 300 + h->pcr_ext;
            bool first = last_cc == -1;
            e->refdisc = di ? 1 : first ? 2 : 0;
            bool gap = false;
            if (!first) {
                if (h->pl) {
                    if (h->cc == (unsigned)((last_cc + 1) & 0xf)) {
                    } else if ((int)h->cc == last_cc && seq[i].step == ST_DUP && hd[i - 1].pl) {
                        if (dup_used) { /* a third copy: not a legal stream, behaviour undefined */
                            stop = i;
                            break;
                        }
                        dup_used = true;
                        e->out = false;
                        continue;
                    } else if (!di)
                        gap = true;
                } else if ((int)h->cc != last_cc && !di)
                    gap = true;
            }
            if (gap) {
                gaps++;
                if (!h->pl)
                    gaps_payloadless++;
            }
            if (h->pl) {
                dup_used = false;
                e->out = true;
                e->disc = (gap || pend_gap || di) ? 1 : (first || pend_any) ? 2 : 0;
                pend_gap = pend_any = false;
                e->start = h->pusi;
                e->random = h->af && h->af_len > 0 && h->rai;
                e->error = h->tei;
                e->ref = e->pcr;
            } else {
                if (gap)
                    pend_gap = true;
                if (di || first)
                    pend_any = true;
            }
            last_cc = (int)h->cc;
        }
        if (stop < n)
            st_illformed++;
    }

    /* ---- run the real pipe ---- */
    struct cx *cx = malloc(sizeof(*cx));
    cx_init(cx);
    struct upipe *dec = upipe_void_alloc(upipe_ts_decaps_mgr_alloc(), px_probe(&cx->fx));
    assert(dec);
    struct uref *fd = uref_block_flow_alloc_def(cx->fx.uref_mgr, "mpegts.");
    ubase_assert(upipe_set_flow_def(dec, fd));
    uref_free(fd);
    ubase_assert(upipe_set_output(dec, &cx->sk[0].upipe));
    bool skipped = false;
    for (int i = 0; i < n; i++) {
        cx->step = i;
        struct uref *u = mk_uref(cx, pk[i], len[i], ci == i ? cp : 0, 0);
        if (u == NULL) {
            skipped = true;
            break;
        }
        if (g_verbose) {
            char hx[40];
            hexstr(pk[i], len[i] < 14 ? len[i] : 14, hx, sizeof(hx));
            VLOG("input %d: %s%s%s%s%s %s cc=%u len=%d octets=%s...", i, sh_name[seq[i].shape], hd[i].pusi ? " PUSI" : "", hd[i].tei ? " TEI" : "",
                 hd[i].di ? " disc_ind" : "", hd[i].rai ? " RAI" : "", i ? st_name[seq[i].step] : "first", hd[i].cc, len[i], hx);
        }
        upipe_input(dec, u, NULL);
        st_trans++;
    }
    uint64_t lost = 0;
    ubase_assert(upipe_ts_decaps_get_packets_lost(dec, &lost));
    upipe_release(dec);
    st_exec++;
    st_packets += n;

    struct osink *s = &cx->sk[0];
    st_outputs += s->nch;
    if (s->nch > 0)
        st_nontrivial++;
    if (g_verbose)
        for (int k = 0; k < s->nch; k++) {
            struct ochunk *c = &s->ch[k];
            VLOG("output during input %d: size=%d%s%s%s%s%s%s", c->during, c->size, c->start ? " start" : "", c->disc ? " discontinuity" : "",
                 c->random ? " random" : "", c->error ? " error" : "", c->ref ? " clock_ref" : "", c->end ? " end" : "");
        }

    bool bad = false;
#define T1FAIL(sig_, ...)                                                      \
    do {                                                                       \
        if (!bad) {                                                            \
            bad = true;                                                        \
            report(sig_, id, __VA_ARGS__);                                     \
        }                                                                      \
    } while (0)

    if (!skipped) {
        /* always: an output is the tail of the packet being input, at most one per input */
        for (int i = 0; i < n; i++) {
            int cnt = 0;
            for (int k = 0; k < s->nch; k++) {
                struct ochunk *c = &s->ch[k];
                if (c->during != i)
                    continue;
                cnt++;
                if (c->size > len[i] || memcmp(och_data(s, c), pk[i] + len[i] - c->size, c->size))
                    T1FAIL("t1:output-not-part-of-the-packet", "input %d (%d octets): the %d-octet output is not the tail of the packet", i, len[i], c->size);
                if (c->size > 184)
                    T1FAIL("t1:output-larger-than-payload", "input %d: output of %d octets", i, c->size);
            }
            if (cnt > 1)
                T1FAIL("t1:two-outputs-for-one-packet", "input %d produced %d outputs", i, cnt);
        }
    }
    if (!skipped && (!mu || mu->kind == 0)) {
        for (int i = 0; i < stop && !bad; i++) {
            struct exp1 *e = &ex[i];
            struct ochunk *c = NULL;
            for (int k = 0; k < s->nch; k++)
                if (s->ch[k].during == i)
                    c = &s->ch[k];
            const char *what = i ? st_name[seq[i].step] : "first";
            if (e->out && c == NULL) {
                T1FAIL("t1:payload-lost", "packet %d (%s, %s) carries %d payload octets but nothing was output", i, sh_name[seq[i].shape], what, 188 - ploff[i]);
                break;
            }
            if (!e->out && c != NULL) {
                T1FAIL(seq[i].step == ST_DUP ? "t1:duplicate-not-dropped" : "t1:output-without-payload", "packet %d (%s, %s) must not produce an output, got %d octets", i,
                       sh_name[seq[i].shape], what, c->size);
                break;
            }
            /* PCR event */
            int nref = 0;
            for (int k = 0; k < cx->n_ref && k < 64; k++)
                if (cx->ref_step[k] == i) {
                    nref++;
                    if (e->pcr && cx->ref_val[k] != e->pcrval)
                        T1FAIL("t1:pcr-value", "packet %d: clock_ref event carries %" PRIu64 ", the PCR field encodes %" PRIu64, i, cx->ref_val[k], e->pcrval);
                    if (e->pcr && !cx->ref_flag[k])
                        T1FAIL("t1:pcr-uref-not-flagged", "packet %d: uref of the clock_ref event lacks the clock.ref flag", i);
                    if (e->pcr && e->refdisc != 2 && cx->ref_disc[k] != e->refdisc)
                        T1FAIL("t1:pcr-discontinuity-arg", "packet %d: clock_ref event says discontinuity=%d, discontinuity_indicator is %d", i, cx->ref_disc[k], e->refdisc);
                }
            if (nref != (e->pcr ? 1 : 0))
                T1FAIL("t1:pcr-event-count", "packet %d (%s): %d clock_ref event(s), PCR_flag is %d", i, sh_name[seq[i].shape], nref, e->pcr);
            if (c == NULL)
                continue;
            if (c->size != 188 - ploff[i])
                T1FAIL("t1:payload-size", "packet %d (%s): output has %d octets, the packet carries %d", i, sh_name[seq[i].shape], c->size, 188 - ploff[i]);
            else if (memcmp(och_data(s, c), pk[i] + ploff[i], c->size))
                T1FAIL("t1:payload-octets", "packet %d (%s): output octets differ from the carried payload", i, sh_name[seq[i].shape]);
            if (c->start != e->start)
                T1FAIL("t1:unit-start-marker", "packet %d: block.start is %d, payload_unit_start_indicator is %d", i, c->start, e->start);
            if (c->random != e->random)
                T1FAIL("t1:random-access-marker", "packet %d: flow.random is %d, random_access_indicator is %d", i, c->random, e->random);
            if (c->error != e->error)
                T1FAIL("t1:transport-error-marker", "packet %d: flow.error is %d, transport_error_indicator is %d", i, c->error, e->error);
            if (c->ref != e->ref)
                T1FAIL("t1:clock-ref-flag", "packet %d: clock.ref flag is %d, PCR_flag is %d", i, c->ref, e->ref);
            if (e->disc != 2 && c->disc != (e->disc == 1)) {
                if (e->disc == 1) {
                    /* name where the gap was seen */
                    bool on_afonly = false;
                    for (int j = i - 1; j >= 0 && !hd[j].pl; j--)
                        on_afonly = true;
                    bool own = false;
                    if (i > 0) {
                        unsigned pc = hd[i - 1].cc;
                        own = hd[i].cc != ((pc + 1) & 0xf);
                    }
                    T1FAIL(own ? "t1:gap-not-flagged" : on_afonly ? "t1:gap-seen-on-payloadless-packet-not-flagged" : "t1:gap-not-flagged",
                           "packet %d (%s, cc=%u, %s): the continuity counter sequence has a gap before this payload but flow.discontinuity is not set", i,
                           sh_name[seq[i].shape], hd[i].cc, what);
                } else
                    T1FAIL("t1:discontinuity-without-gap", "packet %d (%s, cc=%u, %s): flow.discontinuity set although the counters are continuous and no indicator is set", i,
                           sh_name[seq[i].shape], hd[i].cc, what);
            }
            if (c->end)
                T1FAIL("t1:unexpected-end-marker", "packet %d: block.end set by ts_decaps", i);
        }
        if (!bad && stop == n && !any_di && (lost > 0) != (gaps > 0))
            T1FAIL(gaps_payloadless == gaps && gaps ? "t1:lost-counter-gap-seen-on-payloadless-packet" : "t1:lost-counter", "get_packets_lost returned %" PRIu64 " but the sequence has %d counter gap(s)", lost, gaps);
        if (!bad && cx->n_fatal)
            T1FAIL("t1:fatal-on-wellformed", "%d fatal event(s) on a well-formed sequence", cx->n_fatal);
    }
    char fsig[64];
    const char *fr = cx_fini(cx, fsig, sizeof(fsig));
    if (fr != NULL && !bad) {
        char sg[96];
        snprintf(sg, sizeof(sg), "t1:%s", fsig);
        T1FAIL(sg, "%s", fr);
    }
    if (skipped)
        st_skipped++;
    free(cx);
#undef T1FAIL
}

/* all valid single-packet descriptors (step given) */
static int t1_all(struct tpk *out, int step)
{
    int n = 0;
    for (int sh = 0; sh < NSHAPE; sh++)
        for (int f = 0; f < 16; f++) {
            struct tpk t = {sh, f & 1, (f >> 1) & 1, (f >> 2) & 1, (f >> 3) & 1, step};
            if (tpk_valid(&t))
                out[n++] = t;
        }
    return n;
}
/* reduced alphabet for long sequences */
static int t1_reduced(struct tpk *out, int step)
{
    static const struct tpk r[] = {{SH_P, 0, 0, 0, 0, 0}, {SH_P, 1, 0, 0, 0, 0}, {SH_A0, 0, 0, 0, 0, 0}, {SH_A1, 0, 0, 0, 0, 0}, {SH_A1, 0, 0, 1, 0, 0},
                                   {SH_A7, 0, 0, 0, 0, 0}, {SH_A182, 0, 0, 0, 1, 0}, {SH_O, 0, 0, 0, 0, 0}, {SH_O, 0, 0, 1, 0, 0}, {SH_OP, 0, 0, 0, 0, 0}};
    int n = sizeof(r) / sizeof(r[0]);
    for (int i = 0; i < n; i++) {
        out[i] = r[i];
        out[i].step = step;
    }
    return n;
}

static void t1_rec(struct tpk *seq, int depth, int maxdepth, const struct tpk *alpha, int na)
{
    if (depth == maxdepth) {
        if (take_case())
            run_t1(seq, maxdepth, 0, 0, NULL);
        return;
    }
    static const int steps[] = {ST_P1, ST_SAME, ST_P2, ST_P15};
    for (int a = 0; a < na && !g_expired; a++)
        for (int s = 0; s < (depth ? 4 : 1); s++) {
            seq[depth] = alpha[a];
            seq[depth].step = steps[s];
            t1_rec(seq, depth + 1, maxdepth, alpha, na);
        }
    if (depth) {
        seq[depth] = alpha[0];
        seq[depth].step = ST_DUP;
        t1_rec(seq, depth + 1, maxdepth, alpha, na);
    }
}

static void mode_t1(void)
{
    struct tpk all[128], red[16], seq[T1_MAXN];
    int nall = t1_all(all, ST_P1), nred = t1_reduced(red, ST_P1);
    /* L1: every single packet, every cutting into two segments inside header + AF (+1) */
    for (int a = 0; a < nall && !g_expired; a++) {
        int reg = tpk_region(&all[a]) + 1;
        if (reg > 187)
            reg = 187;
        for (int cp = 0; cp <= reg; cp++) {
            if (take_case())
                run_t1(&all[a], 1, 0, cp, NULL);
        }
    }
    /* L2: all pairs with all flags */
    t1_rec(seq, 0, 2, all, nall);
    /* L2c: reduced pairs, either packet cut at every position of its header + AF (+1) */
    for (int a = 0; a < nred && !g_expired; a++)
        for (int b = 0; b < nred; b++)
            for (int st = 0; st < NSTEP; st++) {
                if (st == ST_DUP && b != 0)
                    continue;
                seq[0] = red[a];
                seq[1] = red[b];
                seq[1].step = st;
                for (int ci = 0; ci < 2; ci++) {
                    int reg = tpk_region(&seq[st == ST_DUP ? 0 : ci]) + 1;
                    if (reg > 187)
                        reg = 187;
                    for (int cp = 1; cp <= reg; cp++) {
                        if (take_case())
                            run_t1(seq, 2, ci, cp, NULL);
                    }
                }
            }
    /* L3 / L4: reduced alphabet */
    t1_rec(seq, 0, 3, red, nred);
    t1_rec(seq, 0, 4, red, nred);
    if (g_thorough)
        t1_rec(seq, 0, 5, red, nred);
}

/* T4 part 1: every header / AF octet of every single-packet variant replaced,
 * every truncation, in the middle of two good packets and as a corrupted copy */
static void t4_ts(void)
{
    struct tpk all[128], seq[3];
    int nall = t1_all(all, ST_P1);
    static const int cuts_q[] = {0, 5}, cuts_t[] = {0, 1, 4, 5, 6, 12};
    const int *cuts = g_thorough ? cuts_t : cuts_q;
    int ncuts = g_thorough ? 6 : 2;
    struct tpk good = {SH_P, 0, 0, 0, 0, ST_P1};
    for (int a = 0; a < nall && !g_expired; a++) {
        for (int ctx = 0; ctx < 2; ctx++) {
            int n, idx;
            if (ctx == 0) {
                seq[0] = good;
                seq[1] = all[a];
                seq[2] = good;
                n = 3;
                idx = 1;
            } else {
                if (!sh_pl[all[a].shape])
                    continue;
                seq[0] = all[a];
                seq[1] = all[0];
                seq[1].step = ST_DUP;
                n = 2;
                idx = 1;
            }
            int reg = tpk_region(&all[a]);
            if (reg > 188)
                reg = 188;
            for (int pos = 0; pos < reg && !g_expired; pos++) {
                /* set 0x00, set 0xff, complement, and (first 12 octets) every single bit flipped */
                int kinds[11], vals[11], nv = 0;
                kinds[nv] = 1, vals[nv++] = 0x00;
                kinds[nv] = 1, vals[nv++] = 0xff;
                kinds[nv] = 3, vals[nv++] = 0xff;
                if (pos < 12)
                    for (int b = 0; b < 8; b++)
                        kinds[nv] = 3, vals[nv++] = 1 << b;
                for (int v = 0; v < nv; v++)
                    for (int c = 0; c < ncuts; c++) {
                        if (!take_case())
                            continue;
                        struct mut mu = {kinds[v], idx, pos, vals[v]};
                        run_t1(seq, n, idx, cuts[c], &mu);
                    }
            }
            for (int l = 0; l < 188 && !g_expired; l++)
                for (int c = 0; c < 2; c++) {
                    int cp = c == 0 ? 0 : (l >= 2 ? (l - 1 < 5 ? l - 1 : 5) : -1);
                    if (cp < 0)
                        continue;
                    if (!take_case())
                        continue;
                    struct mut mu = {2, idx, l, 0};
                    run_t1(seq, n, idx, cp, &mu);
                }
        }
    }
}

static bool replay_t1(const char *id)
{
    struct tpk seq[T1_MAXN];
    int n = 0, ci = 0, cp = 0;
    struct mut mu = {0, 0, 0, 0};
    const char *p = id + 3;
    while (*p && *p != '/') {
        unsigned c;
        if (n == T1_MAXN || sscanf(p, "%3x", &c) != 1)
            return false;
        tpk_decode(c, &seq[n]);
        if (!tpk_valid(&seq[n]))
            return false;
        n++;
        p += 3;
        if (*p == '-')
            p++;
    }
    while (*p == '/') {
        unsigned v;
        if (sscanf(p, "/c%d.%d", &ci, &cp) == 2) {
        } else if (sscanf(p, "/m%d.%d.%x", &mu.idx, &mu.pos, &v) == 3) {
            mu.kind = 1;
            mu.val = (int)v;
        } else if (sscanf(p, "/x%d.%d.%x", &mu.idx, &mu.pos, &v) == 3) {
            mu.kind = 3;
            mu.val = (int)v;
        } else if (sscanf(p, "/t%d.%d", &mu.idx, &mu.pos) == 2)
            mu.kind = 2;
        else
            return false;
        p = strchr(p + 1, '/');
        if (p == NULL)
            break;
    }
    if (n == 0 || (mu.kind && (mu.idx >= n || mu.pos < 0 || mu.pos >= 188)))
        return false;
    run_t1(seq, n, ci, cp, mu.kind ? &mu : NULL);
    return true;
}

/* MODES_BELOW */
/* ================================================================== */
/* T2: PES                                                               */
/* ================================================================== */
struct pres {
    struct vbuf data;
    struct ochunk *ch;
    int nch;
    int n_ts, n_acq, n_lost, n_fatal;
    bool fini_bad, skipped;
    char fsig[64], fmsg[300];
};
static void pres_free(struct pres *r)
{
    vbuf_free(&r->data);
    free(r->ch);
    memset(r, 0, sizeof(*r));
}
static void pres_steal(struct pres *r, struct osink *s)
{
    r->data = s->data;
    r->ch = s->ch;
    r->nch = s->nch;
    memset(&s->data, 0, sizeof(s->data));
    s->ch = NULL;
    s->nch = s->cap = 0;
}

/* feeds b[0..n) cut at cuts[] (ascending, exclusive of 0 and n) into a fresh
 * pes_decaps, first chunk flagged block.start (+ flow.random); then b2 as one
 * more unit-start chunk. `during` of an output = index of the chunk. */
static void pesd_run(const uint8_t *b, int n, const int *cuts, int ncuts, bool random, const uint8_t *b2, int n2, struct pres *r)
{
    memset(r, 0, sizeof(*r));
    struct cx *cx = malloc(sizeof(*cx));
    cx_init(cx);
    struct upipe *pesd = upipe_void_alloc(upipe_ts_pesd_mgr_alloc(), px_probe(&cx->fx));
    assert(pesd);
    struct uref *fd = uref_block_flow_alloc_def(cx->fx.uref_mgr, "mpegtspes.");
    ubase_assert(upipe_set_flow_def(pesd, fd));
    uref_free(fd);
    ubase_assert(upipe_set_output(pesd, &cx->sk[0].upipe));
    int prev = 0;
    for (int k = 0; k <= ncuts; k++) {
        int end = k < ncuts ? cuts[k] : n;
        cx->step = k;
        struct uref *u = mk_uref(cx, b + prev, end - prev, 0, 0);
        if (u == NULL) {
            r->skipped = true;
            break;
        }
        if (k == 0) {
            uref_block_set_start(u);
            if (random)
                uref_flow_set_random(u);
        }
        if (g_verbose) {
            char hx[64];
            hexstr(b + prev, end - prev < 28 ? end - prev : 28, hx, sizeof(hx));
            VLOG("pes_decaps input chunk %d: %d octets%s: %s%s", k, end - prev, k == 0 ? " (unit start)" : "", hx, end - prev > 28 ? "..." : "");
        }
        upipe_input(pesd, u, NULL);
        st_trans++;
        st_packets++;
        prev = end;
    }
    if (b2 != NULL && !r->skipped) {
        cx->step = ncuts + 1;
        struct uref *u = mk_uref(cx, b2, n2, 0, 0);
        assert(u);
        uref_block_set_start(u);
        VLOG("pes_decaps input chunk %d: second packet, %d octets (unit start)", ncuts + 1, n2);
        upipe_input(pesd, u, NULL);
        st_trans++;
        st_packets++;
    }
    upipe_release(pesd);
    st_exec++;
    pres_steal(r, &cx->sk[0]);
    r->n_ts = cx->n_ts;
    r->n_acq = cx->n_acq;
    r->n_lost = cx->n_lost;
    r->n_fatal = cx->n_fatal;
    const char *fr = cx_fini(cx, r->fsig, sizeof(r->fsig));
    if (fr != NULL) {
        r->fini_bad = true;
        snprintf(r->fmsg, sizeof(r->fmsg), "%s", fr);
    }
    free(cx);
    st_outputs += r->nch;
    if (g_verbose)
        for (int k = 0; k < r->nch; k++) {
            struct ochunk *c = &r->ch[k];
            VLOG("pes_decaps output during chunk %d: size=%d%s%s%s%s dts_orig=%" PRId64 " dts_pts_delay=%" PRId64, c->during, c->size, c->start ? " start" : "",
                 c->end ? " end" : "", c->random ? " random" : "", c->disc ? " discontinuity" : "", c->has_dts_orig ? (int64_t)c->dts_orig : -1,
                 c->has_dpd ? (int64_t)c->dpd : -1);
        }
}

#define MAX_DELAY_27M (UINT64_C(27000000) * 60)

/* oracle for the outputs of one PES packet (outputs with from <= during <= to).
 * h: reference header (sid, opt, length, ptsdts, pts, dts). in_dpd: the input
 * chunk itself carried a dts_pts_delay attribute (direct pes_encaps -> pes_decaps
 * chain: same uref), which pes_decaps has no reason to remove. Returns true if fine. */
static bool check_pes_out(const char *id, const char *pfx, struct pres *r, int from, int to, const struct rpes *h, const uint8_t *pl, int pl_len, bool random, bool in_dpd)
{
    char sig[96];
#define PFAIL(sig_, ...)                                                       \
    do {                                                                       \
        snprintf(sig, sizeof(sig), "%s:%s", pfx, sig_);                        \
        report(sig, id, __VA_ARGS__);                                          \
        return false;                                                          \
    } while (0)
    int first = -1, last = -1, total = 0;
    for (int k = 0; k < r->nch; k++)
        if (r->ch[k].during >= from && r->ch[k].during <= to) {
            if (first < 0)
                first = k;
            last = k;
            total += r->ch[k].size;
        }
    if (h->sid == 0xbe) {
        if (first >= 0)
            PFAIL("padding-output", "padding_stream packet produced %d output octets", total);
        return true;
    }
    if (first < 0)
        PFAIL("nothing-output", "PES packet (stream_id %02x, %d payload octets) produced no output", h->sid, pl_len);
    if (total != pl_len)
        PFAIL("payload-size", "recovered %d octets, the PES packet carries %d (stream_id %02x, PTS_DTS_flags %d, header_data_length %d)", total, pl_len, h->sid, h->ptsdts, h->hdl);
    int o = 0;
    for (int k = first; k <= last; k++) {
        struct ochunk *c = &r->ch[k];
        if (c->during < from || c->during > to)
            continue;
        if (c->size && memcmp(r->data.p + c->off, pl + o, c->size))
            PFAIL("payload-octets", "recovered octets differ from the PES payload at offset %d", o);
        o += c->size;
        if (c->start != (k == first))
            PFAIL("start-marker", "output %d of the packet: block.start is %d", k - first, c->start);
        bool want_end = h->length != 0 && k == last;
        if (c->end != want_end)
            PFAIL("end-marker", "output %d of %d of the packet: block.end is %d, expected %d (PES_packet_length %d)", k - first, last - first + 1, c->end, want_end, h->length);
        if (k == first && c->random != random)
            PFAIL("random-marker", "first output: flow.random is %d, input had %d", c->random, random);
        if (k != first && (c->has_dts_orig || c->has_dpd))
            PFAIL("timestamp-on-later-chunk", "output %d of the packet carries a timestamp", k - first);
    }
    struct ochunk *c = &r->ch[first];
    if (h->opt && h->ptsdts) {
        uint64_t dts = h->ptsdts == 3 ? h->dts : h->pts;
        uint64_t delay = ((POW33 + h->pts - dts) % POW33) * 300;
        if (!c->has_dts_orig || c->dts_orig != dts * 300)
            PFAIL("dts", "DTS recovered as %" PRId64 " (27 MHz), the header says %" PRIu64 " x 300 = %" PRIu64, c->has_dts_orig ? (int64_t)c->dts_orig : -1, dts, dts * 300);
        if (delay <= MAX_DELAY_27M && (!c->has_dpd || c->dpd != delay))
            PFAIL("pts", "PTS-DTS recovered as %" PRId64 " (27 MHz), the header says PTS %" PRIu64 " DTS %" PRIu64 " -> %" PRIu64, c->has_dpd ? (int64_t)c->dpd : -1, h->pts, dts, delay);
        if (c->has_pts_orig && delay <= MAX_DELAY_27M && c->pts_orig != dts * 300 + delay)
            PFAIL("pts", "pts_orig is %" PRIu64 ", expected %" PRIu64, c->pts_orig, dts * 300 + delay);
    } else if (c->has_dts_orig || (c->has_dpd && !in_dpd))
        PFAIL("timestamp-invented", "output carries a timestamp although the PES header has none");
    return true;
#undef PFAIL
}

/* every output must be a slice of the input stream, in order (nothing invented,
 * nothing read from elsewhere) */
static bool check_slices(struct pres *r, const uint8_t *in, int n)
{
    int pos = 0;
    for (int k = 0; k < r->nch; k++) {
        struct ochunk *c = &r->ch[k];
        if (c->size == 0)
            continue;
        int f = -1;
        for (int p = pos; p + c->size <= n; p++)
            if (!memcmp(in + p, r->data.p + c->off, c->size)) {
                f = p;
                break;
            }
        if (f < 0)
            return false;
        pos = f + c->size;
    }
    return true;
}

/* ---- T2e: pes_encaps -> reference parser, -> pes_decaps ---- */
/* the first 12 are the quick tier; boundaries: 65535 - (header - 6) for headers of 6, 9, 14, 19 (and 25) octets */
static const int t2_sizes_q[] = {1, 2, 100, 65522, 65523, 65527, 65528, 65529, 65530, 65532, 65533, 70000,
                                 3, 184, 1000, 65516, 65517, 65521, 65524, 65526, 65531, 65534, 65535, 65536, 131072};
#define T2_NSIZES_Q 12
#define T2_NSIZES 25
static const unsigned t2_sids[] = {0xe0, 0xc0, 0xbd, 0xbf};
#define T2_NSIDS 4
static const int t2_hdrs[] = {0, 25};
#define T2_NHDRS 2
#define T2_NTS 9

/* returns false if the AU carries no PTS */
static bool t2_ts(int idx, bool *pts_only, uint64_t *dts, uint64_t *delay)
{
    *pts_only = false;
    *delay = 0;
    *dts = 0;
    switch (idx) {
    case 0: return false;
    case 1: *pts_only = true; *dts = UINT64_C(27000000) * 7 + 123; return true;
    case 2: *dts = UINT64_C(27000000) * 10 + 123; *delay = 27000000 / 25 * 3 + 7; return true;
    case 3: *dts = UINT64_C(27000000) * 10 + 123; *delay = 0; return true;
    case 4: *dts = 300 * 1000 + 10; *delay = 100; return true;   /* same 90 kHz tick */
    case 5: *dts = 300 * 1000 + 250; *delay = 100; return true;  /* next tick */
    case 6: *dts = (POW33 - 10) * 300 + 17; *delay = 15 * 300 + 5; return true; /* PTS wraps */
    case 7: *dts = (POW33 + 5) * 300 + 1; *delay = 3003 * 300; return true;     /* both beyond 2^33 */
    default: *dts = (POW33 - 1) * 300 + 299; *delay = 0; return true;
    }
}

static void run_t2e(int si, int ti, int di, int hi, int seg, int rnd)
{
    char id[96];
    snprintf(id, sizeof(id), "t2e:%d.%d.%d.%d.%d.%d", si, ti, di, hi, seg, rnd);
    v_crash_note(id);
    v_watchdog(30);
    int size = t2_sizes_q[si];
    unsigned sid = t2_sids[di];
    int hdrmin = t2_hdrs[hi];
    bool pts_only;
    uint64_t dts, delay;
    bool has_ts = t2_ts(ti, &pts_only, &dts, &delay);
    uint8_t *au = malloc(size);
    for (int i = 0; i < size; i++)
        au[i] = pat(77 + si, i);

    struct cx *cx = malloc(sizeof(*cx));
    cx_init(cx);
    struct upipe *pese = upipe_void_alloc(upipe_ts_pese_mgr_alloc(), px_probe(&cx->fx));
    struct upipe *pesd = upipe_void_alloc(upipe_ts_pesd_mgr_alloc(), px_probe(&cx->fx));
    assert(pese && pesd);
    cx->sk[0].next = pesd;
    ubase_assert(upipe_set_output(pesd, &cx->sk[1].upipe));
    struct uref *fd = uref_block_flow_alloc_def(cx->fx.uref_mgr, NULL);
    ubase_assert(uref_ts_flow_set_pes_id(fd, sid));
    if (hdrmin)
        ubase_assert(uref_ts_flow_set_pes_header(fd, hdrmin));
    ubase_assert(upipe_set_flow_def(pese, fd));
    uref_free(fd);
    ubase_assert(upipe_set_output(pese, &cx->sk[0].upipe));
    struct uref *u = mk_uref(cx, au, size, seg ? (size >= 2 ? size / 2 : 0) : 0, 0);
    assert(u);
    if (has_ts) {
        if (pts_only)
            uref_clock_set_pts_prog(u, dts);
        else {
            uref_clock_set_dts_prog(u, dts);
            uref_clock_set_dts_pts_delay(u, delay);
        }
    }
    if (rnd)
        uref_flow_set_random(u);
    VLOG("access unit: %d octets in %d segment(s), stream_id %02x, min header %d, %s dts_prog=%" PRIu64 " delay=%" PRIu64 "%s", size, seg ? 2 : 1, sid, hdrmin,
         !has_ts ? "no timestamp" : pts_only ? "PTS only" : "DTS+PTS", dts, delay, rnd ? ", random" : "");
    cx->step = 0;
    upipe_input(pese, u, NULL);
    st_trans++;
    st_packets++;
    upipe_release(pese);
    upipe_release(pesd);
    cx->sk[0].next = NULL;
    st_exec++;

    struct pres pe, pd;
    memset(&pe, 0, sizeof(pe));
    memset(&pd, 0, sizeof(pd));
    pres_steal(&pe, &cx->sk[0]);
    pres_steal(&pd, &cx->sk[1]);
    pd.n_ts = cx->n_ts;
    bool warned = false;
    for (int k = 0; k < cx->fx.nerec; k++)
        if (cx->fx.erec[k].event == UPROBE_LOG && strstr(cx->fx.erec[k].text, "PES length > 65535"))
            warned = true;
    int n_fatal = cx->n_fatal, flow_err = cx->sk[0].flow_err;
    char fsig[64];
    const char *fr = cx_fini(cx, fsig, sizeof(fsig));
    char fmsg[300] = "";
    if (fr)
        snprintf(fmsg, sizeof(fmsg), "%s", fr);
    free(cx);
    st_outputs += pe.nch + pd.nch;
    if (pe.nch > 0 && pd.nch > 0)
        st_nontrivial++;

    bool ok = true;
    /* the signature names the configuration class, so that a finding in one class does not hide another */
#define EFAIL(sig_, ...)                                                       \
    do {                                                                       \
        if (ok) {                                                              \
            char sg_[128];                                                     \
            snprintf(sg_, sizeof(sg_), "%s/stream_id=%02x,min_header=%d", sig_, sid, hdrmin); \
            ok = false;                                                        \
            report(sg_, id, __VA_ARGS__);                                      \
        }                                                                      \
    } while (0)
    /* expected header */
    uint64_t P = pts_only ? dts : dts + delay, D = dts;
    uint64_t wp = (P / 300) % POW33, wd = (D / 300) % POW33;
    struct rpes want;
    memset(&want, 0, sizeof(want));
    want.sid = sid;
    want.opt = sid_has_opt(sid);
    want.ptsdts = !want.opt || !has_ts ? 0 : (pts_only || wp == wd) ? 2 : 3;
    want.pts = wp;
    want.dts = want.ptsdts == 3 ? wd : wp;
    int natural = !want.opt ? 6 : want.ptsdts == 3 ? 19 : want.ptsdts == 2 ? 14 : 9;
    int hsize = natural > hdrmin || !want.opt ? natural : hdrmin;
    /* a minimum header size cannot be honoured without PES_header_data_length (private_stream_2): expect it ignored */
    long totlen = (long)hsize - 6 + size;
    want.length = totlen > 65535 ? 0 : (int)totlen;
    want.hdl = hsize - 9;

    if (flow_err)
        EFAIL("t2e:flow-def-rejected", "pes_decaps rejected the flow definition output by pes_encaps");
    if (n_fatal)
        EFAIL("t2e:fatal", "%d fatal event(s)", n_fatal);
    if (pe.nch == 0)
        EFAIL("t2e:encaps-no-output", "pes_encaps output nothing for a %d-octet access unit", size);
    if (ok) {
        for (int k = 0; k < pe.nch; k++)
            if (pe.ch[k].start != (k == 0))
                EFAIL("t2e:encaps-start-marker", "pes_encaps output %d: block.start is %d", k, pe.ch[k].start);
        struct rpes got;
        const char *e = rpes_parse(pe.data.p, pe.data.n, &got);
        if (g_verbose) {
            char hx[80];
            hexstr(pe.data.p, pe.data.n < 30 ? (int)pe.data.n : 30, hx, sizeof(hx));
            VLOG("pes_encaps emitted %zu octets in %d chunk(s): %s...", pe.data.n, pe.nch, hx);
        }
        if (e != NULL)
            EFAIL("t2e:encaps-nonconformant", "reference parser rejects the PES packet from pes_encaps: %s (stream_id %02x, AU %d octets)", e, sid, size);
        else {
            if (got.sid != sid)
                EFAIL("t2e:encaps-stream-id", "stream_id %02x, configured %02x", got.sid, sid);
            if (got.ptsdts != want.ptsdts || (want.ptsdts && got.pts != want.pts) || (want.ptsdts == 3 && got.dts != want.dts))
                EFAIL("t2e:encaps-timestamps", "header has PTS_DTS_flags %d PTS %" PRIu64 " DTS %" PRIu64 ", the access unit asks for flags %d PTS %" PRIu64 " DTS %" PRIu64, got.ptsdts,
                      got.pts, got.dts, want.ptsdts, want.pts, want.dts);
            if (got.pl_off != hsize)
                EFAIL("t2e:encaps-header-size", "header is %d octets, expected %d (natural %d, configured minimum %d)", got.pl_off, hsize, natural, hdrmin);
            if (got.length != want.length)
                EFAIL("t2e:encaps-length", "PES_packet_length %d, expected %d", got.length, want.length);
            if (got.length == 0 && (sid & 0xf0) != 0xe0) {
                /* 2.4.3.7: 0 only allowed for video elementary streams; Upipe documents a warning */
                if (!warned)
                    EFAIL("t2e:encaps-unbounded-nonvideo-silent", "PES_packet_length 0 on stream_id %02x without the documented warning", sid);
                else
                    st_illformed++;
            }
            if (want.opt && !got.align)
                EFAIL("t2e:encaps-alignment", "data_alignment_indicator is 0 although the access unit starts right after the header");
            if ((int)pe.data.n - got.pl_off != size || memcmp(pe.data.p + got.pl_off, au, size))
                EFAIL("t2e:encaps-payload", "PES payload (%d octets) differs from the access unit (%d octets)", (int)pe.data.n - got.pl_off, size);
        }
    }
    if (ok)
        ok = check_pes_out(id, "t2e:decaps", &pd, 0, 0, &want, au, size, rnd, has_ts && !pts_only);
    if (ok && pd.n_ts != (want.ptsdts ? 1 : 0))
        EFAIL("t2e:decaps-clock-ts-events", "%d clock_ts event(s), header has PTS_DTS_flags %d", pd.n_ts, want.ptsdts);
    if (ok && fr != NULL) {
        char sg[96];
        snprintf(sg, sizeof(sg), "t2e:%s", fsig);
        EFAIL(sg, "%s", fmsg);
    }
    /* second transport: the PES octets as 184-octet chunks (what ts_decaps delivers) */
    if (ok && pe.data.n > 0) {
        int n = (int)pe.data.n, nc = (n - 1) / 184;
        int *cuts = malloc((nc + 1) * sizeof(int));
        for (int k = 0; k < nc; k++)
            cuts[k] = (k + 1) * 184;
        struct pres r2;
        pesd_run(pe.data.p, n, cuts, nc, rnd, NULL, 0, &r2);
        free(cuts);
        ok = check_pes_out(id, "t2e:decaps184", &r2, 0, nc, &want, au, size, rnd, false);
        if (ok && r2.fini_bad) {
            char sg[96];
            snprintf(sg, sizeof(sg), "t2e:%s", r2.fsig);
            EFAIL(sg, "%s", r2.fmsg);
        }
        pres_free(&r2);
    }
#undef EFAIL
    pres_free(&pe);
    pres_free(&pd);
    free(au);
}

/* ---- T2d: reference PES packets cut into 1..3 chunks -> pes_decaps ---- */
struct pdesc {
    unsigned sid;
    int ptsdts, tsi, stuffing, align, pli, lenmode;
};
static const unsigned t2d_sids[] = {0xe0, 0xc0, 0xbd, 0xbf, 0xbc, 0xf0, 0xf1, 0xf2, 0xf8, 0xff, 0xbe};
#define T2D_NSIDS 11
static const int t2d_stuff[] = {0, 1, 5};
static const int t2d_pl[] = {0, 1, 20};
static const uint64_t t2d_pts[] = {UINT64_C(0x155555555), 5, (UINT64_C(1) << 33) - 1, 1};
static const uint64_t t2d_dts[] = {UINT64_C(0x155555555) - 3003, (UINT64_C(1) << 33) - 10, (UINT64_C(1) << 33) - 2, 0};

static void pdesc_build(const struct pdesc *d, struct rpes *h, uint8_t *pl, int *pl_len, struct vbuf *b)
{
    memset(h, 0, sizeof(*h));
    h->sid = d->sid;
    h->opt = sid_has_opt(d->sid);
    h->ptsdts = h->opt ? d->ptsdts : 0;
    h->pts = t2d_pts[d->tsi];
    h->dts = d->ptsdts == 3 ? t2d_dts[d->tsi] : h->pts;
    h->stuffing = h->opt ? t2d_stuff[d->stuffing] : 0;
    h->align = d->align;
    if (d->stuffing == 1) {
        h->prio = 1;
        h->copyright = 1;
        h->orig = 1;
    }
    *pl_len = t2d_pl[d->pli];
    for (int i = 0; i < *pl_len; i++)
        pl[i] = pat(d->sid + d->pli, i);
    rpes_build(h, pl, *pl_len, d->lenmode, b);
    h->length = d->lenmode ? 0 : (int)b->n - 6;
    h->hdl = (h->ptsdts == 2 ? 5 : h->ptsdts == 3 ? 10 : 0) + h->stuffing;
}

static void pdesc_id(char *id, size_t n, const char *pfx, const struct pdesc *d, int c1, int c2, int c3, const struct mut *mu)
{
    size_t o = (size_t)snprintf(id, n, "%s:%02x.%d.%d.%d.%d.%d.%d/c%d.%d.%d", pfx, d->sid, d->ptsdts, d->tsi, d->stuffing, d->align, d->pli, d->lenmode, c1, c2, c3);
    if (mu && mu->kind == 1)
        snprintf(id + o, n - o, "/m%d.%02x", mu->pos, mu->val);
    else if (mu && mu->kind == 3)
        snprintf(id + o, n - o, "/x%d.%02x", mu->pos, mu->val);
    else if (mu && mu->kind == 2)
        snprintf(id + o, n - o, "/t%d", mu->pos);
}

/* second, fixed packet: video, no timestamp, 3 payload octets, bounded */
static const uint8_t pes2[] = {0, 0, 1, 0xe0, 0, 6, 0x80, 0, 0, 0xa1, 0xa2, 0xa3};

static void run_t2d(const struct pdesc *d, int c1, int c2, int c3, const struct mut *mu)
{
    char id[128];
    pdesc_id(id, sizeof(id), mu && mu->kind ? "t4p" : "t2d", d, c1, c2, c3, mu);
    v_crash_note(id);
    v_watchdog(20);
    struct vbuf b = {0};
    struct rpes h;
    uint8_t pl[32];
    int pl_len;
    pdesc_build(d, &h, pl, &pl_len, &b);
    int n = (int)b.n;
    if (mu && mu->kind == 1 && mu->pos < n)
        b.p[mu->pos] = (uint8_t)mu->val;
    else if (mu && mu->kind == 3 && mu->pos < n)
        b.p[mu->pos] ^= (uint8_t)mu->val;
    else if (mu && mu->kind == 2 && mu->pos < n)
        n = mu->pos;
    int cuts[3], nc = 0;
    if (c1 > 0 && c1 < n)
        cuts[nc++] = c1;
    if (c2 > c1 && c2 < n)
        cuts[nc++] = c2;
    if (c3 > c2 && c2 > c1 && c3 < n)
        cuts[nc++] = c3;
    struct pres r;
    if (n == 0) { /* nothing to send before the second packet */
        vbuf_free(&b);
        return;
    }
    pesd_run(b.p, n, cuts, nc, d->align, pes2, sizeof(pes2), &r);
    if (r.nch > 0)
        st_nontrivial++;
    bool ok = true;
    struct rpes h2 = {.sid = 0xe0, .opt = true, .length = 6};
    if (r.skipped)
        st_skipped++;
    else if (!mu || mu->kind == 0) {
        ok = check_pes_out(id, "t2d", &r, 0, nc, &h, pl, pl_len, d->align, false);
        if (ok)
            ok = check_pes_out(id, "t2d:second-packet", &r, nc + 1, nc + 1, &h2, pes2 + 9, 3, false, false);
        int want_ts = h.sid != 0xbe && h.opt && h.ptsdts ? 1 : 0;
        if (ok && r.n_ts != want_ts) {
            ok = false;
            report("t2d:clock-ts-events", id, "%d clock_ts event(s), expected %d", r.n_ts, want_ts);
        }
        if (ok && (r.n_acq != 1 || r.n_lost != 0)) {
            ok = false;
            report("t2d:sync-events", id, "%d sync_acquired / %d sync_lost event(s) on two well-formed packets", r.n_acq, r.n_lost);
        }
        if (ok && r.n_fatal) {
            ok = false;
            report("t2d:fatal", id, "%d fatal event(s) on well-formed packets", r.n_fatal);
        }
    } else {
        /* robustness: nothing invented, the next unit start resynchronises */
        uint8_t *all = malloc(n + sizeof(pes2));
        memcpy(all, b.p, n);
        memcpy(all + n, pes2, sizeof(pes2));
        if (!check_slices(&r, all, n + (int)sizeof(pes2))) {
            ok = false;
            report("t4p:output-not-part-of-the-input", id, "an output is not a slice of the input octets");
        }
        free(all);
        if (ok)
            ok = check_pes_out(id, "t4p:resync", &r, nc + 1, nc + 1, &h2, pes2 + 9, 3, false, false);
    }
    if (ok && r.fini_bad) {
        char sg[96];
        snprintf(sg, sizeof(sg), "%s:%s", mu && mu->kind ? "t4p" : "t2d", r.fsig);
        report(sg, id, "%s", r.fmsg);
    }
    pres_free(&r);
    vbuf_free(&b);
}

/* enumerates the well-formed packet descriptors; calls fn for each */
static void t2d_each(void (*fn)(const struct pdesc *, int n, int pl_off))
{
    for (int s = 0; s < T2D_NSIDS && !g_expired; s++) {
        bool opt = sid_has_opt(t2d_sids[s]);
        for (int pd = 0; pd < (opt ? 3 : 1); pd++) {
            int ptsdts = pd == 0 ? 0 : pd + 1;
            for (int tsi = 0; tsi < (ptsdts ? 4 : 1); tsi++)
                for (int st = 0; st < (opt ? 3 : 1); st++)
                    for (int al = 0; al < (opt ? 2 : 1); al++)
                        for (int pli = 0; pli < 3; pli++)
                            for (int lm = 0; lm < 2; lm++) {
                                struct pdesc d = {t2d_sids[s], ptsdts, tsi, st, al, pli, lm};
                                struct vbuf b = {0};
                                struct rpes h;
                                uint8_t pl[32];
                                int pl_len;
                                pdesc_build(&d, &h, pl, &pl_len, &b);
                                int n = (int)b.n;
                                vbuf_free(&b);
                                fn(&d, n, n - pl_len);
                            }
        }
    }
}

static void t2d_cuts(const struct pdesc *d, int n, int pl_off)
{
    (void)pl_off;
    if (take_case())
        run_t2d(d, 0, 0, 0, NULL);
    for (int c1 = 1; c1 < n && !g_expired; c1++) {
        if (take_case())
            run_t2d(d, c1, 0, 0, NULL);
        for (int c2 = c1 + 1; c2 < n; c2++) {
            if (take_case())
                run_t2d(d, c1, c2, 0, NULL);
            /* four chunks: thorough, bounded video packets */
            if (g_thorough && d->sid == 0xe0 && d->lenmode == 0)
                for (int c3 = c2 + 1; c3 < n; c3++)
                    if (take_case())
                        run_t2d(d, c1, c2, c3, NULL);
        }
    }
}

static void mode_t2(void)
{
    for (int si = 0; si < (g_thorough ? T2_NSIZES : T2_NSIZES_Q) && !g_expired; si++)
        for (int ti = 0; ti < T2_NTS; ti++)
            for (int di = 0; di < T2_NSIDS; di++)
                for (int hi = 0; hi < T2_NHDRS; hi++)
                    for (int seg = 0; seg < 2; seg++)
                        for (int rnd = 0; rnd < 2; rnd++) {
                            if (take_case())
                                run_t2e(si, ti, di, hi, seg, rnd);
                        }
    t2d_each(t2d_cuts);
}

/* T4 part 2: every header octet of reference PES packets replaced, every
 * truncation, in every cutting into two chunks */
static void t4p_one(const struct pdesc *d, int n, int pl_off)
{
    if (!g_thorough && !(d->sid == 0xe0 || d->sid == 0xbf || d->sid == 0xbe))
        return;
    if (d->pli == 0 || (!g_thorough && d->stuffing == 2))
        return;
    int hdr = pl_off + 1 < n ? pl_off + 1 : n;
    for (int pos = 0; pos < hdr && !g_expired; pos++) {
        int kinds[11], vals[11], nv = 0;
        kinds[nv] = 1, vals[nv++] = 0x00;
        kinds[nv] = 1, vals[nv++] = 0xff;
        kinds[nv] = 3, vals[nv++] = 0xff;
        for (int bit = 0; bit < 8; bit++)
            kinds[nv] = 3, vals[nv++] = 1 << bit;
        for (int v = 0; v < nv; v++)
            for (int c1 = 0; c1 < n; c1++) {
                if (!g_thorough && c1 > hdr + 1)
                    break;
                if (!take_case())
                    continue;
                struct mut mu = {kinds[v], 0, pos, vals[v]};
                run_t2d(d, c1, 0, 0, &mu);
            }
    }
    for (int l = 1; l < n && !g_expired; l++)
        for (int c1 = 0; c1 < l; c1++) {
            if (!take_case())
                continue;
            struct mut mu = {2, 0, l, 0};
            run_t2d(d, c1, 0, 0, &mu);
        }
}
static void t4_pes(void) { t2d_each(t4p_one); }

/* ================================================================== */
/* T3: ts_encaps driven like a mux, parsed, and fed back                 */
/* ================================================================== */
/* the first 10 are the quick tier; 184 - header: 165/166 (PTS+DTS), 170/171 (PTS), 157/158, 163/164 with an adaptation field */
static const int t3_sizes[] = {1, 165, 166, 170, 171, 183, 184, 185, 368, 1000, 2, 157, 158, 163, 164, 169, 172, 182, 186, 367, 369, 552};
#define T3_NSIZES_Q 10
#define T3_NSIZES 22
#define T3_NONE 99
static const uint64_t t3_pcr[] = {0, 7000, UCLOCK_FREQ};
#define T3_NPCR 3
#define T3_PID 68
#define T3_T0 ((uint64_t)UINT32_MAX)
#define T3_OFFSET (T3_T0 - 12345)     /* cr_sys - cr_prog of every access unit */
#define T3_STEP 3000                   /* mux packet interval (27 MHz) */
#define T3_MAXPK 96

struct t3au {
    int size;
    uint8_t *d;
    uint64_t cr_sys, cr_prog, cdd, dpd;
    bool rnd, disc;
    bool has_cr_prog;   /* date_prog is a clock reference (needed for PCRs) */
    bool has_pts;       /* the access unit has a PTS */
    bool pts_only;      /* date_prog is a bare PTS: no DTS can be derived */
    uint64_t D, P;      /* dts_prog / pts_prog in 27 MHz when present */
};

/* timestamp axis of T3. 0 is the original mix (first unit PTS = DTS + 3 frames, second PTS == DTS);
 * NONE = a DTS but no DTS->PTS delay (PTS unknown), PTSONLY = a bare PTS, NODATE = no program date at all;
 * the others give the dts_prog of the first unit (the second is 20000 ticks later, so its sub-tick phase differs by 200)
 * and the DTS->PTS delay of both. */
enum { T3TS_MIX, T3TS_NONE, T3TS_PTSONLY, T3TS_NODATE, T3TS_FIRST_TABLE };
static const struct {
    uint64_t dts, delay;
    const char *what;
} t3_tstab[] = {
    {UINT64_C(27000000) * 10 + 123, 0, "PTS == DTS"},
    {UINT64_C(300) * 100000 + 50, 100, "same 90 kHz tick, phase 50, delay 100"},
    {UINT64_C(300) * 100000, 299, "same tick, phase 0, delay 299"},
    {UINT64_C(300) * 100000 + 298, 1, "same tick, phase 298, delay 1"},
    {UINT64_C(300) * 100000, 1, "same tick, phase 0, delay 1"},
    {UINT64_C(300) * 100000 + 150, 100, "same tick, phase 150, delay 100"},
    {UINT64_C(300) * 100000 + 250, 100, "next tick, phase 250, delay 100"},
    {UINT64_C(300) * 100000 + 299, 1, "next tick, phase 299, delay 1"},
    {UINT64_C(300) * 100000, 300, "adjacent ticks, phase 0, delay 300"},
    {UINT64_C(300) * 100000 + 123, 300, "adjacent ticks, phase 123, delay 300"},
    {UINT64_C(27000000) * 10 + 123, UINT64_C(27000000) * 50 + 7, "large delay (50 s)"},
    {((UINT64_C(1) << 33) - 10) * 300 + 17, 15 * 300 + 5, "PTS wraps 2^33"},
    {((UINT64_C(1) << 33) + 5) * 300 + 1, 3003 * 300, "both beyond 2^33"},
    {((UINT64_C(1) << 33) - 1) * 300 + 299, 0, "last tick before the wrap, PTS == DTS"},
    {((UINT64_C(1) << 33) - 1) * 300 + 100, 150, "last tick before the wrap, same tick"},
    {((UINT64_C(1) << 33) - 1) * 300 + 200, 150, "PTS in tick 0 after the wrap"},
    {((UINT64_C(1) << 33) - 100) * 300 + 50, 100, "second unit wraps"},
};
#define T3_NTS (T3TS_FIRST_TABLE + (int)(sizeof(t3_tstab) / sizeof(t3_tstab[0])))

/* expected PES header timestamps of an access unit: PTS_DTS_flags and the 33-bit fields (2.4.3.7:
 * PTS = (27 MHz date DIV 300) % 2^33; a DTS is only coded when it differs from the PTS) */
static int t3_wire(const struct t3au *a, bool opt, uint64_t *wp, uint64_t *wd)
{
    *wp = *wd = 0;
    if (!opt || !a->has_pts)
        return 0;
    *wp = (a->P / 300) % POW33;
    *wd = a->pts_only ? *wp : (a->D / 300) % POW33;
    return *wp == *wd ? 2 : 3;
}
struct t3pk {
    uint8_t b[188];
    uint64_t mux;
    struct rts h;
};

static void t3_feed(struct cx *cx, struct upipe *enc, struct t3au *a)
{
    struct uref *u = mk_uref(cx, a->d, a->size, 0, 0);
    assert(u);
    uref_clock_set_cr_sys(u, a->cr_sys);
    uref_clock_set_cr_dts_delay(u, a->cdd);
    if (a->pts_only)
        uref_clock_set_pts_prog(u, a->P);
    else if (a->has_cr_prog) {
        uref_clock_set_cr_prog(u, a->cr_prog);
        if (a->has_pts)
            uref_clock_set_dts_pts_delay(u, a->dpd);
    }
    if (a->rnd)
        uref_flow_set_random(u);
    if (a->disc)
        uref_flow_set_discontinuity(u);
    VLOG("mux: input access unit of %d octets cr_sys=T0+%" PRIu64 "%s%s, %s dts_prog=%" PRIu64 " (tick %" PRIu64 " phase %d) pts_prog=%" PRIu64 " (tick %" PRIu64 " phase %d)", a->size,
         a->cr_sys - T3_T0, a->rnd ? " random" : "", a->disc ? " discontinuity" : "", a->pts_only ? "PTS only" : !a->has_cr_prog ? "no program date" : !a->has_pts ? "DTS, no PTS" : "DTS+PTS", a->D, a->D / 300,
         (int)(a->D % 300), a->P, a->P / 300, (int)(a->P % 300));
    upipe_input(enc, u, NULL);
    st_trans++;
}

/* 1: the (unchanged) flow definition is sent again after the first access unit has been input, i.e. while it is still
 * waiting to be spliced (a mux does this whenever an input's definition is updated); nothing may change in the output */
static int g_t3_redef;

static void run_t3(int s1, int s2, int di, int align, int pi, int flags, int feed, int hi, int ti)
{
    char id[96];
    if (g_t3_redef)
        snprintf(id, sizeof(id), "t3:%d.%d.%d.%d.%d.%d.%d.%d.%d.%d", s1, s2, di, align, pi, flags, feed, hi, ti, g_t3_redef);
    else
        snprintf(id, sizeof(id), "t3:%d.%d.%d.%d.%d.%d.%d.%d.%d", s1, s2, di, align, pi, flags, feed, hi, ti);
    int hdrmin = t2_hdrs[hi];
    v_crash_note(id);
    v_watchdog(30);
    unsigned sid = t2_sids[di];
    uint64_t pcr_int = t3_pcr[pi];
    struct t3au au[2];
    int nau = s2 != T3_NONE ? 2 : 1;
    for (int k = 0; k < nau; k++) {
        struct t3au *a = &au[k];
        a->size = t3_sizes[k == 0 ? s1 : s2];
        a->d = malloc(a->size);
        for (int i = 0; i < a->size; i++)
            a->d[i] = pat(200 + k, i);
        a->cr_sys = T3_T0 + UCLOCK_FREQ + (uint64_t)k * 20000;
        a->cdd = UCLOCK_FREQ / 2 + 77;
        a->has_cr_prog = a->has_pts = true;
        a->pts_only = false;
        if (ti < T3TS_FIRST_TABLE) {
            a->cr_prog = a->cr_sys - T3_OFFSET;
            a->dpd = k == 0 ? UCLOCK_FREQ / 25 * 3 + 11 : 0;
            a->D = a->cr_prog + a->cdd;
            if (ti == T3TS_NONE) /* a DTS alone cannot be coded: no PTS, no timestamp in the header */
                a->has_pts = false;
            else if (ti == T3TS_NODATE)
                a->has_pts = a->has_cr_prog = false;
            else if (ti == T3TS_PTSONLY) {
                a->pts_only = true;
                a->has_cr_prog = false;
                a->dpd = 0;
                a->D += 123 + 50 * k; /* sub-tick phase */
            }
        } else {
            a->D = t3_tstab[ti - T3TS_FIRST_TABLE].dts + (uint64_t)k * 20000;
            a->dpd = t3_tstab[ti - T3TS_FIRST_TABLE].delay;
            a->cr_prog = a->D - a->cdd;
        }
        a->P = a->D + a->dpd;
        a->rnd = (flags >> (2 * k)) & 1;
        a->disc = (flags >> (2 * k + 1)) & 1;
    }
    /* cr_sys - cr_prog, the same for every unit (mod 2^64) */
    uint64_t sys_prog_offset = au[0].cr_sys - au[0].cr_prog;
    bool ok = true;
    /* with a configured minimum header the signature names the configuration class */
#define XFAIL(sig_, ...)                                                       \
    do {                                                                       \
        if (ok) {                                                              \
            char sg_[160];                                                     \
            if (hdrmin)                                                        \
                snprintf(sg_, sizeof(sg_), "%s/stream_id=%02x,min_header=%d", sig_, sid, hdrmin); \
            else                                                               \
                snprintf(sg_, sizeof(sg_), "%s", sig_);                        \
            ok = false;                                                        \
            report(sg_, id, __VA_ARGS__);                                      \
        }                                                                      \
    } while (0)

    /* ---- phase 1: the harness is the mux ---- */
    struct cx *cx = malloc(sizeof(*cx));
    cx_init(cx);
    struct upipe *enc = upipe_void_alloc(upipe_ts_encaps_mgr_alloc(), px_probe(&cx->fx));
    assert(enc);
    struct uref *fd = uref_block_flow_alloc_def(cx->fx.uref_mgr, NULL);
    ubase_assert(uref_block_flow_set_octetrate(fd, 1000000));
    ubase_assert(uref_ts_flow_set_tb_rate(fd, 2000000));
    ubase_assert(uref_ts_flow_set_pid(fd, T3_PID));
    ubase_assert(uref_ts_flow_set_pes_id(fd, sid));
    if (align)
        ubase_assert(uref_ts_flow_set_pes_alignment(fd));
    if (hdrmin)
        ubase_assert(uref_ts_flow_set_pes_header(fd, hdrmin));
    ubase_assert(upipe_set_flow_def(enc, fd));
    if (pcr_int)
        ubase_assert(upipe_ts_mux_set_pcr_interval(enc, pcr_int));
    ubase_assert(upipe_ts_mux_set_cc(enc, 12));
    struct t3pk *pk = calloc(T3_MAXPK, sizeof(*pk));
    int npk = 0, fed = 0;
    bool eos = false;
    uint64_t mux = T3_T0;
#define t3_feed(cx_, enc_, a_)                                                  \
    do {                                                                       \
        (t3_feed)(cx_, enc_, a_);                                              \
        if (g_t3_redef && fed == 1) {                                          \
            VLOG("mux: the same flow definition again");                       \
            int e_ = upipe_set_flow_def(enc_, fd);                             \
            if (!ubase_check(e_))                                              \
                XFAIL("t3:redefinition-refused", "set_flow_def with the definition already in force returned %d", e_); \
        }                                                                      \
    } while (0)
    if (feed == 0)
        while (fed < nau)
            t3_feed(cx, enc, &au[fed++]);
    for (int iter = 0; iter < 400 && ok; iter++) {
        if (cx->s_cr == UINT64_MAX || !cx->s_ready) {
            /* nothing ready: give the next access unit, then signal the end */
            if (fed < nau) {
                t3_feed(cx, enc, &au[fed++]);
                continue;
            }
            if (!eos) {
                VLOG("mux: end of stream");
                ubase_assert(upipe_ts_encaps_eos(enc));
                eos = true;
                continue;
            }
            if (cx->s_cr == UINT64_MAX)
                break;
            XFAIL("t3:never-ready", "access unit still pending but ts_encaps never reports ready after end of stream");
            break;
        }
        uint64_t t = mux + T3_STEP;
        if (cx->s_cr > t)
            t = cx->s_cr;
        if (pcr_int && cx->s_pcr != UINT64_MAX && cx->s_pcr > mux && cx->s_pcr < t)
            t = cx->s_pcr > mux + T3_STEP ? cx->s_pcr : mux + T3_STEP; /* PCR due before the data */
        mux = t;
        struct ubuf *ubuf = NULL;
        uint64_t dts_sys = 0;
        int e = upipe_ts_encaps_splice(enc, mux, mux, &ubuf, &dts_sys);
        st_trans++;
        if (!ubase_check(e) || ubuf == NULL) {
            XFAIL("t3:splice-failed", "splice at T0+%" PRIu64 " returned error %d", mux - T3_T0, e);
            break;
        }
        size_t sz = 0;
        ubuf_block_size(ubuf, &sz);
        if (sz != 188)
            XFAIL("t3:packet-size", "splice returned a packet of %zu octets", sz);
        else if (npk < T3_MAXPK) {
            ubase_assert(ubuf_block_extract(ubuf, 0, 188, pk[npk].b));
            pk[npk].mux = mux;
            npk++;
        } else
            XFAIL("t3:too-many-packets", "more than %d packets", T3_MAXPK);
        ubuf_free(ubuf);
    }
    if (ok && pcr_int && cx->s_pcr != UINT64_MAX && npk < T3_MAXPK) {
        /* a PCR-only packet after the data */
        mux = cx->s_pcr > mux + T3_STEP ? cx->s_pcr : mux + T3_STEP;
        struct ubuf *ubuf = NULL;
        uint64_t dts_sys = 0;
        int e = upipe_ts_encaps_splice(enc, mux, mux, &ubuf, &dts_sys);
        st_trans++;
        size_t sz = 0;
        if (ubase_check(e) && ubuf != NULL && ubase_check(ubuf_block_size(ubuf, &sz)) && sz == 188) {
            ubase_assert(ubuf_block_extract(ubuf, 0, 188, pk[npk].b));
            pk[npk].mux = mux;
            npk++;
        } else
            XFAIL("t3:pcr-only-splice", "splice for a PCR-only packet: error %d size %zu", e, sz);
        ubuf_free(ubuf);
    }
#undef t3_feed
    uref_free(fd);
    int enc_fatal = cx->n_fatal;
    upipe_release(enc);
    st_exec++;
    char fsig[64];
    const char *fr = cx_fini(cx, fsig, sizeof(fsig));
    if (fr != NULL) {
        /* reported on its own: the packets are still parsed and fed back below */
        char sg[96];
        snprintf(sg, sizeof(sg), "t3:encaps:%s", fsig);
        report(sg, id, "%s", fr);
    }
    free(cx);
    if (enc_fatal)
        XFAIL("t3:encaps-fatal", "%d fatal event(s) in ts_encaps", enc_fatal);
    if (npk > 0)
        st_nontrivial++;
    st_packets += npk;

    /* ---- phase 2: reference parser on every packet ---- */
    unsigned cc = 12;
    uint64_t last_pcr = 0;
    int total_pl = 0, n_pusi = 0;
    for (int k = 0; k < npk && ok; k++) {
        struct rts *h = &pk[k].h;
        const char *e = rts_parse(pk[k].b, h);
        if (g_verbose) {
            char hx[40];
            hexstr(pk[k].b, 14, hx, sizeof(hx));
            VLOG("packet %d at T0+%" PRIu64 ": %s... payload %d octets", k, pk[k].mux - T3_T0, hx, 188 - h->pl_off);
        }
        if (e != NULL) {
            XFAIL("t3:packet-nonconformant", "packet %d: %s", k, e);
            break;
        }
        if (h->pid != T3_PID)
            XFAIL("t3:pid", "packet %d: PID %u, configured %d", k, h->pid, T3_PID);
        if (h->tei || h->scr)
            XFAIL("t3:header-bits", "packet %d: transport_error_indicator / scrambling set", k);
        if (h->pl)
            cc = (cc + 1) & 0xf;
        if (h->cc != cc)
            XFAIL("t3:continuity-counter", "packet %d (%s payload): continuity_counter %u, expected %u", k, h->pl ? "with" : "without", h->cc, cc);
        if (h->pusi && !h->pl)
            XFAIL("t3:pusi-without-payload", "packet %d", k);
        bool want_pcr = pcr_int && last_pcr + pcr_int <= pk[k].mux;
        bool has_pcr = h->af && h->af_len > 0 && h->pcrf;
        if (has_pcr != want_pcr)
            XFAIL("t3:pcr-placement", "packet %d at T0+%" PRIu64 ": PCR %s, previous PCR at %" PRIu64 ", interval %" PRIu64, k, pk[k].mux - T3_T0, has_pcr ? "present" : "absent",
                  last_pcr ? last_pcr - T3_T0 : 0, pcr_int);
        if (has_pcr) {
            last_pcr = pk[k].mux;
            uint64_t x = pk[k].mux - sys_prog_offset; /* the program clock at the mux date */
            uint64_t v = h->pcr_base * 300 + h->pcr_ext, want = ((x / 300) % POW33) * 300 + x % 300;
            if (v != want)
                XFAIL("t3:pcr-value", "packet %d: PCR %" PRIu64 ", the program clock at its mux date is %" PRIu64, k, v, want);
        }
        if (!h->pl && !has_pcr)
            XFAIL("t3:empty-packet", "packet %d has neither payload nor PCR", k);
        total_pl += 188 - h->pl_off;
        n_pusi += h->pusi;
    }

    /* ---- phase 3: ts_decaps -> pes_decaps ---- */
    struct pres rd, rp;
    memset(&rd, 0, sizeof(rd));
    memset(&rp, 0, sizeof(rp));
    int n_ref = 0;
    uint64_t ref_val[64];
    int ref_step[64];
    if (ok && npk > 0) {
        cx = malloc(sizeof(*cx));
        cx_init(cx);
        struct upipe *dec = upipe_void_alloc(upipe_ts_decaps_mgr_alloc(), px_probe(&cx->fx));
        struct upipe *pesd = upipe_void_alloc(upipe_ts_pesd_mgr_alloc(), px_probe(&cx->fx));
        assert(dec && pesd);
        cx->sk[0].next = pesd;
        ubase_assert(upipe_set_output(pesd, &cx->sk[1].upipe));
        ubase_assert(upipe_set_output(dec, &cx->sk[0].upipe));
        fd = uref_block_flow_alloc_def(cx->fx.uref_mgr, "mpegts.mpegtspes.");
        ubase_assert(upipe_set_flow_def(dec, fd));
        uref_free(fd);
        for (int k = 0; k < npk; k++) {
            cx->step = k;
            struct uref *u = mk_uref(cx, pk[k].b, 188, 0, 0);
            upipe_input(dec, u, NULL);
            st_trans++;
        }
        upipe_release(dec);
        upipe_release(pesd);
        cx->sk[0].next = NULL;
        pres_steal(&rd, &cx->sk[0]);
        pres_steal(&rp, &cx->sk[1]);
        n_ref = cx->n_ref < 64 ? cx->n_ref : 64;
        memcpy(ref_val, cx->ref_val, sizeof(ref_val));
        memcpy(ref_step, cx->ref_step, sizeof(ref_step));
        if (cx->sk[0].flow_err)
            XFAIL("t3:flow-def-rejected", "pes_decaps rejected the definition from ts_decaps");
        if (cx->n_fatal)
            XFAIL("t3:decaps-fatal", "%d fatal event(s) while decapsulating", cx->n_fatal);
        fr = cx_fini(cx, fsig, sizeof(fsig));
        if (fr != NULL) {
            char sg[96];
            snprintf(sg, sizeof(sg), "t3:decaps:%s", fsig);
            XFAIL(sg, "%s", fr);
        }
        free(cx);
        st_outputs += rd.nch + rp.nch;
    }
    /* PCR seen by ts_decaps = PCR encoded */
    for (int k = 0; k < n_ref && ok; k++) {
        struct rts *h = &pk[ref_step[k]].h;
        if (!(h->af && h->af_len > 0 && h->pcrf) || ref_val[k] != h->pcr_base * 300 + h->pcr_ext)
            XFAIL("t3:pcr-roundtrip", "ts_decaps reports PCR %" PRIu64 " on packet %d, encoded %" PRIu64, ref_val[k], ref_step[k], h->pcr_base * 300 + h->pcr_ext);
    }
    /* split what ts_decaps delivered into PES packets (unit start) and parse them */
    if (ok && npk > 0) {
        int all = 0;
        for (int k = 0; k < nau; k++)
            all += au[k].size;
        uint8_t *cat = malloc(all + 1), *got = malloc(all + 1);
        int o = 0;
        for (int k = 0; k < nau; k++) {
            memcpy(cat + o, au[k].d, au[k].size);
            o += au[k].size;
        }
        int gpos = 0, npes = 0, k = 0;
        int pes_wf[T3_MAXPK];
        uint64_t pes_wp[T3_MAXPK], pes_wd[T3_MAXPK];
        memset(pes_wf, 0, sizeof(pes_wf));
        memset(pes_wp, 0, sizeof(pes_wp));
        memset(pes_wd, 0, sizeof(pes_wd));
        while (k < rd.nch && ok) {
            if (!rd.ch[k].start) {
                XFAIL("t3:payload-before-unit-start", "ts_decaps output %d has no unit start and no PES packet is open", k);
                break;
            }
            int first = k, bytes = rd.ch[k].size;
            for (k++; k < rd.nch && !rd.ch[k].start; k++)
                bytes += rd.ch[k].size;
            const uint8_t *p = rd.data.p + rd.ch[first].off;
            struct rpes h;
            const char *e = rpes_parse(p, bytes, &h);
            if (e != NULL) {
                XFAIL("t3:pes-nonconformant", "PES packet %d (%d octets): %s", npes, bytes, e);
                break;
            }
            int plen = bytes - h.pl_off;
            VLOG("PES packet %d: %d octets, header %d, PTS_DTS_flags %d PTS %" PRIu64 " DTS %" PRIu64 " alignment %d, carries stream octets %d..%d", npes, bytes, h.pl_off,
                 h.ptsdts, h.pts, h.dts, h.align, gpos, gpos + plen);
            if (h.sid != sid)
                XFAIL("t3:stream-id", "stream_id %02x, configured %02x", h.sid, sid);
            {
                int natural = !h.opt ? 6 : h.ptsdts == 3 ? 19 : h.ptsdts == 2 ? 14 : 9;
                int want_hdr = h.opt && hdrmin > natural ? hdrmin : natural;
                if (h.pl_off != want_hdr)
                    XFAIL("t3:pes-header-size", "PES packet %d: header of %d octets, expected %d (configured minimum %d)", npes, h.pl_off, want_hdr, hdrmin);
            }
            if (h.length == 0)
                XFAIL("t3:pes-length", "PES_packet_length 0 for a %d-octet packet", bytes);
            if (gpos + plen > all) {
                XFAIL("t3:too-much-payload", "PES packet %d (stream_id %02x, %d octets, header %d) carries %d payload octets; with the previous packets that is more than the %d octets input", npes, h.sid, bytes, h.pl_off, plen, all);
                break;
            }
            memcpy(got + gpos, p + h.pl_off, plen);
            /* the access unit that commences in this packet */
            int austart = 0, which = -1;
            for (int a = 0; a < nau; a++) {
                if (austart >= gpos && austart < gpos + plen && which < 0)
                    which = a;
                austart += au[a].size;
            }
            if (align) {
                int want_start = 0;
                for (int a = 0; a < npes && a < nau; a++)
                    want_start += au[a].size;
                if (npes >= nau || gpos != want_start || plen != au[npes].size)
                    XFAIL("t3:aligned-pes-is-not-one-access-unit", "PES packet %d carries stream octets %d..%d, access unit %d is %d..%d", npes, gpos, gpos + plen, npes,
                          want_start, want_start + (npes < nau ? au[npes].size : 0));
            }
            if (h.opt) {
                int ast = 0;
                for (int a = 0; a < which; a++)
                    ast += au[a].size;
                if (h.align && (which < 0 || ast != gpos))
                    XFAIL("t3:alignment-indicator", "data_alignment_indicator set on PES packet %d whose payload does not begin with an access unit", npes);
                if (align && !h.align)
                    XFAIL("t3:alignment-indicator", "data_alignment_indicator clear on PES packet %d although PES alignment was requested", npes);
                if (which >= 0) {
                    uint64_t wp, wd;
                    int wf = t3_wire(&au[which], true, &wp, &wd);
                    if (wf == 0 && h.ptsdts != 0)
                        XFAIL("t3:pes-pts-invented", "PES packet %d: PTS_DTS_flags %d PTS %" PRIu64 " DTS %" PRIu64 " although access unit %d commencing in it has no PTS (dts_prog %" PRIu64 ", no dts_pts_delay)",
                              npes, h.ptsdts, h.pts, h.dts, which, au[which].D);
                    if (wf != 0 && h.ptsdts == 0)
                        XFAIL("t3:pes-pts-lost", "PES packet %d has no timestamp although access unit %d commencing in it has PTS %" PRIu64 " (pts_prog %" PRIu64 ", %s)", npes, which, wp,
                              au[which].P, au[which].pts_only ? "bare PTS" : "DTS + delay");
                    if (h.ptsdts != wf || (wf && h.pts != wp) || (wf == 3 && h.dts != wd))
                        XFAIL("t3:pes-timestamps", "PES packet %d: PTS_DTS_flags %d PTS %" PRIu64 " DTS %" PRIu64 " (header_data_length %d); access unit %d commencing in it asks for flags %d PTS %" PRIu64 " DTS %" PRIu64 " (pts_prog %" PRIu64 " dts_prog %" PRIu64 ")",
                              npes, h.ptsdts, h.pts, h.dts, h.hdl, which, wf, wp, wd, au[which].P, au[which].D);
                    if (npes < T3_MAXPK) {
                        pes_wf[npes] = wf;
                        pes_wp[npes] = wp;
                        pes_wd[npes] = wd;
                    }
                } else if (h.ptsdts)
                    XFAIL("t3:pes-timestamps", "PES packet %d has a PTS although no access unit commences in it", npes);
            }
            gpos += plen;
            npes++;
        }
        if (ok && (gpos != all || memcmp(got, cat, all)))
            XFAIL("t3:payload-roundtrip", "the PES packets carry %d octets, %d were input%s", gpos, all, gpos == all ? " (content differs)" : "");
        if (ok && n_pusi != npes)
            XFAIL("t3:pusi-count", "%d packets with payload_unit_start_indicator, %d PES packets", n_pusi, npes);
        /* what pes_decaps delivered: the elementary stream, markers, timestamps */
        int epos = 0, unit = -1;
        for (k = 0; k < rp.nch && ok; k++) {
            struct ochunk *c = &rp.ch[k];
            if (epos + c->size > all || memcmp(rp.data.p + c->off, cat + epos, c->size)) {
                XFAIL("t3:es-roundtrip", "pes_decaps output %d (%d octets at stream offset %d) differs from the input", k, c->size, epos);
                break;
            }
            if (c->start) {
                unit++;
                /* the unit-th unit start is the unit-th PES packet: its timestamps at 90 kHz precision, stored in 27 MHz */
                if (unit < npes && unit < T3_MAXPK && sid_has_opt(sid)) {
                    uint64_t wp = pes_wp[unit], wd = pes_wf[unit] == 3 ? pes_wd[unit] : pes_wp[unit];
                    uint64_t delay = ((POW33 + wp - wd) % POW33) * 300;
                    if (pes_wf[unit] == 0) {
                        if (c->has_dts_orig || c->has_dpd)
                            XFAIL("t3:es-timestamp-invented", "unit start %d carries a timestamp although its access unit has no PTS", unit);
                    } else if (!c->has_dts_orig || c->dts_orig != wd * 300 || (delay <= MAX_DELAY_27M && (!c->has_dpd || c->dpd != delay)))
                        XFAIL("t3:es-timestamps", "unit start %d: dts_orig %" PRId64 " dts_pts_delay %" PRId64 ", expected %" PRIu64 " and %" PRIu64 " (PTS %" PRIu64 " DTS %" PRIu64 " at 90 kHz)", unit,
                              c->has_dts_orig ? (int64_t)c->dts_orig : -1, c->has_dpd ? (int64_t)c->dpd : -1, wd * 300, delay, wp, wd);
                }
                if (align && unit < nau) {
                    if (c->random != au[unit].rnd)
                        XFAIL("t3:es-random-marker", "access unit %d: flow.random is %d, input had %d", unit, c->random, au[unit].rnd);
                    if (unit > 0 && c->disc != au[unit].disc)
                        XFAIL("t3:es-discontinuity-marker", "access unit %d: flow.discontinuity is %d, input had %d", unit, c->disc, au[unit].disc);
                    int want_start = 0;
                    for (int a = 0; a < unit; a++)
                        want_start += au[a].size;
                    if (epos != want_start)
                        XFAIL("t3:es-unit-start", "unit start %d at stream offset %d, access unit begins at %d", unit, epos, want_start);
                }
            } else if (c->random || (c->disc && k > 0))
                XFAIL("t3:es-marker-on-continuation", "pes_decaps output %d (continuation): random %d discontinuity %d", k, c->random, c->disc);
            epos += c->size;
            if (c->end && align) {
                int want_end = 0;
                for (int a = 0; a <= unit && a < nau; a++)
                    want_end += au[a].size;
                if (epos != want_end)
                    XFAIL("t3:es-unit-end", "block.end at stream offset %d, access unit %d ends at %d", epos, unit, want_end);
            }
        }
        if (ok && epos != all)
            XFAIL("t3:es-roundtrip", "pes_decaps delivered %d octets, %d were input", epos, all);
        if (ok && align && (unit + 1 != nau || (rp.nch && !rp.ch[rp.nch - 1].end)))
            XFAIL("t3:es-unit-count", "%d unit starts for %d access units (last output end=%d)", unit + 1, nau, rp.nch ? rp.ch[rp.nch - 1].end : -1);
        free(cat);
        free(got);
    }
    if (ok && npk == 0)
        XFAIL("t3:no-packet", "ts_encaps produced no packet for %d access unit(s)", nau);
#undef XFAIL
    pres_free(&rd);
    pres_free(&rp);
    free(pk);
    for (int k = 0; k < nau; k++)
        free(au[k].d);
}

static void mode_t3(void)
{
    int ns = g_thorough ? T3_NSIZES : T3_NSIZES_Q;
    for (int s1 = 0; s1 < ns && !g_expired; s1++)
        for (int s2i = 0; s2i <= ns; s2i++) {
            int s2 = s2i == ns ? T3_NONE : s2i;
            for (int di = 0; di < T2_NSIDS; di++)
                for (int align = 0; align < 2; align++)
                    for (int pi = 0; pi < T3_NPCR; pi++)
                        for (int flags = 0; flags < (s2 != T3_NONE ? 16 : 4); flags++)
                            for (int feed = 0; feed < (s2 != T3_NONE ? 2 : 1); feed++) {
                                if (take_case())
                                    run_t3(s1, s2, di, align, pi, flags, feed, 0, T3TS_MIX);
                                /* the definition sent again while the first unit is queued (no flags; thorough: all) */
                                if ((flags == 0 || g_thorough) && take_case()) {
                                    g_t3_redef = 1;
                                    run_t3(s1, s2, di, align, pi, flags, feed, 0, T3TS_MIX);
                                    g_t3_redef = 0;
                                }
                                /* configured minimum PES header: single access units (thorough: all) */
                                if ((s2 == T3_NONE || g_thorough) && take_case())
                                    run_t3(s1, s2, di, align, pi, flags, feed, 1, T3TS_MIX);
                            }
        }
    /* the timestamp axis: every size of the first unit x {alone, + 171, + 1000 octets} (thorough: + 4 sizes) x stream id x
     * alignment x PCR interval x {no flag, both random} (thorough: 4 flag sets, both feeding orders, minimum header) */
    static const int second_q[] = {T3_NONE, 4, 9}, second_t[] = {T3_NONE, 0, 4, 6, 9};
    static const int flags_q[] = {0, 5}, flags_t[] = {0, 5, 10, 15};
    for (int ti = 1; ti < T3_NTS && !g_expired; ti++)
        for (int s1 = 0; s1 < ns; s1++)
            for (int s2i = 0; s2i < (g_thorough ? 5 : 3); s2i++)
                for (int di = 0; di < T2_NSIDS; di++)
                    for (int align = 0; align < 2; align++)
                        for (int pi = 0; pi < T3_NPCR; pi++) {
                            if ((ti == T3TS_PTSONLY || ti == T3TS_NODATE) && pi != 0)
                                continue; /* a bare PTS gives no clock reference: ts_encaps documents that it drops such units when PCRs are on */
                            for (int fi = 0; fi < (g_thorough ? 4 : 2); fi++)
                                for (int feed = 0; feed < (g_thorough ? 2 : 1); feed++)
                                    for (int hi = 0; hi < (g_thorough ? 2 : 1); hi++) {
                                        int s2 = g_thorough ? second_t[s2i] : second_q[s2i];
                                        int fl = g_thorough ? flags_t[fi] : flags_q[fi];
                                        if (s2 == T3_NONE && (feed || (fl & 12)))
                                            continue;
                                        if (take_case())
                                            run_t3(s1, s2, di, align, pi, fl, feed, hi, ti);
                                    }
                        }
}


/* ================================================================== */
/* T5: PID routing (upipe_ts_pid_filter, upipe_ts_split): one packet of   */
/* every PID 0..8191; each output receives exactly the packets of its PID, */
/* unchanged and in order                                                 */
/* ================================================================== */
static void t5_packet(unsigned pid, unsigned cc, uint8_t out[188])
{
    struct rts h;
    uint8_t pl[188];
    memset(&h, 0, sizeof(h));
    h.pid = pid;
    h.pl = true;
    h.cc = cc;
    h.pusi = pid & 1;
    h.prio = (pid >> 1) & 1;
    for (int k = 0; k < 188; k++)
        pl[k] = pat(pid + 1, k);
    rts_build(&h, pl, out);
}

static const int t5_sets[][4] = {{-1, -1, -1, -1}, {0, -1, -1, -1}, {0x1abc, -1, -1, -1}, {8191, -1, -1, -1}, {0, 0x1abc, 8191, 7}, {1, 0x100, 0x1000, 0x1ffe}};
#define T5_NSETS 6

/* kind 0: pid_filter with set si (cut: 0 none, else two segments cut there); kind 1: the same but every PID of the set is
 * added and removed again before the inputs, except the first; kind 2: ts_split with subpipes on sets[si][0..2] + a second
 * subpipe on sets[si][0] */
static void run_t5(int kind, int si, int cut)
{
    char id[64];
    snprintf(id, sizeof(id), "t5:%d.%d.%d", kind, si, cut);
    v_crash_note(id);
    v_watchdog(60);
    struct cx *cx = malloc(sizeof(*cx));
    cx_init(cx);
    struct upipe *pipe = NULL, *subs[4] = {NULL, NULL, NULL, NULL};
    int want_pid[NSK][2]; /* PIDs each sink must receive (-1: none) */
    for (int i = 0; i < NSK; i++)
        want_pid[i][0] = want_pid[i][1] = -1;
    bool enabled[8192];
    memset(enabled, 0, sizeof(enabled));
    struct uref *fd = uref_block_flow_alloc_def(cx->fx.uref_mgr, "mpegts.");
    if (kind < 2) {
        pipe = upipe_void_alloc(upipe_ts_pidf_mgr_alloc(), px_probe(&cx->fx));
        assert(pipe);
        ubase_assert(upipe_set_flow_def(pipe, fd));
        ubase_assert(upipe_set_output(pipe, &cx->sk[0].upipe));
        for (int k = 0; k < 4; k++)
            if (t5_sets[si][k] >= 0) {
                ubase_assert(upipe_ts_pidf_add_pid(pipe, (uint16_t)t5_sets[si][k]));
                enabled[t5_sets[si][k]] = true;
                if (kind == 1 && k > 0) {
                    ubase_assert(upipe_ts_pidf_del_pid(pipe, (uint16_t)t5_sets[si][k]));
                    enabled[t5_sets[si][k]] = false;
                }
            }
    } else {
        pipe = upipe_void_alloc(upipe_ts_split_mgr_alloc(), px_probe(&cx->fx));
        assert(pipe);
        ubase_assert(upipe_set_flow_def(pipe, fd));
        for (int k = 0; k < 4; k++) {
            int pid = t5_sets[si][k == 3 ? 0 : k];
            if (pid < 0)
                continue;
            ubase_assert(uref_ts_flow_set_pid(fd, pid));
            subs[k] = upipe_flow_alloc_sub(pipe, px_probe(&cx->fx), fd);
            assert(subs[k]);
            /* sub 3 (second one on the first PID) shares sink 0 with nobody: it feeds sink 2 together with sub 2 only if that is unused */
            int sink = k == 3 ? (t5_sets[si][2] < 0 ? 2 : -1) : k;
            if (sink >= 0) {
                ubase_assert(upipe_set_output(subs[k], &cx->sk[sink].upipe));
                want_pid[sink][want_pid[sink][0] < 0 ? 0 : 1] = pid;
            }
        }
    }
    uref_free(fd);
    uint8_t (*pk)[188] = malloc(8192 * 188);
    for (unsigned pid = 0; pid < 8192; pid++) {
        t5_packet(pid, pid & 0xf, pk[pid]);
        cx->step = (int)pid;
        struct uref *u = mk_uref(cx, pk[pid], 188, cut, 0);
        upipe_input(pipe, u, NULL);
        st_trans++;
    }
    st_packets += 8192;
    for (int k = 0; k < 4; k++)
        upipe_release(subs[k]);
    upipe_release(pipe);
    st_exec++;
    bool ok = true;
    int nout = 0;
    for (int i = 0; i < NSK && ok; i++) {
        struct osink *s = &cx->sk[i];
        nout += s->nch;
        int k = 0;
        for (unsigned pid = 0; pid < 8192 && ok; pid++) {
            bool want = kind < 2 ? (i == 0 && enabled[pid]) : ((int)pid == want_pid[i][0] || (int)pid == want_pid[i][1]);
            int times = want ? 1 : 0;
            if (kind == 2 && want_pid[i][0] == want_pid[i][1] && want)
                times = 2;
            for (int t = 0; t < times && ok; t++) {
                if (k >= s->nch || s->ch[k].during != (int)pid) {
                    ok = false;
                    report(kind < 2 ? "t5:pid_filter:packet-lost" : "t5:ts_split:packet-lost", id, "output %d did not receive the packet of PID %u", i, pid);
                } else if (s->ch[k].size != 188 || memcmp(och_data(s, &s->ch[k]), pk[pid], 188)) {
                    ok = false;
                    report(kind < 2 ? "t5:pid_filter:packet-changed" : "t5:ts_split:packet-changed", id, "output %d: packet of PID %u arrived changed (%d octets)", i, pid,
                           s->ch[k].size);
                } else
                    k++;
            }
        }
        if (ok && k != s->nch) {
            ok = false;
            unsigned got = 0;
            if (s->ch[k].size >= 3)
                got = ((och_data(s, &s->ch[k])[1] & 0x1f) << 8) | och_data(s, &s->ch[k])[2];
            report(kind < 2 ? "t5:pid_filter:foreign-packet" : "t5:ts_split:foreign-packet", id, "output %d received a packet of PID %u (input %d) that is not routed to it", i, got,
                   s->ch[k].during);
        }
    }
    st_outputs += nout;
    if (nout)
        st_nontrivial++;
    VLOG("%d packets delivered", nout);
    if (ok && cx->n_fatal) {
        ok = false;
        report("t5:fatal", id, "%d fatal event(s)", cx->n_fatal);
    }
    char fsig[64];
    const char *fr = cx_fini(cx, fsig, sizeof(fsig));
    if (fr != NULL && ok) {
        char sg[96];
        snprintf(sg, sizeof(sg), "t5:%s", fsig);
        report(sg, id, "%s", fr);
    }
    free(pk);
    free(cx);
}

static void mode_t5(void)
{
    static const int cuts[] = {0, 1, 2, 3, 4};
    for (int kind = 0; kind < 3; kind++)
        for (int si = 0; si < T5_NSETS; si++)
            for (int c = 0; c < 5; c++)
                if (take_case())
                    run_t5(kind, si, cuts[c]);
}

static bool replay_other(const char *id)
{
    if (!strncmp(id, "t5:", 3)) {
        int a, b, c;
        if (sscanf(id, "t5:%d.%d.%d", &a, &b, &c) != 3 || a < 0 || a > 2 || b < 0 || b >= T5_NSETS || c < 0 || c > 187)
            return false;
        run_t5(a, b, c);
        return true;
    }
    if (!strncmp(id, "t2e:", 4)) {
        int a, b, c, d, e, f;
        if (sscanf(id, "t2e:%d.%d.%d.%d.%d.%d", &a, &b, &c, &d, &e, &f) != 6 || a < 0 || a >= T2_NSIZES || b < 0 || b >= T2_NTS || c < 0 || c >= T2_NSIDS || d < 0 ||
            d >= T2_NHDRS)
            return false;
        run_t2e(a, b, c, d, e, f);
        return true;
    }
    if (!strncmp(id, "t3:", 3)) {
        int a, b, c, d, e, f, g, h = 0, ti = 0, rd = 0;
        if (sscanf(id, "t3:%d.%d.%d.%d.%d.%d.%d.%d.%d.%d", &a, &b, &c, &d, &e, &f, &g, &h, &ti, &rd) < 7 || h < 0 || h >= T2_NHDRS || ti < 0 || ti >= T3_NTS || a < 0 || a >= T3_NSIZES || b < 0 || (b >= T3_NSIZES && b != T3_NONE) || c < 0 || c >= T2_NSIDS ||
            e < 0 || e >= T3_NPCR)
            return false;
        g_t3_redef = !!rd;
        run_t3(a, b, c, !!d, e, f & 15, !!g, h, ti);
        return true;
    }
    if (!strncmp(id, "t2d:", 4) || !strncmp(id, "t4p:", 4)) {
        struct pdesc d;
        int c1, c2, c3;
        if (sscanf(id + 4, "%x.%d.%d.%d.%d.%d.%d/c%d.%d.%d", &d.sid, &d.ptsdts, &d.tsi, &d.stuffing, &d.align, &d.pli, &d.lenmode, &c1, &c2, &c3) != 10)
            return false;
        if (d.tsi < 0 || d.tsi > 3 || d.stuffing < 0 || d.stuffing > 2 || d.pli < 0 || d.pli > 2 || (d.ptsdts != 0 && d.ptsdts != 2 && d.ptsdts != 3))
            return false;
        struct mut mu = {0, 0, 0, 0};
        const char *p = strchr(id + 4, '/');
        p = p ? strchr(p + 1, '/') : NULL;
        if (p != NULL) {
            unsigned v;
            if (sscanf(p, "/m%d.%x", &mu.pos, &v) == 2)
                mu.kind = 1, mu.val = (int)v;
            else if (sscanf(p, "/x%d.%x", &mu.pos, &v) == 2)
                mu.kind = 3, mu.val = (int)v;
            else if (sscanf(p, "/t%d", &mu.pos) == 1)
                mu.kind = 2;
            else
                return false;
        }
        run_t2d(&d, c1, c2, c3, mu.kind ? &mu : NULL);
        return true;
    }
    return false;
}

/* ================================================================== */
int main(int argc, char **argv)
{
    const char *mode = "t1";
    for (int i = 1; i < argc; i++) {
        if (!strcmp(argv[i], "--mode") && i + 1 < argc)
            mode = argv[++i];
        else if (!strcmp(argv[i], "--tier") && i + 1 < argc)
            g_thorough = !strcmp(argv[++i], "thorough");
        else if (!strcmp(argv[i], "--shard") && i + 1 < argc)
            sscanf(argv[++i], "%d/%d", &g_shard_i, &g_shard_n);
        else if (!strcmp(argv[i], "--deadline") && i + 1 < argc)
            g_deadline = atof(argv[++i]);
        else if (!strcmp(argv[i], "--replay") && i + 1 < argc)
            g_replay = argv[++i];
        else {
            fprintf(stderr, "unknown argument %s\n", argv[i]);
            return 2;
        }
    }
    setvbuf(stdout, NULL, _IOLBF, 0);
    v_crash_open();
    g_t0 = v_now();
    if (g_replay != NULL) {
        g_verbose = true;
        bool ok = false;
        if (!strncmp(g_replay, "t1:", 3))
            ok = replay_t1(g_replay);
        else
            ok = replay_other(g_replay);
        if (!ok) {
            printf("NOTE cannot parse case id %s\n", g_replay);
            return 2;
        }
        v_stat("violations", st_viol);
        return 0;
    }
    if (!strcmp(mode, "t1"))
        mode_t1();
    else if (!strcmp(mode, "t2"))
        mode_t2();
    else if (!strcmp(mode, "t3"))
        mode_t3();
    else if (!strcmp(mode, "t5"))
        mode_t5();
    else if (!strcmp(mode, "t4")) {
        t4_ts();
        t4_pes();
    } else {
        fprintf(stderr, "unknown mode %s\n", mode);
        return 2;
    }
    if (g_expired)
        v_incomplete("deadline of %.0f s reached in mode %s shard %d/%d after %lld executions", g_deadline, mode, g_shard_i, g_shard_n, st_exec);
    v_stat("states", st_states);
    v_stat("transitions", st_trans);
    v_stat("executions", st_exec);
    v_stat("nontrivial", st_nontrivial);
    v_stat("violations", st_viol);
    v_stat("packets_or_chunks_input", st_packets);
    v_stat("outputs_checked", st_outputs);
    v_stat("illformed_tail_not_judged", st_illformed);
    v_stat("skipped", st_skipped);
    return 0;
}
