/* C09 — a reference count runs its destructor exactly once under races.
 *
 * Harness A (--mode ref): one urefcount, T threads each start holding one
 * reference and run a balanced use/release sequence. Harness B (--mode ubuf):
 * a real ubuf_block_mem block; each thread starts with its own handle on the
 * shared area and dups / frees handles (pool depth 0 and 1), reading the
 * content before every free. vsched explores all interleavings with <= k
 * preemptions at atomic-op (+ ring) granularity.
 */
#undef NDEBUG
#include "upipe/ubase.h"
#include "upipe/uatomic.h"
#include "upipe/urefcount.h"
#include "upipe/umem.h"
#include "upipe/ubuf.h"
#include "upipe/ubuf_block.h"
#include "upipe/ubuf_block_mem.h"
#include "vcommon.h"
#include "vsched.h"
#include "count_umem.h"

static int g_mode; /* 0 ref, 1 ubuf */
static int g_T = 2, g_pool = 0;
static char g_seq[VS_MAXT][8];

/* ---- mode ref ---- */
static struct urefcount g_ref;
static int g_outstanding, g_destroyed;
static char g_err[256], g_errsig[64];

static void fail(const char *sig, const char *fmt, ...)
{
    if (g_err[0])
        return;
    va_list ap;
    va_start(ap, fmt);
    vsnprintf(g_err, sizeof(g_err), fmt, ap);
    va_end(ap);
    snprintf(g_errsig, sizeof(g_errsig), "%s", sig);
}

static void ref_dead(struct urefcount *r)
{
    (void)r;
    if (g_outstanding != 0)
        fail("ref:destroyed-while-referenced", "destructor ran while %d reference(s) were still outstanding", g_outstanding);
    if (++g_destroyed > 1)
        fail("ref:destroyed-twice", "destructor ran %d times", g_destroyed);
}

/* ---- mode ubuf ---- */
static struct cumem_mgr g_cumem;
static struct ubuf_mgr *g_bmgr;
static struct ubuf *g_first[VS_MAXT];
static int g_live_handles, g_area_frees;
static uint8_t *g_area;

static void on_area_free(struct cumem_mgr *c, uint8_t *buf, size_t size)
{
    (void)c;
    (void)size;
    if (buf != g_area)
        return;
    if (g_live_handles != 0)
        fail("ubuf:area-freed-while-handle-live", "shared area returned to the allocator while %d handle(s) were live", g_live_handles);
    if (++g_area_frees > 1)
        fail("ubuf:area-freed-twice", "shared area freed %d times", g_area_frees);
}

static void setup(void)
{
    g_err[0] = 0;
    g_destroyed = 0;
    if (g_mode == 0) {
        urefcount_init(&g_ref, ref_dead);
        for (int t = 1; t < g_T; t++)
            urefcount_use(&g_ref);
        g_outstanding = g_T;
        return;
    }
    cumem_mgr_init(&g_cumem);
    g_cumem.on_free = on_area_free;
    g_bmgr = ubuf_block_mem_mgr_alloc(g_pool, g_pool, &g_cumem.mgr, 0, 0, 0, 0);
    g_first[0] = ubuf_block_alloc(g_bmgr, 4);
    assert(g_first[0]);
    struct ubuf_block *b = ubuf_block_from_ubuf(g_first[0]);
    g_area = b->buffer;
    memcpy(b->buffer + b->offset, "\x11\x22\x33\x44", 4);
    for (int t = 1; t < g_T; t++) {
        g_first[t] = ubuf_dup(g_first[0]);
        assert(g_first[t]);
    }
    g_live_handles = g_T;
    g_area_frees = 0;
}

static void body(void *arg)
{
    int t = (int)(intptr_t)arg;
    const char *seq = g_seq[t];
    if (g_mode == 0) {
        for (int i = 0; seq[i]; i++) {
            vs_point(VS_K_USER, NULL);
            if (seq[i] == 'U') {
                urefcount_use(&g_ref);
                g_outstanding++;
            } else {
                g_outstanding--;
                urefcount_release(&g_ref);
            }
        }
        return;
    }
    struct ubuf *held[8];
    int nheld = 0;
    held[nheld++] = g_first[t];
    for (int i = 0; seq[i]; i++) {
        vs_point(VS_K_USER, NULL);
        if (seq[i] == 'U') {
            struct ubuf *d = ubuf_dup(held[0]);
            if (d == NULL) {
                fail("ubuf:dup-failed", "ubuf_dup failed");
                continue;
            }
            g_live_handles++;
            held[nheld++] = d;
        } else {
            struct ubuf *u = held[--nheld];
            /* the content must still be there: a premature free is caught by
             * ASan / the guard values */
            uint8_t buf[4];
            if (!ubase_check(ubuf_block_extract(u, 0, 4, buf)) || memcmp(buf, "\x11\x22\x33\x44", 4))
                fail("ubuf:content-lost", "content of a live handle changed");
            g_live_handles--;
            ubuf_free(u);
        }
    }
}

static int check(int outcome, char *sig, char *msg)
{
    char ps[128];
    size_t o = snprintf(ps, sizeof(ps), "%s:pool=%d", g_mode ? "ubuf" : "ref", g_pool);
    for (int t = 0; t < g_T; t++)
        o += snprintf(ps + o, sizeof(ps) - o, ":%s", g_seq[t]);
    if (outcome != VS_DONE)
        fail(outcome == VS_DEADLOCK ? "deadlock" : "horizon", "execution did not terminate");
    if (g_mode == 0) {
        if (!g_err[0] && g_destroyed != 1)
            fail("ref:never-destroyed", "all references released but the destructor ran %d times", g_destroyed);
    } else if (outcome == VS_DONE) {
        if (!g_err[0] && g_area_frees != 1)
            fail("ubuf:area-not-freed", "all handles freed but the shared area was freed %d times", g_area_frees);
        /* manager back to its creator's single reference, allocator balanced */
        ubuf_mgr_vacuum(g_bmgr);
        if (!g_err[0] && uatomic_load(&g_bmgr->refcount->refcount) != 1)
            fail("ubuf:mgr-refcount", "buffer manager refcount is %u after all handles were freed (expected 1)",
                 uatomic_load(&g_bmgr->refcount->refcount));
        ubuf_mgr_release(g_bmgr);
        if (!g_err[0] && (g_cumem.nlive != 0 || g_cumem.double_free || g_cumem.unknown_free))
            fail("ubuf:umem-accounting", "allocator: %d live areas, %d double frees, %d unknown frees (%s)", g_cumem.nlive,
                 g_cumem.double_free, g_cumem.unknown_free, g_cumem.err);
        if (!g_err[0] && cumem_refs(&g_cumem) != 1)
            fail("ubuf:umem-mgr-refcount", "umem manager refcount is %u at the end (expected 1)", cumem_refs(&g_cumem));
    }
    if (g_err[0]) {
        snprintf(sig, 256, "%s", g_errsig);
        snprintf(msg, 1024, "program [%s]: %s", ps, g_err);
        return 1;
    }
    return 0;
}

static void outcome_str(char *b, size_t n)
{
    snprintf(b, n, "destroyed=%d frees=%d", g_destroyed, g_area_frees);
}

/* balanced sequences: start holding 1, U needs >=1 held, end at 0 */
static int gen(char out[][8], int maxlen)
{
    int n = 0;
    for (int len = 1; len <= maxlen; len++)
        for (int code = 0; code < (1 << len); code++) {
            char s[8];
            int bal = 1;
            bool ok = true;
            for (int i = 0; i < len; i++) {
                s[i] = (code >> i) & 1 ? 'U' : 'R';
                if (bal < 1)
                    ok = false;
                bal += s[i] == 'U' ? 1 : -1;
            }
            s[len] = 0;
            if (ok && bal == 0)
                strcpy(out[n++], s);
        }
    return n;
}

int main(int argc, char **argv)
{
    int maxlen = 3;
    const char *only = NULL;
    struct vs_options opt;
    vs_default_options(&opt);
    vs_parse_args(&opt, argc, argv);
    for (int i = 1; i + 1 < argc; i++) {
        if (!strcmp(argv[i], "--mode")) g_mode = !strcmp(argv[i + 1], "ubuf");
        else if (!strcmp(argv[i], "--threads")) g_T = atoi(argv[i + 1]);
        else if (!strcmp(argv[i], "--maxlen")) maxlen = atoi(argv[i + 1]);
        else if (!strcmp(argv[i], "--pool")) g_pool = atoi(argv[i + 1]);
    }
    static char onlybuf[256];
    if (opt.replay && strchr(opt.replay, '@')) {
        snprintf(onlybuf, sizeof(onlybuf), "%.*s", (int)(strchr(opt.replay, '@') - opt.replay), opt.replay);
        only = onlybuf;
        opt.replay = strchr(opt.replay, '@') + 1;
    }
    setvbuf(stdout, NULL, _IOLBF, 0);
    v_crash_open();
    char seqs[64][8];
    int ns = gen(seqs, maxlen);
    struct vs_program prog = {.nthreads = g_T, .setup = setup, .check = check, .outcome_str = outcome_str};
    for (int t = 0; t < g_T; t++) {
        prog.fn[t] = body;
        prog.arg[t] = (void *)(intptr_t)t;
    }
    long long ex = 0, pts = 0, nt = 0, progs = 0, capped = 0, viol = 0;
    int minb = 99;
    double t0 = v_now();
    int idx[VS_MAXT] = {0};
    for (;;) {
        char ps[128];
        size_t o = snprintf(ps, sizeof(ps), "%s:pool=%d", g_mode ? "ubuf" : "ref", g_pool);
        for (int t = 0; t < g_T; t++) {
            strcpy(g_seq[t], seqs[idx[t]]);
            o += snprintf(ps + o, sizeof(ps) - o, ":%s", g_seq[t]);
        }
        if (!only || !strcmp(only, ps)) {
            struct vs_stats st;
            memset(&st, 0, sizeof(st));
            struct vs_options o2 = opt;
            o2.deadline_s = opt.deadline_s - (v_now() - t0);
            v_crash_note(ps);
            if (o2.deadline_s < 0.2 && !opt.replay)
                capped++;
            else {
                prog.name = ps;
                vs_explore_iter(&prog, &o2, &st);
                if (opt.replay)
                    return 0;
                progs++;
                ex += st.executions;
                pts += st.points;
                nt += st.executions; /* every execution races >= 2 threads on one counter */
                viol += st.violations;
                if (st.capped)
                    capped++;
                if (st.bound_completed < minb)
                    minb = st.bound_completed;
            }
        }
        int k = g_T - 1;
        while (k >= 0 && idx[k] == ns - 1)
            k--;
        if (k < 0)
            break;
        idx[k]++;
        for (int j = k + 1; j < g_T; j++)
            idx[j] = idx[k];
    }
    v_stat("states", pts);
    v_stat("transitions", pts);
    v_stat("executions", ex);
    v_stat("nontrivial", nt);
    v_stat("programs", progs);
    v_stat("violations", viol);
    v_stat("min_bound_completed", progs ? minb : 0);
    if (capped)
        v_incomplete("c09: deadline hit, %lld programs not completed at the requested bound", capped);
    return 0;
}
