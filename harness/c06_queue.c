/* C06 (L1) — buffers cross threads exactly once, in order, through the queue
 * sink / queue source pair, under every interleaving with <= k preemptions.
 *
 * Thread 0 (producer): owns the real upipe_qsink; runs a script over
 *   f/F = set_flow_def(F1/F2), i = input(next buffer), x = flush, a = attach_upump_mgr, r = release
 *   then its own mock event loop until nothing is alive.
 * Thread 1 (consumer): owns the real upipe_qsrc + a recording sink; runs its
 *   mock event loop; on 'source_end' it releases the queue source.
 * Scheduling points: every atomic operation and every simulated descriptor
 * read/write on the shared objects (queue, refcounts), every loop iteration;
 * which ready pump a loop dispatches is an explored choice.
 * DESIGN.md section 3, C06. */
#include "pipex.h"
#include "vsched.h"
#include "simfd.h"

#include "upipe-modules/upipe_queue_sink.h"
#include "upipe-modules/upipe_queue_source.h"

#include <sanitizer/asan_interface.h>

static const char *g_script = "fiir";
static int g_qlen = 1;
static bool g_loop = true;   /* producer has an event loop */
static int g_maxlen = 0;     /* set_max_length on the sink */
static int g_preattach = 0;  /* 1: before the threads exist the application connects the queue source and attaches it to an event loop of
                              * its own (both watchers are created there); the consumer thread then attaches it to *its* loop, as a
                              * transfer to a worker thread does: nothing of the queue source may stay on the first loop */
static bool g_pre;
static struct upump_mgr *g_pre_mgr;

static struct px_fix fx;
static struct upump_mgr *g_mgr[2];
static struct upipe *g_qsrc, *g_qsink;
static bool g_qsrc_held;       /* consumer still holds its reference */
static bool g_source_end;
static int g_source_end_stamp;
static int g_sent;             /* buffers input so far */
static int g_sent_flow[16];    /* flow id in force when buffer k was input */
static int g_flushed_upto;     /* buffers input before the last flush may legitimately be missing */
static char g_err[400], g_errsig[96];
static bool g_fixture_live;
static bool g_script_done;
static char g_outcome[96];

static void fail(const char *sig, const char *fmt, ...)
{
    if (g_err[0])
        return;
    va_list ap;
    va_start(ap, fmt);
    vsnprintf(g_err, sizeof(g_err), fmt, ap);
    va_end(ap);
    snprintf(g_errsig, sizeof(g_errsig), "%s", sig);
}

static int on_event(struct px_fix *f, struct upipe *upipe, int event, va_list args)
{
    (void)f;
    if (event == UPROBE_NEED_UPUMP_MGR && g_pre) {
        struct upump_mgr **p = va_arg(args, struct upump_mgr **);
        *p = upump_mgr_use(g_pre_mgr);
        return UBASE_ERR_NONE;
    }
    if (event == UPROBE_NEED_UPUMP_MGR) {
        int t = vs_self();
        if (t < 0)
            t = upipe == g_qsink ? 0 : 1;
        if (t == 0 && !g_loop)
            return UBASE_ERR_UNHANDLED;
        struct upump_mgr **p = va_arg(args, struct upump_mgr **);
        *p = upump_mgr_use(g_mgr[t]);
        return UBASE_ERR_NONE;
    }
    if (event == UPROBE_SOURCE_END && upipe == g_qsrc) {
        g_source_end = true;
        g_source_end_stamp = fx.stamp;
        return UBASE_ERR_NONE;
    }
    return UBASE_ERR_UNHANDLED;
}

static void ignore_block_of(const void *p)
{
    char name[16];
    void *base = NULL;
    size_t size = 0;
    __asan_locate_address((void *)p, name, sizeof(name), &base, &size);
    if (base && size)
        vs_ignore_range(base, size);
}

static bool g_idle[2];
static int g_stuck = -1, g_stuck_got;

static void setup(void)
{
    simfd_reset();
    g_err[0] = 0;
    g_source_end = false;
    g_source_end_stamp = -1;
    g_sent = 0;
    g_stuck = -1;
    g_idle[0] = g_idle[1] = false;
    g_flushed_upto = 0;
    g_script_done = false;
    struct px_cfg cfg = {.pool = 0, .prepend = 0, .append = 0, .align = 0};
    px_fix_init(&fx, &cfg);
    g_fixture_live = true;
    fx.on_event = on_event;
    fx.provide_upump_mgr = false; /* each thread gets its own loop from on_event, never the chain's */
    for (int i = 0; i < PX_NSINKS; i++)
        fx.sinks[i].unhandled_requests = true;
    g_mgr[1] = fx.upump_mgr;
    g_mgr[0] = vmock_mgr_alloc(0, 0);
    /* the managers are thread-safe shared services (C07/C09): their internal atomics are not
     * scheduling points here; the queue, the pipes' refcounts and the descriptors are */
    vs_ignore_reset();
    vs_ignore_range(&fx, sizeof(fx));
    ignore_block_of(fx.udict_mgr);
    ignore_block_of(fx.uref_inner);
    ignore_block_of(fx.ubuf_mgr);
    ignore_block_of(g_mgr[0]);
    ignore_block_of(g_mgr[1]);
    g_qsrc = upipe_qsrc_alloc(upipe_qsrc_mgr_alloc(), px_probe(&fx), g_qlen);
    assert(g_qsrc);
    g_qsrc_held = true;
    g_qsink = upipe_qsink_alloc(upipe_qsink_mgr_alloc(), px_probe(&fx), g_qsrc);
    assert(g_qsink);
    if (g_preattach) {
        g_pre_mgr = vmock_mgr_alloc(0, 0);
        ignore_block_of(g_pre_mgr);
        g_pre = true;
        ubase_assert(upipe_set_output(g_qsrc, &fx.sinks[0].upipe));
        ubase_assert(upipe_attach_upump_mgr(g_qsrc));
        g_pre = false;
    }
}

static bool loop_ready(void *arg)
{
    struct vmock_pump *r[8];
    return vmock_ready((struct upump_mgr *)arg, r, 8) > 0;
}

/* what a loop iteration can change that the harness can see: readable descriptors, records */
static uint64_t progress_sig(void)
{
    uint64_t h = (uint64_t)fx.nsrec * 1000003u + (uint64_t)fx.nerec;
    for (int fd = SIMFD_BASE; fd < SIMFD_BASE + 24; fd++)
        h = h * 3 + (simfd_readable(fd) ? 1 : 0);
    h = h * 31 + (uint64_t)vmock_alive(g_mgr[0]) * 7 + (uint64_t)vmock_alive(g_mgr[1]);
    return h;
}

/* one iteration of a mock loop; returns false when nothing is alive any more */
static bool loop_once(int t)
{
    struct vmock_pump *r[8];
    int n = vmock_ready(g_mgr[t], r, 8);
    if (n == 0) {
        if (vmock_alive(g_mgr[t]) == 0)
            return false;
        g_idle[t] = true;
        vs_wait(loop_ready, g_mgr[t]);
        g_idle[t] = false;
        return true;
    }
    vs_point(VS_K_LOOP, NULL);
    n = vmock_ready(g_mgr[t], r, 8);
    if (n == 0)
        return true;
    int c = n > 1 ? vs_choose(n, 1) : 0;
    uint64_t before = progress_sig();
    vmock_dispatch(r[c]);
    if (progress_sig() == before)
        vs_yield(); /* the callback changed nothing visible: a retry through the loop; be fair */
    return true;
}

/* one loop step in the middle of a script: never sleeps */
static void loop_step(int t)
{
    if (loop_ready(g_mgr[t]))
        loop_once(t);
}

/* the producer has nothing to run and the consumer sleeps on descriptors none of which is readable */
static bool quiescent(void *arg)
{
    (void)arg;
    return loop_ready(g_mgr[0]) || (g_idle[1] && !loop_ready(g_mgr[1]));
}

static void producer(void *arg)
{
    (void)arg;
    if (g_maxlen)
        ubase_assert(upipe_set_max_length(g_qsink, g_maxlen));
    int flow = 0;
    for (const char *p = g_script; *p; p++) {
        switch (*p) {
        case 'f':
        case 'F': {
            flow = *p == 'f' ? 1 : 2;
            vs_atomic_begin();
            struct uref *f = px_flow(&fx, "block.", flow);
            vs_atomic_end();
            ubase_assert(upipe_set_flow_def(g_qsink, f));
            vs_atomic_begin();
            uref_free(f);
            vs_atomic_end();
            break;
        }
        case 'i': {
            vs_atomic_begin();
            struct uref *u = px_uref(&fx, g_sent, 2, 1, false);
            vs_atomic_end();
            g_sent_flow[g_sent] = flow;
            g_sent++;
            upipe_input(g_qsink, u, NULL);
            break;
        }
        case 'a': /* (re-)attach the producer's event loop, legal at any time */
            upipe_attach_upump_mgr(g_qsink);
            break;
        case 'x':
            upipe_flush(g_qsink);
            g_flushed_upto = g_sent;
            break;
        case 'l': /* let the loop run one step mid-script */
            loop_step(0);
            break;
        case 'w': { /* run the producer's loop until both sides are quiescent, then look at what arrived */
            for (;;) {
                if (loop_ready(g_mgr[0])) {
                    loop_once(0);
                    continue;
                }
                if (g_idle[1] && !loop_ready(g_mgr[1]))
                    break;
                vs_wait(quiescent, NULL);
            }
            int got = 0;
            for (int i = 0; i < fx.nsrec; i++)
                got += fx.srec[i].sink == 0 && fx.srec[i].kind == PXS_INPUT;
            if (g_loop && got < g_sent - g_flushed_upto && g_stuck < 0) {
                g_stuck = g_sent;
                g_stuck_got = got;
            }
            break;
        }
        case 'r':
            upipe_release(g_qsink);
            break;
        }
    }
    g_script_done = true;
    while (loop_once(0))
        ;
}

static void consumer(void *arg)
{
    (void)arg;
    ubase_assert(upipe_attach_upump_mgr(g_qsrc));
    ubase_assert(upipe_set_output(g_qsrc, &fx.sinks[0].upipe));
    if (g_preattach && vmock_mgr_from_upump_mgr(g_pre_mgr)->npumps != 0)
        fail("queue:watcher-left-on-previous-loop", "after the queue source was attached to the consumer's event loop, %d of its watchers still live on the loop it was attached to before",
             vmock_mgr_from_upump_mgr(g_pre_mgr)->npumps);
    for (;;) {
        if (g_source_end && g_qsrc_held) {
            g_qsrc_held = false;
            upipe_release(g_qsrc);
        }
        if (!loop_once(1))
            break;
        if (!g_script_done)
            vs_mark_nontrivial(); /* the consumer's loop ran while the producer was still in its script */
    }
}

static void cfg_str(char *b, size_t n)
{
    snprintf(b, n, "queue:script=%s:qlen=%d:loop=%d:maxlen=%d", g_script, g_qlen, g_loop, g_maxlen);
}

static int check(int outcome, char *sig, char *msg)
{
    char cs[96];
    cfg_str(cs, sizeof(cs));
    if (outcome == VS_DEADLOCK)
        fail("queue:deadlock", "every unfinished thread is asleep on a non-readable descriptor (sent %d, source_end %d, queue length %u)", g_sent,
             g_source_end, (unsigned)0);
    else if (outcome == VS_HORIZON)
        fail("queue:livelock", "execution exceeded the horizon");
    if (getenv("C06_DUMP")) {
        for (int i = 0; i < fx.nerec; i++)
            printf("  event #%d T%d pipe=%s %s %s\n", fx.erec[i].stamp, fx.erec[i].thread,
                   fx.erec[i].pipe == g_qsink ? "qsink" : fx.erec[i].pipe == g_qsrc ? "qsrc" : "other", px_event_name(fx.erec[i].event), fx.erec[i].text);
        for (int i = 0; i < fx.nsrec; i++)
            printf("  sink #%d T%d kind=%d seq=%" PRId64 " flow=%d\n", fx.srec[i].stamp, fx.srec[i].thread, fx.srec[i].kind, fx.srec[i].seq, fx.srec[i].flow_id);
    }
    if (g_stuck >= 0)
        fail("queue:stuck:consumer-asleep-with-buffer-queued",
             "both loops were idle (no descriptor readable) after %d buffer(s) were sent, yet only %d had reached the consumer", g_stuck, g_stuck_got);
    if (outcome == VS_DONE) {
        /* ---- what the consumer-side sink saw ---- */
        int expect_next = 0, cur_flow = -1, last_buf_stamp = -1;
        bool have_def = false;
        for (int i = 0; i < fx.nsrec; i++) {
            struct px_srec *r = &fx.srec[i];
            if (r->sink != 0)
                continue;
            if (r->thread != 1)
                fail("thread:sink-entered-from-wrong-thread", "the consumer's sink was entered from thread %d", r->thread);
            if (r->kind == PXS_FLOWDEF) {
                have_def = true;
                cur_flow = r->flow_id;
            } else if (r->kind == PXS_INPUT) {
                last_buf_stamp = r->stamp;
                if (!have_def)
                    fail("queue:data-before-definition", "buffer seq=%" PRId64 " reached the consumer before any flow definition", r->seq);
                if (r->seq < 0 || r->seq >= g_sent)
                    fail("queue:invented", "buffer with sequence %" PRId64 " was never sent", r->seq);
                else if (r->seq < expect_next)
                    fail(r->seq == expect_next - 1 ? "queue:duplicated" : "queue:reordered", "buffer seq=%" PRId64 " arrived after seq=%d", r->seq, expect_next - 1);
                else {
                    bool may_skip = !g_loop; /* without a loop a full queue drops, documented */
                    for (int k = expect_next; k < r->seq; k++)
                        if (!may_skip && k >= g_flushed_upto)
                            fail("queue:lost", "buffer seq=%d never arrived (seq=%" PRId64 " did)", k, r->seq);
                    expect_next = (int)r->seq + 1;
                    if (g_sent_flow[r->seq] != cur_flow && (g_loop || cur_flow > g_sent_flow[r->seq]))
                        fail("queue:wrong-definition", "buffer seq=%" PRId64 " was sent under flow %d but the consumer's last definition is flow %d", r->seq,
                             g_sent_flow[r->seq], cur_flow);
                    if (r->size != 2 || r->bytes[0] != px_octet((int)r->seq, 0))
                        fail("queue:payload", "buffer seq=%" PRId64 " arrived with other content", r->seq);
                }
            }
        }
        if (g_loop)
            for (int k = expect_next; k < g_sent; k++)
                if (k >= g_flushed_upto)
                    fail("queue:lost", "buffer seq=%d never arrived although the producer has an event loop", k);
        if (!g_source_end)
            fail("queue:no-source-end", "the queue source never signalled end of source although the sink was released");
        else if (last_buf_stamp > g_source_end_stamp)
            fail("queue:data-after-source-end", "a buffer was delivered after source_end");
        /* ---- thread confinement of the two pipes ---- */
        for (int i = 0; i < fx.nerec; i++) {
            struct px_erec *e = &fx.erec[i];
            if (e->thread < 0)
                continue;
            if (e->pipe == g_qsink && e->thread != 0)
                fail("thread:qsink-event-from-wrong-thread", "queue sink threw '%s' (%s) from thread %d", px_event_name(e->event), e->text, e->thread);
            if (e->pipe == g_qsrc && e->thread != 1 && e->event != UPROBE_LOG)
                fail("thread:qsrc-event-from-wrong-thread", "queue source threw '%s' from thread %d", px_event_name(e->event), e->thread);
        }
        char sg[96];
        const char *m = px_check_lifecycle(&fx, sg, sizeof(sg));
        if (m)
            fail(sg, "%s", m);
    }
    if (g_err[0]) {
        snprintf(sig, 256, "%s", g_errsig);
        snprintf(msg, 1024, "config [%s]: %s", cs, g_err);
        return 1;
    }
    return 0;
}

static void outcome_compute(char *b, size_t n);
static int g_acct_fail;
static char g_acct_sig[96], g_acct_msg[300];

static void teardown(void)
{
    /* runs after check(); accounting problems are reported through the next check via g_acct_* */
    if (!g_fixture_live)
        return;
    g_fixture_live = false;
}

/* accounting must be part of the verdict: do it inside check for completed runs */
static int check_full(int outcome, char *sig, char *msg)
{
    int r = check(outcome, sig, msg);
    outcome_compute(g_outcome, sizeof(g_outcome));
    if (g_preattach && g_pre_mgr != NULL) {
        struct vmock_mgr *pm = vmock_mgr_from_upump_mgr(g_pre_mgr);
        if (outcome == VS_DONE) { /* (an abandoned execution leaves its objects behind) */
            upump_mgr_release(g_pre_mgr);
            free(pm);
        }
        g_pre_mgr = NULL;
    }
    if (outcome == VS_DONE) {
        struct vmock_mgr *vm = vmock_mgr_from_upump_mgr(g_mgr[0]);
        int npumps = vm->npumps;
        unsigned refs = uatomic_load(&vm->urefcount.refcount);
        upump_mgr_release(g_mgr[0]);
        free(vm);
        char sg[96] = "";
        const char *m = px_fix_fini(&fx, sg, sizeof(sg));
        if (r == 0 && (npumps || refs != 1)) {
            snprintf(sig, 256, "end:producer-loop-leak");
            snprintf(msg, 1024, "producer's event loop manager has %d pump(s) and %u reference(s) left", npumps, refs);
            return 1;
        }
        if (r == 0 && m) {
            char cs[96];
            cfg_str(cs, sizeof(cs));
            snprintf(sig, 256, "%s", sg);
            snprintf(msg, 1024, "config [%s]: %s", cs, m);
            return 1;
        }
    }
    /* aborted executions (deadlock / horizon) abandon their coroutines: the fixture is left behind */
    return r;
}

static void outcome_compute(char *b, size_t n);
static void outcome_str(char *b, size_t n) { snprintf(b, n, "%s", g_outcome); }
static void outcome_compute(char *b, size_t n)
{
    int got = 0, defs = 0;
    for (int i = 0; i < fx.nsrec && fx.srec; i++)
        if (fx.srec[i].sink == 0) {
            got += fx.srec[i].kind == PXS_INPUT;
            defs += fx.srec[i].kind == PXS_FLOWDEF;
        }
    int stalled = 0;
    for (int i = 0; i < fx.nerec && fx.erec; i++)
        stalled += fx.erec[i].event == UPROBE_STALLED;
    snprintf(b, n, "got=%d defs=%d stalled=%d end=%d", got, defs, stalled, g_source_end);
}

int main(int argc, char **argv)
{
    struct vs_options opt;
    vs_default_options(&opt);
    opt.horizon = 6000;
    vs_parse_args(&opt, argc, argv);
    for (int i = 1; i + 1 < argc; i++) {
        if (!strcmp(argv[i], "--script")) g_script = argv[i + 1];
        else if (!strcmp(argv[i], "--qlen")) g_qlen = atoi(argv[i + 1]);
        else if (!strcmp(argv[i], "--loop")) g_loop = atoi(argv[i + 1]) != 0;
        else if (!strcmp(argv[i], "--maxlen")) g_maxlen = atoi(argv[i + 1]);
        else if (!strcmp(argv[i], "--preattach")) g_preattach = atoi(argv[i + 1]);
    }
    /* atomics, descriptors, loop iterations, explicit points; not the ring's plain accesses (C07) */
    opt.kind_mask = 0xffffffffu & ~((1u << 5) | (1u << 6));
    if (opt.replay && strchr(opt.replay, '@'))
        opt.replay = strchr(opt.replay, '@') + 1;
    setvbuf(stdout, NULL, _IOLBF, 0);
    v_crash_open();
    px_self_fn = vs_self;
    char cs[96];
    cfg_str(cs, sizeof(cs));
    struct vs_program prog = {.name = cs, .nthreads = 2, .setup = setup, .check = check_full, .teardown = teardown, .outcome_str = outcome_str};
    prog.fn[0] = producer;
    prog.fn[1] = consumer;
    struct vs_stats st;
    memset(&st, 0, sizeof(st));
    vs_explore_iter(&prog, &opt, &st);
    if (opt.replay)
        return 0;
    v_stat("states", st.points);
    v_stat("transitions", st.points);
    v_stat("executions", st.executions);
    v_stat("nontrivial", st.nontrivial);
    v_stat("deadlocks", st.deadlocks);
    v_stat("violations", st.violations);
    v_stat("distinct_outcomes", st.distinct_outcomes);
    v_stat("min_bound_completed", st.bound_completed);
    v_stat("max_points_per_execution", st.max_points);
    if (st.capped)
        v_incomplete("c06 [%s]: deadline hit; preemption bound %d completed (requested %d)", cs, st.bound_completed, opt.bound);
    return 0;
}
