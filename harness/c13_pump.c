/* C13 — a pump fires only while started and not blocked.
 *
 * seqx BFS to closure over start / stop / restart / set_status / blocker alloc
 * / blocker free / dispatch / free on one pump of the mock manager (real
 * lib/upipe/upump_common.c, table back-end), against a reference automaton
 *     active == started && no blocker held && !freed.
 * --backend ev replays the same alphabet on a real upump_ev idler pump and
 * compares what libev actually invokes with the automaton (conformance of the
 * mock back-end).
 *
 * args: --type idler|timer|fd --cb none|stop|block|free|start --backend mock|ev
 */
#undef NDEBUG
#include "upipe/ubase.h"
#include "upipe/urefcount.h"
#include "upipe/upump.h"
#include "upipe/upump_blocker.h"
#include "upump-ev/upump_ev.h"
#include "seqx.h"
#include "vmock_upump.h"
#include <ev.h>

enum { CB_NONE, CB_STOP, CB_BLOCK, CB_FREE, CB_START };
static int g_type = UPUMP_TYPE_IDLER, g_cb = CB_NONE, g_ev = 0;
#define NBLK 3

struct st {
    struct upump_mgr *mgr;
    struct ev_loop *loop;
    struct upump *pump;
    struct urefcount owner;
    struct upump_blocker *blk[NBLK];
    int notified[NBLK];
    int unknown_notified;
    /* reference automaton */
    bool started, status, freed;
    int nblk;
    long cb_calls, cb_after_free;
    bool owner_dead;
};
static struct st *g_cur; /* state whose callbacks are running */

static void owner_dead(struct urefcount *r) { container_of(r, struct st, owner)->owner_dead = true; }

static void blocker_cb(struct upump_blocker *b)
{
    struct st *s = upump_blocker_get_opaque(b, struct st *);
    int i;
    for (i = 0; i < NBLK; i++)
        if (s->blk[i] == b)
            break;
    if (i == NBLK)
        s->unknown_notified++;
    else {
        s->notified[i]++;
        s->blk[i] = NULL;
        s->nblk--;
    }
    /* like upipe_helper_input: unlink and release the blocker */
    upump_blocker_free(b);
}

static void pump_cb(struct upump *upump)
{
    struct st *s = upump_get_opaque(upump, struct st *);
    s->cb_calls++;
    if (s->freed)
        s->cb_after_free++;
    switch (g_cb) {
    case CB_STOP:
        upump_stop(upump);
        s->started = false;
        break;
    case CB_BLOCK:
        for (int i = 0; i < NBLK; i++)
            if (s->blk[i] == NULL) {
                s->blk[i] = upump_blocker_alloc(upump, blocker_cb, s);
                s->nblk++;
                break;
            }
        break;
    case CB_FREE:
        s->freed = true;
        s->started = false;
        upump_free(upump);
        s->pump = NULL;
        break;
    case CB_START:
        upump_start(upump);
        break;
    default: break;
    }
}

static void *c13_init(void)
{
    struct st *s = calloc(1, sizeof(*s));
    urefcount_init(&s->owner, owner_dead);
    if (g_ev) {
        s->loop = ev_loop_new(0);
        s->mgr = upump_ev_mgr_alloc(s->loop, 0, 0);
    } else
        s->mgr = vmock_mgr_alloc(0, 0);
    assert(s->mgr);
    switch (g_type) {
    case UPUMP_TYPE_TIMER: s->pump = upump_alloc_timer(s->mgr, pump_cb, s, &s->owner, 0, g_ev ? 0 : 27000); break;
    case UPUMP_TYPE_FD_READ: s->pump = upump_alloc_fd_read(s->mgr, pump_cb, s, &s->owner, 0); break;
    default: s->pump = upump_alloc_idler(s->mgr, pump_cb, s, &s->owner); break;
    }
    assert(s->pump);
    s->status = true;
    return s;
}

static void c13_fini(void *p)
{
    struct st *s = p;
    if (s->pump)
        upump_free(s->pump);
    upump_mgr_release(s->mgr);
    if (s->loop)
        ev_loop_destroy(s->loop);
    if (!g_ev)
        free(vmock_mgr_from_upump_mgr(s->mgr));
    free(s);
}

enum { O_START, O_STOP, O_STATUS0, O_STATUS1, O_BALLOC, O_BFREE0, O_BFREE1, O_BFREE2, O_DISPATCH, O_RESTART, O_FREE, O_BALLOC_REFUSED, O_N };
static const char *on[] = {"start", "stop", "set_status(0)", "set_status(1)", "blocker_alloc", "blocker_free(0)", "blocker_free(1)",
                           "blocker_free(2)", "dispatch", "restart", "free", "blocker_alloc(memory-refused)"};

/* environment deviation: upump_common.c is compiled with -Dmalloc=vf_malloc; while vf_refuse is set its memory requests are
 * refused. A blocker that could not be allocated does not exist: the pump's activity must be what it was. */
static bool vf_refuse;
static long vf_refused;
void *vf_malloc(size_t n);
void *vf_malloc(size_t n)
{
    if (vf_refuse) {
        vf_refused++;
        return NULL;
    }
    return (malloc)(n);
}
static void c13_opstr(int op, char *b, size_t n) { snprintf(b, n, "%s", on[op]); }

static bool backend_active(struct st *s)
{
    if (s->pump == NULL)
        return false;
    return vmock_pump_from_upump(s->pump)->active;
}

static int c13_apply(void *p, int op, bool check)
{
    struct st *s = p;
    char sig[128];
    if (s->freed)
        return SEQX_DISABLED;
    long calls_before = s->cb_calls;
    bool exp_before = s->started && s->nblk == 0;
    bool dispatched = false;
    switch (op) {
    case O_START:
        upump_start(s->pump);
        s->started = true;
        break;
    case O_STOP:
        upump_stop(s->pump);
        s->started = false;
        break;
    case O_RESTART:
        if (g_type != UPUMP_TYPE_TIMER)
            return SEQX_DISABLED; /* documented for timer pumps only */
        upump_restart(s->pump);
        s->started = true;
        break;
    case O_STATUS0:
    case O_STATUS1:
        upump_set_status(s->pump, op == O_STATUS1);
        s->status = op == O_STATUS1;
        break;
    case O_BALLOC: {
        int i;
        for (i = 0; i < NBLK; i++)
            if (s->blk[i] == NULL)
                break;
        if (i == NBLK)
            return SEQX_DISABLED;
        s->blk[i] = upump_blocker_alloc(s->pump, blocker_cb, s);
        if (s->blk[i] == NULL)
            SEQX_FAIL("blocker_alloc:failed", "upump_blocker_alloc returned NULL");
        s->nblk++;
        break;
    }
    case O_BALLOC_REFUSED: {
        int i;
        for (i = 0; i < NBLK; i++)
            if (s->blk[i] == NULL)
                break;
        if (i == NBLK)
            return SEQX_DISABLED;
        vf_refuse = true;
        s->blk[i] = upump_blocker_alloc(s->pump, blocker_cb, s);
        vf_refuse = false;
        if (s->blk[i] != NULL)
            s->nblk++; /* served from the pool: an ordinary allocation */
        break;
    }
    case O_BFREE0:
    case O_BFREE1:
    case O_BFREE2: {
        int i = op - O_BFREE0;
        if (s->blk[i] == NULL)
            return SEQX_DISABLED;
        struct upump_blocker *b = s->blk[i];
        s->blk[i] = NULL;
        s->nblk--;
        upump_blocker_free(b);
        break;
    }
    case O_DISPATCH:
        if (g_ev) {
            ev_run(s->loop, EVRUN_NOWAIT);
            dispatched = true;
            break;
        }
        if (!backend_active(s))
            return SEQX_DISABLED; /* the loop never invokes an inactive watcher */
        g_cur = s;
        vmock_dispatch(vmock_pump_from_upump(s->pump));
        dispatched = true;
        break;
    case O_FREE: {
        int outstanding[NBLK];
        for (int i = 0; i < NBLK; i++) {
            outstanding[i] = s->blk[i] != NULL;
            s->notified[i] = 0;
        }
        s->freed = true;
        s->started = false;
        upump_free(s->pump);
        s->pump = NULL;
        for (int i = 0; i < NBLK; i++)
            if (s->notified[i] != outstanding[i]) {
                snprintf(sig, sizeof(sig), "free:blocker-notified-%d-times", s->notified[i]);
                SEQX_FAIL(sig, "freeing the pump notified outstanding blocker %d %d time(s) (expected %d)", i, s->notified[i], outstanding[i]);
            }
        if (s->unknown_notified)
            SEQX_FAIL("free:unknown-blocker-notified", "a blocker that was already released got notified");
        if (g_ev) { /* the loop goes on after the pump is gone: nothing of it may fire any more */
            long before = s->cb_calls;
            ev_run(s->loop, EVRUN_NOWAIT);
            ev_run(s->loop, EVRUN_NOWAIT);
            if (s->cb_calls != before || s->cb_after_free)
                SEQX_FAIL("callback-after-free", "the loop invoked the callback of a freed pump %ld time(s)", s->cb_calls - before);
        }
        break;
    }
    }
    if (!check)
        return SEQX_OK;
    bool exp_active = s->started && s->nblk == 0 && !s->freed;
    if (g_ev) {
        /* conformance: what libev invokes is what the automaton says */
        long delta = s->cb_calls - calls_before;
        if (dispatched) {
            if (delta != (exp_before ? 1 : 0)) {
                snprintf(sig, sizeof(sig), "ev:callback-%s", delta ? "while-inactive" : "missing");
                SEQX_FAIL(sig, "one loop iteration invoked the idler %ld time(s); automaton: started=%d blockers=%d", delta, s->started, s->nblk);
            }
        } else if (delta != 0)
            SEQX_FAIL("ev:callback-outside-loop", "callback invoked outside a loop iteration");
        if (s->cb_after_free)
            SEQX_FAIL("callback-after-free", "callback invoked after the pump was freed");
        return SEQX_OK;
    }
    struct vmock_mgr *vm = vmock_mgr_from_upump_mgr(s->mgr);
    if (backend_active(s) != exp_active) {
        snprintf(sig, sizeof(sig), "active-mismatch:after-%s", on[op]);
        SEQX_FAIL(sig, "after %s the watcher is %s in the loop, but started=%d blockers=%d freed=%d", on[op],
                  backend_active(s) ? "ACTIVE" : "inactive", s->started, s->nblk, s->freed);
    }
    if (vm->err_start_while_active || vm->err_stop_while_inactive || vm->err_status_mismatch || vm->err_dispatch_inactive) {
        snprintf(sig, sizeof(sig), "backend-protocol:%s",
                 vm->err_start_while_active ? "start-while-active" : vm->err_stop_while_inactive ? "stop-while-inactive"
                 : vm->err_status_mismatch ? "status-mismatch" : "dispatch-inactive");
        SEQX_FAIL(sig, "back-end call sequence is ill-formed after %s (starts %ld stops %ld)", on[op], vm->real_starts, vm->real_stops);
    }
    if (dispatched && s->cb_calls != calls_before + 1)
        SEQX_FAIL("dispatch:callback-count", "dispatch invoked the callback %ld times", s->cb_calls - calls_before);
    if (!dispatched && s->cb_calls != calls_before)
        SEQX_FAIL("callback-outside-dispatch", "callback invoked by %s", on[op]);
    if (s->pump) {
        bool st;
        upump_get_status(s->pump, &st);
        if (st != s->status)
            SEQX_FAIL("status:readback", "get_status=%d after set_status(%d)", st, s->status);
    }
    if (s->freed && vm->npumps != 0)
        SEQX_FAIL("free:still-registered", "freed pump still known to the loop");
    return SEQX_OK;
}

static void c13_canon(void *p, struct vbuf *out)
{
    struct st *s = p;
    vbuf_u8(out, s->started);
    vbuf_u8(out, s->status);
    vbuf_u8(out, s->freed);
    for (int i = 0; i < NBLK; i++)
        vbuf_u8(out, s->blk[i] != NULL);
    if (!g_ev && s->pump) {
        struct vmock_pump *vp = vmock_pump_from_upump(s->pump);
        vbuf_u8(out, vp->active);
        vbuf_u8(out, vp->start_status);
        vbuf_u8(out, vp->common.started);
        vbuf_u8(out, vp->common.status);
        int n = 0;
        struct uchain *uc;
        ulist_foreach (&vp->common.blockers, uc)
            n++;
        vbuf_u8(out, n);
    }
}

static bool c13_nontrivial(void *p)
{
    struct st *s = p;
    return s->nblk > 0 || s->freed;
}

int main(int argc, char **argv)
{
    for (int i = 1; i + 1 < argc; i++) {
        if (!strcmp(argv[i], "--type"))
            g_type = !strcmp(argv[i + 1], "timer") ? UPUMP_TYPE_TIMER : !strcmp(argv[i + 1], "fd") ? UPUMP_TYPE_FD_READ : UPUMP_TYPE_IDLER;
        else if (!strcmp(argv[i], "--cb")) {
            const char *c = argv[i + 1];
            g_cb = !strcmp(c, "stop") ? CB_STOP : !strcmp(c, "block") ? CB_BLOCK : !strcmp(c, "free") ? CB_FREE : !strcmp(c, "start") ? CB_START : CB_NONE;
        } else if (!strcmp(argv[i], "--backend"))
            g_ev = !strcmp(argv[i + 1], "ev");
    }
    struct seqx_spec spec = {
        .name = "c13-pump",
        .nops = O_N,
        .init = c13_init,
        .apply = c13_apply,
        .canon = c13_canon,
        .fini = c13_fini,
        .opstr = c13_opstr,
        .nontrivial = c13_nontrivial,
    };
    return seqx_main(&spec, argc, argv, 40);
}
