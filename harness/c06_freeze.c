/* C06 (freeze) — the per-thread event-loop probe and its NESTING freeze counter.
 *
 * "A pipe transferred to a worker thread is from then on only entered from that thread, or from the
 * application thread while the worker's event loop is frozen." An application builds the pipes it is
 * going to deport inside a frozen section of its upump-manager probe (UPROBE_FREEZE_UPUMP_MGR ...
 * UPROBE_THAW_UPUMP_MGR), so that they are not handed the application thread's event loop; the worker
 * allocators (upipe_worker.c) throw their own freeze / thaw pair inside that section, so the probe has
 * to COUNT freezes.
 *
 * Explicit-state enumeration (engine/seqx.h; a state is a history replayed on fresh objects) of every
 * sequence up to a depth over
 *      { set(manager A | manager B | NULL), freeze, thaw, a pipe throws NEED_UPUMP_MGR } x { thread 0, thread 1 }
 * on the real lib/upipe-pthread/uprobe_pthread_upump_mgr.c. The probe keeps its state in pthread-specific
 * data, so thread 1 is a real pthread that executes the operations addressed to it on command and hands
 * back (strict alternation over semaphores: deterministic). Every event goes through a recording probe
 * placed in front of the probe under test, which is the reference model: per thread the manager set and
 * the freeze depth (incremented / decremented by every freeze / thaw event it sees, whoever throws it);
 * a NEED_UPUMP_MGR event must be answered with the calling thread's manager iff one is set and the depth
 * is 0, otherwise it must reach the next probe with the caller's pointer untouched. After every step both
 * threads are additionally asked once (sweep), and the managers' reference counts must be 1 + the number
 * of threads they are set on; at the end of every history (thread 1 exits, the probe is released) they
 * must be back to 1.
 *
 * --worker 1: the application (thread 0) additionally has P = allocate a pipe meant for the worker thread
 * (it throws NEED_UPUMP_MGR when allocated, like pipes built on upipe_helper_upump_mgr, and keeps the
 * answer) and W = upipe_wsink_alloc() around the last such pipe with the real upipe_worker.c /
 * upipe_transfer.c / queue pipes over an xfer manager attached to thread 1's loop; thread 1 has L = run its
 * loop until idle. Thread 0 may only set A, thread 1 only B. The inner freeze / thaw of the allocator and
 * every NEED_UPUMP_MGR thrown by the inner pipes (in either thread) go through the same model; the pipe
 * handed to W is asked for its output by the allocator and throws NEED_UPUMP_MGR from there: that must
 * never be answered. After W the pipe may only be entered from thread 1, and it must never hold manager A.
 * Epilogue of every history: thaw what is frozen, set the missing managers, attach_upump_mgr on and release
 * every worker, run both loops until idle; every deported pipe must have been released in thread 1.
 *
 * --probe plain: the same alphabet in one thread on lib/upipe/uprobe_upump_mgr.c, against the nesting
 * model (--model nest) or against the boolean of its header (--model flat).
 *
 * --history-states: no merging of states (the canonical form is the history itself).
 * DESIGN.md section 3, C06. */
#include "vcommon.h"
#include "seqx.h"
#include "vmock_upump.h"
#include "simfd.h"

#include "upipe/ubase.h"
#include "upipe/uatomic.h"
#include "upipe/urefcount.h"
#include "upipe/uprobe.h"
#include "upipe/upump.h"
#include "upipe/upipe.h"
#include "upipe/umutex.h"
#include "upipe/uprobe_upump_mgr.h"
#include "upipe-pthread/uprobe_pthread_upump_mgr.h"
#include "upipe-modules/upipe_transfer.h"
#include "upipe-modules/upipe_worker.h"
#include "upipe-modules/upipe_worker_sink.h"

#include <pthread.h>
#include <semaphore.h>

enum { PROBE_PTHREAD = 0, PROBE_PLAIN = 1 };
static int g_probe = PROBE_PTHREAD;
static bool g_worker = false;
static bool g_nest = true;       /* reference model: freezes nest */
static bool g_hist_states = false;
static bool g_verbose = false;   /* --replay: print every event seen by the recording probe */
static const char *g_pname = "pthread";

#define MAXP 3
#define MAXW 2
#define QLEN 2

/* operation kinds; an operation is (thread, kind) */
enum { K_SET_A, K_SET_B, K_SET_NULL, K_FREEZE, K_THAW, K_NEED, K_PIPE, K_WORK, K_LOOP, K_QUIT,
       /* epilogue only */ K_ATTACH_RELEASE, K_LOOP_APP,
       /* --binfreeze 1: the application freezes the worker bin itself (takes the xfer manager's mutex), has a control command
        * forwarded to the deported pipe, thaws */
       K_BIN_FREEZE, K_BIN_CTRL, K_BIN_THAW };
static bool g_binfreeze;
struct opdef {
    int t, k;
};
static struct opdef g_ops[16];
static int g_nops;

static __thread int t_self;

struct st;
/* a pipe meant for the worker thread */
struct rpipe {
    struct upipe upipe;
    struct urefcount urefcount;
    struct st *st;
    struct upump_mgr *upump_mgr;
    bool wrapped;   /* handed to upipe_wsink_alloc */
    bool deported;  /* upipe_wsink_alloc returned */
    bool dead;
    int dead_thread;
    int in_alloc;   /* NEED_UPUMP_MGR thrown from get_output inside the allocator */
};

struct st {
    struct uprobe front, tail;
    struct uprobe *probe; /* under test; owned by front */
    struct upump_mgr *mgr[2];
    /* reference model */
    int m_mgr[2], m_depth[2];
    long tail_need;
    int fatal_events;
    bool in_work;            /* inside upipe_wsink_alloc */
    bool thaw_in_alloc[2];   /* the last thaw of that thread was thrown by the worker allocator */
    /* second thread */
    pthread_t thr;
    sem_t go, done;
    int cmd;
    bool thr_alive;
    /* what the sweep observed (0 refused, 1 A, 2 B) */
    int obs[2];
    /* worker mode */
    struct upipe_mgr *wsink_mgr;
    struct rpipe *rp[MAXP];
    int nrp;
    struct upipe *work[MAXW];
    int nwork, loops;
    /* --binfreeze: the mutex protecting the worker thread's loop (counting, never blocks: the two threads alternate strictly) */
    struct umutex mutex;
    struct urefcount mutex_ref;
    int mx_depth, mx_holder;
    bool m_bin_frozen; /* reference model: the application holds the bin frozen */
    /* first error raised by the recording probe / the pipes */
    char esig[128], emsg[600];
    int hist[40], nhist;
};

static struct upipe_mgr g_rp_mgr;

static void vbuf_putf(struct vbuf *b, const char *fmt, ...)
{
    char tmp[160];
    va_list ap;
    va_start(ap, fmt);
    int n = vsnprintf(tmp, sizeof(tmp), fmt, ap);
    va_end(ap);
    vbuf_put(b, tmp, n < (int)sizeof(tmp) ? (size_t)n : sizeof(tmp) - 1);
}

static void st_fail(struct st *st, const char *sig, const char *fmt, ...)
{
    if (st->esig[0])
        return;
    snprintf(st->esig, sizeof(st->esig), "freeze:%s:%s", g_worker ? "worker" : g_pname, sig);
    va_list ap;
    va_start(ap, fmt);
    vsnprintf(st->emsg, sizeof(st->emsg), fmt, ap);
    va_end(ap);
}

static int mgr_id(struct st *st, struct upump_mgr *m)
{
    return m == NULL ? 0 : m == st->mgr[0] ? 1 : m == st->mgr[1] ? 2 : 3;
}
static const char *mgr_name(int id) { return id == 0 ? "none" : id == 1 ? "A" : id == 2 ? "B" : "?"; }

static unsigned mgr_refs(struct upump_mgr *m)
{
    return uatomic_load(&vmock_mgr_from_upump_mgr(m)->urefcount.refcount);
}

static int self(void) { return g_probe == PROBE_PLAIN ? 0 : t_self; }

/* ---- the recording probe in front of the probe under test: reference model ---- */
static int front_throw(struct uprobe *uprobe, struct upipe *upipe, int event, va_list args)
{
    struct st *st = container_of(uprobe, struct st, front);
    int t = self();
    switch (event) {
    case UPROBE_FREEZE_UPUMP_MGR:
    case UPROBE_THAW_UPUMP_MGR: {
        int r = uprobe_throw_next(uprobe, upipe, event, args);
        if (event == UPROBE_FREEZE_UPUMP_MGR)
            st->m_depth[t] = g_nest ? st->m_depth[t] + 1 : 1;
        else {
            st->thaw_in_alloc[t] = st->in_work;
            if (!g_nest)
                st->m_depth[t] = 0;
            else if (st->m_depth[t] == 0)
                st_fail(st, "unbalanced-thaw", "a thaw event was thrown in thread %d without a freeze outstanding", t);
            else
                st->m_depth[t]--;
        }
        if (g_verbose)
            printf("    [thread %d] %s event%s -> model depth %d\n", t, event == UPROBE_FREEZE_UPUMP_MGR ? "freeze" : "thaw",
                   upipe == NULL ? "" : " (from a pipe)", st->m_depth[t]);
        if (r != UBASE_ERR_NONE)
            st_fail(st, "event-not-caught", "%s returned error %d in thread %d", event == UPROBE_FREEZE_UPUMP_MGR ? "freeze" : "thaw", r, t);
        return r;
    }
    case UPROBE_NEED_UPUMP_MGR: {
        va_list copy;
        va_copy(copy, args);
        struct upump_mgr **p = va_arg(copy, struct upump_mgr **);
        va_end(copy);
        struct upump_mgr *before = *p;
        long tn = st->tail_need;
        int r = uprobe_throw_next(uprobe, upipe, event, args);
        bool answered = st->tail_need == tn;
        int got = mgr_id(st, *p);
        if (g_verbose)
            printf("    [thread %d] need_upump_mgr from %s: %s%s (model: manager %s, depth %d)\n", t,
                   upipe == NULL ? "the harness" : upipe->mgr == &g_rp_mgr ? "a pipe built for the worker" : "an inner pipe of the worker",
                   answered ? "answered with " : "passed on", answered ? mgr_name(got) : "", mgr_name(st->m_mgr[t]), st->m_depth[t]);
        if (answered) {
            if (st->m_depth[t] > 0)
                st_fail(st, st->thaw_in_alloc[t] ? "frozen-section-ended-by-worker-allocator" : "need-answered-while-frozen",
                        "a pipe asking for an event loop in thread %d was given manager %s although %d freeze(s) of that thread are still "
                        "outstanding%s: a pipe built there for the worker thread gets the event loop of the thread that builds it",
                        t, mgr_name(got), st->m_depth[t],
                        st->thaw_in_alloc[t] ? " (the thaw thrown by upipe_wsink_alloc ended the application's frozen section)" : "");
            else if (st->m_mgr[t] == 0)
                st_fail(st, "need-answered-without-manager", "thread %d has no manager set, yet NEED_UPUMP_MGR was answered with %s", t, mgr_name(got));
            else if (got != st->m_mgr[t])
                st_fail(st, "need-wrong-manager", "thread %d has manager %s set, NEED_UPUMP_MGR was answered with %s (the other thread's %s)", t,
                        mgr_name(st->m_mgr[t]), mgr_name(got), st->m_mgr[1 - t] == got ? "manager" : "former manager");
            else if (r != UBASE_ERR_NONE)
                st_fail(st, "need-answered-with-error", "NEED_UPUMP_MGR answered in thread %d but error %d returned", t, r);
        } else {
            if (st->m_depth[t] == 0 && st->m_mgr[t] != 0)
                st_fail(st, "need-refused", "thread %d has manager %s set and is not frozen, yet NEED_UPUMP_MGR was passed on to the next probe", t,
                        mgr_name(st->m_mgr[t]));
            else if (*p != before)
                st_fail(st, "need-refused-but-written", "NEED_UPUMP_MGR was passed on in thread %d but the caller's pointer was changed", t);
        }
        return r;
    }
    default: return uprobe_throw_next(uprobe, upipe, event, args);
    }
}

static int tail_throw(struct uprobe *uprobe, struct upipe *upipe, int event, va_list args)
{
    (void)upipe, (void)args;
    struct st *st = container_of(uprobe, struct st, tail);
    if (event == UPROBE_NEED_UPUMP_MGR)
        st->tail_need++;
    if (event == UPROBE_FATAL || event == UPROBE_ERROR)
        st->fatal_events++;
    return UBASE_ERR_UNHANDLED;
}

/* ---- pipes meant for the worker thread ---- */
static void rp_entered(struct rpipe *rp, const char *what)
{
    if (rp->dead)
        st_fail(rp->st, "deported-pipe-used-after-free", "%s on a deported pipe after its last release", what);
    if (rp->deported && self() != 1 && !(g_binfreeze && rp->st->mx_depth > 0 && rp->st->mx_holder == self()))
        st_fail(rp->st, "deported-pipe-entered-from-application-thread", "%s on a deported pipe in thread %d%s", what, self(),
                g_binfreeze ? " without the lock on the worker's event loop" : "");
}

static void rp_need(struct rpipe *rp)
{
    upipe_throw_need_upump_mgr(&rp->upipe, &rp->upump_mgr);
    if ((rp->wrapped || rp->deported) && mgr_id(rp->st, rp->upump_mgr) == 1)
        st_fail(rp->st, "deported-pipe-holds-application-manager", "a pipe handed to the worker thread holds manager A, the application thread's event loop");
}

static int rp_control(struct upipe *upipe, int command, va_list args)
{
    struct rpipe *rp = container_of(upipe, struct rpipe, upipe);
    switch (command) {
    case UPIPE_ATTACH_UPUMP_MGR:
        rp_entered(rp, "attach_upump_mgr");
        upump_mgr_release(rp->upump_mgr);
        rp->upump_mgr = NULL;
        rp_need(rp);
        return UBASE_ERR_NONE;
    case UPIPE_GET_OUTPUT: {
        /* "upipe_get_output is a control command and may trigger a need_upump_mgr event" (upipe_worker.c) */
        rp_entered(rp, "get_output");
        if (rp->upump_mgr == NULL) {
            long tn = rp->st->tail_need;
            rp_need(rp);
            if (rp->wrapped && !rp->deported) {
                rp->in_alloc++;
                if (rp->st->tail_need == tn)
                    st_fail(rp->st, "answered-inside-worker-allocator", "the pipe being deported asked for an event loop from inside upipe_wsink_alloc and was given one");
            }
        }
        struct upipe **p = va_arg(args, struct upipe **);
        *p = NULL;
        return UBASE_ERR_NONE;
    }
    case UPIPE_SET_FLOW_DEF:
    case UPIPE_REGISTER_REQUEST:
    case UPIPE_UNREGISTER_REQUEST:
        rp_entered(rp, "control");
        return UBASE_ERR_NONE;
    case UPIPE_SET_OPTION:
        rp_entered(rp, "set_option");
        return UBASE_ERR_NONE;
    default: return UBASE_ERR_UNHANDLED;
    }
}

static void rp_input(struct upipe *upipe, struct uref *uref, struct upump **upump_p)
{
    (void)upipe, (void)uref, (void)upump_p;
}

static void rp_free(struct urefcount *urefcount)
{
    struct rpipe *rp = container_of(urefcount, struct rpipe, urefcount);
    rp_entered(rp, "release");
    upipe_throw_dead(&rp->upipe);
    upump_mgr_release(rp->upump_mgr);
    rp->upump_mgr = NULL;
    rp->dead = true;
    rp->dead_thread = self();
    urefcount_clean(&rp->urefcount);
    upipe_clean(&rp->upipe);
}

static struct rpipe *rp_alloc(struct st *st)
{
    struct rpipe *rp = calloc(1, sizeof(*rp));
    rp->st = st;
    upipe_init(&rp->upipe, &g_rp_mgr, uprobe_use(&st->front));
    urefcount_init(&rp->urefcount, rp_free);
    rp->upipe.refcount = &rp->urefcount;
    upipe_throw_ready(&rp->upipe);
    rp_need(rp);
    return rp;
}

/* ---- loops ---- */
static bool loop_run(struct st *st, struct upump_mgr *mgr)
{
    struct vmock_pump *r[16];
    bool ran = false;
    for (int i = 0; i < 400; i++) {
        if (vmock_ready(mgr, r, 16) == 0)
            return ran;
        vmock_dispatch(r[0]);
        ran = true;
    }
    st_fail(st, "livelock", "an event loop was still busy after 400 dispatches");
    return ran;
}

static int mx_lock(struct umutex *m)
{
    struct st *st = container_of(m, struct st, mutex);
    if (st->mx_depth > 0 && st->mx_holder != self()) {
        st_fail(st, "harness:mutex-would-block", "thread %d asks for the lock held by thread %d", self(), st->mx_holder);
        return UBASE_ERR_BUSY;
    }
    st->mx_depth++;
    st->mx_holder = self();
    return UBASE_ERR_NONE;
}
static int mx_unlock(struct umutex *m)
{
    struct st *st = container_of(m, struct st, mutex);
    if (st->mx_depth == 0 || st->mx_holder != self()) {
        st_fail(st, "bin-freeze:unlock-of-a-lock-not-held", "thread %d unlocks the worker loop's mutex, depth %d holder %d", self(), st->mx_depth, st->mx_holder);
        return UBASE_ERR_INVALID;
    }
    st->mx_depth--;
    return UBASE_ERR_NONE;
}
static void mx_noref(struct urefcount *r) { (void)r; }

/* ---- executing one operation in the calling thread ---- */
static void exec_here(struct st *st, int k)
{
    int t = self();
    switch (k) {
    case K_SET_A:
    case K_SET_B:
    case K_SET_NULL: {
        struct upump_mgr *m = k == K_SET_A ? st->mgr[0] : k == K_SET_B ? st->mgr[1] : NULL;
        if (g_probe == PROBE_PTHREAD) {
            int r = uprobe_pthread_upump_mgr_set(st->probe, m);
            if (r != UBASE_ERR_NONE)
                st_fail(st, "set-error", "uprobe_pthread_upump_mgr_set returned %d", r);
        } else
            uprobe_upump_mgr_set(st->probe, m);
        st->m_mgr[t] = mgr_id(st, m);
        break;
    }
    case K_FREEZE: uprobe_throw(&st->front, NULL, UPROBE_FREEZE_UPUMP_MGR); break;
    case K_THAW: uprobe_throw(&st->front, NULL, UPROBE_THAW_UPUMP_MGR); break;
    case K_NEED: {
        struct upump_mgr *m = NULL;
        uprobe_throw(&st->front, NULL, UPROBE_NEED_UPUMP_MGR, &m);
        st->obs[t] = mgr_id(st, m);
        upump_mgr_release(m);
        break;
    }
    case K_PIPE: st->rp[st->nrp++] = rp_alloc(st); break;
    case K_WORK: {
        struct rpipe *rp = st->rp[st->nrp - 1];
        rp->wrapped = true;
        st->in_work = true;
        /* the worker takes over our reference on the pipe */
        struct upipe *w = upipe_wsink_alloc(st->wsink_mgr, uprobe_use(&st->front), &rp->upipe, uprobe_use(&st->front), QLEN);
        st->in_work = false;
        rp->deported = true;
        if (w == NULL) {
            st_fail(st, "alloc-failed", "upipe_wsink_alloc returned NULL");
            break;
        }
        if (rp->in_alloc == 0)
            st_fail(st, "harness:get-output-not-called", "the allocator did not ask the deported pipe for its output");
        st->work[st->nwork++] = w;
        break;
    }
    case K_LOOP:
        if (g_binfreeze)
            mx_lock(&st->mutex); /* the worker thread's loop runs under its mutex */
        loop_run(st, st->mgr[1]);
        if (g_binfreeze)
            mx_unlock(&st->mutex);
        st->loops++;
        break;
    case K_BIN_FREEZE:
    case K_BIN_THAW:
    case K_BIN_CTRL: {
        struct upipe *w = st->work[st->nwork - 1];
        int r = k == K_BIN_FREEZE ? upipe_bin_freeze(w) : k == K_BIN_THAW ? upipe_bin_thaw(w) : upipe_set_option(w, "x", "y");
        if (k != K_BIN_CTRL && r != UBASE_ERR_NONE)
            st_fail(st, "bin-freeze:error", "%s returned %d", k == K_BIN_FREEZE ? "upipe_bin_freeze" : "upipe_bin_thaw", r);
        if (k == K_BIN_FREEZE)
            st->m_bin_frozen = true;
        if (k == K_BIN_THAW)
            st->m_bin_frozen = false;
        /* the lock is held exactly while the application keeps the bin frozen, whatever was forwarded meanwhile */
        if (st->mx_depth != (st->m_bin_frozen ? 1 : 0))
            st_fail(st, "bin-freeze:lock-state", "after %s the worker loop's mutex is held %d time(s), the application %s the bin frozen",
                    k == K_BIN_FREEZE ? "bin_freeze" : k == K_BIN_THAW ? "bin_thaw" : "a forwarded set_option", st->mx_depth, st->m_bin_frozen ? "keeps" : "does not keep");
        break;
    }
    case K_LOOP_APP: loop_run(st, st->mgr[0]); break;
    case K_ATTACH_RELEASE:
        for (int i = 0; i < st->nwork; i++) {
            int r = upipe_attach_upump_mgr(st->work[i]);
            if (r != UBASE_ERR_NONE)
                st_fail(st, "attach-error", "upipe_attach_upump_mgr on the worker returned %d", r);
            upipe_release(st->work[i]);
        }
        st->nwork = 0;
        for (int i = 0; i < st->nrp; i++)
            if (!st->rp[i]->wrapped)
                upipe_release(&st->rp[i]->upipe);
        upipe_mgr_release(st->wsink_mgr);
        st->wsink_mgr = NULL;
        break;
    }
}

static void *thread1(void *arg)
{
    struct st *st = arg;
    t_self = 1;
    for (;;) {
        while (sem_wait(&st->go) != 0)
            ;
        if (st->cmd == K_QUIT)
            break;
        exec_here(st, st->cmd);
        sem_post(&st->done);
    }
    /* the pthread-specific data of the probe is destroyed when this thread exits */
    return NULL;
}

static void exec_on(struct st *st, int t, int k)
{
    if (t == 0 || g_probe == PROBE_PLAIN) {
        exec_here(st, k);
        return;
    }
    st->cmd = k;
    sem_post(&st->go);
    while (sem_wait(&st->done) != 0)
        ;
}

/* ---- seqx callbacks ---- */
static void *fz_init(void)
{
    struct st *st = calloc(1, sizeof(*st));
    t_self = 0;
    simfd_reset();
    st->mgr[0] = vmock_mgr_alloc(0, 0);
    st->mgr[1] = vmock_mgr_alloc(0, 0);
    uprobe_init(&st->tail, tail_throw, NULL);
    st->probe = g_probe == PROBE_PTHREAD ? uprobe_pthread_upump_mgr_alloc(&st->tail) : uprobe_upump_mgr_alloc(&st->tail, NULL);
    if (st->probe == NULL)
        abort();
    uprobe_init(&st->front, front_throw, st->probe);
    if (g_probe == PROBE_PTHREAD) {
        sem_init(&st->go, 0, 0);
        sem_init(&st->done, 0, 0);
        if (pthread_create(&st->thr, NULL, thread1, st) != 0)
            abort();
        st->thr_alive = true;
    }
    if (g_worker) {
        if (g_binfreeze) {
            urefcount_init(&st->mutex_ref, mx_noref);
            st->mutex.refcount = &st->mutex_ref;
            st->mutex.umutex_lock = mx_lock;
            st->mutex.umutex_unlock = mx_unlock;
        }
        struct upipe_mgr *xfer_mgr = upipe_xfer_mgr_alloc(32, 0, g_binfreeze ? &st->mutex : NULL);
        if (xfer_mgr == NULL || !ubase_check(upipe_xfer_mgr_attach(xfer_mgr, st->mgr[1])))
            abort();
        st->wsink_mgr = upipe_wsink_mgr_alloc(xfer_mgr);
        if (st->wsink_mgr == NULL)
            abort();
        upipe_mgr_release(xfer_mgr); /* the worker manager keeps it */
    }
    return st;
}

static bool fz_enabled(void *s, int op)
{
    struct st *st = s;
    int t = g_ops[op].t;
    switch (g_ops[op].k) {
    case K_THAW: return !g_nest || st->m_depth[t] > 0; /* thaws are balanced (the counter is unsigned) */
    case K_PIPE: return st->nrp < MAXP;
    case K_BIN_FREEZE: return st->nwork > 0 && !st->m_bin_frozen;
    case K_BIN_THAW: return st->nwork > 0 && st->m_bin_frozen;
    case K_BIN_CTRL: return st->nwork > 0;
    case K_LOOP: return !st->m_bin_frozen; /* the worker thread would wait for the lock */
    case K_WORK:
        if (st->m_bin_frozen)
            return false;
        /* an application deports a pipe it has built for the worker: one that holds no event loop */
        return st->nwork < MAXW && st->nrp > 0 && !st->rp[st->nrp - 1]->wrapped && st->rp[st->nrp - 1]->upump_mgr == NULL;
    default: return true;
    }
}

static int fz_result(struct st *st)
{
    if (st->esig[0]) {
        snprintf(seqx_sig, sizeof(seqx_sig), "%s", st->esig);
        snprintf(seqx_msg, sizeof(seqx_msg), "%s", st->emsg);
        return SEQX_VIOL;
    }
    return SEQX_OK;
}

static int fz_apply(void *s, int op, bool check)
{
    struct st *st = s;
    if (!fz_enabled(st, op))
        return SEQX_DISABLED;
    if (st->nhist < 40)
        st->hist[st->nhist++] = op;
    exec_on(st, g_ops[op].t, g_ops[op].k);
    if (fz_result(st) == SEQX_VIOL)
        return SEQX_VIOL;
    if (!check)
        return SEQX_OK;
    /* sweep: what would a pipe get in each thread now? (checked by the recording probe) */
    int nthreads = g_probe == PROBE_PLAIN ? 1 : 2;
    for (int t = 0; t < nthreads; t++)
        exec_on(st, t, K_NEED);
    if (fz_result(st) == SEQX_VIOL)
        return SEQX_VIOL;
    if (!g_worker)
        for (int m = 0; m < 2; m++) {
            unsigned want = 1;
            for (int t = 0; t < nthreads; t++)
                want += st->m_mgr[t] == m + 1;
            unsigned have = mgr_refs(st->mgr[m]);
            if (have != want)
                SEQX_FAIL(g_probe == PROBE_PLAIN ? "freeze:plain:manager-refcount" : "freeze:pthread:manager-refcount",
                          "manager %s has %u reference(s), expected %u (1 + the threads it is set on)", mgr_name(m + 1), have, want);
        }
    if (st->fatal_events)
        SEQX_FAIL("freeze:worker:fatal-event", "%d error / fatal event(s) thrown", st->fatal_events);
    return SEQX_OK;
}

static void fz_canon(void *s, struct vbuf *out)
{
    struct st *st = s;
    if (g_hist_states) {
        for (int i = 0; i < st->nhist; i++)
            vbuf_putf(out, "%d,", st->hist[i]);
        return;
    }
    struct vmock_pump *r[16];
    for (int t = 0; t < 2; t++)
        vbuf_putf(out, "t%d:m%d:d%d:o%d:r%u:p%d|", t, st->m_mgr[t], st->m_depth[t], st->obs[t], mgr_refs(st->mgr[t]),
                  vmock_ready(st->mgr[t], r, 16));
    for (int i = 0; i < st->nrp; i++)
        vbuf_putf(out, "P%d:%d%d%d:%d|", mgr_id(st, st->rp[i]->dead ? NULL : st->rp[i]->upump_mgr), st->rp[i]->wrapped, st->rp[i]->deported,
                  st->rp[i]->dead, st->rp[i]->in_alloc);
    vbuf_putf(out, "w%d:z%d%d", st->nwork, st->m_bin_frozen, st->mx_depth);
}

static void fz_teardown(struct st *st, bool check)
{
    if (g_worker) {
        if (st->m_bin_frozen)
            exec_on(st, 0, K_BIN_THAW);
        /* epilogue: leave the frozen sections, give each thread its loop, attach and release the workers */
        for (int t = 0; t < 2; t++) {
            while (st->m_depth[t] > 0)
                exec_on(st, t, K_THAW);
            exec_on(st, t, t == 0 ? K_SET_A : K_SET_B);
        }
        exec_on(st, 0, K_ATTACH_RELEASE);
        struct vmock_pump *r[16];
        for (int round = 0; round < 50; round++) {
            exec_on(st, 1, K_LOOP);
            exec_on(st, 0, K_LOOP_APP);
            if (vmock_ready(st->mgr[0], r, 16) == 0 && vmock_ready(st->mgr[1], r, 16) == 0)
                break;
        }
        if (check) {
            for (int i = 0; i < st->nrp; i++) {
                struct rpipe *rp = st->rp[i];
                if (!rp->dead)
                    st_fail(st, "deported-pipe-never-released", "pipe %d was not released although its worker was and both loops are idle", i);
                else if (rp->wrapped && rp->dead_thread != 1)
                    st_fail(st, "deported-pipe-released-in-application-thread", "pipe %d was released in thread %d", i, rp->dead_thread);
            }
            if (st->fatal_events)
                st_fail(st, "fatal-event", "%d error / fatal event(s) thrown", st->fatal_events);
        }
    }
    if (st->thr_alive) {
        st->cmd = K_QUIT;
        sem_post(&st->go);
        pthread_join(st->thr, NULL);
        sem_destroy(&st->go);
        sem_destroy(&st->done);
        st->thr_alive = false;
    }
    uprobe_clean(&st->front); /* releases the probe under test (thread 0's data goes with it) */
    uprobe_clean(&st->tail);
    for (int m = 0; m < 2; m++) {
        struct vmock_mgr *vm = vmock_mgr_from_upump_mgr(st->mgr[m]);
        unsigned refs = mgr_refs(st->mgr[m]);
        if (check && (refs != 1 || vm->npumps != 0))
            st_fail(st, "end:manager-refcount", "at the end manager %s has %u reference(s) and %d pump(s) left (expected 1 and 0)", mgr_name(m + 1), refs,
                    vm->npumps);
        if (refs == 1) {
            upump_mgr_release(st->mgr[m]);
            free(vm);
        }
    }
    for (int i = 0; i < st->nrp; i++)
        if (st->rp[i]->dead)
            free(st->rp[i]);
}

static void fz_fini(void *s)
{
    struct st *st = s;
    fz_teardown(st, false);
    free(st);
}

static int fz_final(void *s)
{
    struct st *st = s;
    int r = fz_result(st);
    fz_teardown(st, r == SEQX_OK);
    if (r == SEQX_OK)
        r = fz_result(st);
    free(st);
    return r;
}

static bool fz_nontrivial(void *s)
{
    struct st *st = s;
    if (st->nwork)
        return true;
    for (int t = 0; t < 2; t++)
        if (st->m_mgr[t] && st->m_depth[t] > 0)
            return true;
    return false;
}

static void fz_opstr(int op, char *b, size_t n)
{
    static const char *kn[] = {"set(A)", "set(B)", "set(NULL)", "freeze", "thaw", "need_upump_mgr", "alloc_pipe_for_worker", "wsink_alloc", "run_loop",
                               "quit", "attach_release", "loop_app", "bin_freeze", "forwarded_set_option", "bin_thaw"};
    if (op < 0 || op >= g_nops) {
        snprintf(b, n, "op%d?", op);
        return;
    }
    if (g_probe == PROBE_PLAIN)
        snprintf(b, n, "%s", kn[g_ops[op].k]);
    else
        snprintf(b, n, "T%d.%s", g_ops[op].t, kn[g_ops[op].k]);
}

static void add_op(int t, int k)
{
    g_ops[g_nops].t = t;
    g_ops[g_nops].k = k;
    g_nops++;
}

int main(int argc, char **argv)
{
    for (int i = 1; i + 1 < argc; i++) {
        if (!strcmp(argv[i], "--probe")) {
            g_probe = !strcmp(argv[i + 1], "plain") ? PROBE_PLAIN : PROBE_PTHREAD;
            g_pname = g_probe == PROBE_PLAIN ? "plain" : "pthread";
        } else if (!strcmp(argv[i], "--worker"))
            g_worker = atoi(argv[i + 1]) != 0;
        else if (!strcmp(argv[i], "--model"))
            g_nest = strcmp(argv[i + 1], "flat") != 0;
        else if (!strcmp(argv[i], "--binfreeze"))
            g_binfreeze = atoi(argv[i + 1]) != 0;
    }
    for (int i = 1; i < argc; i++) {
        if (!strcmp(argv[i], "--history-states"))
            g_hist_states = true;
        if (!strcmp(argv[i], "--replay"))
            g_verbose = true;
    }
    if (g_probe == PROBE_PLAIN)
        g_worker = false;
    if (g_probe == PROBE_PTHREAD)
        g_nest = true;
    g_rp_mgr.signature = UBASE_FOURCC('r', 'p', 'i', 'p');
    g_rp_mgr.upipe_control = rp_control;
    g_rp_mgr.upipe_input = rp_input;

    if (g_probe == PROBE_PLAIN) {
        for (int k = K_SET_A; k <= K_NEED; k++)
            add_op(0, k);
    } else if (!g_worker) {
        for (int t = 0; t < 2; t++)
            for (int k = K_SET_A; k <= K_NEED; k++)
                add_op(t, k);
    } else {
        add_op(0, K_SET_A);
        add_op(0, K_SET_NULL);
        add_op(0, K_FREEZE);
        add_op(0, K_THAW);
        add_op(0, K_PIPE);
        add_op(0, K_WORK);
        add_op(1, K_SET_B);
        add_op(1, K_SET_NULL);
        add_op(1, K_FREEZE);
        add_op(1, K_THAW);
        add_op(1, K_NEED);
        add_op(1, K_LOOP);
        if (g_binfreeze) {
            add_op(0, K_BIN_FREEZE);
            add_op(0, K_BIN_CTRL);
            add_op(0, K_BIN_THAW);
        }
    }
    static char name[64];
    snprintf(name, sizeof(name), "c06_freeze:%s%s:%s", g_pname, g_worker ? "+worker" : "", g_nest ? "nest" : "flat");
    struct seqx_spec spec = {
        .name = name,
        .nops = g_nops,
        .init = fz_init,
        .apply = fz_apply,
        .canon = fz_canon,
        .fini = fz_fini,
        .opstr = fz_opstr,
        .nontrivial = fz_nontrivial,
        .final_check = fz_final,
        .enabled = fz_enabled,
    };
    return seqx_main(&spec, argc, argv, 6);
}
