/* C06 (L3) — the worker pipes (upipe_worker.c: queue sink / queue source / xfer
 * wired around a remote pipe) under every interleaving with <= k preemptions.
 *
 * Thread 0 (application): script over
 *   w = allocate a linear worker around the remote pipe (real upipe_wlin_alloc),
 *   a = attach_upump_mgr, o = set_output(sink), f/F = set_flow_def(F1/F2), i = input,
 *   l = one loop step, r = release(worker); then its loop until nothing is alive.
 * Thread 1 (remote): the event loop the real upipe_xfer_mgr is attached to.
 * The remote pipe is a harness pass-through pipe recording the thread of every
 * entry; buffers travel application -> in_qsink | in_qsrc -> remote pipe ->
 * out_qsink | out_qsrc -> the application's sink. DESIGN.md section 3, C06. */
#include "pipex.h"
#include "vsched.h"
#include "simfd.h"

#include "upipe-modules/upipe_transfer.h"
#include "upipe-modules/upipe_worker.h"
#include "upipe-modules/upipe_worker_linear.h"
#include "upipe-modules/upipe_worker_sink.h"
#include "upipe-modules/upipe_worker_source.h"
#include "upipe/uprobe_transfer.h"
#include "upipe/uprobe_prefix.h"

#include <sanitizer/asan_interface.h>

static const char *g_script = "waofiir";
static int g_qlen = 2;
/* which worker: 0 linear (queues on both sides), 1 sink worker (the remote pipe consumes), 2 source
 * worker (the remote pipe produces NSRC buffers from its own pump in the remote thread) */
static int g_kind = 0;
#define NSRC 2
static bool g_idle[2];
static int g_stuck = -1, g_stuck_got;

static struct px_fix fx;
static struct upump_mgr *g_mgr[2];
static struct upipe_mgr *g_xfer_mgr, *g_wlin_mgr;
static struct upipe *g_work;
static bool g_script_done;
static int g_sent;
static int g_sent_flow[16];
static char g_err[400], g_errsig[96];
static char g_outcome[96];

/* ---- remote pass-through pipe ---- */
static struct remote {
    struct upipe upipe;
    struct urefcount urefcount;
    struct upipe_mgr mgr;
    bool dead;
    int nent;
    struct {
        int what, thread; /* what: command, -1 free, -2 input */
    } ent[64];
    struct upipe *output;
    struct uref *flow_def;
    bool flow_def_sent;
    int use_after_dead;
    /* sink worker: what arrived */
    int narr;
    struct {
        int seq, flow, thread;
    } arr[16];
    int cur_flow;
    /* source worker: the pump */
    struct upump *pump;
    int emitted;
    bool ended;
} R;

static void fail(const char *sig, const char *fmt, ...)
{
    if (g_err[0])
        return;
    va_list ap;
    va_start(ap, fmt);
    vsnprintf(g_err, sizeof(g_err), fmt, ap);
    va_end(ap);
    snprintf(g_errsig, sizeof(g_errsig), "%s", sig);
}

static void remote_log(int what)
{
    if (R.dead)
        R.use_after_dead++;
    if (R.nent < 64) {
        R.ent[R.nent].what = what;
        R.ent[R.nent].thread = vs_self();
        R.nent++;
    }
}

static void remote_input(struct upipe *upipe, struct uref *uref, struct upump **upump_p)
{
    (void)upipe;
    remote_log(-2);
    if (g_kind == 1) {
        uint64_t seq = 99;
        uref_attr_get_unsigned(uref, &seq, UDICT_TYPE_UNSIGNED, "x.seq");
        if (R.narr < 16) {
            R.arr[R.narr].seq = (int)seq;
            R.arr[R.narr].flow = R.flow_def ? R.cur_flow : -1;
            R.arr[R.narr].thread = vs_self();
            R.narr++;
        }
        vs_atomic_begin();
        uref_free(uref);
        vs_atomic_end();
        return;
    }
    if (R.output == NULL || R.flow_def == NULL) {
        uref_free(uref);
        return;
    }
    if (!R.flow_def_sent) {
        upipe_set_flow_def(R.output, R.flow_def);
        R.flow_def_sent = true;
    }
    upipe_input(R.output, uref, upump_p);
}

/* source worker: one buffer per dispatch, then end of source */
static void remote_src_cb(struct upump *upump)
{
    (void)upump;
    remote_log(-3);
    if (R.output == NULL)
        return; /* not wired yet: try again at the next iteration */
    if (R.emitted >= NSRC) {
        upump_stop(R.pump);
        upump_free(R.pump);
        R.pump = NULL;
        R.ended = true;
        upipe_throw_source_end(&R.upipe);
        return;
    }
    if (!R.flow_def_sent) {
        upipe_set_flow_def(R.output, R.flow_def);
        R.flow_def_sent = true;
    }
    vs_atomic_begin();
    struct uref *u = px_uref(&fx, R.emitted, 2, 1, false);
    vs_atomic_end();
    g_sent_flow[R.emitted] = 1;
    R.emitted++;
    g_sent = R.emitted;
    upipe_input(R.output, u, &R.pump);
}

static int remote_control(struct upipe *upipe, int command, va_list args)
{
    switch (command) {
    case UPIPE_ATTACH_UPUMP_MGR:
        remote_log(command);
        if (g_kind == 2 && R.pump == NULL && !R.ended) {
            int t = vs_self() < 0 ? 0 : vs_self();
            R.pump = upump_alloc_idler(g_mgr[t], remote_src_cb, &R, NULL);
            assert(R.pump);
            upump_start(R.pump);
        }
        return UBASE_ERR_NONE;
    case UPIPE_REGISTER_REQUEST: {
        remote_log(command);
        struct urequest *req = va_arg(args, struct urequest *);
        return upipe_throw_provide_request(upipe, req);
    }
    case UPIPE_UNREGISTER_REQUEST:
        remote_log(command);
        return UBASE_ERR_NONE;
    case UPIPE_SET_FLOW_DEF: {
        remote_log(command);
        struct uref *f = va_arg(args, struct uref *);
        vs_atomic_begin();
        uref_free(R.flow_def);
        R.flow_def = uref_dup(f);
        vs_atomic_end();
        uint64_t id = 0;
        uref_flow_get_id(f, &id);
        R.cur_flow = (int)id;
        R.flow_def_sent = false;
        return UBASE_ERR_NONE;
    }
    case UPIPE_GET_OUTPUT: {
        struct upipe **p = va_arg(args, struct upipe **);
        *p = R.output;
        return UBASE_ERR_NONE;
    }
    case UPIPE_SET_OUTPUT: {
        remote_log(command);
        struct upipe *o = va_arg(args, struct upipe *);
        upipe_release(R.output);
        R.output = upipe_use(o);
        R.flow_def_sent = false;
        return UBASE_ERR_NONE;
    }
    default:
        return UBASE_ERR_UNHANDLED;
    }
}

static void remote_free(struct urefcount *urefcount)
{
    (void)urefcount;
    remote_log(-1);
    if (R.pump) {
        upump_stop(R.pump);
        upump_free(R.pump);
        R.pump = NULL;
    }
    upipe_throw_dead(&R.upipe);
    upipe_release(R.output);
    R.output = NULL;
    uref_free(R.flow_def);
    R.flow_def = NULL;
    R.dead = true;
    upipe_clean(&R.upipe);
}

static int on_event(struct px_fix *f, struct upipe *upipe, int event, va_list args)
{
    (void)f, (void)upipe;
    if (event == UPROBE_NEED_UPUMP_MGR) {
        int t = vs_self();
        if (t < 0)
            t = 0;
        struct upump_mgr **p = va_arg(args, struct upump_mgr **);
        *p = upump_mgr_use(g_mgr[t]);
        return UBASE_ERR_NONE;
    }
    if (event == UPROBE_SOURCE_END || event == UPROBE_FREEZE_UPUMP_MGR || event == UPROBE_THAW_UPUMP_MGR)
        return UBASE_ERR_NONE;
    return UBASE_ERR_UNHANDLED;
}

static void ignore_block_of(const void *p)
{
    char name[16];
    void *base = NULL;
    size_t size = 0;
    __asan_locate_address((void *)p, name, sizeof(name), &base, &size);
    if (base && size)
        vs_ignore_range(base, size);
}

static void setup(void)
{
    simfd_reset();
    g_err[0] = 0;
    g_script_done = false;
    g_sent = 0;
    g_work = NULL;
    g_stuck = -1;
    g_idle[0] = g_idle[1] = false;
    struct px_cfg cfg = {.pool = 0, .prepend = 0, .append = 0, .align = 0};
    px_fix_init(&fx, &cfg);
    fx.on_event = on_event;
    fx.provide_upump_mgr = false;
    for (int i = 0; i < PX_NSINKS; i++)
        fx.sinks[i].unhandled_requests = true;
    g_mgr[0] = fx.upump_mgr;
    g_mgr[1] = vmock_mgr_alloc(0, 0);
    vs_ignore_reset();
    vs_ignore_range(&fx, sizeof(fx));
    ignore_block_of(fx.udict_mgr);
    ignore_block_of(fx.uref_inner);
    ignore_block_of(fx.ubuf_mgr);
    ignore_block_of(g_mgr[0]);
    ignore_block_of(g_mgr[1]);

    g_xfer_mgr = upipe_xfer_mgr_alloc(16, 0, NULL);
    assert(g_xfer_mgr);
    ubase_assert(upipe_xfer_mgr_attach(g_xfer_mgr, g_mgr[1]));
    g_wlin_mgr = upipe_wlin_mgr_alloc(g_xfer_mgr);
    assert(g_wlin_mgr);
    upipe_mgr_release(g_xfer_mgr); /* the worker manager keeps it */

    memset(&R, 0, sizeof(R));
    R.mgr.signature = UBASE_FOURCC('r', 'e', 'm', 'o');
    R.mgr.upipe_control = remote_control;
    R.mgr.upipe_input = remote_input;
    upipe_init(&R.upipe, &R.mgr, px_probe(&fx));
    urefcount_init(&R.urefcount, remote_free);
    R.upipe.refcount = &R.urefcount;
    upipe_throw_ready(&R.upipe);
    if (g_kind == 2)
        R.flow_def = px_flow(&fx, "block.", 1);
}

static bool loop_ready(void *arg)
{
    struct vmock_pump *r[8];
    return vmock_ready((struct upump_mgr *)arg, r, 8) > 0;
}

static uint64_t progress_sig(void)
{
    uint64_t h = (uint64_t)fx.nerec * 1000003u + (uint64_t)R.nent * 131u + (uint64_t)fx.nsrec;
    for (int fd = SIMFD_BASE; fd < SIMFD_BASE + 40; fd++)
        h = h * 3 + (simfd_readable(fd) ? 1 : 0);
    h = h * 31 + (uint64_t)vmock_alive(g_mgr[0]) * 7 + (uint64_t)vmock_alive(g_mgr[1]);
    return h;
}

static bool loop_once(int t)
{
    struct vmock_pump *r[16];
    int n = vmock_ready(g_mgr[t], r, 16);
    if (n == 0) {
        if (vmock_alive(g_mgr[t]) == 0)
            return false;
        g_idle[t] = true;
        vs_wait(loop_ready, g_mgr[t]);
        g_idle[t] = false;
        return true;
    }
    vs_point(VS_K_LOOP, NULL);
    n = vmock_ready(g_mgr[t], r, 16);
    if (n == 0)
        return true;
    int c = n > 1 ? vs_choose(n > 3 ? 3 : n, 1) : 0;
    uint64_t before = progress_sig();
    vmock_dispatch(r[c]);
    if (progress_sig() == before)
        vs_yield();
    return true;
}

/* one loop step in the middle of a script: never sleeps */
static void loop_step(int t)
{
    if (loop_ready(g_mgr[t]))
        loop_once(t);
}

static bool quiescent(void *arg)
{
    (void)arg;
    return loop_ready(g_mgr[0]) || (g_idle[1] && !loop_ready(g_mgr[1]));
}

/* buffers that reached the far end so far */
static int arrived(void)
{
    if (g_kind == 1)
        return R.narr;
    int got = 0;
    for (int i = 0; i < fx.nsrec; i++)
        got += fx.srec[i].sink == 0 && fx.srec[i].kind == PXS_INPUT;
    return got;
}

static void app(void *arg)
{
    (void)arg;
    int flow = 0;
    for (const char *p = g_script; *p; p++) {
        switch (*p) {
        case 'w':
            /* the worker takes over our references on the remote pipe and on its probe */
            if (g_kind == 0)
                g_work = upipe_wlin_alloc(g_wlin_mgr, px_probe(&fx), &R.upipe, px_probe(&fx), g_qlen, g_qlen);
            else if (g_kind == 1)
                g_work = upipe_wsink_alloc(g_wlin_mgr, px_probe(&fx), &R.upipe, px_probe(&fx), g_qlen);
            else
                g_work = upipe_wsrc_alloc(g_wlin_mgr, px_probe(&fx), &R.upipe, px_probe(&fx), g_qlen);
            assert(g_work);
            break;
        case 'q': { /* run the application's loop until both sides are quiescent, then look at what arrived */
            for (;;) {
                if (loop_ready(g_mgr[0])) {
                    loop_once(0);
                    continue;
                }
                if (g_idle[1] && !loop_ready(g_mgr[1]))
                    break;
                vs_wait(quiescent, NULL);
            }
            int want = g_kind == 2 ? NSRC : g_sent;
            if (arrived() < want && g_stuck < 0) {
                g_stuck = want;
                g_stuck_got = arrived();
            }
            break;
        }
        case 'a': ubase_assert(upipe_attach_upump_mgr(g_work)); break;
        case 'o': ubase_assert(upipe_set_output(g_work, &fx.sinks[0].upipe)); break;
        case 'f':
        case 'F': {
            flow = *p == 'f' ? 1 : 2;
            vs_atomic_begin();
            struct uref *f = px_flow(&fx, "block.", flow);
            vs_atomic_end();
            upipe_set_flow_def(g_work, f);
            vs_atomic_begin();
            uref_free(f);
            vs_atomic_end();
            break;
        }
        case 'i': {
            vs_atomic_begin();
            struct uref *u = px_uref(&fx, g_sent, 2, 1, false);
            vs_atomic_end();
            g_sent_flow[g_sent] = flow;
            g_sent++;
            upipe_input(g_work, u, NULL);
            break;
        }
        case 'l': loop_step(0); break;
        case 'r':
            upipe_release(g_work);
            upipe_mgr_release(g_wlin_mgr);
            break;
        }
    }
    g_script_done = true;
    while (loop_once(0))
        ;
}

static void remote(void *arg)
{
    (void)arg;
    for (;;) {
        if (!loop_once(1))
            break;
        if (!g_script_done)
            vs_mark_nontrivial();
    }
}

static void cfg_str(char *b, size_t n)
{
    snprintf(b, n, "worker%s:script=%s:qlen=%d", g_kind == 0 ? "" : g_kind == 1 ? "-sink" : "-source", g_script, g_qlen);
}

static int check(int outcome, char *sig, char *msg)
{
    char cs[96];
    cfg_str(cs, sizeof(cs));
    if (outcome == VS_DEADLOCK)
        fail("worker:deadlock", "every unfinished thread is asleep on a non-readable descriptor (%d entries into the remote pipe, %d buffers sent)", R.nent, g_sent);
    else if (outcome == VS_HORIZON)
        fail("worker:livelock", "execution exceeded the horizon");
    int got = 0;
    if (g_stuck >= 0)
        fail("worker:stuck:idle-with-buffers-undelivered", "both loops were idle (no descriptor readable) with %d buffer(s) due, yet only %d had reached the far end",
             g_stuck, g_stuck_got);
    if (outcome == VS_DONE && g_kind == 1) {
        /* sink worker: what the remote pipe consumed */
        int expect_next = 0;
        for (int i = 0; i < R.narr; i++) {
            if (R.arr[i].thread != 1)
                fail("thread:remote-entered-from-wrong-thread", "the remote sink got buffer seq=%d in thread %d", R.arr[i].seq, R.arr[i].thread);
            if (R.arr[i].flow < 0)
                fail("worker:data-before-definition", "buffer seq=%d reached the remote sink before any flow definition", R.arr[i].seq);
            if (R.arr[i].seq < 0 || R.arr[i].seq >= g_sent)
                fail("worker:invented", "buffer with sequence %d was never sent", R.arr[i].seq);
            else if (R.arr[i].seq < expect_next)
                fail(R.arr[i].seq == expect_next - 1 ? "worker:duplicated" : "worker:reordered", "buffer seq=%d arrived after seq=%d", R.arr[i].seq, expect_next - 1);
            else {
                for (int k = expect_next; k < R.arr[i].seq; k++)
                    fail("worker:lost", "buffer seq=%d never arrived (seq=%d did)", k, R.arr[i].seq);
                expect_next = R.arr[i].seq + 1;
                if (g_sent_flow[R.arr[i].seq] != R.arr[i].flow)
                    fail("worker:wrong-definition", "buffer seq=%d was sent under flow %d but the remote sink's last definition is flow %d", R.arr[i].seq,
                         g_sent_flow[R.arr[i].seq], R.arr[i].flow);
            }
        }
        got = R.narr;
    }
    if (outcome == VS_DONE) {
        for (int i = 0; i < R.nent; i++)
            if (R.ent[i].thread != 1)
                fail("thread:remote-entered-from-wrong-thread", "the remote pipe was entered (%d) from thread %d", R.ent[i].what, R.ent[i].thread);
        if (R.use_after_dead)
            fail("worker:remote-used-after-free", "the remote pipe was entered %d time(s) after its last release", R.use_after_dead);
        if (!R.dead)
            fail("worker:remote-never-released", "the remote pipe was never released although the worker was");
        /* what came back to the application's sink */
        int expect_next = 0, cur_flow = -1;
        bool have_def = false;
        for (int i = 0; i < fx.nsrec; i++) {
            struct px_srec *r = &fx.srec[i];
            if (r->sink != 0)
                continue;
            if (r->thread != 0)
                fail("thread:sink-entered-from-wrong-thread", "the application's sink was entered from thread %d", r->thread);
            if (r->kind == PXS_FLOWDEF) {
                have_def = true;
                cur_flow = r->flow_id;
            } else if (r->kind == PXS_INPUT) {
                got++;
                if (!have_def)
                    fail("worker:data-before-definition", "buffer seq=%" PRId64 " reached the application's sink before any flow definition", r->seq);
                if (r->seq < 0 || r->seq >= g_sent)
                    fail("worker:invented", "buffer with sequence %" PRId64 " was never sent", r->seq);
                else if (r->seq < expect_next)
                    fail(r->seq == expect_next - 1 ? "worker:duplicated" : "worker:reordered", "buffer seq=%" PRId64 " arrived after seq=%d", r->seq, expect_next - 1);
                else {
                    for (int k = expect_next; k < r->seq; k++)
                        fail("worker:lost", "buffer seq=%d never arrived (seq=%" PRId64 " did)", k, r->seq);
                    expect_next = (int)r->seq + 1;
                    if (g_sent_flow[r->seq] != cur_flow)
                        fail("worker:wrong-definition", "buffer seq=%" PRId64 " was sent under flow %d but the sink's last definition is flow %d", r->seq, g_sent_flow[r->seq], cur_flow);
                    if (r->size != 2 || r->bytes[0] != px_octet((int)r->seq, 0))
                        fail("worker:payload", "buffer seq=%" PRId64 " arrived with other content", r->seq);
                }
            }
        }
        bool wired = strchr(g_script, 'a') && strchr(g_script, 'o') && strchr(g_script, 'o') < strchr(g_script, 'i');
        if (wired && g_kind == 0)
            for (int k = expect_next; k < g_sent; k++)
                fail("worker:lost", "buffer seq=%d never arrived although both loops ran until idle", k);
        for (int i = 0; i < fx.nerec; i++) {
            struct px_erec *e = &fx.erec[i];
            if (e->pipe == g_work && e->thread > 0 && e->event != UPROBE_LOG)
                fail("thread:worker-event-from-wrong-thread", "the worker pipe threw '%s' from thread %d", px_event_name(e->event), e->thread);
            if (e->pipe == &R.upipe && e->thread == 0 && e->event != UPROBE_READY)
                fail("thread:remote-event-from-wrong-thread", "the remote pipe threw '%s' from the application thread", px_event_name(e->event));
        }
        char sg[96];
        const char *m = px_check_lifecycle(&fx, sg, sizeof(sg));
        if (m)
            fail(sg, "%s", m);
    }
    snprintf(g_outcome, sizeof(g_outcome), "entries=%d got=%d dead=%d", R.nent, got, R.dead);
    int r = 0;
    if (g_err[0]) {
        snprintf(sig, 256, "%s", g_errsig);
        snprintf(msg, 1024, "config [%s]: %s", cs, g_err);
        r = 1;
    }
    if (outcome == VS_DONE) {
        struct vmock_mgr *vm = vmock_mgr_from_upump_mgr(g_mgr[1]);
        int npumps = vm->npumps;
        unsigned refs = uatomic_load(&vm->urefcount.refcount);
        upump_mgr_release(g_mgr[1]);
        free(vm);
        char sg[96] = "";
        const char *m = px_fix_fini(&fx, sg, sizeof(sg));
        if (r == 0 && (npumps || refs != 1)) {
            snprintf(sig, 256, "end:remote-loop-leak");
            snprintf(msg, 1024, "config [%s]: the remote event loop manager has %d pump(s) and %u reference(s) left", cs, npumps, refs);
            return 1;
        }
        if (r == 0 && m) {
            snprintf(sig, 256, "%s", sg);
            snprintf(msg, 1024, "config [%s]: %s", cs, m);
            return 1;
        }
    }
    return r;
}

static void outcome_str(char *b, size_t n) { snprintf(b, n, "%s", g_outcome); }

int main(int argc, char **argv)
{
    struct vs_options opt;
    vs_default_options(&opt);
    opt.horizon = 20000;
    vs_parse_args(&opt, argc, argv);
    for (int i = 1; i + 1 < argc; i++) {
        if (!strcmp(argv[i], "--script")) g_script = argv[i + 1];
        else if (!strcmp(argv[i], "--qlen")) g_qlen = atoi(argv[i + 1]);
        else if (!strcmp(argv[i], "--kind")) g_kind = atoi(argv[i + 1]);
    }
    opt.kind_mask = 0xffffffffu & ~((1u << 5) | (1u << 6));
    if (opt.replay && strchr(opt.replay, '@'))
        opt.replay = strchr(opt.replay, '@') + 1;
    setvbuf(stdout, NULL, _IOLBF, 0);
    v_crash_open();
    px_self_fn = vs_self;
    char cs[96];
    cfg_str(cs, sizeof(cs));
    struct vs_program prog = {.name = cs, .nthreads = 2, .setup = setup, .check = check, .outcome_str = outcome_str};
    prog.fn[0] = app;
    prog.fn[1] = remote;
    struct vs_stats st;
    memset(&st, 0, sizeof(st));
    vs_explore_iter(&prog, &opt, &st);
    if (opt.replay)
        return 0;
    v_stat("states", st.points);
    v_stat("transitions", st.points);
    v_stat("executions", st.executions);
    v_stat("nontrivial", st.nontrivial);
    v_stat("deadlocks", st.deadlocks);
    v_stat("violations", st.violations);
    v_stat("distinct_outcomes", st.distinct_outcomes);
    v_stat("min_bound_completed", st.bound_completed);
    v_stat("max_points_per_execution", st.max_points);
    if (st.capped)
        v_incomplete("c06 [%s]: deadline hit; preemption bound %d completed (requested %d)", cs, st.bound_completed, opt.bound);
    return 0;
}
