"""Registry fragment for C16 (PSI sections reassembled, routed and joined without loss)."""

_R = "@REPO@/lib/upipe/"
_T = "@REPO@/lib/upipe-ts/"
_E = "@VERIF@/engine/"

_CORE = [_R + f for f in (
    "umem_alloc.c", "umem_pool.c", "ubuf_block_mem.c", "ubuf_mem.c", "ubuf_mem_common.c",
    "ubuf_pic_mem.c", "ubuf_pic_common.c", "ubuf_pic.c", "ubuf_sound_mem.c", "ubuf_sound_common.c",
    "udict_inline.c", "uref_std.c", "upump_common.c", "uprobe.c", "uprobe_stdio.c", "uprobe_prefix.c",
    "uprobe_ubuf_mem.c", "uprobe_uref_mgr.c", "uprobe_uclock.c", "uprobe_upump_mgr.c",
    "ustring.c", "uuri.c", "uref_uri.c", "uref_pic_flow.c", "upipe_dump.c",
    "ucookie.c", "uprobe_ubuf_mem_pool.c", "uclock_std.c",
)]

HARNESS = {
    "c16_psi": {"src": ["@VERIF@/harness/c16_psi.c", _T + "upipe_ts_psi_merge.c", _T + "upipe_ts_psi_split.c", _T + "upipe_ts_psi_join.c"]
                       + [((f, ["-Dmalloc=vf_malloc"]) if f.endswith(("ubuf_block_mem.c", "ubuf_mem_common.c")) else f) for f in _CORE]
                       + [_E + "vmock_upump.c", _E + "simfd.c"]},
}


def _sharded(args, n, dl):
    return [("c16_psi", args + ["--shard", "%d/%d" % (i, n), "--deadline", dl]) for i in range(n)]


def _c16_jobs(tier):
    q = tier == "quick"
    dl = 55 if q else 840
    M = ["--mode", "merge"]
    jobs = []
    if q:
        # fault-free: <=3 sections, all 6 kinds, 3 contents, every cutting into <=4 payloads, stuffing subsets
        jobs += _sharded(M + ["--maxsec", 3, "--faults", "n", "--segs", "0", "--stuff", "2"], 16, dl)
        # <=2 sections: every fault (discontinuity / missing payload on every payload, 7 header corruptions on every section)
        jobs += _sharded(M + ["--maxsec", 2, "--faults", "dm", "--segs", "0", "--stuff", "2"], 6, dl)
        # refused memory while a payload is handled (1st..3rd request), <=2 sections, plain and segmented payloads
        jobs += _sharded(M + ["--maxsec", 2, "--faults", "a", "--segs", "0,2", "--stuff", "2"], 6, dl)
        jobs += _sharded(M + ["--maxsec", 2, "--contents", "dh", "--faults", "c", "--segs", "0", "--stuff", "2"], 8, dl)
        # <=2 sections fault-free with segmented payloads and other stuffing sizes
        jobs += _sharded(M + ["--maxsec", 2, "--faults", "n", "--segs", "1,2", "--stuff", "1,4"], 2, dl)
        # 3 sections with faults, <=3 payloads
        jobs += _sharded(M + ["--maxsec", 3, "--maxcuts", 2, "--kinds", "029s", "--faults", "dm", "--segs", "0", "--stuff", "2"], 4, dl)
        jobs += _sharded(M + ["--maxsec", 3, "--maxcuts", 2, "--kinds", "05s", "--faults", "c", "--segs", "0", "--stuff", "2"], 6, dl)
        # one maximal section (section_length 4093), cuts around its boundaries
        jobs += _sharded(M + ["--maxsec", 1, "--kinds", "0", "--long", "Ll", "--faults", "ndmc", "--segs", "0,2", "--stuff", "2"], 2, dl)
    else:
        jobs += _sharded(M + ["--maxsec", 3, "--faults", "n", "--segs", "0,1,2", "--stuff", "1,4"], 32, dl)
        jobs += _sharded(M + ["--maxsec", 3, "--faults", "dmc", "--segs", "0", "--stuff", "2"], 64, dl)
        jobs += _sharded(M + ["--maxsec", 2, "--faults", "ndmc", "--segs", "0,1,2", "--stuff", "1,4"], 16, dl)
        jobs += _sharded(M + ["--maxsec", 1, "--kinds", "0", "--long", "Ll", "--faults", "ndmc", "--segs", "0,1,2", "--stuff", "1,4"], 2, dl)
        jobs += _sharded(M + ["--maxsec", 2, "--long", "Ll", "--contents", "df", "--faults", "ndmc", "--segs", "0", "--stuff", "2"], 16, dl)
        jobs += _sharded(M + ["--maxsec", 3, "--maxcuts", 2, "--kinds", "09", "--long", "L", "--contents", "d", "--faults", "ndm", "--segs", "0", "--stuff", "2"], 2, dl)
        # TS-like cutting: 184- and 183-octet payloads at every phase, any number of payloads
        for ps in (184, 183):
            jobs += _sharded(["--mode", "merge-ts", "--psize", ps, "--maxsec", 3, "--kinds", "05s", "--long", "Ll", "--contents", "df",
                              "--faults", "ndm", "--segs", "0", "--stuff", "2"], 16, dl)
    S = ["--mode", "split"]
    jobs.append(("c16_psi", S + ["--sub", "static", "--nout", 1, "--deadline", dl]))
    jobs.append(("c16_psi", S + ["--sub", "static", "--nout", 2, "--deadline", dl]))
    jobs += _sharded(S + ["--sub", "static", "--nout", 3], 8, dl)
    jobs += _sharded(S + ["--sub", "dyn", "--filters", "small", "--depth", 5 if q else 6], 4 if q else 16, dl)
    J = ["--mode", "join", "--maxin", 4]
    if q:
        jobs.append(("c16_psi", J + ["--depth", 7, "--deadline", dl]))
        # inputs whose definition arrives while a memory request is refused (the joiner rebuilds its own definition)
        jobs += _sharded(J + ["--join-faults", 1, "--depth", 6], 8, dl)
    else:
        jobs += _sharded(J + ["--depth", 10], 16, dl)
        jobs += _sharded(J + ["--join-faults", 1, "--depth", 8], 8, dl)
    return jobs


CHECK = {
    "engine": "seqx", "design_ref": "DESIGN.md section 3 C16",
    "technique": "exhaustive enumeration of section sequences x contents x every cutting into payloads x stuffing x segmentation x single faults "
                 "on the real upipe_ts_psi_merge (reference serialiser written from ISO/IEC 13818-1 2.4.4); filter/mask sets x leading octets and "
                 "add/release/input op sequences on the real upipe_ts_psi_split (reference matcher); add/release/input/release-main op sequences on the "
                 "real upipe_ts_psi_join; pipex fixture with counting managers + heap tracker + ASan on every case",
    "level_text": "Merger: every sequence of <=3 sections with section_length in {0,1,2,5,9} (syntax bit on for 9), three payload contents (distinct, all 0xff, "
                  "header look-alikes), cut at every set of <=3 positions (also inside the 3-octet header) into <=4 payloads carrying unit-start + pointer_field "
                  "as the TS layer presents them, every subset of legal stuffing places, payloads as 1 or 2 buffer segments; faults: discontinuity flag on any one "
                  "payload, any one payload missing (next one flagged), 7 single-octet header corruptions of any one section. Oracle: fault-free output = the original "
                  "sections byte for byte, in order, once; after a fault only true complete sections (for corruption: self-consistent sections inside the damage zone), "
                  "every section complete before the fault and every section beginning in or after the next unit-start payload must be output. Splitter: all filter/mask "
                  "sets of the stated size against all 9 leading-octet combinations (sections as 1 or 2 segments cut inside the filtered octets), outputs added/released "
                  "between sections; each output receives exactly what the reference matcher selects, unmodified, in order. Joiner: every op sequence up to the depth; "
                  "every section of every input arrives once, unmodified, per-input order kept. End state of every case: px_fix_fini clean, no heap block left. Bounded, not a proof.",
    "level_note": "Trusted: the reference serialiser/matcher in the harness (about 80 lines), clang/ASan, the bitstream shim's psi_get_length/psi_validate as used by the code under test "
                  "(a shim error would show as a disagreement with the reference). Outside the bound: more than 3 sections or 4 payloads per case (except the TS-like cutting of thorough), "
                  "section lengths other than {0,1,2,5,9,4093}, two faults in one case, losses not signalled by the TS layer, filters longer than 2 octets.",
    "jobs": {"quick": _c16_jobs("quick"), "thorough": _c16_jobs("thorough")},
    "rule": "plain nested enumeration, one execution = one fresh fixture + pipe fed one case; states = distinct (sections, content, cutting) inputs (merge) / distinct scripts (split, join); "
            "transitions = buffers fed; non-trivial = merge cases in which a section crosses a payload boundary, split cases in which a section matches >= 1 output, "
            "join cases in which >= 2 inputs delivered sections",
    "bounds": {"quick": "merge: <=3 sections x 6 kinds x 3 contents x all cuttings into <=4 payloads x stuffing subsets (fault-free); <=2 sections with every discontinuity / missing payload / "
                        "7 header corruptions (contents distinct and look-alike); 3 sections with faults cut into <=3 payloads (discontinuity/missing on kinds 0,2,9,9s; corruptions on kinds 0,5,9s); one 4093-octet section; 2-segment payloads on <=2 sections. "
                        "split: 1, 2, 3 outputs x all 64 normalised filter/mask pairs over 2 octets x 9 leading-octet types x 3 segmentations; op sequences to depth 5 over 7 filters. "
                        "join: op sequences to depth 7, <=3 inputs, <=4 sections",
               "thorough": "merge: all faults on <=3 sections x <=4 payloads; 3 segmentations and stuffing sizes 1 and 4; one 4093-octet section with <=1 (all faults) or 2 (kinds 0,9) short ones, cuts near "
                           "section boundaries; TS-like cutting into 184/183-octet payloads at every phase. split: op sequences to depth 6. join: depth 10"},
    "assumptions": [
        "harness compiled with clang -O1 + AddressSanitizer from /repo's working tree; library asserts enabled",
        "a lost payload is signalled by the discontinuity attribute on the next payload (what upipe_ts_decaps does on a continuity_counter gap)",
        "payloads are presented the way upipe_ts_decaps presents them: unit start as the block start attribute, pointer_field as first octet",
        "the multiplexer is conformant: stuffing only after the last octet of a section and then to the end of the payload; corruption happens in transit (pointer_field intact)",
    ],
}
