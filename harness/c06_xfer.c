/* C06 (L2) — a pipe handed to another thread through upipe_xfer is only entered
 * from that thread; commands arrive exactly once and in order; events come back
 * to the application's thread; nothing is used after free, whatever the
 * interleaving (<= k preemptions).
 *
 * Thread 0 (application): owns the real upipe_xfer pipe; script over
 *   a = attach_upump_mgr, u = set_uri, o = set_output, l = one loop step,
 *   r = release(xfer pipe), m = release(xfer manager); then its loop.
 * Thread 1 (remote): event loop to which the real upipe_xfer_mgr is attached;
 *   the remote pipe is a harness pipe recording the thread of every entry and
 *   throwing 'source_end' (forwarded through uprobe_xfer) on every set_uri.
 * DESIGN.md section 3, C06. */
#include "pipex.h"
#include "vsched.h"
#include "simfd.h"

#include "upipe-modules/upipe_transfer.h"
#include "upipe/uprobe_transfer.h"

#include <sanitizer/asan_interface.h>

static const char *g_script = "aurm";
static int g_qlen = 2;

static struct px_fix fx;
static struct upump_mgr *g_mgr[2];
static struct upipe_mgr *g_xfer_mgr;
static struct upipe *g_xfer;
static bool g_script_done;
static char g_err[400], g_errsig[96];
static char g_outcome[96];

/* ---- remote mock pipe ---- */
static struct remote {
    struct upipe upipe;
    struct urefcount urefcount;
    struct upipe_mgr mgr;
    bool dead;
    int ncmd;
    struct {
        int cmd, thread;
    } cmds[32];
    struct upipe *output;
    int use_after_dead;
} R;

static void fail(const char *sig, const char *fmt, ...)
{
    if (g_err[0])
        return;
    va_list ap;
    va_start(ap, fmt);
    vsnprintf(g_err, sizeof(g_err), fmt, ap);
    va_end(ap);
    snprintf(g_errsig, sizeof(g_errsig), "%s", sig);
}

static void remote_log(int cmd)
{
    if (R.dead)
        R.use_after_dead++;
    if (R.ncmd < 32) {
        R.cmds[R.ncmd].cmd = cmd;
        R.cmds[R.ncmd].thread = vs_self();
        R.ncmd++;
    }
}

static int remote_control(struct upipe *upipe, int command, va_list args)
{
    switch (command) {
    case UPIPE_ATTACH_UPUMP_MGR:
        remote_log(command);
        return UBASE_ERR_NONE;
    case UPIPE_SET_URI:
        remote_log(command);
        /* an event for the application: travels back through uprobe_xfer and the xfer pipe's queue */
        upipe_throw_source_end(upipe);
        return UBASE_ERR_NONE;
    case UPIPE_SET_OUTPUT: {
        remote_log(command);
        struct upipe *o = va_arg(args, struct upipe *);
        upipe_release(R.output);
        R.output = upipe_use(o);
        return UBASE_ERR_NONE;
    }
    default:
        return UBASE_ERR_UNHANDLED;
    }
}

static void remote_free(struct urefcount *urefcount)
{
    (void)urefcount;
    remote_log(-1);
    upipe_throw_dead(&R.upipe);
    upipe_release(R.output);
    R.output = NULL;
    R.dead = true;
    upipe_clean(&R.upipe);
}

static int on_event(struct px_fix *f, struct upipe *upipe, int event, va_list args)
{
    (void)f, (void)upipe;
    if (event == UPROBE_NEED_UPUMP_MGR) {
        int t = vs_self();
        if (t < 0)
            t = 0;
        struct upump_mgr **p = va_arg(args, struct upump_mgr **);
        *p = upump_mgr_use(g_mgr[t]);
        return UBASE_ERR_NONE;
    }
    if (event == UPROBE_SOURCE_END)
        return UBASE_ERR_NONE;
    return UBASE_ERR_UNHANDLED;
}

static void ignore_block_of(const void *p)
{
    char name[16];
    void *base = NULL;
    size_t size = 0;
    __asan_locate_address((void *)p, name, sizeof(name), &base, &size);
    if (base && size)
        vs_ignore_range(base, size);
}

static void setup(void)
{
    simfd_reset();
    g_err[0] = 0;
    g_script_done = false;
    struct px_cfg cfg = {.pool = 0, .prepend = 0, .append = 0, .align = 0};
    px_fix_init(&fx, &cfg);
    fx.on_event = on_event;
    fx.provide_upump_mgr = false;
    g_mgr[0] = fx.upump_mgr;
    g_mgr[1] = vmock_mgr_alloc(0, 0);
    vs_ignore_reset();
    vs_ignore_range(&fx, sizeof(fx));
    ignore_block_of(fx.udict_mgr);
    ignore_block_of(fx.uref_inner);
    ignore_block_of(fx.ubuf_mgr);
    ignore_block_of(g_mgr[0]);
    ignore_block_of(g_mgr[1]);

    g_xfer_mgr = upipe_xfer_mgr_alloc(g_qlen, 0, NULL);
    assert(g_xfer_mgr);
    ubase_assert(upipe_xfer_mgr_attach(g_xfer_mgr, g_mgr[1]));

    memset(&R, 0, sizeof(R));
    R.mgr.signature = UBASE_FOURCC('r', 'e', 'm', 'o');
    R.mgr.upipe_control = remote_control;
    struct uprobe *xp = uprobe_xfer_alloc(px_probe(&fx));
    assert(xp);
    ubase_assert(uprobe_xfer_add(xp, UPROBE_XFER_VOID, UPROBE_SOURCE_END, 0));
    upipe_init(&R.upipe, &R.mgr, xp);
    urefcount_init(&R.urefcount, remote_free);
    R.upipe.refcount = &R.urefcount;
    upipe_throw_ready(&R.upipe);
    /* the xfer pipe takes over our reference on the remote pipe */
    g_xfer = upipe_xfer_alloc(g_xfer_mgr, px_probe(&fx), &R.upipe);
    assert(g_xfer);
}

static bool loop_ready(void *arg)
{
    struct vmock_pump *r[8];
    return vmock_ready((struct upump_mgr *)arg, r, 8) > 0;
}

static uint64_t progress_sig(void)
{
    uint64_t h = (uint64_t)fx.nerec * 1000003u + (uint64_t)R.ncmd;
    for (int fd = SIMFD_BASE; fd < SIMFD_BASE + 16; fd++)
        h = h * 3 + (simfd_readable(fd) ? 1 : 0);
    h = h * 31 + (uint64_t)vmock_alive(g_mgr[0]) * 7 + (uint64_t)vmock_alive(g_mgr[1]);
    return h;
}

static bool loop_once(int t)
{
    struct vmock_pump *r[8];
    int n = vmock_ready(g_mgr[t], r, 8);
    if (n == 0) {
        if (vmock_alive(g_mgr[t]) == 0)
            return false;
        vs_wait(loop_ready, g_mgr[t]);
        return true;
    }
    vs_point(VS_K_LOOP, NULL);
    n = vmock_ready(g_mgr[t], r, 8);
    if (n == 0)
        return true;
    int c = n > 1 ? vs_choose(n, 1) : 0;
    uint64_t before = progress_sig();
    vmock_dispatch(r[c]);
    if (progress_sig() == before)
        vs_yield();
    return true;
}

/* one loop step in the middle of a script: never sleeps */
static void loop_step(int t)
{
    if (loop_ready(g_mgr[t]))
        loop_once(t);
}

static void app(void *arg)
{
    (void)arg;
    for (const char *p = g_script; *p; p++) {
        switch (*p) {
        case 'a': ubase_assert(upipe_attach_upump_mgr(g_xfer)); break;
        case 'u': upipe_set_uri(g_xfer, "x"); break;
        case 'o': upipe_set_output(g_xfer, &fx.sinks[0].upipe); break;
        case 'l': loop_step(0); break;
        case 'r': upipe_release(g_xfer); break;
        case 'm': upipe_mgr_release(g_xfer_mgr); break;
        }
    }
    g_script_done = true;
    while (loop_once(0))
        ;
}

static void remote(void *arg)
{
    (void)arg;
    for (;;) {
        if (!loop_once(1))
            break;
        if (!g_script_done)
            vs_mark_nontrivial();
    }
}

static void cfg_str(char *b, size_t n) { snprintf(b, n, "xfer:script=%s:qlen=%d", g_script, g_qlen); }

static int check(int outcome, char *sig, char *msg)
{
    char cs[96];
    cfg_str(cs, sizeof(cs));
    if (outcome == VS_DEADLOCK)
        fail("xfer:deadlock", "every unfinished thread is asleep on a non-readable descriptor (%d commands reached the remote pipe)", R.ncmd);
    else if (outcome == VS_HORIZON)
        fail("xfer:livelock", "execution exceeded the horizon");
    int fwd = 0;
    if (outcome == VS_DONE) {
        /* commands: exactly the scripted ones, in order, each once, all in the remote thread */
        int want[16], nw = 0;
        for (const char *p = g_script; *p; p++) {
            if (*p == 'a') want[nw++] = UPIPE_ATTACH_UPUMP_MGR;
            else if (*p == 'u') want[nw++] = UPIPE_SET_URI;
            else if (*p == 'o') want[nw++] = UPIPE_SET_OUTPUT;
            else if (*p == 'r') want[nw++] = -1;
        }
        bool same = nw == R.ncmd;
        for (int i = 0; i < nw && same; i++)
            same = want[i] == R.cmds[i].cmd;
        if (!same) {
            char got[128] = "";
            size_t o = 0;
            for (int i = 0; i < R.ncmd && o + 8 < sizeof(got); i++)
                o += snprintf(got + o, sizeof(got) - o, "%d ", R.cmds[i].cmd);
            fail("xfer:commands-lost-duplicated-or-reordered", "the remote pipe saw commands [%s], script is %s", got, g_script);
        }
        for (int i = 0; i < R.ncmd; i++)
            if (R.cmds[i].thread != 1)
                fail("thread:remote-entered-from-wrong-thread", "the remote pipe was entered (command %d) from thread %d", R.cmds[i].cmd, R.cmds[i].thread);
        if (R.use_after_dead)
            fail("xfer:remote-used-after-free", "the remote pipe was entered %d time(s) after its last release", R.use_after_dead);
        if (!R.dead)
            fail("xfer:remote-never-released", "the remote pipe was never released although the xfer pipe was");
        /* events forwarded to the application arrive in its thread, at most once per set_uri */
        int nuri = 0;
        for (const char *p = g_script; *p; p++)
            nuri += *p == 'u';
        for (int i = 0; i < fx.nerec; i++) {
            struct px_erec *e = &fx.erec[i];
            if (e->pipe == g_xfer && e->event == UPROBE_SOURCE_END) {
                fwd++;
                if (e->thread != 0)
                    fail("thread:event-delivered-in-wrong-thread", "an event of the remote pipe was thrown by the xfer pipe in thread %d", e->thread);
            }
            if (e->pipe == g_xfer && e->thread > 0 && e->event != UPROBE_LOG)
                fail("thread:xfer-event-from-wrong-thread", "the xfer pipe threw '%s' from thread %d", px_event_name(e->event), e->thread);
            if (e->pipe == &R.upipe && e->thread == 0)
                fail("thread:remote-event-from-wrong-thread", "the remote pipe threw '%s' from the application thread", px_event_name(e->event));
        }
        if (fwd > nuri)
            fail("xfer:event-duplicated", "%d source_end events forwarded for %d set_uri", fwd, nuri);
        char sg[96];
        const char *m = px_check_lifecycle(&fx, sg, sizeof(sg));
        if (m)
            fail(sg, "%s", m);
        if (px_dead_stamp(&fx, g_xfer) < 0)
            fail("xfer:never-dead", "the xfer pipe never died although it was released and both loops ran until idle");
    }
    snprintf(g_outcome, sizeof(g_outcome), "cmds=%d fwd=%d dead=%d", R.ncmd, fwd, R.dead);
    int r = 0;
    if (g_err[0]) {
        snprintf(sig, 256, "%s", g_errsig);
        snprintf(msg, 1024, "config [%s]: %s", cs, g_err);
        r = 1;
    }
    if (outcome == VS_DONE) {
        struct vmock_mgr *vm = vmock_mgr_from_upump_mgr(g_mgr[1]);
        int npumps = vm->npumps;
        unsigned refs = uatomic_load(&vm->urefcount.refcount);
        upump_mgr_release(g_mgr[1]);
        free(vm);
        char sg[96] = "";
        const char *m = px_fix_fini(&fx, sg, sizeof(sg));
        if (r == 0 && (npumps || refs != 1)) {
            snprintf(sig, 256, "end:remote-loop-leak");
            snprintf(msg, 1024, "config [%s]: the remote event loop manager has %d pump(s) and %u reference(s) left (xfer manager not detached?)", cs, npumps, refs);
            return 1;
        }
        if (r == 0 && m) {
            snprintf(sig, 256, "%s", sg);
            snprintf(msg, 1024, "config [%s]: %s", cs, m);
            return 1;
        }
    }
    return r;
}

static void outcome_str(char *b, size_t n) { snprintf(b, n, "%s", g_outcome); }

int main(int argc, char **argv)
{
    struct vs_options opt;
    vs_default_options(&opt);
    opt.horizon = 6000;
    vs_parse_args(&opt, argc, argv);
    for (int i = 1; i + 1 < argc; i++) {
        if (!strcmp(argv[i], "--script")) g_script = argv[i + 1];
        else if (!strcmp(argv[i], "--qlen")) g_qlen = atoi(argv[i + 1]);
    }
    opt.kind_mask = 0xffffffffu & ~((1u << 5) | (1u << 6));
    if (opt.replay && strchr(opt.replay, '@'))
        opt.replay = strchr(opt.replay, '@') + 1;
    setvbuf(stdout, NULL, _IOLBF, 0);
    v_crash_open();
    px_self_fn = vs_self;
    char cs[96];
    cfg_str(cs, sizeof(cs));
    struct vs_program prog = {.name = cs, .nthreads = 2, .setup = setup, .check = check, .outcome_str = outcome_str};
    prog.fn[0] = app;
    prog.fn[1] = remote;
    struct vs_stats st;
    memset(&st, 0, sizeof(st));
    vs_explore_iter(&prog, &opt, &st);
    if (opt.replay)
        return 0;
    v_stat("states", st.points);
    v_stat("transitions", st.points);
    v_stat("executions", st.executions);
    v_stat("nontrivial", st.nontrivial);
    v_stat("deadlocks", st.deadlocks);
    v_stat("violations", st.violations);
    v_stat("distinct_outcomes", st.distinct_outcomes);
    v_stat("min_bound_completed", st.bound_completed);
    v_stat("max_points_per_execution", st.max_points);
    if (st.capped)
        v_incomplete("c06 [%s]: deadline hit; preemption bound %d completed (requested %d)", cs, st.bound_completed, opt.bound);
    return 0;
}
