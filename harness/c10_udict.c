/* C10 — attribute dictionaries behave as typed key-value maps.
 *
 * seqx BFS over set / delete / dup / copy / import / aliasing-set on two real
 * udict_inline dictionaries over a counting allocator, against an ordered-map
 * model. After every transition: typed lookup of ALL keys in both
 * dictionaries, full iteration (each present attribute exactly once), cmp.
 *
 * args: --min M --extra X --pool P --keys N --big 0|1 --depth D
 */
#undef NDEBUG
#include "upipe/ubase.h"
#include "upipe/umem.h"
#include "upipe/udict.h"
#include "upipe/udict_inline.h"
#include "seqx.h"
#include "count_umem.h"

static int g_min = 1, g_extra = 1, g_pool = 0, g_nkeys = 10, g_big = 0, g_faults = 0;

struct keydef {
    enum udict_type type; /* type passed to the API */
    enum udict_type base; /* base type */
    const char *name;     /* NULL for shorthands */
};
/* chosen to collide: same name / other type, prefixes, shorthand vs named */
static const struct keydef K[] = {
    {UDICT_TYPE_OPAQUE, UDICT_TYPE_OPAQUE, "a"},
    {UDICT_TYPE_STRING, UDICT_TYPE_STRING, "a"},
    {UDICT_TYPE_OPAQUE, UDICT_TYPE_OPAQUE, "ab"},
    {UDICT_TYPE_UNSIGNED, UDICT_TYPE_UNSIGNED, "a"},
    {UDICT_TYPE_FLOW_DEF, UDICT_TYPE_STRING, NULL},
    {UDICT_TYPE_PIC_CEA_708, UDICT_TYPE_OPAQUE, NULL},
    {UDICT_TYPE_FLOW_RANDOM, UDICT_TYPE_VOID, NULL},
    {UDICT_TYPE_FLOW_ID, UDICT_TYPE_UNSIGNED, NULL},
    {UDICT_TYPE_STRING, UDICT_TYPE_STRING, "ab"},
    {UDICT_TYPE_INT, UDICT_TYPE_INT, "b"},
    {UDICT_TYPE_CLOCK_RATE, UDICT_TYPE_RATIONAL, NULL},
    {UDICT_TYPE_SMALL_UNSIGNED, UDICT_TYPE_SMALL_UNSIGNED, "b"},
    {UDICT_TYPE_BOOL, UDICT_TYPE_BOOL, "b"},
    {UDICT_TYPE_SMALL_INT, UDICT_TYPE_SMALL_INT, "abc"},
    {UDICT_TYPE_FLOAT, UDICT_TYPE_FLOAT, "abc"},
    {UDICT_TYPE_VOID, UDICT_TYPE_VOID, "a"},
    {UDICT_TYPE_RATIONAL, UDICT_TYPE_RATIONAL, "a"},
    {UDICT_TYPE_PIC_AFD, UDICT_TYPE_SMALL_UNSIGNED, NULL},
    {UDICT_TYPE_PIC_OVERSCAN, UDICT_TYPE_BOOL, NULL},
    {UDICT_TYPE_PIC_BAR_DATA, UDICT_TYPE_OPAQUE, NULL},
};
#define NK ((int)(sizeof(K) / sizeof(K[0])))
#define NV 3
#define MAXVAL 65100

struct val {
    bool present;
    int len;      /* var-size: length; string: strlen */
    uint8_t *b;   /* var-size bytes (heap) */
    uint64_t u;   /* numeric: unsigned / bool / small */
    int64_t i;
    double f;
    struct urational r;
};

struct dict {
    struct udict *d;
    struct val v[NK];
};

struct st {
    struct cumem_mgr cumem;
    struct udict_mgr *mgr;
    struct dict d[2];
    int faults_armed;
};

static void val_clear(struct val *v)
{
    free(v->b);
    memset(v, 0, sizeof(*v));
}
static void val_copy(struct val *dst, const struct val *src)
{
    val_clear(dst);
    *dst = *src;
    if (src->b) {
        dst->b = malloc(src->len + 1);
        memcpy(dst->b, src->b, src->len + 1);
    }
}
static bool val_eq(const struct val *a, const struct val *b, enum udict_type base)
{
    if (a->present != b->present)
        return false;
    if (!a->present)
        return true;
    switch (base) {
    case UDICT_TYPE_OPAQUE:
    case UDICT_TYPE_STRING: return a->len == b->len && !memcmp(a->b, b->b, a->len);
    case UDICT_TYPE_VOID: return true;
    case UDICT_TYPE_INT:
    case UDICT_TYPE_SMALL_INT: return a->i == b->i;
    case UDICT_TYPE_FLOAT: return !memcmp(&a->f, &b->f, sizeof(double));
    case UDICT_TYPE_RATIONAL: return a->r.num == b->r.num && a->r.den == b->r.den;
    default: return a->u == b->u;
    }
}

/* value number vi of key k */
static void mk_val(int k, int vi, struct val *v)
{
    memset(v, 0, sizeof(*v));
    v->present = true;
    static const int lens[NV] = {1, 5, 40};
    switch (K[k].base) {
    case UDICT_TYPE_OPAQUE: {
        int len = vi == 0 ? 0 : lens[vi];
        if (g_big && vi == 2)
            len = 65000;
        v->len = len;
        v->b = malloc(len + 1);
        for (int i = 0; i < len; i++)
            v->b[i] = (uint8_t)(k * 16 + vi * 3 + i);
        v->b[len] = 0;
        break;
    }
    case UDICT_TYPE_STRING: {
        int len = vi == 0 ? 0 : lens[vi];
        v->len = len;
        v->b = malloc(len + 1);
        for (int i = 0; i < len; i++)
            v->b[i] = 'A' + (k + vi + i) % 26;
        v->b[len] = 0;
        break;
    }
    case UDICT_TYPE_VOID: break;
    case UDICT_TYPE_BOOL: v->u = vi & 1; break;
    case UDICT_TYPE_SMALL_UNSIGNED: v->u = vi == 0 ? 0 : vi == 1 ? 255 : 0x80; break;
    case UDICT_TYPE_SMALL_INT: v->i = vi == 0 ? 0 : vi == 1 ? -128 : 127; break;
    case UDICT_TYPE_UNSIGNED: v->u = vi == 0 ? 0 : vi == 1 ? UINT64_MAX : (uint64_t)1 << 63; break;
    case UDICT_TYPE_INT: v->i = vi == 0 ? -1 : vi == 1 ? INT64_MIN + 1 : INT64_MAX; break;
    case UDICT_TYPE_FLOAT: v->f = vi == 0 ? 0.0 : vi == 1 ? -1.5e300 : 3.25; break;
    case UDICT_TYPE_RATIONAL:
        v->r.num = vi == 0 ? 0 : vi == 1 ? -30000 : INT64_MAX;
        v->r.den = vi == 0 ? 1 : vi == 1 ? 1001 : UINT64_MAX;
        break;
    default: break;
    }
}

static int api_set(struct udict *d, int k, const struct val *v)
{
    enum udict_type t = K[k].type;
    const char *n = K[k].name;
    switch (K[k].base) {
    case UDICT_TYPE_OPAQUE: {
        struct udict_opaque o = {v->b, (size_t)v->len};
        return udict_set_opaque(d, o, t, n);
    }
    case UDICT_TYPE_STRING: return udict_set_string(d, (const char *)v->b, t, n);
    case UDICT_TYPE_VOID: return udict_set_void(d, NULL, t, n);
    case UDICT_TYPE_BOOL: return udict_set_bool(d, v->u, t, n);
    case UDICT_TYPE_SMALL_UNSIGNED: return udict_set_small_unsigned(d, v->u, t, n);
    case UDICT_TYPE_SMALL_INT: return udict_set_small_int(d, v->i, t, n);
    case UDICT_TYPE_UNSIGNED: return udict_set_unsigned(d, v->u, t, n);
    case UDICT_TYPE_INT: return udict_set_int(d, v->i, t, n);
    case UDICT_TYPE_FLOAT: return udict_set_float(d, v->f, t, n);
    case UDICT_TYPE_RATIONAL: return udict_set_rational(d, v->r, t, n);
    default: return UBASE_ERR_INVALID;
    }
}

/* typed lookup; fills got */
static int api_get(struct udict *d, int k, struct val *got)
{
    enum udict_type t = K[k].type;
    const char *n = K[k].name;
    memset(got, 0, sizeof(*got));
    int err = UBASE_ERR_INVALID;
    switch (K[k].base) {
    case UDICT_TYPE_OPAQUE: {
        struct udict_opaque o = {NULL, 0};
        err = udict_get_opaque(d, &o, t, n);
        if (ubase_check(err)) {
            got->len = o.size;
            got->b = malloc(o.size + 1);
            memcpy(got->b, o.v, o.size);
            got->b[o.size] = 0;
        }
        break;
    }
    case UDICT_TYPE_STRING: {
        const char *s = NULL;
        err = udict_get_string(d, &s, t, n);
        if (ubase_check(err)) {
            got->len = strlen(s);
            got->b = (uint8_t *)strdup(s);
        }
        break;
    }
    case UDICT_TYPE_VOID: err = udict_get_void(d, NULL, t, n); break;
    case UDICT_TYPE_BOOL: {
        bool b = false;
        err = udict_get_bool(d, &b, t, n);
        got->u = b;
        break;
    }
    case UDICT_TYPE_SMALL_UNSIGNED: {
        uint8_t b = 0;
        err = udict_get_small_unsigned(d, &b, t, n);
        got->u = b;
        break;
    }
    case UDICT_TYPE_SMALL_INT: {
        int8_t b = 0;
        err = udict_get_small_int(d, &b, t, n);
        got->i = b;
        break;
    }
    case UDICT_TYPE_UNSIGNED: err = udict_get_unsigned(d, &got->u, t, n); break;
    case UDICT_TYPE_INT: err = udict_get_int(d, &got->i, t, n); break;
    case UDICT_TYPE_FLOAT: err = udict_get_float(d, &got->f, t, n); break;
    case UDICT_TYPE_RATIONAL: err = udict_get_rational(d, &got->r, t, n); break;
    default: break;
    }
    got->present = ubase_check(err);
    return err;
}

/* ---- alphabet ---- */
enum { O_SET1, O_DEL1, O_DUP, O_COPY, O_IMP12, O_IMP21, O_SET2, O_DEL2, O_ALIAS, O_FREE2, O_FAULT };
struct op {
    int kind, k, vi;
};
static struct op g_ops[512];
static int g_nops;

static void build_alphabet(void)
{
    for (int k = 0; k < g_nkeys; k++)
        for (int vi = 0; vi < NV; vi++) {
            if (K[k].base == UDICT_TYPE_VOID && vi > 0)
                continue;
            if (K[k].base == UDICT_TYPE_BOOL && vi > 1)
                continue;
            g_ops[g_nops++] = (struct op){O_SET1, k, vi};
        }
    for (int k = 0; k < g_nkeys; k++)
        g_ops[g_nops++] = (struct op){O_DEL1, k, 0};
    g_ops[g_nops++] = (struct op){O_DUP, 0, 0};
    g_ops[g_nops++] = (struct op){O_COPY, 0, 0};
    g_ops[g_nops++] = (struct op){O_IMP12, 0, 0};
    g_ops[g_nops++] = (struct op){O_IMP21, 0, 0};
    for (int k = 0; k < 3; k++) {
        g_ops[g_nops++] = (struct op){O_SET2, k, 1};
        g_ops[g_nops++] = (struct op){O_DEL2, k, 0};
    }
    /* aliasing: set key k from the storage of another key of the same dictionary */
    g_ops[g_nops++] = (struct op){O_ALIAS, 1, 4}; /* "a"/string := f.def */
    g_ops[g_nops++] = (struct op){O_ALIAS, 4, 1}; /* f.def := "a"/string */
    g_ops[g_nops++] = (struct op){O_ALIAS, 2, 0}; /* "ab"/opaque := "a"/opaque */
    g_ops[g_nops++] = (struct op){O_ALIAS, 0, 5}; /* "a"/opaque := p.cea_708 */
    g_ops[g_nops++] = (struct op){O_FREE2, 0, 0};
    /* environment deviation: the k-th next memory request is refused (--faults > 0) */
    if (g_faults) {
        g_ops[g_nops++] = (struct op){O_FAULT, 1, 0};
        g_ops[g_nops++] = (struct op){O_FAULT, 2, 0};
    }
}

static const char *tname(enum udict_type t)
{
    static char b[16];
    snprintf(b, sizeof(b), "t%d", t);
    return b;
}

static void c10_opstr(int opi, char *b, size_t n)
{
    static const char *kn[] = {"set1", "del1", "dup", "copy", "import2->1", "import1->2", "set2", "del2", "alias1", "free2", "refuse"};
    struct op *o = &g_ops[opi];
    if (o->kind == O_FAULT) {
        snprintf(b, n, "refuse(memory request #%d from now)", o->k);
        return;
    }
    if (o->kind == O_SET1 || o->kind == O_SET2)
        snprintf(b, n, "%s(%s/%s,v%d)", kn[o->kind], K[o->k].name ? K[o->k].name : "-", tname(K[o->k].type), o->vi);
    else if (o->kind == O_DEL1 || o->kind == O_DEL2)
        snprintf(b, n, "%s(%s/%s)", kn[o->kind], K[o->k].name ? K[o->k].name : "-", tname(K[o->k].type));
    else if (o->kind == O_ALIAS)
        snprintf(b, n, "alias1(k%d:=k%d)", o->k, o->vi);
    else
        snprintf(b, n, "%s", kn[o->kind]);
}

static void *c10_init(void)
{
    struct st *s = calloc(1, sizeof(*s));
    cumem_mgr_init(&s->cumem);
    s->mgr = udict_inline_mgr_alloc(g_pool, &s->cumem.mgr, g_min, g_extra);
    assert(s->mgr);
    s->d[0].d = udict_alloc(s->mgr, 0);
    assert(s->d[0].d);
    return s;
}

static void dict_clear_model(struct dict *d)
{
    for (int k = 0; k < NK; k++)
        val_clear(&d->v[k]);
}

static void c10_fini(void *p)
{
    struct st *s = p;
    for (int i = 0; i < 2; i++) {
        if (s->d[i].d)
            udict_free(s->d[i].d);
        dict_clear_model(&s->d[i]);
    }
    udict_mgr_release(s->mgr);
    free(s);
}

/* full verification of one dictionary against its model */
static int verify(struct st *s, int di)
{
    struct dict *D = &s->d[di];
    char sig[128];
    if (D->d == NULL)
        return SEQX_OK;
    for (int k = 0; k < NK; k++) {
        struct val got;
        api_get(D->d, k, &got);
        bool ok = val_eq(&got, &D->v[k], K[k].base);
        free(got.b);
        if (!ok) {
            snprintf(sig, sizeof(sig), "lookup:%s", !D->v[k].present ? "absent-reported-present" : !got.present ? "present-reported-absent" : "wrong-value");
            SEQX_FAIL(sig, "dict %d key %d (%s/type %d): lookup %s, model %s", di + 1, k, K[k].name ? K[k].name : "shorthand", K[k].type,
                      got.present ? "returned a value" : "reports absent", D->v[k].present ? "holds a value" : "holds nothing");
        }
    }
    /* iteration: each present attribute exactly once */
    int seen[NK] = {0};
    const char *name = NULL;
    enum udict_type type = UDICT_TYPE_END;
    int visited = 0;
    for (;;) {
        udict_iterate(D->d, &name, &type);
        if (type == UDICT_TYPE_END)
            break;
        if (++visited > 4 * NK)
            SEQX_FAIL("iterate:does-not-terminate", "dict %d: iteration visited more than %d entries", di + 1, 4 * NK);
        int k;
        for (k = 0; k < NK; k++)
            if (K[k].type == type && (K[k].name == NULL ? name == NULL : (name != NULL && !strcmp(K[k].name, name))))
                break;
        if (k == NK)
            SEQX_FAIL("iterate:unknown-attribute", "dict %d: iteration returned (%s, type %d) which was never set", di + 1, name ? name : "-", type);
        if (++seen[k] > 1)
            SEQX_FAIL("iterate:visited-twice", "dict %d: key %d visited twice", di + 1, k);
        if (!D->v[k].present)
            SEQX_FAIL("iterate:absent-visited", "dict %d: key %d visited although deleted / never set", di + 1, k);
    }
    for (int k = 0; k < NK; k++)
        if (D->v[k].present && !seen[k])
            SEQX_FAIL("iterate:present-not-visited", "dict %d: key %d (%s/type %d) is present but iteration skipped it", di + 1, k,
                      K[k].name ? K[k].name : "shorthand", K[k].type);
    /* the iteration is resumed from a (name, type) pair: the caller may pass its own copy of the name, not the pointer it was
     * given (documented: "name of the attribute"); the walk must be the same */
    struct {
        uint8_t before[8]; /* what lies in front of the caller's string is none of the dictionary's business */
        char name[24];
    } own;
    memset(&own, 0, sizeof(own));
    own.before[5] = UDICT_TYPE_STRING, own.before[6] = 0, own.before[7] = 3;
    const char *n1 = NULL, *n2 = NULL;
    enum udict_type t1 = UDICT_TYPE_END, t2 = UDICT_TYPE_END;
    for (int step = 0; step <= visited; step++) {
        udict_iterate(D->d, &n1, &t1);
        udict_iterate(D->d, &n2, &t2);
        if (t1 != t2 || (t1 != UDICT_TYPE_END && ((n1 == NULL) != (n2 == NULL) || (n1 != NULL && strcmp(n1, n2)))))
            SEQX_FAIL("iterate:depends-on-name-pointer", "dict %d: step %d of the iteration gives (%s, type %d) when resumed with the caller's copy of the name and (%s, type %d) with the returned pointer",
                      di + 1, step, n2 ? n2 : "-", t2, n1 ? n1 : "-", t1);
        if (t1 == UDICT_TYPE_END)
            break;
        if (n2 != NULL) {
            snprintf(own.name, sizeof(own.name), "%s", n2);
            n2 = own.name;
        }
    }
    return SEQX_OK;
}

/* ---- sweep, once per distinct state: uref_attr_copy_<type>() of every key from the other dictionary (an empty one when there is
 * none) into a duplicate of the first: afterwards the key is what the source holds - absent when the source lacks it -, every other
 * key is untouched ---- */
#include "upipe/uref.h"
#include "upipe/uref_attr.h"
static int attr_copy(struct uref *dst, struct uref *src, int k)
{
    enum udict_type t = K[k].type;
    const char *n = K[k].name;
    switch (K[k].base) {
    case UDICT_TYPE_OPAQUE: return uref_attr_copy_opaque(dst, src, t, n);
    case UDICT_TYPE_STRING: return uref_attr_copy_string(dst, src, t, n);
    case UDICT_TYPE_VOID: return uref_attr_copy_void(dst, src, t, n);
    case UDICT_TYPE_BOOL: return uref_attr_copy_bool(dst, src, t, n);
    case UDICT_TYPE_SMALL_UNSIGNED: return uref_attr_copy_small_unsigned(dst, src, t, n);
    case UDICT_TYPE_SMALL_INT: return uref_attr_copy_small_int(dst, src, t, n);
    case UDICT_TYPE_UNSIGNED: return uref_attr_copy_unsigned(dst, src, t, n);
    case UDICT_TYPE_INT: return uref_attr_copy_int(dst, src, t, n);
    case UDICT_TYPE_FLOAT: return uref_attr_copy_float(dst, src, t, n);
    case UDICT_TYPE_RATIONAL: return uref_attr_copy_rational(dst, src, t, n);
    default: return UBASE_ERR_INVALID;
    }
}

static int c10_sweep(void *p)
{
    struct st *s = p;
    if (s->cumem.fail_in != 0 || s->d[0].d == NULL)
        return SEQX_OK; /* an armed refusal belongs to the next operation of the history */
    struct dict *d1 = &s->d[0], *d2 = &s->d[1];
    struct udict *empty = d2->d == NULL ? udict_alloc(s->mgr, 0) : NULL;
    struct uref usrc;
    memset(&usrc, 0, sizeof(usrc));
    usrc.udict = d2->d ? d2->d : empty;
    int r = SEQX_OK;
    for (int k = 0; k < g_nkeys && r == SEQX_OK; k++) {
        struct uref udst;
        memset(&udst, 0, sizeof(udst));
        udst.udict = udict_dup(d1->d);
        if (udst.udict == NULL)
            break;
        int err = attr_copy(&udst, &usrc, k);
        const struct val *want = d2->d ? &d2->v[k] : NULL;
        bool want_present = want != NULL && want->present;
        if (!ubase_check(err)) {
            snprintf(seqx_sig, sizeof(seqx_sig), "attr-copy:error");
            snprintf(seqx_msg, sizeof(seqx_msg), "uref_attr_copy of key %d returned %d", k, err);
            r = SEQX_VIOL;
        }
        for (int j = 0; j < NK && r == SEQX_OK; j++) {
            if (j != k && j != (k + 1) % NK && j != (k + NK - 1) % NK)
                continue; /* the key itself and its two neighbours in the table (same name / other type, prefixes) */
            struct val got;
            api_get(udst.udict, j, &got);
            const struct val *exp = j == k ? want : &d1->v[j];
            bool exp_present = j == k ? want_present : d1->v[j].present;
            bool ok = got.present == exp_present && (!exp_present || val_eq(&got, exp, K[j].base));
            free(got.b);
            if (!ok) {
                snprintf(seqx_sig, sizeof(seqx_sig), j == k ? (exp_present ? "attr-copy:wrong-value" : "attr-copy:stale-value-kept") : "attr-copy:other-attribute-changed");
                snprintf(seqx_msg, sizeof(seqx_msg), "after uref_attr_copy of key %d (%s/type %d; source %s it): key %d is %s in the destination", k,
                         K[k].name ? K[k].name : "shorthand", K[k].type, want_present ? "holds" : "lacks", j, got.present ? "present" : "absent");
                r = SEQX_VIOL;
            }
        }
        udict_free(udst.udict);
    }
    if (empty)
        udict_free(empty);
    return r;
}

static int c10_apply(void *p, int opi, bool check)
{
    struct st *s = p;
    struct op *o = &g_ops[opi];
    struct dict *d1 = &s->d[0], *d2 = &s->d[1];
    switch (o->kind) {
    case O_SET1:
    case O_SET2: {
        struct dict *D = o->kind == O_SET1 ? d1 : d2;
        if (D->d == NULL)
            return SEQX_DISABLED;
        struct val v;
        mk_val(o->k, o->vi, &v);
        int faults0 = s->cumem.faults;
        int err = api_set(D->d, o->k, &v);
        if (!ubase_check(err) && s->cumem.faults > faults0) {
            /* refused memory: the other attributes are untouched (verify below); this one keeps its old value or,
             * when the old one had to be removed first, is gone */
            val_clear(&v);
            struct val got;
            api_get(D->d, o->k, &got);
            if (!got.present)
                val_clear(&D->v[o->k]);
            free(got.b);
            break;
        }
        if (!ubase_check(err)) {
            val_clear(&v);
            SEQX_FAIL("set:failed", "set of key %d value %d failed with %d", o->k, o->vi, err);
        }
        val_clear(&D->v[o->k]);
        D->v[o->k] = v;
        break;
    }
    case O_DEL1:
    case O_DEL2: {
        struct dict *D = o->kind == O_DEL1 ? d1 : d2;
        if (D->d == NULL)
            return SEQX_DISABLED;
        int err = udict_delete(D->d, K[o->k].type, K[o->k].name);
        if (ubase_check(err) != D->v[o->k].present)
            SEQX_FAIL("delete:wrong-verdict", "delete of key %d returned %d, attribute was %s", o->k, err, D->v[o->k].present ? "present" : "absent");
        val_clear(&D->v[o->k]);
        break;
    }
    case O_DUP:
    case O_COPY: {
        if (d2->d) {
            udict_free(d2->d);
            dict_clear_model(d2);
        }
        int faults0 = s->cumem.faults;
        d2->d = o->kind == O_DUP ? udict_dup(d1->d) : udict_copy(s->mgr, d1->d);
        if (d2->d == NULL && s->cumem.faults > faults0)
            break; /* refused: no second dictionary, nothing may be left behind (final accounting) */
        if (d2->d == NULL)
            SEQX_FAIL("dup:failed", "dup/copy returned NULL");
        for (int k = 0; k < NK; k++)
            val_copy(&d2->v[k], &d1->v[k]);
        break;
    }
    case O_IMP12:
    case O_IMP21: {
        if (d2->d == NULL)
            return SEQX_DISABLED;
        struct dict *dst = o->kind == O_IMP12 ? d1 : d2, *src = o->kind == O_IMP12 ? d2 : d1;
        int faults0 = s->cumem.faults;
        int err = udict_import(dst->d, src->d);
        if (!ubase_check(err) && s->cumem.faults > faults0) {
            /* refused half-way: every attribute of the destination is the old one, the imported one, or (old one
             * removed, new one refused) gone */
            for (int k = 0; k < NK; k++) {
                if (!src->v[k].present)
                    continue;
                struct val got;
                api_get(dst->d, k, &got);
                if (!got.present)
                    val_clear(&dst->v[k]);
                else if (val_eq(&got, &src->v[k], K[k].base))
                    val_copy(&dst->v[k], &src->v[k]);
                free(got.b);
            }
            break;
        }
        if (!ubase_check(err))
            SEQX_FAIL("import:failed", "import returned %d", err);
        for (int k = 0; k < NK; k++)
            if (src->v[k].present)
                val_copy(&dst->v[k], &src->v[k]);
        break;
    }
    case O_ALIAS: {
        int dstk = o->k, srck = o->vi;
        if (dstk >= g_nkeys || srck >= g_nkeys || !d1->v[srck].present)
            return SEQX_DISABLED;
        int err;
        int faults0 = s->cumem.faults;
        if (K[dstk].base == UDICT_TYPE_STRING) {
            const char *sp = NULL;
            if (!ubase_check(udict_get_string(d1->d, &sp, K[srck].type, K[srck].name)))
                return SEQX_DISABLED;
            err = udict_set_string(d1->d, sp, K[dstk].type, K[dstk].name);
        } else {
            struct udict_opaque op;
            if (!ubase_check(udict_get_opaque(d1->d, &op, K[srck].type, K[srck].name)))
                return SEQX_DISABLED;
            err = udict_set_opaque(d1->d, op, K[dstk].type, K[dstk].name);
        }
        if (!ubase_check(err) && s->cumem.faults > faults0) {
            struct val got;
            api_get(d1->d, dstk, &got);
            if (!got.present)
                val_clear(&d1->v[dstk]);
            free(got.b);
            break;
        }
        if (!ubase_check(err))
            SEQX_FAIL("alias:failed", "aliasing set failed with %d", err);
        val_copy(&d1->v[dstk], &d1->v[srck]);
        break;
    }
    case O_FAULT:
        if (s->faults_armed >= g_faults || s->cumem.fail_in != 0)
            return SEQX_DISABLED;
        s->cumem.fail_in = o->k;
        s->faults_armed++;
        break;
    case O_FREE2:
        if (d2->d == NULL)
            return SEQX_DISABLED;
        udict_free(d2->d);
        d2->d = NULL;
        dict_clear_model(d2);
        break;
    }
    if (!check)
        return SEQX_OK;
    int r = verify(s, 0);
    if (r == SEQX_OK)
        r = verify(s, 1);
    if (r != SEQX_OK)
        return r;
    if (d2->d != NULL) {
        bool meq = true;
        for (int k = 0; k < NK; k++)
            meq &= val_eq(&d1->v[k], &d2->v[k], K[k].base);
        int c12 = udict_cmp(d1->d, d2->d), c21 = udict_cmp(d2->d, d1->d);
        if ((c12 == 0) != meq || (c21 == 0) != meq)
            SEQX_FAIL("cmp:wrong-verdict", "udict_cmp(d1,d2)=%d udict_cmp(d2,d1)=%d but the dictionaries are %s", c12, c21, meq ? "equal" : "different");
    }
    if (s->cumem.overrun || s->cumem.double_free || s->cumem.unknown_free)
        SEQX_FAIL("umem:corruption", "allocator: %s", s->cumem.err);
    return SEQX_OK;
}

/* canonical state through the public API: TLV order (iteration order) with
 * values, plus the allocation sizes (growth room is hidden state) */
static void c10_canon(void *p, struct vbuf *out)
{
    struct st *s = p;
    for (int di = 0; di < 2; di++) {
        struct udict *d = s->d[di].d;
        if (d == NULL) {
            vbuf_u8(out, 0xfe);
            continue;
        }
        const char *name = NULL;
        enum udict_type type = UDICT_TYPE_END;
        int n = 0;
        for (;;) {
            udict_iterate(d, &name, &type);
            if (type == UDICT_TYPE_END || ++n > 4 * NK)
                break;
            vbuf_u8(out, type);
            if (name)
                vbuf_put(out, name, strlen(name) + 1);
            size_t sz = 0;
            const uint8_t *a = NULL;
            if (ubase_check(udict_get(d, name, type, &sz, &a))) {
                vbuf_u32(out, sz);
                /* hash big values instead of copying them */
                struct vhash h = vhash_bytes(a, sz);
                vbuf_u64(out, h.a);
            }
        }
        vbuf_u8(out, 0xfd);
    }
    /* allocation sizes, sorted */
    size_t sz[CU_MAXLIVE];
    int n = s->cumem.nlive;
    for (int i = 0; i < n; i++)
        sz[i] = s->cumem.live[i].size;
    for (int i = 0; i < n; i++)
        for (int j = i + 1; j < n; j++)
            if (sz[j] < sz[i]) {
                size_t t = sz[i];
                sz[i] = sz[j];
                sz[j] = t;
            }
    for (int i = 0; i < n; i++)
        vbuf_u32(out, sz[i]);
    vbuf_u8(out, (uint8_t)s->cumem.fail_in);
    vbuf_u8(out, (uint8_t)s->faults_armed);
}

static bool c10_nontrivial(void *p)
{
    struct st *s = p;
    int n = 0;
    for (int k = 0; k < NK; k++)
        n += s->d[0].v[k].present;
    return n >= 2 || s->d[1].d != NULL;
}

static int c10_final(void *p)
{
    struct st *s = p;
    struct cumem_mgr *c = &s->cumem;
    for (int i = 0; i < 2; i++) {
        if (s->d[i].d)
            udict_free(s->d[i].d);
        s->d[i].d = NULL;
        dict_clear_model(&s->d[i]);
    }
    udict_mgr_vacuum(s->mgr);
    udict_mgr_release(s->mgr);
    int r = SEQX_OK;
    if (c->nlive != 0 || c->double_free || c->unknown_free || c->overrun) {
        snprintf(seqx_sig, sizeof(seqx_sig), "umem:accounting");
        snprintf(seqx_msg, sizeof(seqx_msg), "after teardown: %d live areas, %d double frees, %d unknown, %d overruns (%s)", c->nlive,
                 c->double_free, c->unknown_free, c->overrun, c->err);
        r = SEQX_VIOL;
    }
    free(s);
    return r;
}

int main(int argc, char **argv)
{
    int depth = 3;
    for (int i = 1; i + 1 < argc; i++) {
        if (!strcmp(argv[i], "--min")) g_min = atoi(argv[i + 1]);
        else if (!strcmp(argv[i], "--extra")) g_extra = atoi(argv[i + 1]);
        else if (!strcmp(argv[i], "--pool")) g_pool = atoi(argv[i + 1]);
        else if (!strcmp(argv[i], "--keys")) g_nkeys = atoi(argv[i + 1]);
        else if (!strcmp(argv[i], "--big")) g_big = atoi(argv[i + 1]);
        else if (!strcmp(argv[i], "--depth")) depth = atoi(argv[i + 1]);
        else if (!strcmp(argv[i], "--faults")) g_faults = atoi(argv[i + 1]);
    }
    if (g_nkeys > NK)
        g_nkeys = NK;
    build_alphabet();
    struct seqx_spec spec = {
        .name = "c10-udict",
        .nops = g_nops,
        .init = c10_init,
        .apply = c10_apply,
        .canon = c10_canon,
        .fini = c10_fini,
        .opstr = c10_opstr,
        .nontrivial = c10_nontrivial,
        .final_check = c10_final,
        .sweep = c10_sweep,
    };
    int r = seqx_main(&spec, argc, argv, depth);
    v_stat("alphabet", g_nops);
    return r;
}
