/* C11 — timestamp algebra: cr / dts / pts views of a date stay consistent.
 *
 * seqx BFS over set_{cr,dts,pts} / rebase / delete_date / add_date / set_rap /
 * set+delete of the three delays / uref_dup on the three clock domains of a
 * real uref, values from a boundary set (0, 1, 2, 2^63, 2^64-2, 2^64-1).
 * Oracle: algebraic invariants through the getters on every state, transition
 * checks (set reads back; rebase / getters / dup change no readable date),
 * and an independent model predicting every getter.
 *
 * args: --domains 2|3 --depth D --shard i/n
 */
#undef NDEBUG
#include "upipe/ubase.h"
#include "upipe/umem.h"
#include "upipe/umem_alloc.h"
#include "upipe/udict.h"
#include "upipe/udict_inline.h"
#include "upipe/uref.h"
#include "upipe/uref_std.h"
#include "upipe/uref_clock.h"
#include "upipe/uref_flow.h"
#include "upipe/uref_block.h"
#include "seqx.h"

static int g_ndom = 3;
static struct umem_mgr *g_umem;
static struct udict_mgr *g_udict;
static struct uref_mgr *g_urefmgr;
static const uint64_t VALS[] = {0, 1, 2, (uint64_t)1 << 63, UINT64_MAX - 1, UINT64_MAX};
#define NVALS 6
#define UNSET UINT64_MAX

enum { D_SYS, D_PROG, D_ORIG };
enum { T_NONE, T_CR, T_DTS, T_PTS };

struct model {
    int kind[3];
    uint64_t v[3];
    uint64_t d_dp, d_cd, d_rc;
};

struct st {
    struct uref *u;
    struct model m;
};

/* ---- implementation accessors by domain ---- */
typedef int (*getter)(struct uref *, uint64_t *);
typedef void (*setter)(struct uref *, uint64_t);
typedef int (*rebaser)(struct uref *);
static getter G[3][4] = {
    {uref_clock_get_cr_sys, uref_clock_get_dts_sys, uref_clock_get_pts_sys, uref_clock_get_rap_sys},
    {uref_clock_get_cr_prog, uref_clock_get_dts_prog, uref_clock_get_pts_prog, uref_clock_get_rap_prog},
    {uref_clock_get_cr_orig, uref_clock_get_dts_orig, uref_clock_get_pts_orig, uref_clock_get_rap_orig}};
static setter S[3][3] = {{uref_clock_set_cr_sys, uref_clock_set_dts_sys, uref_clock_set_pts_sys},
                         {uref_clock_set_cr_prog, uref_clock_set_dts_prog, uref_clock_set_pts_prog},
                         {uref_clock_set_cr_orig, uref_clock_set_dts_orig, uref_clock_set_pts_orig}};
static rebaser RB[3][3] = {{uref_clock_rebase_cr_sys, uref_clock_rebase_dts_sys, uref_clock_rebase_pts_sys},
                           {uref_clock_rebase_cr_prog, uref_clock_rebase_dts_prog, uref_clock_rebase_pts_prog},
                           {uref_clock_rebase_cr_orig, uref_clock_rebase_dts_orig, uref_clock_rebase_pts_orig}};
static int (*SETRAP[3])(struct uref *, uint64_t) = {uref_clock_set_rap_sys, uref_clock_set_rap_prog, uref_clock_set_rap_orig};
static void (*DEL[3])(struct uref *) = {uref_clock_delete_date_sys, uref_clock_delete_date_prog, uref_clock_delete_date_orig};
static void (*ADD[3])(struct uref *, int64_t) = {uref_clock_add_date_sys, uref_clock_add_date_prog, uref_clock_add_date_orig};
static const char *dn[] = {"sys", "prog", "orig"}, *tn[] = {"cr", "dts", "pts", "rap"};

/* ---- independent model of the documented semantics ---- */
static bool m_get(const struct model *m, int d, int what, uint64_t *out)
{
    uint64_t v = m->v[d];
    switch (m->kind[d]) {
    case T_NONE: return false;
    case T_CR:
        if (what == 0 || what == 3) break;
        if (m->d_cd == UNSET) return false;
        v += m->d_cd; /* dts */
        if (what == 1) { *out = v; return true; }
        if (m->d_dp == UNSET) return false;
        *out = v + m->d_dp;
        return true;
    case T_DTS:
        if (what == 1) { *out = v; return true; }
        if (what == 2) {
            if (m->d_dp == UNSET) return false;
            *out = v + m->d_dp;
            return true;
        }
        if (m->d_cd == UNSET) return false;
        v -= m->d_cd; /* cr */
        break;
    case T_PTS:
        if (what == 2) { *out = v; return true; }
        if (m->d_dp == UNSET) return false;
        v -= m->d_dp; /* dts */
        if (what == 1) { *out = v; return true; }
        if (m->d_cd == UNSET) return false;
        v -= m->d_cd; /* cr */
        break;
    }
    /* v is the cr */
    if (what == 0) { *out = v; return true; }
    if (m->d_rc == UNSET) return false;
    *out = v - m->d_rc;
    return true;
}

static void m_set(struct model *m, int d, int type /*1..3*/, uint64_t date)
{
    if (m->kind[d] == T_CR) {
        if (type == T_PTS && m->d_dp != UNSET)
            m->d_cd = date - m->d_dp - m->v[d];
        else if (type == T_DTS)
            m->d_cd = date - m->v[d];
    } else if (m->kind[d] == T_DTS && type == T_PTS)
        m->d_dp = date - m->v[d];
    m->kind[d] = type;
    m->v[d] = date;
}

/* ---- alphabet ---- */
enum { O_SET, O_REBASE, O_DEL, O_ADD, O_SETRAP, O_SETDELAY, O_DELDELAY, O_DUP };
struct op {
    int kind, d, t;
    uint64_t v;
};
static struct op g_ops[512];
static int g_nops;

static void build(void)
{
    for (int d = 0; d < g_ndom; d++)
        for (int t = 0; t < 3; t++)
            for (int k = 0; k < NVALS; k++)
                g_ops[g_nops++] = (struct op){O_SET, d, t, VALS[k]};
    for (int d = 0; d < g_ndom; d++)
        for (int t = 0; t < 3; t++)
            g_ops[g_nops++] = (struct op){O_REBASE, d, t, 0};
    for (int d = 0; d < g_ndom; d++) {
        g_ops[g_nops++] = (struct op){O_DEL, d, 0, 0};
        g_ops[g_nops++] = (struct op){O_ADD, d, 0, 1};
        g_ops[g_nops++] = (struct op){O_ADD, d, 0, (uint64_t)-1};
        g_ops[g_nops++] = (struct op){O_ADD, d, 0, (uint64_t)INT64_MIN};
        for (int k = 0; k < NVALS; k++)
            g_ops[g_nops++] = (struct op){O_SETRAP, d, 0, VALS[k]};
    }
    for (int t = 0; t < 3; t++) {
        for (int k = 0; k < NVALS - 1; k++)
            g_ops[g_nops++] = (struct op){O_SETDELAY, 0, t, VALS[k]};
        g_ops[g_nops++] = (struct op){O_DELDELAY, 0, t, 0};
    }
    g_ops[g_nops++] = (struct op){O_DUP, 0, 0, 0};
}

static void c11_opstr(int opi, char *b, size_t n)
{
    struct op *o = &g_ops[opi];
    static const char *dl[] = {"dts_pts_delay", "cr_dts_delay", "rap_cr_delay"};
    switch (o->kind) {
    case O_SET: snprintf(b, n, "set_%s_%s(%llx)", tn[o->t], dn[o->d], (unsigned long long)o->v); break;
    case O_REBASE: snprintf(b, n, "rebase_%s_%s", tn[o->t], dn[o->d]); break;
    case O_DEL: snprintf(b, n, "delete_date_%s", dn[o->d]); break;
    case O_ADD: snprintf(b, n, "add_date_%s(%lld)", dn[o->d], (long long)o->v); break;
    case O_SETRAP: snprintf(b, n, "set_rap_%s(%llx)", dn[o->d], (unsigned long long)o->v); break;
    case O_SETDELAY: snprintf(b, n, "set_%s(%llx)", dl[o->t], (unsigned long long)o->v); break;
    case O_DELDELAY: snprintf(b, n, "delete_%s", dl[o->t]); break;
    default: snprintf(b, n, "dup"); break;
    }
}

static void *c11_init(void)
{
    struct st *s = calloc(1, sizeof(*s));
    s->u = uref_alloc(g_urefmgr);
    assert(s->u);
    s->m.d_dp = s->m.d_cd = s->m.d_rc = UNSET;
    for (int d = 0; d < 3; d++)
        s->m.v[d] = UNSET;
    return s;
}

static void c11_fini(void *p)
{
    struct st *s = p;
    uref_free(s->u);
    free(s);
}

struct snap {
    bool ok[3][4];
    uint64_t v[3][4];
};
static void take(struct uref *u, struct snap *sn)
{
    for (int d = 0; d < 3; d++)
        for (int w = 0; w < 4; w++) {
            sn->v[d][w] = 0;
            sn->ok[d][w] = ubase_check(G[d][w](u, &sn->v[d][w]));
        }
}
static bool snap_eq(const struct snap *a, const struct snap *b, int *dd, int *ww)
{
    for (int d = 0; d < 3; d++)
        for (int w = 0; w < 4; w++)
            if (a->ok[d][w] != b->ok[d][w] || (a->ok[d][w] && a->v[d][w] != b->v[d][w])) {
                *dd = d;
                *ww = w;
                return false;
            }
    return true;
}

static int c11_apply(void *p, int opi, bool check)
{
    struct st *s = p;
    struct op *o = &g_ops[opi];
    struct uref *u = s->u;
    struct model *m = &s->m;
    struct snap before, after;
    char sig[128];
    int dd, ww;
    if (check)
        take(u, &before);
    bool must_keep_all = false;
    switch (o->kind) {
    case O_SET:
        S[o->d][o->t](u, o->v);
        m_set(m, o->d, o->t + 1, o->v);
        if (check) {
            uint64_t got = 0;
            if (!ubase_check(G[o->d][o->t](u, &got)) || got != o->v) {
                snprintf(sig, sizeof(sig), "set-readback:%s", tn[o->t]);
                SEQX_FAIL(sig, "set_%s_%s(%llx) then get returns %llx", tn[o->t], dn[o->d], (unsigned long long)o->v, (unsigned long long)got);
            }
        }
        break;
    case O_REBASE: {
        int err = RB[o->d][o->t](u);
        uint64_t mv;
        bool mok = m_get(m, o->d, o->t, &mv);
        if (ubase_check(err) != mok)
            SEQX_FAIL("rebase:verdict", "rebase_%s_%s returned %d, model says the date is %s", tn[o->t], dn[o->d], err, mok ? "readable" : "unreadable");
        if (mok)
            m_set(m, o->d, o->t + 1, mv);
        must_keep_all = true;
        break;
    }
    case O_DEL:
        DEL[o->d](u);
        m->kind[o->d] = T_NONE;
        m->v[o->d] = UNSET;
        break;
    case O_ADD:
        ADD[o->d](u, (int64_t)o->v);
        if (m->v[o->d] != UNSET)
            m->v[o->d] += o->v;
        break;
    case O_SETRAP: {
        uint64_t cr;
        bool mok = m_get(m, o->d, 0, &cr);
        int err = SETRAP[o->d](u, o->v);
        if (ubase_check(err)) {
            if (!mok || o->v > cr)
                SEQX_FAIL("set_rap:accepted-after-cr", "set_rap_%s(%llx) accepted although the clock reference is %s%llx", dn[o->d],
                          (unsigned long long)o->v, mok ? "" : "unreadable ", (unsigned long long)cr);
            m->d_rc = cr - o->v;
        } else if (mok && o->v <= cr)
            SEQX_FAIL("set_rap:refused", "set_rap_%s(%llx) refused although cr=%llx", dn[o->d], (unsigned long long)o->v, (unsigned long long)cr);
        break;
    }
    case O_SETDELAY:
        if (o->t == 0) { uref_clock_set_dts_pts_delay(u, o->v); m->d_dp = o->v; }
        else if (o->t == 1) { uref_clock_set_cr_dts_delay(u, o->v); m->d_cd = o->v; }
        else { uref_clock_set_rap_cr_delay(u, o->v); m->d_rc = o->v; }
        break;
    case O_DELDELAY:
        if (o->t == 0) { uref_clock_delete_dts_pts_delay(u); m->d_dp = UNSET; }
        else if (o->t == 1) { uref_clock_delete_cr_dts_delay(u); m->d_cd = UNSET; }
        else { uref_clock_delete_rap_cr_delay(u); m->d_rc = UNSET; }
        break;
    case O_DUP: {
        struct uref *n = uref_dup(u);
        if (!n)
            SEQX_FAIL("dup:failed", "uref_dup failed");
        uref_free(u);
        s->u = u = n;
        must_keep_all = true;
        break;
    }
    }
    if (!check)
        return SEQX_OK;
    take(u, &after);
    if (must_keep_all && !snap_eq(&before, &after, &dd, &ww)) {
        snprintf(sig, sizeof(sig), "%s:changed-a-readable-date", o->kind == O_DUP ? "dup" : "rebase");
        char ob[64];
        c11_opstr(opi, ob, sizeof(ob));
        SEQX_FAIL(sig, "%s changed get_%s_%s from %s%llx to %s%llx", ob, tn[ww], dn[dd], before.ok[dd][ww] ? "" : "(unreadable) ",
                  (unsigned long long)before.v[dd][ww], after.ok[dd][ww] ? "" : "(unreadable) ", (unsigned long long)after.v[dd][ww]);
    }
    /* reading is free of side effects */
    struct snap again;
    take(u, &again);
    if (!snap_eq(&after, &again, &dd, &ww))
        SEQX_FAIL("getter:side-effect", "reading the dates twice gives different results for %s_%s", tn[ww], dn[dd]);
    /* algebraic invariants, getters only */
    uint64_t d_dp = 0, d_cd = 0, d_rc = 0;
    bool h_dp = ubase_check(uref_clock_get_dts_pts_delay(u, &d_dp));
    bool h_cd = ubase_check(uref_clock_get_cr_dts_delay(u, &d_cd));
    bool h_rc = ubase_check(uref_clock_get_rap_cr_delay(u, &d_rc));
    for (int d = 0; d < 3; d++) {
        if (after.ok[d][0] && after.ok[d][1] && h_cd && after.v[d][1] != after.v[d][0] + d_cd)
            SEQX_FAIL("invariant:dts=cr+delay", "%s: dts=%llx cr=%llx cr_dts_delay=%llx", dn[d], (unsigned long long)after.v[d][1],
                      (unsigned long long)after.v[d][0], (unsigned long long)d_cd);
        if (after.ok[d][1] && after.ok[d][2] && h_dp && after.v[d][2] != after.v[d][1] + d_dp)
            SEQX_FAIL("invariant:pts=dts+delay", "%s: pts=%llx dts=%llx dts_pts_delay=%llx", dn[d], (unsigned long long)after.v[d][2],
                      (unsigned long long)after.v[d][1], (unsigned long long)d_dp);
        if (after.ok[d][0] && after.ok[d][3] && h_rc && after.v[d][3] != after.v[d][0] - d_rc)
            SEQX_FAIL("invariant:rap=cr-delay", "%s: rap=%llx cr=%llx rap_cr_delay=%llx", dn[d], (unsigned long long)after.v[d][3],
                      (unsigned long long)after.v[d][0], (unsigned long long)d_rc);
        /* a readable cr and a readable pts imply a readable dts in between */
        if (after.ok[d][0] && after.ok[d][2] && !after.ok[d][1])
            SEQX_FAIL("invariant:dts-unreadable-between", "%s: cr and pts readable but dts is not", dn[d]);
    }
    /* independent model */
    for (int d = 0; d < 3; d++)
        for (int w = 0; w < 4; w++) {
            uint64_t mv = 0;
            bool mok = m_get(m, d, w, &mv);
            if (mok != after.ok[d][w] || (mok && mv != after.v[d][w])) {
                snprintf(sig, sizeof(sig), "model:get_%s", tn[w]);
                SEQX_FAIL(sig, "get_%s_%s: implementation %s%llx, model %s%llx", tn[w], dn[d], after.ok[d][w] ? "" : "(unreadable) ",
                          (unsigned long long)after.v[d][w], mok ? "" : "(unreadable) ", (unsigned long long)mv);
            }
        }
    return SEQX_OK;
}

/* ---- bystanders: operations on the same uref that are not clock operations (flags sharing the word that holds the
 * date types, the private field, dictionary attributes) must change none of the twelve dates nor the three delays.
 * Run once per distinct state on a duplicate (set, then delete), so they do not multiply the state space. ---- */
static void by_set_end(struct uref *u) { uref_flow_set_end(u); }
static void by_del_end(struct uref *u) { uref_flow_delete_end(u); }
static void by_set_disc(struct uref *u) { uref_flow_set_discontinuity(u); }
static void by_del_disc(struct uref *u) { uref_flow_delete_discontinuity(u); }
static void by_set_random(struct uref *u) { uref_flow_set_random(u); }
static void by_del_random(struct uref *u) { uref_flow_delete_random(u); }
static void by_set_error(struct uref *u) { uref_flow_set_error(u); }
static void by_del_error(struct uref *u) { uref_flow_delete_error(u); }
static void by_set_start(struct uref *u) { uref_block_set_start(u); }
static void by_del_start(struct uref *u) { uref_block_delete_start(u); }
static void by_set_bend(struct uref *u) { uref_block_set_end(u); }
static void by_del_bend(struct uref *u) { uref_block_delete_end(u); }
static void by_set_ref(struct uref *u) { uref_clock_set_ref(u); }
static void by_del_ref(struct uref *u) { uref_clock_delete_ref(u); }
static void by_set_def(struct uref *u) { (void)uref_flow_set_def(u, "block."); }
static void by_del_def(struct uref *u) { (void)uref_flow_delete_def(u); }
static void by_set_priv(struct uref *u) { u->priv = 5; }
static void by_del_priv(struct uref *u) { u->priv = UINT64_MAX; }
static void by_set_rate(struct uref *u) { (void)uref_clock_set_rate(u, (struct urational){1, 2}); }
static void by_del_rate(struct uref *u) { (void)uref_clock_delete_rate(u); }
static void by_set_dur(struct uref *u) { (void)uref_clock_set_duration(u, 7); }
static void by_del_dur(struct uref *u) { (void)uref_clock_delete_duration(u); }
static const struct {
    const char *name;
    void (*set)(struct uref *);
    void (*del)(struct uref *);
} BY[] = {{"flow_end", by_set_end, by_del_end}, {"flow_discontinuity", by_set_disc, by_del_disc}, {"flow_random", by_set_random, by_del_random},
          {"flow_error", by_set_error, by_del_error}, {"block_start", by_set_start, by_del_start}, {"block_end", by_set_bend, by_del_bend},
          {"clock_ref", by_set_ref, by_del_ref}, {"flow_def", by_set_def, by_del_def}, {"priv", by_set_priv, by_del_priv},
          {"clock_rate", by_set_rate, by_del_rate}, {"clock_duration", by_set_dur, by_del_dur}};

struct full {
    struct snap sn;
    bool hd[3];
    uint64_t d[3];
};
static void take_full(struct uref *u, struct full *f)
{
    take(u, &f->sn);
    f->d[0] = f->d[1] = f->d[2] = 0;
    f->hd[0] = ubase_check(uref_clock_get_dts_pts_delay(u, &f->d[0]));
    f->hd[1] = ubase_check(uref_clock_get_cr_dts_delay(u, &f->d[1]));
    f->hd[2] = ubase_check(uref_clock_get_rap_cr_delay(u, &f->d[2]));
}
static const char *full_diff(const struct full *a, const struct full *b, char *buf, size_t n)
{
    int dd, ww;
    if (!snap_eq(&a->sn, &b->sn, &dd, &ww)) {
        snprintf(buf, n, "get_%s_%s went from %s%llx to %s%llx", tn[ww], dn[dd], a->sn.ok[dd][ww] ? "" : "(unreadable) ",
                 (unsigned long long)a->sn.v[dd][ww], b->sn.ok[dd][ww] ? "" : "(unreadable) ", (unsigned long long)b->sn.v[dd][ww]);
        return buf;
    }
    for (int k = 0; k < 3; k++)
        if (a->hd[k] != b->hd[k] || (a->hd[k] && a->d[k] != b->d[k])) {
            snprintf(buf, n, "delay %d went from %s%llx to %s%llx", k, a->hd[k] ? "" : "(unset) ", (unsigned long long)a->d[k],
                     b->hd[k] ? "" : "(unset) ", (unsigned long long)b->d[k]);
            return buf;
        }
    return NULL;
}

static int c11_sweep(void *p)
{
    struct st *s = p;
    struct full before, after;
    char why[200], sig[96];
    take_full(s->u, &before);
    for (unsigned b = 0; b < sizeof(BY) / sizeof(BY[0]); b++) {
        struct uref *n = uref_dup(s->u);
        if (!n)
            SEQX_FAIL("dup:failed", "uref_dup failed");
        for (int phase = 0; phase < 3; phase++) { /* set ; delete ; delete again (absent) */
            if (phase == 0)
                BY[b].set(n);
            else
                BY[b].del(n);
            take_full(n, &after);
            if (full_diff(&before, &after, why, sizeof(why))) {
                snprintf(sig, sizeof(sig), "bystander:%s-%s:changed-a-date", phase == 0 ? "set" : "delete", BY[b].name);
                uref_free(n);
                SEQX_FAIL(sig, "%s of %s on the buffer: %s", phase == 0 ? "setting" : "deleting", BY[b].name, why);
            }
        }
        uref_free(n);
    }
    return SEQX_OK;
}

static void c11_canon(void *p, struct vbuf *out)
{
    struct st *s = p;
    struct uref *u = s->u;
    vbuf_u64(out, u->flags);
    vbuf_u64(out, u->date_sys);
    vbuf_u64(out, u->date_prog);
    vbuf_u64(out, u->date_orig);
    vbuf_u64(out, u->dts_pts_delay);
    vbuf_u64(out, u->cr_dts_delay);
    vbuf_u64(out, u->rap_cr_delay);
}

static bool c11_nontrivial(void *p)
{
    /* at least one domain holds a date and at least one delay is set */
    struct st *s = p;
    bool any = false;
    for (int d = 0; d < 3; d++)
        any |= s->m.kind[d] != T_NONE;
    return any && (s->m.d_dp != UNSET || s->m.d_cd != UNSET || s->m.d_rc != UNSET);
}

int main(int argc, char **argv)
{
    int depth = 3;
    for (int i = 1; i + 1 < argc; i++) {
        if (!strcmp(argv[i], "--domains")) g_ndom = atoi(argv[i + 1]);
        else if (!strcmp(argv[i], "--depth")) depth = atoi(argv[i + 1]);
    }
    g_umem = umem_alloc_mgr_alloc();
    g_udict = udict_inline_mgr_alloc(4, g_umem, -1, -1);
    g_urefmgr = uref_std_mgr_alloc(4, g_udict, 0);
    build();
    struct seqx_spec spec = {
        .name = "c11-clock",
        .nops = g_nops,
        .init = c11_init,
        .apply = c11_apply,
        .canon = c11_canon,
        .fini = c11_fini,
        .opstr = c11_opstr,
        .nontrivial = c11_nontrivial,
        .sweep = c11_sweep,
    };
    int r = seqx_main(&spec, argc, argv, depth);
    v_stat("alphabet", g_nops);
    return r;
}
