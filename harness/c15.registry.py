# Registry fragment for C15 (merged into tools/registry.py by the coordinator).
# Uses the names R, H, E, T, CORE, DEFAULT_ASSUME of tools/registry.py when merged; defined here
# as well so that the fragment can be exec'd on its own.
R = "@REPO@/lib/upipe/"
H = "@VERIF@/harness/"
E = "@VERIF@/engine/"
T = "@REPO@/lib/upipe-ts/"

_C15_CORE = [R + f for f in (
    "umem_alloc.c", "umem_pool.c", "ubuf_block_mem.c", "ubuf_mem.c", "ubuf_mem_common.c",
    "ubuf_pic_mem.c", "ubuf_pic_common.c", "ubuf_pic.c", "ubuf_sound_mem.c", "ubuf_sound_common.c",
    "udict_inline.c", "uref_std.c", "upump_common.c", "uprobe.c", "uprobe_stdio.c", "uprobe_prefix.c",
    "uprobe_ubuf_mem.c", "uprobe_uref_mgr.c", "uprobe_uclock.c", "uprobe_upump_mgr.c",
    "ustring.c", "uuri.c", "uref_uri.c", "uref_pic_flow.c", "upipe_dump.c",
    "ucookie.c", "uprobe_ubuf_mem_pool.c", "uclock_std.c",
)]

HARNESS = {
    "c15_ts": {"src": [H + "c15_ts.c",
                       T + "upipe_ts_decaps.c", T + "upipe_ts_pes_decaps.c", T + "upipe_ts_pes_encaps.c", T + "upipe_ts_encaps.c",
                       T + "upipe_ts_pid_filter.c", T + "upipe_ts_split.c",
                       "@VERIF@/shim/stubs/upipe_ts_mux_str.c", E + "vmock_upump.c", E + "simfd.c"] + _C15_CORE},
}


def _c15_jobs(tier):
    q = tier == "quick"
    shards = {"t1": 6, "t2": 3, "t3": 3, "t4": 3, "t5": 1} if q else {"t1": 24, "t2": 8, "t3": 16, "t4": 23, "t5": 1}
    deadline = 50 if q else 800
    jobs = []
    for mode in ("t1", "t2", "t3", "t4", "t5"):
        n = shards[mode]
        for i in range(n):
            jobs.append(("c15_ts", ["--mode", mode, "--tier", tier, "--shard", "%d/%d" % (i, n), "--deadline", deadline]))
    return jobs


CHECK = {
    "engine": "seqx", "design_ref": "DESIGN.md section 3 C15",
    "technique": "exhaustive nested enumeration (no sampling) of TS packet sequences, PES packets, access units and cuttings on the real "
                 "upipe_ts_decaps / upipe_ts_pes_decaps / upipe_ts_pes_encaps / upipe_ts_encaps inside the pipex fixture, against reference TS and PES "
                 "coders written from ISO/IEC 13818-1 2.4.3 (not the bitstream shim) and a reference continuity-counter automaton",
    "level_text": "T1: every sequence of TS packets up to the stated depth over payload-only / adaptation field of 0,1,7(PCR),100,182 octets + payload / "
                  "183-octet adaptation-field-only packets (with and without PCR), flags unit_start, discontinuity_indicator, random_access, transport_error, "
                  "counter steps +1, duplicate, +0 with other content, +2, +15, each packet as one or two buffer segments cut at every position of header + "
                  "adaptation field: the outputs must be exactly the carried payloads in order, duplicates dropped once, markers forwarded, PCR events with the "
                  "encoded value, flow.discontinuity exactly on a counter gap (also when the gap is seen on a packet without payload), lost counter non-zero iff a gap. "
                  "T2: pes_encaps for 12 (thorough 25) access-unit sizes around every PES_packet_length boundary x 9 timestamp combinations (none, PTS only, "
                  "PTS+DTS, equal, same/next 90 kHz tick, 2^33 wrap) x stream ids e0/c0/bd/bf x minimum header x 1-2 segments x random flag: its octets parsed by the "
                  "reference PES parser (flags, length, marker bits, prefix nibbles, stuffing) and fed to pes_decaps directly and as 184-octet chunks; and 1070 "
                  "reference-built PES packets (11 stream ids, PTS/DTS flags, stuffing, alignment, payload 0/1/20, bounded/unbounded, 4 timestamp pairs) cut at "
                  "every position into 1..3 (thorough: video 1..4) chunks followed by a second packet: bytes, start/end markers, DTS and PTS-DTS in 27 MHz, clock_ts / sync events. "
                  "T3: the harness acts as the mux on ts_encaps (status events, splice, eos) for 1-2 access units of 10 (thorough 22) sizes around every packet "
                  "boundary x 4 stream ids x PES alignment on/off x PCR interval off / every ~3rd packet / once x random / discontinuity flags x feeding order, and a timestamp axis of 21 "
                  "combinations (DTS+PTS three frames apart / PTS == DTS, DTS without PTS, bare PTS, no program date, PTS and DTS different 27 MHz dates in the same "
                  "90 kHz tick at sub-tick phases 0/50/150/298 with delays 1/100/299, crossing into the next tick, delay exactly 300, 50 s, and six placements around "
                  "the 2^33 wrap) crossed with every first-unit size x {alone, +171, +1000 octets} x stream id x alignment x PCR interval: the reference PES parser "
                  "requires PTS_DTS_flags, PES_header_data_length and the octets present to agree and the header to have exactly the size its flags need; "
                  "every packet is 188 octets, conformant for the reference parser, PID as configured, continuity counter +1 per payload packet and unchanged "
                  "on PCR-only packets, PCR exactly when the interval elapsed with the program-clock value of its mux date; fed through ts_decaps -> pes_decaps the "
                  "access units come back octet for octet with PTS/DTS, unit start/end, random and discontinuity markers. "
                  "T4: every T1 single-packet variant (between two good packets and as a corrupted duplicate) and the reference PES packets with every "
                  "header / adaptation-field / PES-header octet set to 00, ff, complemented and every single bit flipped, and truncated at every length, in several "
                  "cuttings: no sanitizer report (input buffers are exact-size heap blocks, pools of depth 0, no prepend/append), every output is a slice of the "
                  "input, the next unit start resynchronises pes_decaps, fixture teardown clean. "
                  "T5: one packet of every PID 0..8191 through upipe_ts_pid_filter (6 PID sets, add and add+delete) and upipe_ts_split (subpipes on 0-3 PIDs, two "
                  "on the same PID), packets in 1 or 2 segments cut at 1..4: every output receives exactly the packets of its PID, unchanged, in order. "
                  "Bounded, not a proof.",
    "level_note": "Trusted: the reference TS/PES coders and the continuity automaton in the harness (about 300 lines), clang/ASan, the bitstream shim only as the "
                  "accessor layer the Upipe code is compiled against (a shim error shows up as a disagreement with the reference coders). Outside the bound: "
                  "sequences longer than the depth, OPCR / splice / private / extension fields of the adaptation field, PES extension fields, PSI sections in "
                  "ts_encaps, pes_min_duration aggregation, more than two access units, changing the subpipes of ts_split while packets flow. "
                  "Undefined input (a third copy of a packet) ends the judged part of a sequence (counted in illformed_tail_not_judged).",
    "jobs": {"quick": _c15_jobs("quick"), "thorough": _c15_jobs("thorough")},
    "rule": "state = one input case (packet sequence / PES packet / access-unit pair with its configuration, cutting and mutation); transition = one buffer "
            "input or one splice on the real pipes; non-trivial = executions in which the pipes produced at least one output buffer / TS packet",
    "bounds": {"quick": "T1 depth 1-2 with all 88 packet variants (all cuttings at depth 1), depth 3-4 over a 10-variant alphabet; T2 12 sizes, PES packets in 1-3 chunks; "
                        "T3 10 sizes (configured minimum PES header on single access units), 21 timestamp combinations x 10 sizes x 3 second units x 4 ids x alignment x PCR x 2 flag sets; T4 cuttings {none, 5} for TS and up to the header end for PES "
                        "(video, private_stream_2, padding ids); T5 all 8192 PIDs",
               "thorough": "T1 depth 5; T2 25 sizes, bounded video PES packets also in 4 chunks; T3 22 sizes, minimum header everywhere, timestamp axis x 22 sizes x 5 second units x 4 flag sets x both feeding orders x minimum header; T4 TS cuttings {none,1,4,5,6,12}, "
                           "all stream ids and all two-chunk cuttings for PES; T5 as quick"},
    "assumptions": [
        "harness compiled with clang -O1 + AddressSanitizer from /repo's working tree; library asserts enabled",
        "jobs are shards (case number modulo n) of one deterministic enumeration; no deduplication is needed (every case is distinct by construction)",
        "PTS-DTS distances stay below the 60 s limit documented in upipe_ts_pes_decaps.c",
        "the flow.discontinuity attribute of the very first output is not constrained (no predecessor); a discontinuity_indicator on a packet without payload is "
        "not required to be forwarded",
    ],
}
