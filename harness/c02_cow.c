/* C02 — shared buffer memory is copy-on-write: handles are isolated.
 *
 * seqx BFS over a family of <= 3 block handles, <= 2 picture handles and <= 2
 * sound handles that share memory (dup / splice / split / insert / append /
 * delete / truncate / resize / merge / block-from-picture / block-from-sound /
 * write mapping / free). Oracles after every transition:
 *  (i)   the content of EVERY live handle equals its model copy;
 *  (ii)  whenever a writable mapping is granted, exactly one live segment /
 *        picture / sound references the written memory area (counted by
 *        walking all live handles; independent of the library's refcount);
 *  (iii) operations other than a granted write never change a byte of any
 *        live memory area (snapshots of all areas of the counting allocator).
 *
 * args: --prepend P --append A --align L --pool D --depth D
 */
#undef NDEBUG
#include "upipe/ubase.h"
#include "upipe/umem.h"
#include "upipe/ubuf.h"
#include "upipe/ubuf_block.h"
#include "upipe/ubuf_block_mem.h"
#include "upipe/ubuf_pic.h"
#include "upipe/ubuf_pic_mem.h"
#include "upipe/ubuf_sound.h"
#include "upipe/ubuf_sound_mem.h"
#include "seqx.h"
#include "count_umem.h"

#define NB 3
#define NP 2
#define MAXN 12
#define PW 4
#define PH 2
#define SN 4
static int g_prepend = 0, g_append = 0, g_align = 0, g_pool = 0, g_maxn = 6, g_faults = 0;

struct model {
    int n;
    uint8_t b[MAXN];
};

struct st {
    struct cumem_mgr cumem;
    struct ubuf_mgr *bmgr, *pmgr, *smgr;
    struct ubuf *B[NB], *P[NP], *S[NP];
    struct model mb[NB], mp[NP], ms[NP];
    int nwrites, nallocs;
    long owners_checked;
    int faults_armed;
};

/* environment deviation (--faults N): "the k-th next memory request is refused". A memory request is a request to the umem
 * manager (buffer areas) or a libc malloc of ubuf_block_mem.c / ubuf_mem_common.c (buffer and shared-area descriptors), which
 * are compiled with -Dmalloc=vf_malloc for this harness. An operation that fails because of a refusal must leave every handle
 * exactly as it was (the per-step comparison of all handles with their models is the oracle). */
static struct cumem_mgr *vf_cumem;
void *vf_malloc(size_t n);
void *vf_malloc(size_t n)
{
    if (vf_cumem && vf_cumem->fail_in > 0 && --vf_cumem->fail_in == 0) {
        vf_cumem->faults++;
        return NULL;
    }
    return (malloc)(n);
}

static int walk(struct ubuf *u, uint8_t *out, int max, int *nseg)
{
    int n = 0, segs = 0;
    while (u != NULL) {
        struct ubuf_block *b = ubuf_block_from_ubuf(u);
        for (size_t i = 0; i < b->size; i++) {
            if (n >= max)
                return -1;
            out[n++] = b->buffer[b->offset + i];
        }
        if (++segs > 32)
            return -1;
        u = b->next_ubuf;
    }
    if (nseg)
        *nseg = segs;
    return n;
}

static int area_of(struct st *s, const uint8_t *p)
{
    for (int i = 0; i < s->cumem.nlive; i++)
        if (p >= s->cumem.live[i].buf && p <= s->cumem.live[i].buf + s->cumem.live[i].size)
            return i;
    return -1;
}

static const uint8_t *pic_ptr(struct ubuf *p, size_t *stride)
{
    const uint8_t *r = NULL;
    uint8_t hsub, vsub, mp;
    if (!ubase_check(ubuf_pic_plane_size(p, "y8", stride, &hsub, &vsub, &mp)))
        return NULL;
    if (!ubase_check(ubuf_pic_plane_read(p, "y8", 0, 0, -1, -1, &r)))
        return NULL;
    ubuf_pic_plane_unmap(p, "y8", 0, 0, -1, -1);
    return r;
}

static const uint8_t *snd_ptr(struct ubuf *u)
{
    const uint8_t *r = NULL;
    if (!ubase_check(ubuf_sound_plane_read_uint8_t(u, "l", 0, -1, &r)))
        return NULL;
    ubuf_sound_plane_unmap(u, "l", 0, -1);
    return r;
}

/* number of live segments / pictures / sounds referencing area a */
static int owners(struct st *s, int a)
{
    int n = 0;
    for (int i = 0; i < NB; i++)
        for (struct ubuf *u = s->B[i]; u != NULL; u = ubuf_block_from_ubuf(u)->next_ubuf)
            if (area_of(s, ubuf_block_from_ubuf(u)->buffer) == a)
                n++;
    for (int i = 0; i < NP; i++) {
        size_t st;
        if (s->P[i] && area_of(s, pic_ptr(s->P[i], &st)) == a)
            n++;
        if (s->S[i] && area_of(s, snd_ptr(s->S[i])) == a)
            n++;
    }
    return n;
}

static void *c02_init(void)
{
    struct st *s = calloc(1, sizeof(*s));
    cumem_mgr_init(&s->cumem);
    vf_cumem = NULL;
    s->bmgr = ubuf_block_mem_mgr_alloc(g_pool, g_pool, &s->cumem.mgr, g_prepend, g_append, g_align, 0);
    s->pmgr = ubuf_pic_mem_mgr_alloc(g_pool, g_pool, &s->cumem.mgr, 1, 0, 0, 0, 0, 0, 0);
    ubase_assert(ubuf_pic_mem_mgr_add_plane(s->pmgr, "y8", 1, 1, 1));
    s->smgr = ubuf_sound_mem_mgr_alloc(g_pool, g_pool, &s->cumem.mgr, 1, 0);
    ubase_assert(ubuf_sound_mem_mgr_add_plane(s->smgr, "l"));
    vf_cumem = &s->cumem;
    return s;
}

static void c02_fini(void *p)
{
    struct st *s = p;
    for (int i = 0; i < NB; i++)
        if (s->B[i])
            ubuf_free(s->B[i]);
    for (int i = 0; i < NP; i++) {
        if (s->P[i])
            ubuf_free(s->P[i]);
        if (s->S[i])
            ubuf_free(s->S[i]);
    }
    ubuf_mgr_release(s->bmgr);
    ubuf_mgr_release(s->pmgr);
    ubuf_mgr_release(s->smgr);
    free(s);
}

enum { K_ALLOC, K_DUP, K_FREE, K_WRITE, K_SPLICE, K_SPLIT, K_APPEND, K_INSERT, K_DELETE, K_TRUNC, K_RESIZE, K_MERGE,
       K_PALLOC, K_PDUP, K_PFREE, K_PWRITE, K_BFROMP, K_SALLOC, K_SDUP, K_SFREE, K_SWRITE, K_BFROMS, K_TOUCH, K_FAULT };
static const char *kn[] = {"alloc", "dup", "free", "write", "splice", "split", "append", "insert", "delete", "truncate", "resize", "merge",
                           "pic_alloc", "pic_dup", "pic_free", "pic_write", "block_from_pic", "sound_alloc", "sound_dup", "sound_free",
                           "sound_write", "block_from_sound", "touch", "refuse-memory-request"};
struct op {
    int kind, i, o, s;
};
static struct op g_ops[512];
static int g_nops;
static void add(int k, int i, int o, int s) { g_ops[g_nops++] = (struct op){k, i, o, s}; }

static void build_alphabet(void)
{
    add(K_ALLOC, 0, 0, 2);
    add(K_ALLOC, 0, 0, 3);
    for (int i = 0; i < NB; i++) {
        add(K_DUP, i, 0, 0);
        add(K_FREE, i, 0, 0);
        for (int o = 0; o <= 3; o++)
            add(K_WRITE, i, o, 0);
    }
    add(K_PALLOC, 0, 0, 0);
    add(K_SALLOC, 0, 0, 0);
    for (int i = 0; i < NP; i++) {
        add(K_PDUP, i, 0, 0);
        add(K_PFREE, i, 0, 0);
        add(K_PWRITE, i, 0, 0);
        add(K_BFROMP, i, 0, 0);
        add(K_SDUP, i, 0, 0);
        add(K_SFREE, i, 0, 0);
        add(K_SWRITE, i, 0, 0);
        add(K_BFROMS, i, 0, 0);
    }
    for (int i = 0; i < NB; i++) {
        for (int o = 0; o <= 2; o++) {
            add(K_SPLICE, i, o, 1);
            add(K_SPLICE, i, o, -1);
        }
        add(K_SPLIT, i, 1, 0);
        add(K_SPLIT, i, 2, 0);
        for (int j = 0; j < NB; j++)
            if (j != i) {
                add(K_APPEND, i, j, 0);
                add(K_INSERT, i, j, 1);
            }
        add(K_DELETE, i, 0, 1);
        add(K_DELETE, i, 1, 1);
        add(K_TRUNC, i, 1, 0);
        add(K_TRUNC, i, 2, 0);
        add(K_RESIZE, i, 1, -1);
        add(K_RESIZE, i, 0, 1);
        add(K_MERGE, i, 0, 0);
    }
    /* appended later (keeps earlier op numbers stable): lookups that move the
     * offset cache, and emptying a block */
    for (int i = 0; i < NB; i++)
        for (int o = 1; o <= 3; o++)
            add(K_TOUCH, i, o, 0);
    for (int i = 0; i < NB; i++)
        add(K_TRUNC, i, 0, 0);
    /* windows that span two segments and end strictly inside the later one */
    for (int i = 0; i < NB; i++)
        for (int o = 0; o <= 2; o++) {
            add(K_SPLICE, i, o, 2);
            add(K_SPLICE, i, o, 3);
        }
    if (g_faults) {
        add(K_FAULT, 0, 0, 1);
        add(K_FAULT, 0, 0, 2);
    }
}

static void c02_opstr(int opi, char *b, size_t n)
{
    struct op *o = &g_ops[opi];
    snprintf(b, n, "%s(h%d,%d,%d)", kn[o->kind], o->i, o->o, o->s);
}

static int free_slot(struct ubuf **arr, int n)
{
    for (int i = 0; i < n; i++)
        if (arr[i] == NULL)
            return i;
    return -1;
}

static int verify_all(struct st *s, const char *opname)
{
    char sig[128];
    for (int i = 0; i < NB; i++) {
        if (!s->B[i])
            continue;
        uint8_t now[MAXN];
        int n = walk(s->B[i], now, MAXN, NULL);
        size_t tot = 0;
        ubuf_block_size(s->B[i], &tot);
        if (n != s->mb[i].n || (int)tot != n || memcmp(now, s->mb[i].b, n)) {
            snprintf(sig, sizeof(sig), "isolation:block-changed-after-%s", opname);
            SEQX_FAIL(sig, "block handle %d: size=%zu, %d bytes in segments, model has %d (content %s) after %s", i, tot, n, s->mb[i].n,
                      (n == s->mb[i].n && !memcmp(now, s->mb[i].b, n)) ? "same" : "differs", opname);
        }
    }
    for (int i = 0; i < NP; i++) {
        if (s->P[i]) {
            size_t stride;
            const uint8_t *r = pic_ptr(s->P[i], &stride);
            bool same = r != NULL;
            for (int y = 0; same && y < PH; y++)
                same = !memcmp(r + y * stride, s->mp[i].b + y * PW, PW);
            if (!same) {
                snprintf(sig, sizeof(sig), "isolation:picture-changed-after-%s", opname);
                SEQX_FAIL(sig, "picture handle %d no longer shows its pixels after %s", i, opname);
            }
        }
        if (s->S[i]) {
            const uint8_t *r = snd_ptr(s->S[i]);
            if (r == NULL || memcmp(r, s->ms[i].b, SN)) {
                snprintf(sig, sizeof(sig), "isolation:sound-changed-after-%s", opname);
                SEQX_FAIL(sig, "sound handle %d no longer shows its samples after %s", i, opname);
            }
        }
    }
    return SEQX_OK;
}

static int c02_apply(void *p, int opi, bool check)
{
    struct st *s = p;
    struct op *op = &g_ops[opi];
    int i = op->i;
    char sig[128];
    bool is_write = op->kind == K_WRITE || op->kind == K_PWRITE || op->kind == K_SWRITE;
    /* snapshot all live areas */
    struct {
        uint8_t *buf;
        size_t size;
        uint8_t copy[128];
    } snap[32];
    int nsnap = 0;
    if (check)
        for (int a = 0; a < s->cumem.nlive && nsnap < 32; a++) {
            snap[nsnap].buf = s->cumem.live[a].buf;
            snap[nsnap].size = s->cumem.live[a].size < 128 ? s->cumem.live[a].size : 128;
            memcpy(snap[nsnap].copy, snap[nsnap].buf, snap[nsnap].size);
            nsnap++;
        }
    long frees_before = s->cumem.frees + s->cumem.reallocs;
    int faults0 = s->cumem.faults;
#define REFUSED (s->cumem.faults > faults0)
#define OPFAIL(...)                                                            \
    do {                                                                       \
        if (REFUSED)                                                           \
            goto after_op; /* refused memory: the operation may fail, and must then have changed nothing */ \
        SEQX_FAIL(__VA_ARGS__);                                                \
    } while (0)

    switch (op->kind) {
    case K_FAULT:
        if (s->faults_armed >= g_faults || s->cumem.fail_in != 0)
            return SEQX_DISABLED;
        s->cumem.fail_in = op->s;
        s->faults_armed++;
        break;
    case K_ALLOC: {
        int j = free_slot(s->B, NB);
        if (j < 0)
            return SEQX_DISABLED;
        s->B[j] = ubuf_block_alloc(s->bmgr, op->s);
        if (!s->B[j]) {
            if (REFUSED)
                goto after_op;
            assert(s->B[j]);
        }
        struct ubuf_block *b = ubuf_block_from_ubuf(s->B[j]);
        s->nallocs++;
        for (int k = 0; k < op->s; k++)
            b->buffer[b->offset + k] = (uint8_t)(0x10 * (s->nallocs & 7) + k + 1);
        s->mb[j].n = walk(s->B[j], s->mb[j].b, MAXN, NULL);
        break;
    }
    case K_DUP: {
        int j = free_slot(s->B, NB);
        if (!s->B[i] || j < 0)
            return SEQX_DISABLED;
        s->B[j] = ubuf_dup(s->B[i]);
        if (!s->B[j])
            OPFAIL("dup:failed", "ubuf_dup failed");
        s->mb[j] = s->mb[i];
        break;
    }
    case K_TOUCH: {
        size_t lin;
        if (!s->B[i] || op->o >= s->mb[i].n)
            return SEQX_DISABLED;
        ubuf_block_size_linear(s->B[i], op->o, &lin);
        break;
    }
    case K_FREE:
        if (!s->B[i])
            return SEQX_DISABLED;
        ubuf_free(s->B[i]);
        s->B[i] = NULL;
        s->mb[i].n = 0;
        break;
    case K_WRITE: {
        if (!s->B[i] || op->o >= s->mb[i].n)
            return SEQX_DISABLED;
        int size = -1;
        uint8_t *w = NULL;
        int err = ubuf_block_write(s->B[i], op->o, &size, &w);
        if (ubase_check(err)) {
            int a = area_of(s, w);
            int own = a >= 0 ? owners(s, a) : -1;
            s->owners_checked++;
            if (size < 1 || op->o + size > s->mb[i].n)
                SEQX_FAIL("write:bad-size", "write mapping at %d granted %d octets of a %d-octet block", op->o, size, s->mb[i].n);
            s->nwrites++;
            for (int k = 0; k < size; k++) {
                w[k] = (uint8_t)(0xC0 + (s->nwrites & 3) * 16 + k);
                s->mb[i].b[op->o + k] = w[k];
            }
            ubuf_block_unmap(s->B[i], op->o);
            if (own != 1) {
                snprintf(sig, sizeof(sig), "write:granted-while-shared");
                SEQX_FAIL(sig, "writable mapping granted on block handle %d at offset %d although %d live segments/pictures/sounds reference that memory area",
                          i, op->o, own);
            }
        }
        break;
    }
    case K_SPLICE: {
        int j = free_slot(s->B, NB);
        if (!s->B[i] || j < 0 || op->o >= s->mb[i].n)
            return SEQX_DISABLED;
        int sn = op->s == -1 ? s->mb[i].n - op->o : op->s;
        if (op->o + sn > s->mb[i].n)
            return SEQX_DISABLED;
        s->B[j] = ubuf_block_splice(s->B[i], op->o, op->s);
        if (!s->B[j])
            OPFAIL("splice:failed", "in-range splice failed");
        s->mb[j].n = sn;
        memcpy(s->mb[j].b, s->mb[i].b + op->o, sn);
        break;
    }
    case K_SPLIT: {
        int j = free_slot(s->B, NB);
        if (!s->B[i] || j < 0 || op->o >= s->mb[i].n)
            return SEQX_DISABLED;
        s->B[j] = ubuf_block_split(s->B[i], op->o);
        if (!s->B[j])
            OPFAIL("split:failed", "in-range split failed");
        s->mb[j].n = s->mb[i].n - op->o;
        memcpy(s->mb[j].b, s->mb[i].b + op->o, s->mb[j].n);
        s->mb[i].n = op->o;
        break;
    }
    case K_APPEND: {
        int j = op->o;
        if (!s->B[i] || !s->B[j] || s->mb[i].n + s->mb[j].n > g_maxn)
            return SEQX_DISABLED;
        if (!ubase_check(ubuf_block_append(s->B[i], s->B[j])))
            OPFAIL("append:failed", "append failed");
        memcpy(s->mb[i].b + s->mb[i].n, s->mb[j].b, s->mb[j].n);
        s->mb[i].n += s->mb[j].n;
        s->B[j] = NULL;
        s->mb[j].n = 0;
        break;
    }
    case K_INSERT: {
        int j = op->o, at = op->s;
        if (!s->B[i] || !s->B[j] || s->mb[i].n + s->mb[j].n > g_maxn || at >= s->mb[i].n)
            return SEQX_DISABLED;
        if (!ubase_check(ubuf_block_insert(s->B[i], at, s->B[j])))
            OPFAIL("insert:failed", "in-range insert failed");
        memmove(s->mb[i].b + at + s->mb[j].n, s->mb[i].b + at, s->mb[i].n - at);
        memcpy(s->mb[i].b + at, s->mb[j].b, s->mb[j].n);
        s->mb[i].n += s->mb[j].n;
        s->B[j] = NULL;
        s->mb[j].n = 0;
        break;
    }
    case K_DELETE: {
        if (!s->B[i] || op->o + op->s > s->mb[i].n)
            return SEQX_DISABLED;
        if (!ubase_check(ubuf_block_delete(s->B[i], op->o, op->s)))
            OPFAIL("delete:failed", "in-range delete failed");
        memmove(s->mb[i].b + op->o, s->mb[i].b + op->o + op->s, s->mb[i].n - op->o - op->s);
        s->mb[i].n -= op->s;
        break;
    }
    case K_TRUNC:
        if (!s->B[i] || op->o > s->mb[i].n)
            return SEQX_DISABLED;
        if (!ubase_check(ubuf_block_truncate(s->B[i], op->o)))
            OPFAIL("truncate:failed", "in-range truncate failed");
        s->mb[i].n = op->o;
        break;
    case K_RESIZE: {
        if (!s->B[i] || op->o >= s->mb[i].n)
            return SEQX_DISABLED;
        int sn = op->s == -1 ? s->mb[i].n - op->o : op->s;
        if (op->o + sn > s->mb[i].n)
            return SEQX_DISABLED;
        if (!ubase_check(ubuf_block_resize(s->B[i], op->o, op->s)))
            OPFAIL("resize:failed", "in-range resize failed");
        memmove(s->mb[i].b, s->mb[i].b + op->o, sn);
        s->mb[i].n = sn;
        break;
    }
    case K_MERGE:
        if (!s->B[i] || s->mb[i].n == 0)
            return SEQX_DISABLED;
        if (!ubase_check(ubuf_block_merge(s->bmgr, &s->B[i], 0, -1)))
            OPFAIL("merge:failed", "merge failed");
        break;
    case K_PALLOC: {
        int j = free_slot(s->P, NP);
        if (j < 0 || s->P[0] || s->P[1])
            return SEQX_DISABLED;
        s->P[j] = ubuf_pic_alloc(s->pmgr, PW, PH);
        if (!s->P[j]) {
            if (REFUSED)
                goto after_op;
            assert(s->P[j]);
        }
        uint8_t *w;
        size_t stride;
        uint8_t a, b2, c;
        ubase_assert(ubuf_pic_plane_size(s->P[j], "y8", &stride, &a, &b2, &c));
        ubase_assert(ubuf_pic_plane_write(s->P[j], "y8", 0, 0, -1, -1, &w));
        for (int y = 0; y < PH; y++)
            for (int x = 0; x < PW; x++)
                s->mp[j].b[y * PW + x] = w[y * stride + x] = 0x60 + y * PW + x;
        ubuf_pic_plane_unmap(s->P[j], "y8", 0, 0, -1, -1);
        s->mp[j].n = PW * PH;
        break;
    }
    case K_PDUP: {
        int j = free_slot(s->P, NP);
        if (!s->P[i] || j < 0)
            return SEQX_DISABLED;
        s->P[j] = ubuf_dup(s->P[i]);
        if (!s->P[j])
            OPFAIL("pic_dup:failed", "ubuf_dup(picture) failed");
        s->mp[j] = s->mp[i];
        break;
    }
    case K_PFREE:
        if (!s->P[i])
            return SEQX_DISABLED;
        ubuf_free(s->P[i]);
        s->P[i] = NULL;
        break;
    case K_PWRITE: {
        if (!s->P[i])
            return SEQX_DISABLED;
        uint8_t *w = NULL;
        size_t stride;
        uint8_t a, b2, c;
        ubase_assert(ubuf_pic_plane_size(s->P[i], "y8", &stride, &a, &b2, &c));
        int err = ubuf_pic_plane_write(s->P[i], "y8", 0, 0, -1, -1, &w);
        if (ubase_check(err)) {
            int ar = area_of(s, w);
            int own = ar >= 0 ? owners(s, ar) : -1;
            s->owners_checked++;
            s->nwrites++;
            for (int y = 0; y < PH; y++)
                for (int x = 0; x < PW; x++)
                    s->mp[i].b[y * PW + x] = w[y * stride + x] = 0x80 + (s->nwrites & 3) * 16 + y * PW + x;
            ubuf_pic_plane_unmap(s->P[i], "y8", 0, 0, -1, -1);
            if (own != 1)
                SEQX_FAIL("pic_write:granted-while-shared",
                          "writable mapping granted on picture handle %d although %d live handles reference its memory", i, own);
        }
        break;
    }
    case K_BFROMP: {
        int j = free_slot(s->B, NB);
        if (!s->P[i] || j < 0)
            return SEQX_DISABLED;
        s->B[j] = ubuf_block_mem_alloc_from_pic(s->bmgr, s->P[i], "y8");
        if (!s->B[j])
            OPFAIL("block_from_pic:failed", "ubuf_block_mem_alloc_from_pic failed");
        /* the block exposes the plane's memory: adopt what it shows, it must be stable from now on */
        s->mb[j].n = walk(s->B[j], s->mb[j].b, MAXN, NULL);
        if (s->mb[j].n < PW * PH)
            SEQX_FAIL("block_from_pic:too-small", "block made from a %dx%d plane has %d octets", PW, PH, s->mb[j].n);
        break;
    }
    case K_SALLOC: {
        int j = free_slot(s->S, NP);
        if (j < 0 || s->S[0] || s->S[1])
            return SEQX_DISABLED;
        s->S[j] = ubuf_sound_alloc(s->smgr, SN);
        if (!s->S[j]) {
            if (REFUSED)
                goto after_op;
            assert(s->S[j]);
        }
        uint8_t *w;
        ubase_assert(ubuf_sound_plane_write_uint8_t(s->S[j], "l", 0, -1, &w));
        for (int k = 0; k < SN; k++)
            s->ms[j].b[k] = w[k] = 0x40 + k;
        ubuf_sound_plane_unmap(s->S[j], "l", 0, -1);
        s->ms[j].n = SN;
        break;
    }
    case K_SDUP: {
        int j = free_slot(s->S, NP);
        if (!s->S[i] || j < 0)
            return SEQX_DISABLED;
        s->S[j] = ubuf_dup(s->S[i]);
        if (!s->S[j])
            OPFAIL("sound_dup:failed", "ubuf_dup(sound) failed");
        s->ms[j] = s->ms[i];
        break;
    }
    case K_SFREE:
        if (!s->S[i])
            return SEQX_DISABLED;
        ubuf_free(s->S[i]);
        s->S[i] = NULL;
        break;
    case K_SWRITE: {
        if (!s->S[i])
            return SEQX_DISABLED;
        uint8_t *w = NULL;
        int err = ubuf_sound_plane_write_uint8_t(s->S[i], "l", 0, -1, &w);
        if (ubase_check(err)) {
            int ar = area_of(s, w);
            int own = ar >= 0 ? owners(s, ar) : -1;
            s->owners_checked++;
            s->nwrites++;
            for (int k = 0; k < SN; k++)
                s->ms[i].b[k] = w[k] = 0xA0 + (s->nwrites & 3) * 16 + k;
            ubuf_sound_plane_unmap(s->S[i], "l", 0, -1);
            if (own != 1)
                SEQX_FAIL("sound_write:granted-while-shared",
                          "writable mapping granted on sound handle %d although %d live handles reference its memory", i, own);
        }
        break;
    }
    case K_BFROMS: {
        int j = free_slot(s->B, NB);
        if (!s->S[i] || j < 0)
            return SEQX_DISABLED;
        s->B[j] = ubuf_block_mem_alloc_from_sound(s->bmgr, s->S[i], "l");
        if (!s->B[j])
            OPFAIL("block_from_sound:failed", "ubuf_block_mem_alloc_from_sound failed");
        s->mb[j].n = walk(s->B[j], s->mb[j].b, MAXN, NULL);
        if (s->mb[j].n < SN)
            SEQX_FAIL("block_from_sound:too-small", "block made from %d samples has %d octets", SN, s->mb[j].n);
        break;
    }
    }
after_op:
    if (!check)
        return SEQX_OK;
    int r = verify_all(s, kn[op->kind]);
    if (r != SEQX_OK)
        return r;
    if (!is_write && op->kind != K_ALLOC && op->kind != K_PALLOC && op->kind != K_SALLOC) {
        /* (iii) no byte of a surviving area changed */
        bool anyfree = s->cumem.frees + s->cumem.reallocs != frees_before;
        for (int k = 0; k < nsnap; k++) {
            int a = -1;
            for (int x = 0; x < s->cumem.nlive; x++)
                if (s->cumem.live[x].buf == snap[k].buf)
                    a = x;
            if (a < 0)
                continue; /* released by this operation */
            (void)anyfree;
            if (memcmp(snap[k].copy, snap[k].buf, snap[k].size)) {
                snprintf(sig, sizeof(sig), "area-modified-by-%s", kn[op->kind]);
                SEQX_FAIL(sig, "%s changed bytes of a live memory area (%d owners) without a write mapping", kn[op->kind], owners(s, a));
            }
        }
    }
    if (s->cumem.overrun || s->cumem.double_free || s->cumem.unknown_free)
        SEQX_FAIL("umem:corruption", "allocator: %s", s->cumem.err);
    int nseg = 0;
    for (int k = 0; k < NB; k++) {
        int ns = 0;
        if (s->B[k])
            walk(s->B[k], (uint8_t[MAXN]){0}, MAXN, &ns);
        nseg += ns;
    }
    if (nseg > 7)
        return SEQX_DISABLED;
    return SEQX_OK;
}

static void c02_canon(void *p, struct vbuf *out)
{
    struct st *s = p;
    vbuf_u8(out, (uint8_t)s->cumem.fail_in);
    vbuf_u8(out, (uint8_t)s->faults_armed);
    uint8_t *areas[64];
    int na = 0;
    for (int i = 0; i < NB; i++) {
        struct ubuf *u = s->B[i];
        if (!u) {
            vbuf_u8(out, 0xff);
            continue;
        }
        struct ubuf_block *h = ubuf_block_from_ubuf(u);
        struct ubuf *chain[32];
        int nc = 0;
        for (struct ubuf *x = u; x && nc < 32; x = ubuf_block_from_ubuf(x)->next_ubuf)
            chain[nc++] = x;
        vbuf_u8(out, nc);
        for (int k = 0; k < nc; k++) {
            struct ubuf_block *b = ubuf_block_from_ubuf(chain[k]);
            int ai = -1;
            for (int a = 0; a < na; a++)
                if (areas[a] == b->buffer)
                    ai = a;
            if (ai < 0) {
                ai = na;
                areas[na++] = b->buffer;
            }
            vbuf_u8(out, ai);
            vbuf_u32(out, b->offset);
            vbuf_u32(out, b->size);
        }
        int ci = -1, ei = -1;
        for (int k = 0; k < nc; k++) {
            if (chain[k] == h->cached_ubuf) ci = k;
            if (chain[k] == h->cached_end_ubuf) ei = k;
        }
        vbuf_u8(out, ci);
        vbuf_u32(out, h->cached_offset);
        vbuf_u8(out, ei);
        vbuf_put(out, s->mb[i].b, s->mb[i].n);
    }
    for (int i = 0; i < NP; i++) {
        size_t stv;
        vbuf_u8(out, s->P[i] ? 1 + area_of(s, pic_ptr(s->P[i], &stv)) * 0 : 0);
        if (s->P[i]) {
            const uint8_t *pp = pic_ptr(s->P[i], &stv);
            int ai = -1;
            int a0 = area_of(s, pp);
            uint8_t *base = a0 >= 0 ? s->cumem.live[a0].buf : NULL;
            for (int a = 0; a < na; a++)
                if (areas[a] == base)
                    ai = a;
            if (ai < 0) {
                ai = na;
                areas[na++] = base;
            }
            vbuf_u8(out, ai);
            vbuf_put(out, s->mp[i].b, PW * PH);
        }
        vbuf_u8(out, s->S[i] ? 1 : 0);
        if (s->S[i]) {
            int a0 = area_of(s, snd_ptr(s->S[i]));
            uint8_t *base = a0 >= 0 ? s->cumem.live[a0].buf : NULL;
            int ai = -1;
            for (int a = 0; a < na; a++)
                if (areas[a] == base)
                    ai = a;
            if (ai < 0) {
                ai = na;
                areas[na++] = base;
            }
            vbuf_u8(out, ai);
            vbuf_put(out, s->ms[i].b, SN);
        }
    }
    vbuf_u8(out, s->nwrites & 3);
    vbuf_u8(out, s->nallocs & 7);
}

static long long g_owner_checks;
static bool c02_nontrivial(void *p)
{
    /* a state in which some memory area is referenced by >= 2 segments/handles */
    struct st *s = p;
    for (int a = 0; a < s->cumem.nlive; a++)
        if (owners(s, a) >= 2)
            return true;
    return false;
}

static int c02_final(void *p)
{
    struct st *s = p;
    g_owner_checks += s->owners_checked;
    struct cumem_mgr *c = &s->cumem;
    /* teardown and allocator accounting */
    for (int i = 0; i < NB; i++)
        if (s->B[i])
            ubuf_free(s->B[i]);
    for (int i = 0; i < NP; i++) {
        if (s->P[i])
            ubuf_free(s->P[i]);
        if (s->S[i])
            ubuf_free(s->S[i]);
    }
    ubuf_mgr_vacuum(s->bmgr);
    ubuf_mgr_vacuum(s->pmgr);
    ubuf_mgr_vacuum(s->smgr);
    ubuf_mgr_release(s->bmgr);
    ubuf_mgr_release(s->pmgr);
    ubuf_mgr_release(s->smgr);
    int r = SEQX_OK;
    if (c->nlive != 0 || c->double_free || c->unknown_free || c->overrun) {
        snprintf(seqx_sig, sizeof(seqx_sig), "umem:accounting");
        snprintf(seqx_msg, sizeof(seqx_msg), "after freeing every handle: %d live areas, %d double frees, %d unknown frees, %d overruns (%s)",
                 c->nlive, c->double_free, c->unknown_free, c->overrun, c->err);
        r = SEQX_VIOL;
    }
    free(s);
    return r;
}

int main(int argc, char **argv)
{
    int depth = 3;
    for (int i = 1; i + 1 < argc; i++) {
        if (!strcmp(argv[i], "--prepend")) g_prepend = atoi(argv[i + 1]);
        else if (!strcmp(argv[i], "--append")) g_append = atoi(argv[i + 1]);
        else if (!strcmp(argv[i], "--align")) g_align = atoi(argv[i + 1]);
        else if (!strcmp(argv[i], "--pool")) g_pool = atoi(argv[i + 1]);
        else if (!strcmp(argv[i], "--faults")) g_faults = atoi(argv[i + 1]);
        else if (!strcmp(argv[i], "--depth")) depth = atoi(argv[i + 1]);
    }
    build_alphabet();
    for (int i = 1; i < argc; i++)
        if (!strcmp(argv[i], "--list")) {
            for (int k = 0; k < g_nops; k++) {
                char b[64];
                c02_opstr(k, b, sizeof(b));
                printf("%d %s\n", k, b);
            }
            return 0;
        }
    struct seqx_spec spec = {
        .name = "c02-cow",
        .nops = g_nops,
        .init = c02_init,
        .apply = c02_apply,
        .canon = c02_canon,
        .fini = c02_fini,
        .opstr = c02_opstr,
        .nontrivial = c02_nontrivial,
        .final_check = c02_final,
    };
    int r = seqx_main(&spec, argc, argv, depth);
    v_stat("alphabet", g_nops);
    v_stat("write_grants_checked", g_owner_checks);
    return r;
}
