/* C08 — event-driven waiting never loses a wake-up; the dealer grants
 * exclusively.
 *
 * uqueue: P producers and C consumers that sleep on the queue's (simulated)
 * event descriptors exactly like the in-tree users do (level-triggered
 * watchers: a producer whose push failed waits until event_push is readable
 * and retries; a consumer waits until event_pop is readable and pops once
 * (qsrc style) or until NULL (xfer style)).
 * udeal: N contenders following upipe's grab/yield protocol on a fake pump.
 *
 * vsched explores all interleavings with <= k preemptions at atomic-op and
 * descriptor read/write granularity (tier fine: + plain ring accesses and
 * the FIFO's own atomics; tier coarse: FIFO internals ignored, which C07
 * justifies, so deeper bounds are reachable).
 *
 * args: --mode uqueue|udeal --len L --prod P --cons C --elems E --style once|drain
 *       --gran fine|coarse --contenders N --rounds R --bound K
 */
#undef NDEBUG
#include "upipe/ubase.h"
#include "upipe/uatomic.h"
#include "upipe/uqueue.h"
#include "upipe/udeal.h"
#include "vcommon.h"
#include "vsched.h"
#include "simfd.h"

static int g_mode; /* 0 uqueue 1 udeal */
static int g_len = 1, g_P = 2, g_C = 1, g_E = 1, g_drain = 0, g_coarse = 0;
static int g_N = 2, g_rounds = 1;

static char g_err[300], g_errsig[96];
static void fail(const char *sig, const char *fmt, ...)
{
    if (g_err[0])
        return;
    va_list ap;
    va_start(ap, fmt);
    vsnprintf(g_err, sizeof(g_err), fmt, ap);
    va_end(ap);
    snprintf(g_errsig, sizeof(g_errsig), "%s", sig);
}

/* ---- uqueue ---- */
static struct uqueue g_q;
static uint8_t g_extra[1024];
static int g_pushed, g_popped, g_pops_inflight, g_total;
static int g_prod_holding[VS_MAXT]; /* producer t currently has an element it could not push */
static int g_seen[64];

static bool push_ready(void *arg)
{
    (void)arg;
    return simfd_readable(g_q.event_push.event_fd);
}
static bool pop_ready(void *arg)
{
    (void)arg;
    return simfd_readable(g_q.event_pop.event_fd) || g_popped == g_total;
}

static void producer(void *arg)
{
    int t = (int)(intptr_t)arg;
    for (int e = 0; e < g_E; e++) {
        void *elem = (void *)(uintptr_t)(1 + t * 8 + e);
        g_prod_holding[t] = 1;
        for (;;) {
            vs_point(VS_K_USER, NULL);
            if (uqueue_push(&g_q, elem))
                break;
            /* back to the event loop: the watcher on event_push is level-triggered */
            vs_mark_nontrivial();
            vs_wait(push_ready, NULL);
        }
        g_prod_holding[t] = 0;
        g_pushed++;
        if (g_pushed - g_popped > g_len + g_pops_inflight)
            fail("uqueue:over-capacity", "%d elements accepted and not yet popped in a queue of length %d", g_pushed - g_popped, g_len);
    }
}

static void consumer(void *arg)
{
    (void)arg;
    while (g_popped < g_total) {
        vs_wait(pop_ready, NULL);
        if (g_popped == g_total)
            break;
        do {
            vs_point(VS_K_USER, NULL);
            g_pops_inflight++;
            void *e = uqueue_pop(&g_q, void *);
            g_pops_inflight--;
            if (e == NULL) {
                vs_mark_nontrivial();
                break;
            }
            int id = (int)(uintptr_t)e;
            if (id <= 0 || id >= 64 || g_seen[id]++)
                fail("uqueue:duplicate-or-invented", "popped element %d (seen %d times)", id, id > 0 && id < 64 ? g_seen[id] : -1);
            g_popped++;
        } while (g_drain && g_popped < g_total);
    }
}

/* ---- udeal ---- */
static struct udeal g_deal;
struct fake_pump {
    struct upump upump;
    bool started;
    int t;
};
static struct fake_pump g_pumps[VS_MAXT];
static struct upump_mgr g_fake_mgr;
static int g_inside, g_done_rounds[VS_MAXT], g_entries;
static bool g_round_done[VS_MAXT];

static int fake_pump_control(struct upump *upump, int command, va_list args)
{
    (void)args;
    struct fake_pump *fp = (struct fake_pump *)upump;
    if (command == UPUMP_START)
        fp->started = true;
    else if (command == UPUMP_STOP)
        fp->started = false;
    return UBASE_ERR_NONE;
}

static void deal_cb(struct upump *upump)
{
    struct fake_pump *fp = (struct fake_pump *)upump;
    if (!udeal_grab(&g_deal)) {
        vs_mark_nontrivial();
        return; /* the loop calls us again when the event is readable */
    }
    if (++g_inside != 1)
        fail("udeal:two-holders", "%d holders inside the exclusive section", g_inside);
    g_entries++;
    vs_point(VS_K_USER, NULL); /* work inside the section */
    g_inside--;
    udeal_yield(&g_deal, upump);
    g_round_done[fp->t] = true;
}

static bool deal_ready(void *arg)
{
    struct fake_pump *fp = arg;
    return fp->started && simfd_readable(g_deal.event.event_fd);
}

static void contender(void *arg)
{
    int t = (int)(intptr_t)arg;
    struct fake_pump *fp = &g_pumps[t];
    for (int r = 0; r < g_rounds; r++) {
        g_round_done[t] = false;
        vs_point(VS_K_USER, NULL);
        udeal_start(&g_deal, &fp->upump);
        while (!g_round_done[t]) {
            vs_wait(deal_ready, fp);
            if (!g_round_done[t])
                fp->upump.cb(&fp->upump);
        }
        g_done_rounds[t]++;
    }
}

static void setup(void)
{
    g_err[0] = 0;
    simfd_reset();
    vs_ignore_reset();
    if (g_mode == 0) {
        memset(g_extra, 0, sizeof(g_extra));
        assert(uqueue_init(&g_q, g_len, g_extra));
        g_pushed = g_popped = g_pops_inflight = 0;
        g_total = g_P * g_E;
        memset(g_prod_holding, 0, sizeof(g_prod_holding));
        memset(g_seen, 0, sizeof(g_seen));
        if (g_coarse) {
            /* FIFO internals are not scheduling points in the coarse tier */
            vs_ignore_range(&g_q.fifo, sizeof(g_q.fifo));
            vs_ignore_range(g_extra, sizeof(g_extra));
        }
    } else {
        assert(udeal_init(&g_deal));
        g_fake_mgr.upump_control = fake_pump_control;
        g_inside = 0;
        g_entries = 0;
        for (int t = 0; t < g_N; t++) {
            memset(&g_pumps[t], 0, sizeof(g_pumps[t]));
            g_pumps[t].upump.mgr = &g_fake_mgr;
            g_pumps[t].upump.cb = deal_cb;
            g_pumps[t].t = t;
            g_done_rounds[t] = 0;
        }
    }
}

static void cfg_str(char *b, size_t n)
{
    if (g_mode == 0)
        snprintf(b, n, "uqueue:L=%d:P=%d:C=%d:E=%d:%s:%s", g_len, g_P, g_C, g_E, g_drain ? "drain" : "once", g_coarse ? "coarse" : "fine");
    else
        snprintf(b, n, "udeal:N=%d:R=%d", g_N, g_rounds);
}

static int check(int outcome, char *sig, char *msg)
{
    char cs[96];
    cfg_str(cs, sizeof(cs));
    if (outcome == VS_HORIZON)
        fail(g_mode ? "udeal:livelock-horizon" : "uqueue:livelock-horizon", "execution exceeded the horizon");
    if (outcome == VS_DEADLOCK) {
        if (g_mode == 0) {
            int holding = 0;
            for (int t = 0; t < g_P; t++)
                holding += g_prod_holding[t];
            int occ = g_pushed - g_popped;
            /* all unfinished threads sleep on a non-readable descriptor */
            if (holding > 0 && occ < g_len)
                fail("uqueue:lost-wakeup:producer-asleep-with-free-slot",
                     "deadlock: %d producer(s) asleep on event_push holding an element while the queue holds %d of %d (counter=%u, event_push=%llu, event_pop=%llu)",
                     holding, occ, g_len, uatomic_load(&g_q.counter), (unsigned long long)simfd_value(g_q.event_push.event_fd),
                     (unsigned long long)simfd_value(g_q.event_pop.event_fd));
            else if (occ > 0)
                fail("uqueue:lost-wakeup:consumer-asleep-with-element-queued",
                     "deadlock: consumer(s) asleep on event_pop while %d element(s) are queued (counter=%u, event_push=%llu, event_pop=%llu)", occ,
                     uatomic_load(&g_q.counter), (unsigned long long)simfd_value(g_q.event_push.event_fd),
                     (unsigned long long)simfd_value(g_q.event_pop.event_fd));
            else
                fail("uqueue:deadlock-other", "deadlock with %d pushed %d popped %d holding", g_pushed, g_popped, holding);
        } else {
            int waiting = 0;
            for (int t = 0; t < g_N; t++)
                waiting += g_done_rounds[t] < g_rounds;
            fail("udeal:lost-wakeup:waiter-asleep-nobody-inside",
                 "deadlock: %d contender(s) still waiting, nobody inside (waiters=%u access=%u event=%llu)", waiting,
                 uatomic_load(&g_deal.waiters), uatomic_load(&g_deal.access), (unsigned long long)simfd_value(g_deal.event.event_fd));
        }
    }
    if (outcome == VS_DONE && !g_err[0]) {
        if (g_mode == 0) {
            if (g_popped != g_total)
                fail("uqueue:lost-element", "%d of %d elements delivered", g_popped, g_total);
        } else if (g_entries != g_N * g_rounds)
            fail("udeal:entries", "%d entries for %d requests", g_entries, g_N * g_rounds);
    }
    if (g_err[0]) {
        snprintf(sig, 256, "%s", g_errsig);
        snprintf(msg, 1024, "config [%s]: %s", cs, g_err);
        return 1;
    }
    return 0;
}

static void teardown(void)
{
    if (g_mode == 0)
        uqueue_clean(&g_q);
    else
        udeal_clean(&g_deal);
}

static void outcome_str(char *b, size_t n)
{
    if (g_mode == 0)
        snprintf(b, n, "pushed=%d popped=%d counter=%u ep=%llu eo=%llu", g_pushed, g_popped, uatomic_load(&g_q.counter),
                 (unsigned long long)simfd_value(g_q.event_push.event_fd), (unsigned long long)simfd_value(g_q.event_pop.event_fd));
    else
        snprintf(b, n, "entries=%d ev=%llu", g_entries, (unsigned long long)simfd_value(g_deal.event.event_fd));
}

int main(int argc, char **argv)
{
    struct vs_options opt;
    vs_default_options(&opt);
    opt.horizon = 4000;
    vs_parse_args(&opt, argc, argv);
    for (int i = 1; i + 1 < argc; i++) {
        if (!strcmp(argv[i], "--mode")) g_mode = !strcmp(argv[i + 1], "udeal");
        else if (!strcmp(argv[i], "--len")) g_len = atoi(argv[i + 1]);
        else if (!strcmp(argv[i], "--prod")) g_P = atoi(argv[i + 1]);
        else if (!strcmp(argv[i], "--cons")) g_C = atoi(argv[i + 1]);
        else if (!strcmp(argv[i], "--elems")) g_E = atoi(argv[i + 1]);
        else if (!strcmp(argv[i], "--style")) g_drain = !strcmp(argv[i + 1], "drain");
        else if (!strcmp(argv[i], "--gran")) g_coarse = !strcmp(argv[i + 1], "coarse");
        else if (!strcmp(argv[i], "--contenders")) g_N = atoi(argv[i + 1]);
        else if (!strcmp(argv[i], "--rounds")) g_rounds = atoi(argv[i + 1]);
    }
    if (opt.replay && strchr(opt.replay, '@'))
        opt.replay = strchr(opt.replay, '@') + 1;
    setvbuf(stdout, NULL, _IOLBF, 0);
    v_crash_open();
    char cs[96];
    cfg_str(cs, sizeof(cs));
    struct vs_program prog = {.name = cs, .setup = setup, .check = check, .teardown = teardown, .outcome_str = outcome_str};
    if (g_mode == 0) {
        prog.nthreads = g_P + g_C;
        for (int t = 0; t < g_P; t++) {
            prog.fn[t] = producer;
            prog.arg[t] = (void *)(intptr_t)t;
        }
        for (int t = 0; t < g_C; t++)
            prog.fn[g_P + t] = consumer;
    } else {
        prog.nthreads = g_N;
        for (int t = 0; t < g_N; t++) {
            prog.fn[t] = contender;
            prog.arg[t] = (void *)(intptr_t)t;
        }
    }
    struct vs_stats st;
    memset(&st, 0, sizeof(st));
    vs_explore_iter(&prog, &opt, &st);
    if (opt.replay)
        return 0;
    v_stat("states", st.points);
    v_stat("transitions", st.points);
    v_stat("executions", st.executions);
    v_stat("nontrivial", st.nontrivial);
    v_stat("deadlocks", st.deadlocks);
    v_stat("violations", st.violations);
    v_stat("distinct_outcomes", st.distinct_outcomes);
    v_stat("min_bound_completed", st.bound_completed);
    if (st.capped)
        v_incomplete("c08 [%s]: deadline hit; preemption bound %d completed (requested %d)", cs, st.bound_completed, opt.bound);
    return 0;
}
