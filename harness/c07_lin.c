/* C07 — lock-free FIFO / LIFO / pool are linearizable under any interleaving.
 *
 * For every small client program (T threads x few ops, capacities 1..3,
 * prefilled 0..cap) vsched explores all interleavings with <= k preemptions
 * at the granularity of every uatomic op and every plain uring_elem access
 * (hooks in uatomic.h / uring.h). Each execution yields an invocation /
 * response history which is checked by brute force against the sequential
 * FIFO / LIFO specification; the pool is checked for exclusive holding and
 * conservation of objects.
 *
 * args: --struct fifo|lifo|pool --threads T --maxops N --maxcap C --bound K
 *       --prog-shard i/n  [--prog "<desc>" --replay <schedule>]
 */
#undef NDEBUG
#include "upipe/ubase.h"
#include "upipe/uatomic.h"
#include "upipe/urefcount.h"
#include "upipe/uring.h"
#include "upipe/ufifo.h"
#include "upipe/ulifo.h"
#include "upipe/upool.h"
#include "vcommon.h"
#include "vsched.h"

enum { S_FIFO, S_LIFO, S_POOL };
static int g_struct = S_FIFO;

#define MAXOPS 4
#define MAXH 24
struct prog {
    int T, cap, pre;
    int nops[VS_MAXT];
    char ops[VS_MAXT][MAXOPS + 1]; /* 'P' push / 'O' pop ; pool: 'A' alloc / 'F' free */
};
static struct prog g_p;

/* ---- shared object under test ---- */
static struct ufifo g_fifo;
static struct ulifo g_lifo;
static struct upool g_pool;
static struct urefcount g_pool_ref;
static uint8_t g_extra[1024];

/* ---- history ---- */
struct hop {
    int thread, kind; /* 'P','O' */
    uintptr_t arg, res; /* push: arg value, res 1/0 ; pop: res value or 0 */
    int inv, resp;
};
static struct hop g_h[MAXH];
static int g_nh, g_clock;
static bool g_overlap;
static int running_ops; /* ops currently between inv and resp */
static int g_finished;
static int g_drained[64], g_ndrained;

/* ---- pool bookkeeping ---- */
#define MAXOBJ 32
static int g_obj_created;
static int g_holder[MAXOBJ];     /* -1 free, else thread */
static int g_destroyed[MAXOBJ];  /* free_cb count */
static char g_pool_err[256];
static char g_pool_errsig[64];

static void pool_fail(const char *sig, const char *fmt, ...)
{
    if (g_pool_err[0])
        return;
    va_list ap;
    va_start(ap, fmt);
    vsnprintf(g_pool_err, sizeof(g_pool_err), fmt, ap);
    va_end(ap);
    snprintf(g_pool_errsig, sizeof(g_pool_errsig), "%s", sig);
}

static void *pool_alloc_cb(struct upool *p)
{
    (void)p;
    if (g_obj_created >= MAXOBJ - 1)
        return NULL;
    int id = ++g_obj_created; /* ids from 1 */
    g_holder[id] = -1;
    g_destroyed[id] = 0;
    return (void *)(uintptr_t)id;
}

static void pool_free_cb(struct upool *p, void *o)
{
    (void)p;
    int id = (int)(uintptr_t)o;
    if (id <= 0 || id > g_obj_created) {
        pool_fail("pool:free-unknown", "free_cb called with unknown object %d", id);
        return;
    }
    if (g_holder[id] != -1)
        pool_fail("pool:free-while-held", "object %d destroyed while held by thread %d", id, g_holder[id]);
    if (++g_destroyed[id] > 1)
        pool_fail("pool:double-destroy", "object %d destroyed %d times", id, g_destroyed[id]);
}

static void dummy_ref_cb(struct urefcount *r) { (void)r; }

static void setup(void)
{
    memset(g_extra, 0, sizeof(g_extra));
    g_nh = 0;
    g_clock = 0;
    g_overlap = false;
    running_ops = 0;
    g_finished = 0;
    g_ndrained = 0;
    if (g_struct == S_FIFO) {
        ufifo_init(&g_fifo, g_p.cap, g_extra);
        for (int i = 0; i < g_p.pre; i++)
            assert(ufifo_push(&g_fifo, (void *)(uintptr_t)(0x100 + i)));
    } else if (g_struct == S_LIFO) {
        ulifo_init(&g_lifo, g_p.cap, g_extra);
        for (int i = 0; i < g_p.pre; i++)
            assert(ulifo_push(&g_lifo, (void *)(uintptr_t)(0x100 + i)));
    } else {
        g_obj_created = 0;
        g_pool_err[0] = 0;
        urefcount_init(&g_pool_ref, dummy_ref_cb);
        upool_init(&g_pool, &g_pool_ref, g_p.cap, g_extra, pool_alloc_cb, pool_free_cb);
        /* prefill: allocate then free pre objects */
        void *o[8];
        for (int i = 0; i < g_p.pre; i++)
            o[i] = upool_alloc(&g_pool, void *);
        for (int i = 0; i < g_p.pre; i++)
            upool_free(&g_pool, o[i]);
    }
}


static struct hop *h_inv(int t, int kind, uintptr_t arg)
{
    struct hop *h = &g_h[g_nh++];
    h->thread = t;
    h->kind = kind;
    h->arg = arg;
    h->inv = ++g_clock;
    h->resp = 1 << 30;
    if (running_ops > 0) {
        g_overlap = true;
        vs_mark_nontrivial();
    }
    running_ops++;
    return h;
}
static void h_resp(struct hop *h, uintptr_t res)
{
    h->res = res;
    h->resp = ++g_clock;
    running_ops--;
}

static void thread_body(void *arg)
{
    int t = (int)(intptr_t)arg;
    int held[MAXOPS], nheld = 0;
    for (int i = 0; i < g_p.nops[t]; i++) {
        char op = g_p.ops[t][i];
        vs_point(VS_K_USER, NULL); /* invocation is a scheduling point */
        if (g_struct == S_POOL) {
            if (op == 'A') {
                void *o = upool_alloc(&g_pool, void *);
                int id = (int)(uintptr_t)o;
                vs_atomic_begin();
                if (id > 0) {
                    if (g_holder[id] != -1)
                        pool_fail("pool:two-holders", "object %d handed to thread %d while held by thread %d", id, t, g_holder[id]);
                    if (g_destroyed[id])
                        pool_fail("pool:alloc-destroyed", "object %d handed out after its destruction", id);
                    g_holder[id] = t;
                    held[nheld++] = id;
                }
                vs_atomic_end();
            } else if (nheld > 0) {
                int id = held[0];
                memmove(held, held + 1, sizeof(int) * --nheld);
                g_holder[id] = -1;
                upool_free(&g_pool, (void *)(uintptr_t)id);
            }
            continue;
        }
        if (op == 'P') {
            uintptr_t v = 0x10 + t * 4 + i;
            struct hop *h = h_inv(t, 'P', v);
            bool ok = g_struct == S_FIFO ? ufifo_push(&g_fifo, (void *)v) : ulifo_push(&g_lifo, (void *)v);
            h_resp(h, ok);
        } else {
            struct hop *h = h_inv(t, 'O', 0);
            void *v = g_struct == S_FIFO ? ufifo_pop(&g_fifo, void *) : ulifo_pop(&g_lifo, void *);
            h_resp(h, (uintptr_t)v);
        }
    }
    /* a thread leaving while holding pool objects keeps them (checked in conservation) */
    g_finished++;
}

static bool all_finished(void *arg)
{
    (void)arg;
    return g_finished == g_p.T;
}

/* last thread: once every client is done, drain the structure sequentially.
 * It runs under the scheduler so that a corrupted ring that makes pop spin
 * for ever is cut by the horizon instead of hanging the checker. */
static void drain_body(void *arg)
{
    (void)arg;
    vs_wait(all_finished, NULL);
    if (g_struct == S_POOL) {
        void *o;
        while ((o = ulifo_pop(&g_pool.lifo, void *)) != NULL && g_ndrained < MAXOBJ)
            g_drained[g_ndrained++] = (int)(uintptr_t)o;
        return;
    }
    for (;;) {
        struct hop *h = h_inv(-1, 'O', 0);
        void *v = g_struct == S_FIFO ? ufifo_pop(&g_fifo, void *) : ulifo_pop(&g_lifo, void *);
        h_resp(h, (uintptr_t)v);
        if (v == NULL || g_nh >= MAXH - 1)
            break;
    }
}

/* ---- brute-force linearizability ---- */
static int g_overlapcnt[MAXH];
static bool lin_search(unsigned done, uintptr_t *q, int qn)
{
    if (done == (1u << g_nh) - 1)
        return true;
    for (int i = 0; i < g_nh; i++) {
        if (done & (1u << i))
            continue;
        bool ready = true;
        for (int j = 0; j < g_nh; j++)
            if (!(done & (1u << j)) && j != i && g_h[j].resp < g_h[i].inv)
                ready = false;
        if (!ready)
            continue;
        struct hop *h = &g_h[i];
        uintptr_t q2[MAXH];
        int qn2 = qn;
        memcpy(q2, q, sizeof(uintptr_t) * qn);
        if (h->kind == 'P') {
            if (h->res) {
                if (qn >= g_p.cap)
                    continue;
                q2[qn2++] = h->arg;
            } else {
                /* refusal: every slot taken by an element or an operation in progress */
                if (qn + g_overlapcnt[i] < g_p.cap)
                    continue;
            }
        } else {
            if (h->res == 0) {
                if (qn != 0)
                    continue;
            } else {
                if (qn == 0)
                    continue;
                if (g_struct == S_FIFO) {
                    if (q2[0] != h->res)
                        continue;
                    memmove(q2, q2 + 1, sizeof(uintptr_t) * --qn2);
                } else {
                    if (q2[qn2 - 1] != h->res)
                        continue;
                    qn2--;
                }
            }
        }
        if (lin_search(done | (1u << i), q2, qn2))
            return true;
    }
    return false;
}

static void hist_str(char *b, size_t n)
{
    size_t o = 0;
    b[0] = 0;
    for (int i = 0; i < g_nh && o + 48 < n; i++) {
        struct hop *h = &g_h[i];
        if (h->kind == 'P')
            o += snprintf(b + o, n - o, "T%d:push(%lx)=%s[%d,%d] ", h->thread, (long)h->arg, h->res ? "ok" : "full", h->inv, h->resp);
        else
            o += snprintf(b + o, n - o, "T%d:pop=%lx[%d,%d] ", h->thread, (long)h->res, h->inv, h->resp);
    }
}

static void prog_str(char *b, size_t n)
{
    size_t o = snprintf(b, n, "%s:cap=%d:pre=%d", g_struct == S_FIFO ? "fifo" : g_struct == S_LIFO ? "lifo" : "pool", g_p.cap, g_p.pre);
    for (int t = 0; t < g_p.T; t++)
        o += snprintf(b + o, n - o, ":%s", g_p.ops[t]);
}

static int check(int outcome, char *sig, char *msg)
{
    const char *sn = g_struct == S_FIFO ? "fifo" : g_struct == S_LIFO ? "lifo" : "pool";
    char ps[128];
    prog_str(ps, sizeof(ps));
    running_ops = 0;
    if (outcome != VS_DONE) {
        char hs[800];
        hist_str(hs, sizeof(hs));
        snprintf(sig, 256, "%s:%s", sn, outcome == VS_DEADLOCK ? "deadlock" : "spins-forever");
        snprintf(msg, 1024, "program [%s]: %s; history so far: %s", ps,
                 outcome == VS_DEADLOCK ? "deadlock" : "an operation never returns although no other thread is running (ring corrupted)", hs);
        return 1;
    }
    if (g_struct == S_POOL) {
        /* conservation: vacuum the pool sequentially */
        int inpool[MAXOBJ] = {0};
        for (int k = 0; k < g_ndrained; k++) {
            int id = g_drained[k];
            if (id <= 0 || id > g_obj_created)
                pool_fail("pool:invented", "pool contains unknown object %d", id);
            else if (++inpool[id] > 1)
                pool_fail("pool:duplicated", "object %d is in the pool twice", id);
        }
        for (int id = 1; id <= g_obj_created; id++) {
            int where = (g_holder[id] != -1) + inpool[id] + g_destroyed[id];
            if (where != 1)
                pool_fail("pool:conservation", "object %d: held=%d in-pool=%d destroyed=%d (must be exactly one)", id,
                          g_holder[id] != -1, inpool[id], g_destroyed[id]);
        }
        if (g_pool_err[0]) {
            snprintf(sig, 256, "%s", g_pool_errsig);
            snprintf(msg, 1024, "program [%s]: %s", ps, g_pool_err);
            return 1;
        }
        return 0;
    }
    for (int i = 0; i < g_nh; i++) {
        g_overlapcnt[i] = 0;
        for (int j = 0; j < g_nh; j++)
            if (j != i && g_h[j].inv < g_h[i].resp && g_h[i].inv < g_h[j].resp)
                g_overlapcnt[i]++;
    }
    uintptr_t q[MAXH];
    int qn = 0;
    for (int i = 0; i < g_p.pre; i++)
        q[qn++] = 0x100 + i;
    if (!lin_search(0, q, qn)) {
        char hs[900];
        hist_str(hs, sizeof(hs));
        snprintf(sig, 256, "%s:not-linearizable", sn);
        snprintf(msg, 1024, "program [%s]: no linearization of history %s", ps, hs);
        return 1;
    }
    return 0;
}

static void outcome_str(char *b, size_t n)
{
    if (g_struct == S_POOL) {
        size_t o = 0;
        b[0] = 0;
        for (int id = 1; id <= g_obj_created; id++)
            o += snprintf(b + o, n - o, "%d:h%d,d%d ", id, g_holder[id], g_destroyed[id]);
        return;
    }
    size_t o = 0;
    b[0] = 0;
    for (int t = 0; t < g_p.T; t++)
        for (int i = 0; i < g_nh && o + 24 < n; i++)
            if (g_h[i].thread == t)
                o += snprintf(b + o, n - o, "%d%c%lx ", t, g_h[i].kind, (long)g_h[i].res);
}

/* ---- program enumeration ---- */
static int gen_seqs(char seqs[][MAXOPS + 1], int maxops)
{
    int n = 0;
    const char *alpha = g_struct == S_POOL ? "AF" : "PO";
    for (int len = 1; len <= maxops; len++)
        for (int code = 0; code < (1 << len); code++) {
            char s[MAXOPS + 1];
            int bal = 0;
            bool okp = true;
            for (int i = 0; i < len; i++) {
                s[i] = alpha[(code >> i) & 1];
                if (g_struct == S_POOL) {
                    bal += s[i] == 'A' ? 1 : -1;
                    if (bal < 0)
                        okp = false;
                }
            }
            s[len] = 0;
            if (okp)
                strcpy(seqs[n++], s);
        }
    return n;
}

int main(int argc, char **argv)
{
    int T = 2, maxops = 2, maxcap = 2, pshard = 0, pnshards = 1;
    int maxtotal = 1000, bigbound = -1; /* programs with more than maxtotal operations are explored with bound bigbound */
    const char *only = NULL;
    struct vs_options opt;
    vs_default_options(&opt);
    opt.horizon = 3000;
    vs_parse_args(&opt, argc, argv);
    for (int i = 1; i + 1 < argc; i++) {
        if (!strcmp(argv[i], "--struct"))
            g_struct = !strcmp(argv[i + 1], "fifo") ? S_FIFO : !strcmp(argv[i + 1], "lifo") ? S_LIFO : S_POOL;
        else if (!strcmp(argv[i], "--threads")) T = atoi(argv[i + 1]);
        else if (!strcmp(argv[i], "--maxops")) maxops = atoi(argv[i + 1]);
        else if (!strcmp(argv[i], "--maxcap")) maxcap = atoi(argv[i + 1]);
        else if (!strcmp(argv[i], "--prog-shard")) sscanf(argv[i + 1], "%d/%d", &pshard, &pnshards);
        else if (!strcmp(argv[i], "--prog")) only = argv[i + 1];
        else if (!strcmp(argv[i], "--maxtotal")) maxtotal = atoi(argv[i + 1]);
        else if (!strcmp(argv[i], "--bigbound")) bigbound = atoi(argv[i + 1]);
    }
    static char onlybuf[256];
    if (opt.replay && strchr(opt.replay, '@')) {
        snprintf(onlybuf, sizeof(onlybuf), "%.*s", (int)(strchr(opt.replay, '@') - opt.replay), opt.replay);
        only = onlybuf;
        opt.replay = strchr(opt.replay, '@') + 1;
    }
    setvbuf(stdout, NULL, _IOLBF, 0);
    v_crash_open();
    char seqs[64][MAXOPS + 1];
    int ns = gen_seqs(seqs, maxops);
    struct vs_program prog = {.name = "c07", .nthreads = T + 1, .setup = setup, .check = check, .outcome_str = outcome_str};
    for (int t = 0; t < T; t++) {
        prog.fn[t] = thread_body;
        prog.arg[t] = (void *)(intptr_t)t;
    }
    prog.fn[T] = drain_body;
    long long tot_exec = 0, tot_points = 0, tot_nontriv = 0, progs = 0, progs_multi = 0, viols = 0, capped = 0;
    int min_bound = 99;
    double t0 = v_now();
    int idx[VS_MAXT] = {0};
    long long pi = 0;
    /* enumerate non-decreasing tuples of sequences (thread symmetry) */
    for (;;) {
        for (int cap = (g_struct == S_POOL ? 0 : 1); cap <= maxcap; cap++)
            for (int pre = 0; pre <= cap; pre++) {
                memset(&g_p, 0, sizeof(g_p));
                g_p.T = T;
                g_p.cap = cap;
                g_p.pre = pre;
                for (int t = 0; t < T; t++) {
                    strcpy(g_p.ops[t], seqs[idx[t]]);
                    g_p.nops[t] = strlen(seqs[idx[t]]);
                }
                char ps[128];
                prog_str(ps, sizeof(ps));
                if (only && strcmp(only, ps))
                    continue;
                if (!only && (pi++ % pnshards) != pshard)
                    continue;
                v_crash_note(ps);
                struct vs_stats st;
                memset(&st, 0, sizeof(st));
                struct vs_options o = opt;
                int total = 0;
                for (int t = 0; t < T; t++)
                    total += g_p.nops[t];
                if (total > maxtotal && bigbound >= 0 && !opt.replay)
                    o.bound = bigbound;
                o.deadline_s = opt.deadline_s - (v_now() - t0);
                if (o.deadline_s < 0.5 && !opt.replay) {
                    capped++;
                    continue;
                }
                prog.name = ps;
                vs_explore_iter(&prog, &o, &st);
                if (opt.replay)
                    return 0;
                progs++;
                tot_exec += st.executions;
                tot_points += st.points;
                tot_nontriv += st.nontrivial;
                viols += st.violations;
                if (st.distinct_outcomes > 1)
                    progs_multi++;
                if (st.capped)
                    capped++;
                if (st.bound_completed < min_bound && !(total > maxtotal && bigbound >= 0))
                    min_bound = st.bound_completed;
            }
        int k = T - 1;
        while (k >= 0 && idx[k] == ns - 1)
            k--;
        if (k < 0)
            break;
        idx[k]++;
        for (int j = k + 1; j < T; j++)
            idx[j] = idx[k];
    }
    v_stat("states", tot_points);       /* scheduling points visited */
    v_stat("transitions", tot_points);
    v_stat("executions", tot_exec);
    v_stat("nontrivial", tot_nontriv);
    v_stat("programs", progs);
    v_stat("programs_with_several_outcomes", progs_multi);
    v_stat("violations", viols);
    v_stat("min_bound_completed", progs ? min_bound : 0);
    if (capped)
        v_incomplete("c07 %s T=%d: deadline hit, %lld programs not completed at the requested bound", argv[0], T, capped);
    return 0;
}
