/* C03 — segmented block buffers behave as byte strings.
 *
 * seqx BFS over block mutators on one block ("main") plus one operand slot.
 * Logical content is observed by walking the public segment chain directly
 * (never through an accessor, since accessors move the offset cache which is
 * part of the state). Every mutator result is compared with a byte-vector
 * model; on every new distinct state the full accessor sweep is run at all
 * (offset,size) pairs, including negative and out-of-range ones.
 *
 * args: --prepend P --append A --align L --pool D --n0 N --maxn N --depth D
 */
#undef NDEBUG
#include "upipe/ubase.h"
#include "upipe/umem.h"
#include "upipe/umem_alloc.h"
#include "upipe/ubuf.h"
#include "upipe/ubuf_block.h"
#include "upipe/ubuf_block_mem.h"
#include "seqx.h"

#define MAXN 16
static int g_prepend = 0, g_append = 0, g_align = 0, g_pool = 0, g_n0 = 3;
static int g_maxn = 5, g_maxseg = 4;
static int g_R; /* offset range: [-g_R, g_R] */
static int g_fill_repeat;

struct model {
    int n;
    uint8_t b[MAXN];
};

struct st {
    struct umem_mgr *umem;
    struct ubuf_mgr *mgr;
    struct ubuf *main, *opnd;
    struct model mm, mo;
    int area_seq;
    long sweeps;
};

/* ---- direct observation of a block through its public fields ---- */
static int walk(struct ubuf *u, uint8_t *out, int max, int *nseg)
{
    int n = 0, segs = 0;
    while (u != NULL) {
        struct ubuf_block *b = ubuf_block_from_ubuf(u);
        for (size_t i = 0; i < b->size; i++) {
            if (n >= max)
                return -1;
            out[n++] = b->buffer[b->offset + i];
        }
        segs++;
        if (segs > 64)
            return -1;
        u = b->next_ubuf;
    }
    if (nseg)
        *nseg = segs;
    return n;
}

/* environment deviation (--faults N): "the k-th next memory request is refused". umem_alloc.c, ubuf_block_mem.c and
 * ubuf_mem_common.c are compiled with -Dmalloc=vf_malloc for this harness, so buffer areas and the buffer / shared-area
 * descriptors all count. An operation that fails because of a refusal must leave the block exactly as it was. */
static int g_faults, vf_fail_in, vf_faults, g_faults_armed;
void *vf_malloc(size_t n);
void *vf_malloc(size_t n)
{
    if (vf_fail_in > 0 && --vf_fail_in == 0) {
        vf_faults++;
        return NULL;
    }
    return (malloc)(n);
}

static struct ubuf *blk_alloc(struct st *s, int size)
{
    int armed = vf_fail_in; /* the harness's own operands are not part of the fault space */
    vf_fail_in = 0;
    struct ubuf *u = ubuf_block_alloc(s->mgr, size);
    vf_fail_in = armed;
    if (u == NULL)
        return NULL;
    struct ubuf_block *b = ubuf_block_from_ubuf(u);
    /* fill the whole area (margins included) with position-coded bytes */
    int prepend = g_prepend >= 0 ? g_prepend : 32;
    int append = g_append >= 0 ? g_append : 0;
    int align = g_align > 0 ? g_align : 0;
    int total = size + prepend + append + align;
    s->area_seq++;
    for (int k = 0; k < total; k++)
        b->buffer[k] = g_fill_repeat ? (uint8_t)(((k - (int)b->offset + 64 + s->area_seq) % 4) == 3)
                                     : (uint8_t)(s->area_seq * 37 + (k - (int)b->offset) * 5 + 1);
    return u;
}

static void *c03_init(void)
{
    struct st *s = calloc(1, sizeof(*s));
    vf_fail_in = vf_faults = g_faults_armed = 0;
    s->umem = umem_alloc_mgr_alloc();
    s->mgr = ubuf_block_mem_mgr_alloc(g_pool, g_pool, s->umem, g_prepend, g_append, g_align, 0);
    s->main = blk_alloc(s, g_n0);
    assert(s->main);
    s->mm.n = walk(s->main, s->mm.b, MAXN, NULL);
    assert(s->mm.n == g_n0);
    return s;
}

static void c03_fini(void *p)
{
    struct st *s = p;
    if (s->main)
        ubuf_free(s->main);
    if (s->opnd)
        ubuf_free(s->opnd);
    ubuf_mgr_release(s->mgr);
    umem_mgr_release(s->umem);
    free(s);
}

/* ---- alphabet ---- */
enum kind { K_TOUCH, K_APPEND, K_INSERT, K_DELETE, K_TRUNCATE, K_RESIZE, K_PREPEND,
            K_SPLICE, K_SPLIT, K_COPY, K_MERGE, K_DUP, K_FREEOP, K_APPENDOP, K_INSERTOP, K_FAULT, K_NKINDS };
static const char *kname[] = {"touch", "append", "insert", "delete", "truncate", "resize", "prepend",
                              "splice", "split", "copy", "merge", "dup", "free_opnd", "append_opnd", "insert_opnd", "refuse_memory_request"};
struct op {
    int kind, o, s;
};
static struct op g_ops[2048];
static int g_nops;
static int g_sizes[16], g_nsizes;

static void add_op(int k, int o, int s)
{
    g_ops[g_nops++] = (struct op){k, o, s};
}

static void build_alphabet(void)
{
    g_R = g_maxn + 1;
    g_nsizes = 0;
    g_sizes[g_nsizes++] = -1;
    for (int v = 0; v <= 3 && v <= g_maxn; v++)
        g_sizes[g_nsizes++] = v;
    g_sizes[g_nsizes++] = g_maxn + 1;
    /* simplest first */
    for (int o = 0; o <= g_R; o++)
        add_op(K_TOUCH, o, 0);
    add_op(K_APPEND, 0, 1);
    add_op(K_APPEND, 0, 2);
    for (int p = 1; p <= 3; p++)
        add_op(K_PREPEND, p, 0);
    add_op(K_DUP, 0, 0);
    add_op(K_FREEOP, 0, 0);
    add_op(K_APPENDOP, 0, 0);
    for (int o = 0; o <= g_R; o++)
        add_op(K_TRUNCATE, o, 0);
    for (int o = 0; o <= g_R; o++)
        add_op(K_INSERT, o, 1);
    for (int o = 0; o <= g_R; o++)
        add_op(K_INSERTOP, o, 0);
    for (int o = -g_R; o <= g_R; o++)
        add_op(K_SPLIT, o, 0);
    for (int o = 0; o <= g_R; o++)
        for (int i = 0; i < g_nsizes; i++)
            add_op(K_DELETE, o, g_sizes[i]);
    for (int o = -g_R; o <= g_R; o++)
        for (int i = 0; i < g_nsizes; i++) {
            add_op(K_RESIZE, o, g_sizes[i]);
            add_op(K_SPLICE, o, g_sizes[i]);
        }
    for (int o = -2; o <= g_R; o++)
        for (int i = 0; i < g_nsizes; i++) {
            add_op(K_COPY, o, g_sizes[i]);
            add_op(K_MERGE, o, g_sizes[i]);
        }
    if (g_faults) {
        add_op(K_FAULT, 1, 0);
        add_op(K_FAULT, 2, 0);
    }
}

static void c03_opstr(int op, char *b, size_t n)
{
    struct op *o = &g_ops[op];
    snprintf(b, n, "%s(%d,%d)", kname[o->kind], o->o, o->s);
}

/* ---- accessor sweep on one block against a model ---- */
static int sweep_fail(const char *what, int o, int s, const char *fmt, ...)
{
    va_list ap;
    va_start(ap, fmt);
    snprintf(seqx_sig, sizeof(seqx_sig), "accessor:%s", what);
    int k = snprintf(seqx_msg, sizeof(seqx_msg), "%s(offset=%d,size=%d): ", what, o, s);
    vsnprintf(seqx_msg + k, sizeof(seqx_msg) - k, fmt, ap);
    va_end(ap);
    return SEQX_VIOL;
}

static struct ubuf *mk_small(struct st *s, const uint8_t *d, int n, int cut)
{
    struct ubuf *u = ubuf_block_alloc(s->mgr, cut > 0 && cut < n ? cut : n);
    assert(u);
    struct ubuf_block *b = ubuf_block_from_ubuf(u);
    memcpy(b->buffer + b->offset, d, b->size);
    if (cut > 0 && cut < n) {
        struct ubuf *v = ubuf_block_alloc(s->mgr, n - cut);
        assert(v);
        struct ubuf_block *vb = ubuf_block_from_ubuf(v);
        memcpy(vb->buffer + vb->offset, d + cut, n - cut);
        ubase_assert(ubuf_block_append(u, v));
    }
    return u;
}

static int sweep(struct st *st, struct ubuf *u, const struct model *m)
{
    int n = m->n;
    size_t sz;
    if (!ubase_check(ubuf_block_size(u, &sz)) || (int)sz != n)
        return sweep_fail("size", 0, 0, "reports %zu, byte string has %d", sz, n);
    for (int o = -n - 2; o <= n + 2; o++) {
        int on = o < 0 ? o + n : o;
        /* size_linear */
        size_t lin = 0;
        int err = ubuf_block_size_linear(u, o, &lin);
        if (on >= 0 && on < n) {
            if (!ubase_check(err) || lin < 1 || (int)lin > n - on)
                return sweep_fail("size_linear", o, 0, "err=%d linear=%zu but %d bytes remain", err, lin, n - on);
        } else if (ubase_check(err))
            return sweep_fail("size_linear", o, 0, "accepted an offset outside [0,%d)", n);

        for (int s = -1; s <= n + 2; s++) {
            int sn = s == -1 ? n - on : s;
            bool inrange = on >= 0 && sn >= 0 && on + sn <= n;
            uint8_t buf[MAXN + 8], scratch[MAXN + 8];
            /* read */
            {
                int rs = s;
                const uint8_t *rp = NULL;
                err = ubuf_block_read(u, o, &rs, &rp);
                if (on >= 0 && on < n && (s != 0)) {
                    if (!ubase_check(err))
                        return sweep_fail("read", o, s, "refused although offset is inside the block (n=%d)", n);
                    if (rs < 1 || rs > n - on || (s > 0 && rs > s))
                        return sweep_fail("read", o, s, "returned size %d (n=%d)", rs, n);
                    if (memcmp(rp, m->b + on, rs))
                        return sweep_fail("read", o, s, "bytes differ from the byte string at %d", on);
                    if (!ubase_check(ubuf_block_unmap(u, o)))
                        return sweep_fail("unmap", o, s, "unmap failed after a successful read");
                } else if (ubase_check(err)) {
                    if (on < 0 || on >= n)
                        return sweep_fail("read", o, s, "accepted an offset outside [0,%d)", n);
                    ubuf_block_unmap(u, o);
                }
            }
            if (sn <= 0 && !(inrange && sn == 0))
                continue; /* negative implied size: nothing the docs define */
            if (sn == 0)
                continue;
            /* extract */
            memset(buf, 0xEE, sizeof(buf));
            err = ubuf_block_extract(u, o, s, buf);
            if (inrange) {
                if (!ubase_check(err))
                    return sweep_fail("extract", o, s, "failed on an in-range request (n=%d)", n);
                if (memcmp(buf, m->b + on, sn))
                    return sweep_fail("extract", o, s, "bytes differ from the byte string");
                if (buf[sn] != 0xEE)
                    return sweep_fail("extract", o, s, "wrote past the requested size");
            } else if (ubase_check(err))
                return sweep_fail("extract", o, s, "succeeded on an out-of-range request (n=%d)", n);
            /* peek */
            const uint8_t *pp = ubuf_block_peek(u, o, s, scratch);
            if (inrange) {
                if (pp == NULL)
                    return sweep_fail("peek", o, s, "NULL on an in-range request (n=%d)", n);
                if (memcmp(pp, m->b + on, sn))
                    return sweep_fail("peek", o, s, "bytes differ from the byte string");
                if (!ubase_check(ubuf_block_peek_unmap(u, o, scratch, pp)))
                    return sweep_fail("peek_unmap", o, s, "failed");
            } else if (pp != NULL)
                return sweep_fail("peek", o, s, "returned bytes for an out-of-range request (n=%d)", n);
            /* iovec */
            int cnt = ubuf_block_iovec_count(u, o, s);
            if (inrange) {
                struct iovec iov[16];
                if (cnt < 1 || cnt > 16)
                    return sweep_fail("iovec_count", o, s, "returned %d", cnt);
                if (!ubase_check(ubuf_block_iovec_read(u, o, s, iov)))
                    return sweep_fail("iovec_read", o, s, "failed on an in-range request");
                int k = 0;
                for (int i = 0; i < cnt; i++) {
                    if (k + (int)iov[i].iov_len > sn || memcmp(iov[i].iov_base, m->b + on + k, iov[i].iov_len))
                        return sweep_fail("iovec_read", o, s, "vector %d differs from the byte string", i);
                    k += iov[i].iov_len;
                }
                if (k != sn)
                    return sweep_fail("iovec_read", o, s, "vectors cover %d of %d bytes", k, sn);
                if (!ubase_check(ubuf_block_iovec_unmap(u, o, s, iov)))
                    return sweep_fail("iovec_unmap", o, s, "failed");
            } else if (cnt >= 0)
                return sweep_fail("iovec_count", o, s, "returned %d for an out-of-range request (n=%d)", cnt, n);
        }
    }
    /* scan / find */
    for (int start = 0; start <= n + 1; start++) {
        for (int bi = 0; bi <= n; bi++) {
            uint8_t byte = 0;
            if (bi < n)
                byte = m->b[bi];
            else
                for (int v = 255; v > 0; v--) { /* a value that does not occur */
                    bool used = false;
                    for (int i = 0; i < n; i++)
                        used |= m->b[i] == v;
                    if (!used) {
                        byte = v;
                        break;
                    }
                }
            int want = -1;
            for (int i = start; i < n; i++)
                if (m->b[i] == byte) {
                    want = i;
                    break;
                }
            size_t off = start;
            int err = ubuf_block_scan(u, &off, byte);
            if (want >= 0) {
                if (!ubase_check(err) || (int)off != want)
                    return sweep_fail("scan", start, byte, "err=%d offset=%zu, first occurrence is at %d", err, off, want);
            } else {
                if (ubase_check(err))
                    return sweep_fail("scan", start, byte, "found at %zu a byte that does not occur", off);
                if (start <= n && (int)off != n)
                    return sweep_fail("scan", start, byte, "not found: offset left at %zu, total size is %d", off, n);
            }
            /* words of 3 and 4 octets taken from the content (and a perturbed
             * copy): with a repeating fill these have self-overlapping prefixes */
            for (int len = 3; len <= 4 && bi < n; len++) {
                for (int pert = 0; pert < 2; pert++) {
                    unsigned int w[4];
                    for (int k = 0; k < len; k++)
                        w[k] = bi + k < n ? m->b[bi + k] : m->b[(bi + k) % n];
                    if (pert)
                        w[len - 1] ^= 1;
                    int want2 = -1;
                    for (int i = start; i + len <= n; i++) {
                        bool eq = true;
                        for (int k = 0; k < len; k++)
                            eq &= m->b[i + k] == w[k];
                        if (eq) {
                            want2 = i;
                            break;
                        }
                    }
                    size_t off2 = start;
                    int err2 = len == 3 ? ubuf_block_find(u, &off2, 3, w[0], w[1], w[2])
                                        : ubuf_block_find(u, &off2, 4, w[0], w[1], w[2], w[3]);
                    if (want2 >= 0) {
                        if (!ubase_check(err2) || (int)off2 != want2)
                            return sweep_fail("find", start, len, "%d-octet word %02x %02x %02x..: err=%d offset=%zu, word is at %d",
                                              len, w[0], w[1], w[2], err2, off2, want2);
                    } else if (ubase_check(err2))
                        return sweep_fail("find", start, len, "found at %zu a %d-octet word that does not occur", off2, len);
                }
            }
            if (bi + 1 < n) {
                /* two-octet word */
                uint8_t b2 = m->b[bi + 1];
                want = -1;
                for (int i = start; i + 1 < n; i++)
                    if (m->b[i] == byte && m->b[i + 1] == b2) {
                        want = i;
                        break;
                    }
                off = start;
                err = ubuf_block_find(u, &off, 2, byte, b2);
                if (want >= 0) {
                    if (!ubase_check(err) || (int)off != want)
                        return sweep_fail("find", start, byte, "err=%d offset=%zu, word is at %d", err, off, want);
                } else if (ubase_check(err))
                    return sweep_fail("find", start, byte, "found at %zu a word that does not occur", off);
            }
        }
    }
    /* compare / equal / match */
    for (int a = 0; a < n; a++) {
        for (int len = 1; len <= 3 && a + len <= n; len++) {
            for (int cut = 0; cut < len; cut++) {
                struct ubuf *small = mk_small(st, m->b + a, len, cut);
                for (int o = 0; o <= n; o++) {
                    bool want = o + len <= n && !memcmp(m->b + o, m->b + a, len);
                    int err = ubuf_block_compare(u, o, small);
                    if (want != ubase_check(err)) {
                        ubuf_free(small);
                        return sweep_fail("compare", o, len, "returned %d, byte strings %s", err, want ? "match" : "differ");
                    }
                }
                bool weq = (a == 0 && len == n);
                if (weq != ubase_check(ubuf_block_equal(u, small))) {
                    ubuf_free(small);
                    return sweep_fail("equal", a, len, "wrong verdict (expected %d)", weq);
                }
                ubuf_free(small);
            }
        }
    }
    for (int len = 1; len <= n + 1 && len <= MAXN; len++) {
        static const uint8_t masks[] = {0xff, 0x0f, 0x00};
        for (unsigned mi = 0; mi < 3; mi++) {
            for (int flip = -1; flip < len; flip++) {
                uint8_t filter[MAXN + 1], mask[MAXN + 1];
                for (int i = 0; i < len; i++) {
                    mask[i] = masks[(mi + i) % 3];
                    filter[i] = (i < n ? m->b[i] : 0) & mask[i];
                }
                bool want = len <= n;
                if (flip >= 0) {
                    if (mask[flip] == 0)
                        continue;
                    filter[flip] ^= 1;
                    want = false;
                }
                int err = ubuf_block_match(u, filter, mask, len);
                if (want != ubase_check(err))
                    return sweep_fail("match", len, flip, "returned %d expected %s", err, want ? "match" : "no match");
            }
        }
    }
    /* accessors must not have changed size or content */
    uint8_t now[MAXN];
    int nn = walk(u, now, MAXN, NULL);
    if (nn != n || memcmp(now, m->b, n))
        return sweep_fail("sweep", 0, 0, "an accessor modified the block");
    return SEQX_OK;
}

/* ---- apply ---- */
#define LENIENT 2
static int norm(int o, int n) { return o < 0 ? o + n : o; }

static int c03_apply(void *p, int opi, bool check)
{
    struct st *s = p;
    struct op *op = &g_ops[opi];
    struct model *m = &s->mm;
    int n = m->n;
    int o = op->o, sz = op->s;
    uint8_t before[MAXN], after[MAXN];
    int nb = walk(s->main, before, MAXN, NULL);
    assert(nb == n && !memcmp(before, m->b, n));
    struct model want = *m;       /* expected main after success */
    struct model wanto = s->mo;   /* expected operand after success */
    int must = LENIENT;           /* 1: must succeed, 0: must fail, 2: either */
    bool ok = false;
    bool opnd_created = false, opnd_consumed = false;
    int adopt_from = -1, adopt_to = -1; /* model positions whose value is adopted from memory */
    char sig[160];

    int faults0 = vf_faults;
    switch (op->kind) {
    case K_FAULT:
        if (g_faults_armed >= g_faults || vf_fail_in != 0)
            return SEQX_DISABLED;
        vf_fail_in = op->o;
        g_faults_armed++;
        return SEQX_OK;
    case K_TOUCH: {
        size_t lin;
        ubuf_block_size_linear(s->main, o, &lin);
        ok = true;
        must = LENIENT;
        break;
    }
    case K_APPEND: {
        if (n + sz > g_maxn)
            return SEQX_DISABLED;
        struct ubuf *a = blk_alloc(s, sz);
        walk(a, want.b + n, sz, NULL);
        want.n = n + sz;
        must = 1;
        ok = ubase_check(ubuf_block_append(s->main, a));
        if (!ok)
            ubuf_free(a);
        break;
    }
    case K_INSERT: {
        if (n + sz > g_maxn)
            return SEQX_DISABLED;
        struct ubuf *a = blk_alloc(s, sz);
        uint8_t nb2[4];
        walk(a, nb2, sz, NULL);
        if (o < n) {
            memmove(want.b + o + sz, want.b + o, n - o);
            memcpy(want.b + o, nb2, sz);
            want.n = n + sz;
            must = 1;
        } else if (o == n) {
            memcpy(want.b + n, nb2, sz);
            want.n = n + sz;
            must = LENIENT;
        } else
            must = 0;
        ok = ubase_check(ubuf_block_insert(s->main, o, a));
        if (!ok)
            ubuf_free(a);
        break;
    }
    case K_INSERTOP: {
        if (s->opnd == NULL || n + s->mo.n > g_maxn)
            return SEQX_DISABLED;
        int k = s->mo.n;
        if (o <= n) {
            memmove(want.b + o + k, want.b + o, n - o);
            memcpy(want.b + o, s->mo.b, k);
            want.n = n + k;
            must = o < n ? 1 : LENIENT;
        } else
            must = 0;
        ok = ubase_check(ubuf_block_insert(s->main, o, s->opnd));
        if (ok)
            opnd_consumed = true;
        break;
    }
    case K_APPENDOP: {
        if (s->opnd == NULL || n + s->mo.n > g_maxn)
            return SEQX_DISABLED;
        memcpy(want.b + n, s->mo.b, s->mo.n);
        want.n = n + s->mo.n;
        must = 1;
        ok = ubase_check(ubuf_block_append(s->main, s->opnd));
        if (ok)
            opnd_consumed = true;
        break;
    }
    case K_DELETE: {
        int sn = sz == -1 ? n - o : sz;
        if (o <= n && sn >= 0 && o + sn <= n) {
            memmove(want.b + o, want.b + o + sn, n - o - sn);
            want.n = n - sn;
            must = o < n ? 1 : LENIENT;
        } else
            must = 0;
        ok = ubase_check(ubuf_block_delete(s->main, o, sz));
        break;
    }
    case K_TRUNCATE: {
        if (o <= n) {
            want.n = o;
            must = 1;
        } else
            must = 0;
        ok = ubase_check(ubuf_block_truncate(s->main, o));
        break;
    }
    case K_RESIZE: {
        int on = norm(o, n);
        int sn = sz == -1 ? n - on : sz;
        if (on >= 0 && on <= n && sn >= 0 && on + sn <= n) {
            memmove(want.b, want.b + on, sn);
            want.n = sn;
            must = (on < n || on == 0) ? 1 : LENIENT;
        } else
            must = 0;
        ok = ubase_check(ubuf_block_resize(s->main, o, sz));
        break;
    }
    case K_PREPEND: {
        if (n + o > g_maxn)
            return SEQX_DISABLED;
        memmove(want.b + o, want.b, n);
        want.n = n + o;
        adopt_from = 0;
        adopt_to = o;
        must = LENIENT;
        ok = ubase_check(ubuf_block_prepend(s->main, o));
        break;
    }
    case K_SPLICE: {
        if (s->opnd != NULL)
            return SEQX_DISABLED;
        int on = norm(o, n);
        int sn = sz == -1 ? n - on : sz;
        if (on >= 0 && on < n && sn >= 0 && on + sn <= n) {
            memcpy(wanto.b, m->b + on, sn);
            wanto.n = sn;
            must = 1;
        } else if (on == n && sn == 0) {
            wanto.n = 0;
            must = LENIENT;
        } else
            must = 0;
        s->opnd = ubuf_block_splice(s->main, o, sz);
        ok = s->opnd != NULL;
        opnd_created = ok;
        break;
    }
    case K_SPLIT: {
        if (s->opnd != NULL)
            return SEQX_DISABLED;
        int on = norm(o, n);
        if (on >= 0 && on < n) {
            memcpy(wanto.b, m->b + on, n - on);
            wanto.n = n - on;
            want.n = on;
            must = 1;
        } else
            must = on == n ? LENIENT : 0; /* at the very end there is nothing to return */
        s->opnd = ubuf_block_split(s->main, o);
        ok = s->opnd != NULL;
        opnd_created = ok;
        if (!ok && on == n)
            want = *m;
        break;
    }
    case K_COPY:
    case K_MERGE: {
        if (op->kind == K_COPY && s->opnd != NULL)
            return SEQX_DISABLED;
        int skip = o;
        int ns = sz == -1 ? n - skip : sz;
        struct model r;
        memset(&r, 0, sizeof(r));
        bool valid = skip <= n && ns >= 0 && ns >= -skip && ns <= g_maxn + 3 && ns <= MAXN;
        if (ns > g_maxn)
            return SEQX_DISABLED;
        if (valid) {
            r.n = ns;
            must = (skip >= 0 && skip < n && ns > 0 && ns <= n - skip) ? 1 : LENIENT;
        } else
            must = 0;
        struct ubuf *res = NULL;
        if (op->kind == K_COPY) {
            res = ubuf_block_copy(s->mgr, s->main, skip, sz);
            ok = res != NULL;
        } else {
            ok = ubase_check(ubuf_block_merge(s->mgr, &s->main, skip, sz));
            res = ok ? s->main : NULL;
        }
        if (ok && valid) {
            /* bytes with a source are defined, others adopted from memory */
            uint8_t got[MAXN];
            int gn = walk(res, got, MAXN, NULL);
            if (gn == ns)
                for (int i = 0; i < ns; i++) {
                    int src = i + skip;
                    r.b[i] = (src >= 0 && src < n) ? m->b[src] : got[i];
                }
            if (op->kind == K_COPY) {
                wanto = r;
                s->opnd = res;
                opnd_created = true;
            } else
                want = r;
        } else if (ok && op->kind == K_COPY) {
            s->opnd = res;
            opnd_created = true;
        }
        break;
    }
    case K_DUP: {
        if (s->opnd != NULL)
            return SEQX_DISABLED;
        wanto = *m;
        must = 1;
        s->opnd = ubuf_dup(s->main);
        ok = s->opnd != NULL;
        opnd_created = ok;
        break;
    }
    case K_FREEOP: {
        if (s->opnd == NULL)
            return SEQX_DISABLED;
        ubuf_free(s->opnd);
        s->opnd = NULL;
        s->mo.n = 0;
        ok = true;
        must = 1;
        break;
    }
    }

    if (opnd_consumed) {
        s->opnd = NULL;
        s->mo.n = 0;
        wanto.n = 0;
    }

    /* verdicts */
    int nseg = 0;
    int na = walk(s->main, after, MAXN, &nseg);
    size_t tot = 0;
    ubuf_block_size(s->main, &tot);
    if (!ok) {
        if (must == 1 && vf_faults == faults0) {
            snprintf(sig, sizeof(sig), "%s:refused-valid", kname[op->kind]);
            SEQX_FAIL(sig, "%s(%d,%d) on a %d-byte block failed although the request is in range", kname[op->kind], o, sz, n);
        }
        if (na != n || memcmp(after, before, n) || (int)tot != n) {
            snprintf(sig, sizeof(sig), "%s:error-but-modified", kname[op->kind]);
            SEQX_FAIL(sig, "%s(%d,%d) on a %d-byte block reported an error but left size=%zu, %d bytes in segments (content %s)",
                      kname[op->kind], o, sz, n, tot, na, (na == n && !memcmp(after, before, n)) ? "same" : "changed");
        }
        return nseg > g_maxseg + 2 ? SEQX_DISABLED : SEQX_OK;
    }
    if (must == 0) {
        snprintf(sig, sizeof(sig), "%s:accepted-out-of-range", kname[op->kind]);
        SEQX_FAIL(sig, "%s(%d,%d) on a %d-byte block succeeded although the request is out of range (size now %zu, %d bytes in segments)",
                  kname[op->kind], o, sz, n, tot, na);
    }
    if (adopt_from >= 0 && na == want.n)
        for (int i = adopt_from; i < adopt_to; i++)
            want.b[i] = after[i];
    if (na != want.n || (int)tot != want.n || memcmp(after, want.b, want.n)) {
        snprintf(sig, sizeof(sig), "%s:wrong-result", kname[op->kind]);
        SEQX_FAIL(sig, "%s(%d,%d) on a %d-byte block: size=%zu, %d bytes in segments, byte string has %d (content %s)",
                  kname[op->kind], o, sz, n, tot, na, want.n,
                  (na == want.n && !memcmp(after, want.b, want.n)) ? "same" : "differs");
    }
    *m = want;
    if (opnd_created) {
        uint8_t ob[MAXN];
        size_t ot = 0;
        int on2 = walk(s->opnd, ob, MAXN, NULL);
        ubuf_block_size(s->opnd, &ot);
        if (on2 != wanto.n || (int)ot != wanto.n || memcmp(ob, wanto.b, wanto.n)) {
            snprintf(sig, sizeof(sig), "%s:wrong-new-block", kname[op->kind]);
            SEQX_FAIL(sig, "%s(%d,%d) on a %d-byte block returned a block with size=%zu, %d bytes in segments, expected %d bytes (content %s)",
                      kname[op->kind], o, sz, n, ot, on2, wanto.n,
                      (on2 == wanto.n && !memcmp(ob, wanto.b, wanto.n)) ? "same" : "differs");
        }
        s->mo = wanto;
        if (op->kind == K_COPY || op->kind == K_MERGE) {
            struct ubuf_block *b = ubuf_block_from_ubuf(op->kind == K_COPY ? s->opnd : s->main);
            if (b->next_ubuf != NULL)
                SEQX_FAIL("copy:segmented", "copy/merge returned a segmented block");
        }
    }
    if (op->kind == K_MERGE && ubuf_block_from_ubuf(s->main)->next_ubuf != NULL)
        SEQX_FAIL("merge:segmented", "merge left a segmented block");
    if (nseg > g_maxseg)
        return SEQX_DISABLED;
    (void)check;
    return SEQX_OK;
}

/* ---- canonical state ---- */
static void canon_block(struct ubuf *u, struct vbuf *out, uint8_t **areas, int *nareas)
{
    if (u == NULL) {
        vbuf_u8(out, 0xff);
        return;
    }
    struct ubuf_block *h = ubuf_block_from_ubuf(u);
    struct ubuf *chain[64];
    int nc = 0;
    for (struct ubuf *x = u; x != NULL && nc < 64; x = ubuf_block_from_ubuf(x)->next_ubuf)
        chain[nc++] = x;
    vbuf_u8(out, nc);
    for (int i = 0; i < nc; i++) {
        struct ubuf_block *b = ubuf_block_from_ubuf(chain[i]);
        int ai = -1;
        for (int k = 0; k < *nareas; k++)
            if (areas[k] == b->buffer)
                ai = k;
        if (ai < 0) {
            ai = *nareas;
            areas[(*nareas)++] = b->buffer;
        }
        vbuf_u8(out, ai);
        vbuf_u32(out, (uint32_t)b->offset);
        vbuf_u32(out, (uint32_t)b->size);
    }
    vbuf_u32(out, (uint32_t)h->total_size);
    int ci = -1, ei = -1;
    for (int i = 0; i < nc; i++) {
        if (chain[i] == h->cached_ubuf)
            ci = i;
        if (chain[i] == h->cached_end_ubuf)
            ei = i;
    }
    vbuf_u8(out, (uint8_t)ci);
    vbuf_u32(out, (uint32_t)h->cached_offset);
    vbuf_u8(out, (uint8_t)ei);
}

static void c03_canon(void *p, struct vbuf *out)
{
    struct st *s = p;
    uint8_t *areas[64];
    int na = 0;
    canon_block(s->main, out, areas, &na);
    canon_block(s->opnd, out, areas, &na);
    vbuf_u8(out, (uint8_t)vf_fail_in);
    vbuf_u8(out, (uint8_t)g_faults_armed);
}

static long long g_sweeps;
static bool c03_nontrivial(void *p)
{
    /* called once per new distinct state: run the accessor sweep here */
    struct st *s = p;
    struct ubuf_block *b = ubuf_block_from_ubuf(s->main);
    return b->next_ubuf != NULL;
}

/* the sweep is the per-state oracle: run from final_check on new states only.
 * seqx calls final_check on every transition; we detect "new" by a flag set
 * from nontrivial() which is only invoked for fresh states. */
static bool g_fresh;
static bool c03_nontrivial_mark(void *p)
{
    g_fresh = true;
    return c03_nontrivial(p);
}

static int c03_final(void *p)
{
    struct st *s = p;
    int r = SEQX_OK;
    if (g_fresh) {
        g_fresh = false;
        g_sweeps++;
        int armed = vf_fail_in; /* the sweep's own scratch blocks are not part of the fault space */
        vf_fail_in = 0;
        r = sweep(s, s->main, &s->mm);
        if (r == SEQX_OK && s->opnd != NULL)
            r = sweep(s, s->opnd, &s->mo);
        vf_fail_in = armed;
    }
    c03_fini(s);
    return r;
}

int main(int argc, char **argv)
{
    int depth = 3;
    for (int i = 1; i < argc; i++) {
        if (i + 1 >= argc)
            break;
        if (!strcmp(argv[i], "--prepend")) g_prepend = atoi(argv[++i]);
        else if (!strcmp(argv[i], "--append")) g_append = atoi(argv[++i]);
        else if (!strcmp(argv[i], "--align")) g_align = atoi(argv[++i]);
        else if (!strcmp(argv[i], "--pool")) g_pool = atoi(argv[++i]);
        else if (!strcmp(argv[i], "--faults")) g_faults = atoi(argv[++i]);
        else if (!strcmp(argv[i], "--n0")) g_n0 = atoi(argv[++i]);
        else if (!strcmp(argv[i], "--maxn")) g_maxn = atoi(argv[++i]);
        else if (!strcmp(argv[i], "--maxseg")) g_maxseg = atoi(argv[++i]);
        else if (!strcmp(argv[i], "--fill")) g_fill_repeat = !strcmp(argv[++i], "repeat");
        else if (!strcmp(argv[i], "--depth")) depth = atoi(argv[i + 1]);
    }
    build_alphabet();
    struct seqx_spec spec = {
        .name = "c03-block",
        .nops = g_nops,
        .init = c03_init,
        .apply = c03_apply,
        .canon = c03_canon,
        .fini = c03_fini,
        .opstr = c03_opstr,
        .nontrivial = c03_nontrivial_mark,
        .final_check = c03_final,
    };
    /* fresh block must be a single contiguous segment */
    {
        struct st *s = c03_init();
        struct ubuf_block *b = ubuf_block_from_ubuf(s->main);
        size_t lin = 0;
        if (b->next_ubuf != NULL || (g_n0 > 0 && (!ubase_check(ubuf_block_size_linear(s->main, 0, &lin)) || (int)lin != g_n0)))
            v_viol("alloc:not-contiguous", "", "freshly allocated %d-byte block is not one segment", g_n0);
        c03_fini(s);
    }
    g_fresh = true; /* sweep the root too */
    int r = seqx_main(&spec, argc, argv, depth);
    v_stat("sweeps", g_sweeps);
    v_stat("alphabet", g_nops);
    return r;
}
