/* pipex — fixture for running real Upipe pipes as explored state machines:
 * counting managers, allocation tracker, recording probe, recording sinks,
 * deterministic clock and mock event loop. Header-only; include once per
 * harness. See DESIGN.md section 2.5. */
#ifndef PIPEX_H
#define PIPEX_H

#include "vcommon.h"
#include "count_umem.h"
#include "vmock_upump.h"

#include "upipe/ubase.h"
#include "upipe/uprobe.h"
#include "upipe/uprobe_uref_mgr.h"
#include "upipe/uprobe_ubuf_mem.h"
#include "upipe/uprobe_upump_mgr.h"
#include "upipe/uprobe_uclock.h"
#include "upipe/uclock.h"
#include "upipe/umem.h"
#include "upipe/udict.h"
#include "upipe/udict_inline.h"
#include "upipe/uref.h"
#include "upipe/uref_std.h"
#include "upipe/uref_attr.h"
#include "upipe/uref_flow.h"
#include "upipe/uref_block.h"
#include "upipe/uref_block_flow.h"
#include "upipe/uref_clock.h"
#include "upipe/ubuf.h"
#include "upipe/ubuf_block.h"
#include "upipe/ubuf_block_mem.h"
#include "upipe/upipe.h"
#include "upipe/urequest.h"
#include "upipe/upump.h"

#include <sanitizer/allocator_interface.h>
#include <inttypes.h>
#include <assert.h>

/* ------------------------------------------------------------------ */
/* allocation tracker: every heap block allocated while tracking is on must
 * be gone when the history has been torn down                          */
/* ------------------------------------------------------------------ */
#define PXM_CAP 8192
static struct {
    const volatile void *p[PXM_CAP];
    size_t sz[PXM_CAP];
    int n;             /* live tracked blocks */
    bool on;           /* tracking enabled */
    bool installed;
    bool overflow;
} pxm;

static void pxm_malloc_hook(const volatile void *ptr, size_t size)
{
    if (!pxm.on || ptr == NULL)
        return;
    size_t i = ((uintptr_t)ptr >> 4) % PXM_CAP;
    for (int k = 0; k < PXM_CAP; k++, i = (i + 1) % PXM_CAP)
        if (pxm.p[i] == NULL || pxm.p[i] == (void *)1) {
            pxm.p[i] = ptr;
            pxm.sz[i] = size;
            pxm.n++;
            return;
        }
    pxm.overflow = true;
}

static void pxm_free_hook(const volatile void *ptr)
{
    if (ptr == NULL || pxm.n == 0)
        return;
    size_t i = ((uintptr_t)ptr >> 4) % PXM_CAP;
    for (int k = 0; k < PXM_CAP; k++, i = (i + 1) % PXM_CAP) {
        if (pxm.p[i] == ptr) {
            pxm.p[i] = (void *)1; /* tombstone */
            pxm.n--;
            return;
        }
        if (pxm.p[i] == NULL)
            return;
    }
}

static inline void pxm_begin(void)
{
    if (!pxm.installed) {
        __sanitizer_install_malloc_and_free_hooks(pxm_malloc_hook, pxm_free_hook);
        pxm.installed = true;
    }
    memset(pxm.p, 0, sizeof(pxm.p));
    pxm.n = 0;
    pxm.overflow = false;
    pxm.on = true;
}
static inline void pxm_pause(void) { pxm.on = false; }
static inline void pxm_resume(void) { pxm.on = true; }
/* returns the number of tracked blocks still allocated; describes them */
static inline int pxm_end(char *desc, size_t n)
{
    pxm.on = false;
    size_t o = 0;
    if (desc && n)
        desc[0] = 0;
    if (pxm.n && desc)
        for (int i = 0; i < PXM_CAP && o + 24 < n; i++)
            if (pxm.p[i] != NULL && pxm.p[i] != (void *)1)
                o += snprintf(desc + o, n - o, "%zu ", pxm.sz[i]);
    return pxm.n;
}

/* ------------------------------------------------------------------ */
/* counting uref manager: wraps uref_std, keeps a live table            */
/* ------------------------------------------------------------------ */
#define PXU_MAXLIVE 256
struct pxu_mgr {
    struct urefcount urefcount;
    struct uref_mgr mgr;
    struct uref_mgr *inner;
    struct uref *live[PXU_MAXLIVE];
    int nlive;
    long allocs, frees;
    int double_free;
    bool dead;
};
UBASE_FROM_TO(pxu_mgr, uref_mgr, uref_mgr, mgr)
UBASE_FROM_TO(pxu_mgr, urefcount, urefcount, urefcount)

static struct uref *pxu_alloc(struct uref_mgr *mgr)
{
    struct pxu_mgr *m = pxu_mgr_from_uref_mgr(mgr);
    if (m->nlive >= PXU_MAXLIVE)
        return NULL;
    struct uref *uref = m->inner->uref_alloc(m->inner);
    if (uref == NULL)
        return NULL;
    uref->mgr = mgr;
    m->live[m->nlive++] = uref;
    m->allocs++;
    return uref;
}

static void pxu_free(struct uref *uref)
{
    struct pxu_mgr *m = pxu_mgr_from_uref_mgr(uref->mgr);
    int i;
    for (i = 0; i < m->nlive; i++)
        if (m->live[i] == uref)
            break;
    if (i == m->nlive) {
        m->double_free++;
        return; /* do not pass a stale structure on */
    }
    m->live[i] = m->live[--m->nlive];
    m->frees++;
    uref->mgr = m->inner;
    m->inner->uref_free(uref);
}

static int pxu_control(struct uref_mgr *mgr, int command, va_list args)
{
    struct pxu_mgr *m = pxu_mgr_from_uref_mgr(mgr);
    if (m->inner->uref_mgr_control == NULL)
        return UBASE_ERR_UNHANDLED;
    return m->inner->uref_mgr_control(m->inner, command, args);
}

static void pxu_dead(struct urefcount *r)
{
    struct pxu_mgr *m = pxu_mgr_from_urefcount(r);
    m->dead = true;
}

static inline struct uref_mgr *pxu_init(struct pxu_mgr *m, struct uref_mgr *inner)
{
    memset(m, 0, sizeof(*m));
    m->inner = inner;
    urefcount_init(&m->urefcount, pxu_dead);
    m->mgr.refcount = &m->urefcount;
    m->mgr.control_attr_size = inner->control_attr_size;
    m->mgr.udict_mgr = inner->udict_mgr;
    m->mgr.uref_alloc = pxu_alloc;
    m->mgr.uref_free = pxu_free;
    m->mgr.uref_mgr_control = pxu_control;
    return &m->mgr;
}

/* ------------------------------------------------------------------ */
/* logs                                                                  */
/* ------------------------------------------------------------------ */
enum { PXS_FLOWDEF = 1, PXS_INPUT, PXS_REGISTER, PXS_UNREGISTER, PXS_OTHERCTL };

#define PX_MAXBYTES 24
#define PX_ATTRLEN 360
struct px_srec {
    int stamp;
    int sink;
    int kind;
    int result;         /* FLOWDEF: error code answered */
    int flow_id;        /* FLOWDEF: marker attribute of the definition (-1: none) */
    char def[48];       /* FLOWDEF: definition string */
    int64_t seq;        /* INPUT: sequence attribute (-1: missing) */
    int size;           /* INPUT: total block size (-1: no block) */
    int nbytes;
    uint8_t bytes[PX_MAXBYTES];
    char attrs[PX_ATTRLEN]; /* canonical dump of all attributes + dates */
    void *req;          /* REGISTER / UNREGISTER */
    int req_type;
    bool had_pump;      /* INPUT: upump_p non-NULL */
    int thread;         /* px_self_fn() when recorded (-1 if unset) */
};

struct px_erec {
    int stamp;
    struct upipe *pipe;
    int event;
    int arg;            /* log level / error code */
    char text[64];
    int thread;         /* px_self_fn() when recorded (-1 if unset) */
};

/* optional: identity of the calling (virtual) thread, set by vsched harnesses */
static int (*px_self_fn)(void);
static inline int px_self(void) { return px_self_fn ? px_self_fn() : -1; }

#define PX_MAXS 160
#define PX_MAXE 600
#define PX_NSINKS 5

struct px_fix;
struct px_sink {
    struct upipe upipe;
    struct urefcount urefcount;
    struct upipe_mgr mgr;
    struct px_fix *fx;
    int idx;
    bool reject;        /* answer to set_flow_def */
    bool dead;
    bool harness_ref;   /* harness still holds its own reference */
    bool unhandled_requests; /* answer UNHANDLED to register (lets the probe provide) */
    bool sync_provide;  /* answer uref_mgr / uclock / ubuf_mgr requests itself, inside register, always with the
                         * fixture's own (shared) managers; other types as unhandled_requests says */
    int use_after_dead;
    struct uref *held[8];   /* holding mode: buffers kept instead of freed */
    int nheld;
    bool hold;
    bool defer_provide; /* keep uref_mgr / uclock / ubuf_mgr requests and answer them only when px_provide_pending() is
                         * called (a provider further down a queue or in another thread answers later, not inside register) */
    /* requests currently lodged here */
    struct urequest *reqs[16];
    bool answered[16];
    int nreqs;
    int unreg_unknown;
};

struct px_clock {
    struct uclock uclock;
    struct urefcount urefcount;
    uint64_t now;
    bool dead;
};

struct px_fix {
    int pool;
    struct cumem_mgr cumem;
    struct umem_mgr *umem_mgr;
    struct udict_mgr *udict_mgr;
    struct uref_mgr *uref_inner;
    struct pxu_mgr pxu;
    struct uref_mgr *uref_mgr;
    struct ubuf_mgr *ubuf_mgr;
    struct upump_mgr *upump_mgr;
    struct px_clock clock;
    /* probe chain: rec -> uref_mgr -> ubuf_mem -> upump_mgr -> uclock */
    struct uprobe rec;
    struct urefcount rec_refcount;
    bool rec_dead;
    int throw_after_probe_dead;
    struct uprobe *chain; /* below rec */
    struct px_sink sinks[PX_NSINKS];
    int stamp;
    struct px_srec *srec;
    int nsrec;
    struct px_erec *erec;
    int nerec;
    bool log_overflow;
    bool provide_upump_mgr;
    struct ubuf_mgr *alt_ubuf_mgr; /* deferred providers: manager given for requests whose format is not a block format (not owned) */
    /* hook: called for every event before it is passed on (may be NULL) */
    int (*on_event)(struct px_fix *, struct upipe *, int event, va_list args);
    void *user;
};

/* canonical dump of a uref's attributes and dates */
static inline void px_attr_dump(struct uref *uref, char *out, size_t n)
{
    size_t o = 0;
    out[0] = 0;
    /* attributes, sorted by (name,type) so TLV order does not matter */
    struct { char s[96]; } items[24];
    int ni = 0;
    if (uref->udict != NULL) {
        const char *name = NULL;
        enum udict_type type = UDICT_TYPE_END;
        while (ubase_check(udict_iterate(uref->udict, &name, &type)) && type != UDICT_TYPE_END && ni < 24) {
            size_t size = 0;
            const uint8_t *v = NULL;
            udict_get(uref->udict, name, type, &size, &v);
            int k = snprintf(items[ni].s, sizeof(items[ni].s), "%s/%d=", name ? name : "", (int)type);
            for (size_t i = 0; i < size && i < 12 && k + 3 < (int)sizeof(items[ni].s); i++)
                k += snprintf(items[ni].s + k, sizeof(items[ni].s) - k, "%02x", v ? v[i] : 0);
            ni++;
        }
    }
    for (int i = 1; i < ni; i++)
        for (int j = i; j > 0 && strcmp(items[j - 1].s, items[j].s) > 0; j--) {
            char t[96];
            memcpy(t, items[j].s, 96);
            memcpy(items[j].s, items[j - 1].s, 96);
            memcpy(items[j - 1].s, t, 96);
        }
    for (int i = 0; i < ni && o + 100 < n; i++)
        o += snprintf(out + o, n - o, "%s;", items[i].s);
    o += snprintf(out + o, n - o, "|f=%" PRIx64, uref->flags);
    uint64_t d[3] = {uref->date_sys, uref->date_prog, uref->date_orig};
    for (int i = 0; i < 3 && o + 40 < n; i++)
        o += snprintf(out + o, n - o, ",d%d=%" PRIx64, i, d[i]);
    if (o + 80 < n)
        o += snprintf(out + o, n - o, ",dp=%" PRIx64 ",cd=%" PRIx64 ",rc=%" PRIx64 ",pr=%" PRIx64, uref->dts_pts_delay,
                      uref->cr_dts_delay, uref->rap_cr_delay, uref->priv);
}

static inline struct px_srec *px_slog(struct px_fix *fx, int sink, int kind)
{
    if (fx->nsrec >= PX_MAXS) {
        fx->log_overflow = true;
        return &fx->srec[PX_MAXS - 1];
    }
    struct px_srec *r = &fx->srec[fx->nsrec++];
    memset(r, 0, sizeof(*r));
    r->stamp = fx->stamp++;
    r->sink = sink;
    r->kind = kind;
    r->seq = -1;
    r->size = -1;
    r->flow_id = -1;
    r->thread = px_self();
    return r;
}

/* ---- recording sink ---- */
static inline struct px_sink *px_sink_from_upipe(struct upipe *upipe)
{
    return container_of(upipe, struct px_sink, upipe);
}

static void px_sink_record_input(struct px_fix *fx, int idx, struct uref *uref, bool had_pump)
{
    struct px_srec *r = px_slog(fx, idx, PXS_INPUT);
    uint64_t seq;
    if (ubase_check(uref_attr_get_unsigned(uref, &seq, UDICT_TYPE_UNSIGNED, "x.seq")))
        r->seq = (int64_t)seq;
    size_t size;
    if (uref->ubuf != NULL && ubase_check(uref_block_size(uref, &size))) {
        r->size = (int)size;
        r->nbytes = size > PX_MAXBYTES ? PX_MAXBYTES : (int)size;
        if (r->nbytes && !ubase_check(uref_block_extract(uref, 0, r->nbytes, r->bytes)))
            r->nbytes = -1;
    }
    px_attr_dump(uref, r->attrs, sizeof(r->attrs));
    r->had_pump = had_pump;
}

static void px_sink_input(struct upipe *upipe, struct uref *uref, struct upump **upump_p)
{
    struct px_sink *s = px_sink_from_upipe(upipe);
    struct px_fix *fx = s->fx;
    if (s->dead)
        s->use_after_dead++;
    px_sink_record_input(fx, s->idx, uref, upump_p != NULL && *upump_p != NULL);
    if (s->hold && s->nheld < 8)
        s->held[s->nheld++] = uref;
    else
        uref_free(uref);
}

static int px_sink_control(struct upipe *upipe, int command, va_list args)
{
    struct px_sink *s = px_sink_from_upipe(upipe);
    struct px_fix *fx = s->fx;
    if (s->dead)
        s->use_after_dead++;
    switch (command) {
    case UPIPE_SET_FLOW_DEF: {
        struct uref *flow_def = va_arg(args, struct uref *);
        struct px_srec *r = px_slog(fx, s->idx, PXS_FLOWDEF);
        const char *def = NULL;
        uint64_t id;
        if (flow_def != NULL) {
            if (ubase_check(uref_flow_get_def(flow_def, &def)) && def)
                snprintf(r->def, sizeof(r->def), "%s", def);
            if (ubase_check(uref_flow_get_id(flow_def, &id)))
                r->flow_id = (int)id;
            px_attr_dump(flow_def, r->attrs, sizeof(r->attrs));
        }
        r->result = (s->reject || flow_def == NULL) ? UBASE_ERR_INVALID : UBASE_ERR_NONE;
        return r->result;
    }
    case UPIPE_REGISTER_REQUEST: {
        struct urequest *req = va_arg(args, struct urequest *);
        struct px_srec *r = px_slog(fx, s->idx, PXS_REGISTER);
        r->req = req;
        r->req_type = req->type;
        if (s->sync_provide && (req->type == UREQUEST_UREF_MGR || req->type == UREQUEST_UCLOCK || req->type == UREQUEST_UBUF_MGR)) {
            if (s->nreqs < 16)
                s->reqs[s->nreqs++] = req;
            if (req->type == UREQUEST_UREF_MGR)
                return urequest_provide_uref_mgr(req, uref_mgr_use(fx->uref_mgr));
            if (req->type == UREQUEST_UCLOCK)
                return urequest_provide_uclock(req, uclock_use(&fx->clock.uclock));
            struct uref *ff = req->uref ? uref_dup(req->uref) : NULL;
            return urequest_provide_ubuf_mgr(req, ubuf_mgr_use(fx->ubuf_mgr), ff);
        }
        if (s->defer_provide && (req->type == UREQUEST_UREF_MGR || req->type == UREQUEST_UCLOCK || req->type == UREQUEST_UBUF_MGR)) {
            if (s->nreqs < 16) {
                s->answered[s->nreqs] = false;
                s->reqs[s->nreqs++] = req;
            }
            return UBASE_ERR_NONE;
        }
        if (s->unhandled_requests) {
            r->result = UBASE_ERR_UNHANDLED;
            return UBASE_ERR_UNHANDLED;
        }
        if (s->nreqs < 16)
            s->reqs[s->nreqs++] = req;
        return UBASE_ERR_NONE;
    }
    case UPIPE_UNREGISTER_REQUEST: {
        struct urequest *req = va_arg(args, struct urequest *);
        struct px_srec *r = px_slog(fx, s->idx, PXS_UNREGISTER);
        r->req = req;
        r->req_type = req->type;
        bool mine = (s->sync_provide || s->defer_provide) && (req->type == UREQUEST_UREF_MGR || req->type == UREQUEST_UCLOCK || req->type == UREQUEST_UBUF_MGR);
        if (s->unhandled_requests && !mine) {
            r->result = UBASE_ERR_UNHANDLED;
            return UBASE_ERR_UNHANDLED;
        }
        int i;
        for (i = 0; i < s->nreqs; i++)
            if (s->reqs[i] == req)
                break;
        if (i == s->nreqs) {
            s->unreg_unknown++;
            r->result = UBASE_ERR_INVALID;
            return UBASE_ERR_INVALID;
        }
        --s->nreqs;
        s->reqs[i] = s->reqs[s->nreqs];
        s->answered[i] = s->answered[s->nreqs];
        return UBASE_ERR_NONE;
    }
    default: {
        struct px_srec *r = px_slog(fx, s->idx, PXS_OTHERCTL);
        r->result = command;
        return UBASE_ERR_UNHANDLED;
    }
    }
}

/* deferred providers: number of lodged requests not answered yet */
static inline int px_pending_requests(struct px_fix *fx)
{
    int n = 0;
    for (int k = 0; k < PX_NSINKS; k++)
        for (int i = 0; i < fx->sinks[k].nreqs; i++)
            if (fx->sinks[k].defer_provide && !fx->sinks[k].answered[i])
                n++;
    return n;
}

/* deferred providers: answer every lodged, not yet answered request with the fixture's shared managers. The callback may
 * register or withdraw requests (also this one): the list is re-scanned after every answer. Returns the number of answers. */
static inline int px_provide_pending(struct px_fix *fx)
{
    int n = 0;
    for (int guard = 0; guard < 64; guard++) {
        struct px_sink *s = NULL;
        int i = 0;
        for (int k = 0; k < PX_NSINKS && s == NULL; k++)
            for (i = 0; i < fx->sinks[k].nreqs; i++)
                if (fx->sinks[k].defer_provide && !fx->sinks[k].answered[i]) {
                    s = &fx->sinks[k];
                    break;
                }
        if (s == NULL)
            break;
        struct urequest *req = s->reqs[i];
        s->answered[i] = true;
        n++;
        if (req->type == UREQUEST_UREF_MGR)
            urequest_provide_uref_mgr(req, uref_mgr_use(fx->uref_mgr));
        else if (req->type == UREQUEST_UCLOCK)
            urequest_provide_uclock(req, uclock_use(&fx->clock.uclock));
        else {
            struct uref *ff = req->uref ? uref_dup(req->uref) : NULL;
            const char *def = NULL;
            bool block = req->uref == NULL || !ubase_check(uref_flow_get_def(req->uref, &def)) || !strncmp(def, "block.", 6);
            urequest_provide_ubuf_mgr(req, ubuf_mgr_use(!block && fx->alt_ubuf_mgr ? fx->alt_ubuf_mgr : fx->ubuf_mgr), ff);
        }
    }
    return n;
}

static void px_sink_dead(struct urefcount *urefcount)
{
    struct px_sink *s = container_of(urefcount, struct px_sink, urefcount);
    s->dead = true;
}

static inline void px_sink_drop_held(struct px_sink *s)
{
    for (int i = 0; i < s->nheld; i++)
        uref_free(s->held[i]);
    s->nheld = 0;
}

/* ---- deterministic clock ---- */
static uint64_t px_clock_now(struct uclock *uclock)
{
    struct px_clock *c = container_of(uclock, struct px_clock, uclock);
    return c->now;
}
static void px_clock_dead(struct urefcount *urefcount)
{
    struct px_clock *c = container_of(urefcount, struct px_clock, urefcount);
    c->dead = true;
}

/* ---- recording probe ---- */
static int px_rec_throw(struct uprobe *uprobe, struct upipe *upipe, int event, va_list args)
{
    struct px_fix *fx = container_of(uprobe, struct px_fix, rec);
    if (fx->rec_dead)
        fx->throw_after_probe_dead++;
    if (fx->nerec < PX_MAXE) {
        struct px_erec *e = &fx->erec[fx->nerec++];
        e->stamp = fx->stamp++;
        e->pipe = upipe;
        e->event = event;
        e->arg = 0;
        e->text[0] = 0;
        e->thread = px_self();
        va_list copy;
        va_copy(copy, args);
        if (event == UPROBE_LOG) {
            struct ulog *ulog = va_arg(copy, struct ulog *);
            e->arg = ulog->level;
            if (ulog->format != NULL && ulog->args != NULL) {
                va_list a2;
                va_copy(a2, *ulog->args);
                vsnprintf(e->text, sizeof(e->text), ulog->format, a2);
                va_end(a2);
            }
        } else if (event == UPROBE_FATAL || event == UPROBE_ERROR)
            e->arg = va_arg(copy, int);
        va_end(copy);
    } else
        fx->log_overflow = true;
    if (fx->on_event != NULL) {
        va_list copy;
        va_copy(copy, args);
        int r = fx->on_event(fx, upipe, event, copy);
        va_end(copy);
        if (r != UBASE_ERR_UNHANDLED)
            return r;
    }
    if (event == UPROBE_LOG)
        return UBASE_ERR_NONE;
    if (event == UPROBE_NEED_UPUMP_MGR && !fx->provide_upump_mgr)
        return UBASE_ERR_UNHANDLED;
    return uprobe_throw_next(uprobe, upipe, event, args);
}

static void px_rec_dead(struct urefcount *urefcount)
{
    struct px_fix *fx = container_of(urefcount, struct px_fix, rec_refcount);
    fx->rec_dead = true;
    /* what uprobe_clean does */
    uprobe_release(fx->rec.next);
    fx->rec.next = NULL;
}

/* ---- fixture life cycle ---- */
struct px_cfg {
    int pool;           /* pool depth of every manager */
    int prepend, append, align; /* block manager; -1 default */
    struct uprobe *tail_probe;  /* optional application probe placed after all the fixture's probes (the chain takes a reference) */
    int udict_min, udict_extra; /* dictionary manager: initial size and growth step; 0 = the library's defaults. (1, 1) makes every
                                 * attribute that is added a memory request (fault axes) */
};

static inline void px_fix_init(struct px_fix *fx, const struct px_cfg *cfg)
{
    memset(fx, 0, sizeof(*fx));
    fx->pool = cfg->pool;
    fx->srec = malloc(PX_MAXS * sizeof(*fx->srec));
    fx->erec = malloc(PX_MAXE * sizeof(*fx->erec));
    fx->umem_mgr = cumem_mgr_init(&fx->cumem);
    fx->udict_mgr = udict_inline_mgr_alloc(cfg->pool, fx->umem_mgr, cfg->udict_min ? cfg->udict_min : -1, cfg->udict_extra ? cfg->udict_extra : -1);
    fx->uref_inner = uref_std_mgr_alloc(cfg->pool, fx->udict_mgr, 0);
    fx->uref_mgr = pxu_init(&fx->pxu, fx->uref_inner);
    fx->ubuf_mgr = ubuf_block_mem_mgr_alloc(cfg->pool, cfg->pool, fx->umem_mgr, cfg->prepend, cfg->append, cfg->align, 0);
    fx->upump_mgr = vmock_mgr_alloc(cfg->pool, cfg->pool);
    fx->provide_upump_mgr = true;
    assert(fx->udict_mgr && fx->uref_inner && fx->ubuf_mgr && fx->upump_mgr);
    fx->clock.uclock.refcount = &fx->clock.urefcount;
    fx->clock.uclock.uclock_now = px_clock_now;
    fx->clock.now = 1000000;
    urefcount_init(&fx->clock.urefcount, px_clock_dead);

    struct uprobe *p = cfg->tail_probe ? uprobe_use(cfg->tail_probe) : NULL;
    p = uprobe_uclock_alloc(p, &fx->clock.uclock);
    p = uprobe_upump_mgr_alloc(p, fx->upump_mgr);
    p = uprobe_ubuf_mem_alloc(p, fx->umem_mgr, cfg->pool, cfg->pool);
    p = uprobe_uref_mgr_alloc(p, fx->uref_mgr);
    assert(p);
    fx->chain = p;
    uprobe_init(&fx->rec, px_rec_throw, p);
    urefcount_init(&fx->rec_refcount, px_rec_dead);
    fx->rec.refcount = &fx->rec_refcount;

    for (int i = 0; i < PX_NSINKS; i++) {
        struct px_sink *s = &fx->sinks[i];
        s->fx = fx;
        s->idx = i;
        s->mgr.refcount = NULL;
        s->mgr.signature = UBASE_FOURCC('p', 'x', 's', 'k');
        s->mgr.upipe_input = px_sink_input;
        s->mgr.upipe_control = px_sink_control;
        urefcount_init(&s->urefcount, px_sink_dead);
        /* sinks report to nobody: their own log is the record */
        upipe_init(&s->upipe, &s->mgr, NULL);
        s->upipe.refcount = &s->urefcount;
        s->harness_ref = true;
    }
}

/* a probe reference for a pipe under test */
static inline struct uprobe *px_probe(struct px_fix *fx) { return uprobe_use(&fx->rec); }

/* flow definition "block.<id>." with marker attribute f.id = id */
static inline struct uref *px_flow(struct px_fix *fx, const char *def, int id)
{
    struct uref *f;
    if (!strncmp(def, "block.", 6))
        f = uref_block_flow_alloc_def(fx->uref_mgr, def + 6);
    else {
        f = uref_alloc(fx->uref_mgr);
        assert(f);
        ubase_assert(uref_flow_set_def(f, def));
    }
    assert(f);
    ubase_assert(uref_flow_set_id(f, id));
    return f;
}

/* test buffer: seq in attribute x.seq and in every payload octet
 * (octet i = seq * 16 + i), size octets in nseg segments (sizes as even as
 * possible), dates set so that date arithmetic is observable */
static inline uint8_t px_octet(int seq, int i) { return (uint8_t)(seq * 16 + i + 1); }

static inline struct uref *px_uref(struct px_fix *fx, int seq, int size, int nseg, bool dates)
{
    struct uref *uref = NULL;
    if (nseg < 1)
        nseg = 1;
    int done = 0;
    for (int sg = 0; sg < nseg; sg++) {
        int part = (size - done) / (nseg - sg);
        if (sg == nseg - 1)
            part = size - done;
        struct ubuf *ubuf = ubuf_block_alloc(fx->ubuf_mgr, part);
        assert(ubuf);
        if (part) {
            uint8_t *w;
            int sz = -1;
            ubase_assert(ubuf_block_write(ubuf, 0, &sz, &w));
            assert(sz == part);
            for (int i = 0; i < part; i++)
                w[i] = px_octet(seq, done + i);
            ubuf_block_unmap(ubuf, 0);
        }
        if (uref == NULL) {
            uref = uref_alloc(fx->uref_mgr);
            assert(uref);
            uref_attach_ubuf(uref, ubuf);
        } else
            ubase_assert(ubuf_block_append(uref->ubuf, ubuf));
        done += part;
    }
    ubase_assert(uref_attr_set_unsigned(uref, seq, UDICT_TYPE_UNSIGNED, "x.seq"));
    if (dates) {
        uref_clock_set_cr_sys(uref, 5000 + 10 * seq);
        uref_clock_set_cr_prog(uref, 7000 + 10 * seq);
        uref_clock_set_cr_orig(uref, 9000 + 10 * seq);
        uref_clock_set_cr_dts_delay(uref, 3);
        uref_clock_set_dts_pts_delay(uref, 4);
    }
    return uref;
}

/* same, with explicit segment sizes; if held_p is not NULL the last segment's memory is also
 * referenced by *held_p (a duplicate the caller keeps: the segment is shared, not writable) */
static inline struct uref *px_uref_segs(struct px_fix *fx, int seq, const int *sizes, int nseg, bool dates, struct ubuf **held_p)
{
    struct uref *uref = NULL;
    int done = 0;
    for (int sg = 0; sg < nseg; sg++) {
        int part = sizes[sg];
        struct ubuf *ubuf = ubuf_block_alloc(fx->ubuf_mgr, part);
        assert(ubuf);
        if (part) {
            uint8_t *w;
            int sz = -1;
            ubase_assert(ubuf_block_write(ubuf, 0, &sz, &w));
            for (int i = 0; i < part; i++)
                w[i] = px_octet(seq, done + i);
            ubuf_block_unmap(ubuf, 0);
        }
        if (sg == nseg - 1 && held_p != NULL) {
            *held_p = ubuf_dup(ubuf);
            assert(*held_p);
        }
        if (uref == NULL) {
            uref = uref_alloc(fx->uref_mgr);
            assert(uref);
            uref_attach_ubuf(uref, ubuf);
        } else
            ubase_assert(ubuf_block_append(uref->ubuf, ubuf));
        done += part;
    }
    ubase_assert(uref_attr_set_unsigned(uref, seq, UDICT_TYPE_UNSIGNED, "x.seq"));
    if (dates) {
        uref_clock_set_cr_sys(uref, 5000 + 10 * seq);
        uref_clock_set_cr_prog(uref, 7000 + 10 * seq);
        uref_clock_set_cr_orig(uref, 9000 + 10 * seq);
        uref_clock_set_cr_dts_delay(uref, 3);
        uref_clock_set_dts_pts_delay(uref, 4);
    }
    return uref;
}

/* Releases everything the fixture owns and evaluates the end-state part of
 * C01. Returns NULL if clean, else a static description. sig receives a short
 * signature. The caller must have released its pipes before. */
static inline const char *px_fix_fini(struct px_fix *fx, char *sig, size_t sign)
{
    static char msg[512];
    const char *res = NULL;
#define PX_BAD(s_, ...)                                                        \
    do {                                                                       \
        if (res == NULL) {                                                     \
            snprintf(sig, sign, "%s", s_);                                     \
            snprintf(msg, sizeof(msg), __VA_ARGS__);                           \
            res = msg;                                                         \
        }                                                                      \
    } while (0)
    for (int i = 0; i < PX_NSINKS; i++) {
        struct px_sink *s = &fx->sinks[i];
        px_sink_drop_held(s);
        if (s->use_after_dead)
            PX_BAD("end:output-used-after-its-last-release", "sink %d was entered %d time(s) after its last reference had been released", i, s->use_after_dead);
        if (s->dead && s->harness_ref)
            PX_BAD("end:output-over-released", "sink %d died while the harness still held its reference (released once too often)", i);
        if (s->harness_ref) {
            s->harness_ref = false;
            upipe_release(&s->upipe);
        }
        if (!s->dead)
            PX_BAD("end:output-reference-leaked", "sink %d still referenced after the pipeline and the harness released it (refcount %u)", i,
                   (unsigned)uatomic_load(&s->urefcount.refcount));
        if (s->nreqs)
            PX_BAD("end:request-left-registered", "sink %d still holds %d registered request(s) after teardown", i, s->nreqs);
    }
    /* the harness' reference on the probe */
    if (fx->rec_dead)
        PX_BAD("end:probe-over-released", "recording probe died before the harness released it");
    else {
        uprobe_release(&fx->rec);
        if (!fx->rec_dead)
            PX_BAD("end:probe-reference-leaked", "recording probe still referenced after teardown (refcount %u)",
                   (unsigned)uatomic_load(&fx->rec_refcount.refcount));
    }
    if (fx->throw_after_probe_dead)
        PX_BAD("end:probe-used-after-free", "%d event(s) thrown to the probe after its last release", fx->throw_after_probe_dead);
    if (!fx->rec_dead) { /* force, to let the rest of the teardown be judged */
        uprobe_release(fx->rec.next);
        fx->rec.next = NULL;
    }
    /* managers: every one must be back to the creator's single reference */
    struct vmock_mgr *vm = vmock_mgr_from_upump_mgr(fx->upump_mgr);
    if (vm->npumps)
        PX_BAD("end:pump-leaked", "%d pump(s) still allocated after teardown", vm->npumps);
    if (uatomic_load(&vm->urefcount.refcount) != 1)
        PX_BAD("end:upump-mgr-refs", "upump manager has %u references after teardown (expected 1)", (unsigned)uatomic_load(&vm->urefcount.refcount));
    if (fx->pxu.nlive)
        PX_BAD("end:uref-leaked", "%d uref(s) still allocated after teardown", fx->pxu.nlive);
    if (fx->pxu.double_free)
        PX_BAD("end:uref-double-free", "%d uref(s) freed twice (or never allocated)", fx->pxu.double_free);
    if (uatomic_load(&fx->pxu.urefcount.refcount) != 1)
        PX_BAD("end:uref-mgr-refs", "uref manager has %u references after teardown (expected 1)", (unsigned)uatomic_load(&fx->pxu.urefcount.refcount));
    if (uatomic_load(&fx->clock.urefcount.refcount) != 1)
        PX_BAD("end:uclock-refs", "uclock has %u references after teardown (expected 1)", (unsigned)uatomic_load(&fx->clock.urefcount.refcount));
    if (fx->ubuf_mgr->refcount && uatomic_load(&fx->ubuf_mgr->refcount->refcount) != 1)
        PX_BAD("end:ubuf-mgr-refs", "ubuf manager has %u references after teardown (expected 1)", (unsigned)uatomic_load(&fx->ubuf_mgr->refcount->refcount));
    upump_mgr_release(fx->upump_mgr);
    ubuf_mgr_release(fx->ubuf_mgr);
    uref_mgr_release(fx->uref_mgr);
    uref_mgr_release(fx->uref_inner);
    udict_mgr_release(fx->udict_mgr);
    if (fx->cumem.nlive)
        PX_BAD("end:umem-leaked", "%d memory area(s) still allocated after every manager was released", fx->cumem.nlive);
    if (fx->cumem.double_free || fx->cumem.unknown_free)
        PX_BAD("end:umem-double-free", "%s", fx->cumem.err);
    if (fx->cumem.overrun)
        PX_BAD("end:umem-overrun", "%s", fx->cumem.err);
    if (cumem_refs(&fx->cumem) != 1)
        PX_BAD("end:umem-mgr-refs", "umem manager has %u references after teardown (expected 1)", (unsigned)cumem_refs(&fx->cumem));
    umem_mgr_release(fx->umem_mgr);
    /* free what a leak left behind so that the process does not grow */
    for (int i = 0; i < fx->cumem.nlive; i++)
        free(fx->cumem.live[i].buf - CU_GUARD);
    free(vm);
    free(fx->srec);
    free(fx->erec);
    fx->srec = NULL;
    fx->erec = NULL;
#undef PX_BAD
    return res;
}

/* ---- event-log queries ---- */
static inline const char *px_event_name(int e)
{
    static const char *n[] = {"log", "fatal", "error", "ready", "dead", "stalled", "source_end", "sink_end", "need_output",
                              "provide_request", "need_upump_mgr", "freeze_upump_mgr", "thaw_upump_mgr", "need_source_mgr",
                              "new_flow_def", "new_rap", "split_update", "sync_acquired", "sync_lost", "clock_ref",
                              "clock_ts", "clock_utc", "preroll_end"};
    static char b[16];
    if (e >= 0 && e < (int)(sizeof(n) / sizeof(n[0])))
        return n[e];
    snprintf(b, sizeof(b), "ev%x", e);
    return b;
}

/* C04 (life-cycle part): for every pipe address in the log: first non-log
 * event is ready, dead exactly once per incarnation, nothing after dead.
 * Returns NULL if fine. */
static inline const char *px_check_lifecycle(struct px_fix *fx, char *sig, size_t sign)
{
    static char msg[400];
    struct {
        struct upipe *p;
        int state; /* 0 fresh, 1 ready seen, 2 dead */
    } t[32];
    int nt = 0;
    for (int i = 0; i < fx->nerec; i++) {
        struct px_erec *e = &fx->erec[i];
        if (e->pipe == NULL)
            continue;
        int k;
        for (k = 0; k < nt; k++)
            if (t[k].p == e->pipe)
                break;
        if (k == nt) {
            if (nt == 32)
                continue;
            t[nt].p = e->pipe;
            t[nt].state = 0;
            nt++;
        }
        if (t[k].state == 2) {
            if (e->event == UPROBE_READY) { /* same address, next incarnation */
                t[k].state = 1;
                continue;
            }
            snprintf(sig, sign, "life:event-after-dead:%s", px_event_name(e->event));
            snprintf(msg, sizeof(msg), "pipe %p threw '%s'%s%s after its 'dead' event", (void *)e->pipe, px_event_name(e->event),
                     e->text[0] ? ": " : "", e->text);
            return msg;
        }
        if (e->event == UPROBE_LOG)
            continue;
        if (t[k].state == 0) {
            if (e->event != UPROBE_READY) {
                snprintf(sig, sign, "life:event-before-ready:%s", px_event_name(e->event));
                snprintf(msg, sizeof(msg), "pipe %p threw '%s' before 'ready'", (void *)e->pipe, px_event_name(e->event));
                return msg;
            }
            t[k].state = 1;
            continue;
        }
        if (e->event == UPROBE_READY) {
            snprintf(sig, sign, "life:ready-twice");
            snprintf(msg, sizeof(msg), "pipe %p threw 'ready' twice", (void *)e->pipe);
            return msg;
        }
        if (e->event == UPROBE_DEAD)
            t[k].state = 2;
    }
    return NULL;
}

/* stamp of the dead event of the latest incarnation of pipe p, or -1 */
static inline int px_dead_stamp(struct px_fix *fx, struct upipe *p)
{
    int st = -1;
    for (int i = 0; i < fx->nerec; i++)
        if (fx->erec[i].pipe == p) {
            if (fx->erec[i].event == UPROBE_DEAD)
                st = fx->erec[i].stamp;
            else if (fx->erec[i].event == UPROBE_READY)
                st = -1;
        }
    return st;
}

static inline int px_count_event(struct px_fix *fx, struct upipe *p, int event)
{
    int n = 0;
    for (int i = 0; i < fx->nerec; i++)
        if ((p == NULL || fx->erec[i].pipe == p) && fx->erec[i].event == event)
            n++;
    return n;
}

/* ---- mock loop helpers ---- */
static inline int px_ready_pumps(struct px_fix *fx, struct vmock_pump **out, int max)
{
    return vmock_ready(fx->upump_mgr, out, max);
}

#endif
