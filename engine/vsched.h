/* vsched — stateless, preemption-bounded exploration of real threads over
 * hooked synchronisation points. See DESIGN.md section 2.3. */
#ifndef VSCHED_H
#define VSCHED_H

#include <stdbool.h>
#include <stdint.h>
#include <stddef.h>

#define VS_MAXT 6

enum vs_outcome { VS_DONE = 0, VS_DEADLOCK = 1, VS_HORIZON = 2 };

/* extra point kinds on top of enum upipe_verif_kind (0..6) */
enum { VS_K_FD_READ = 8, VS_K_FD_WRITE = 9, VS_K_LOOP = 10, VS_K_USER = 11, VS_K_START = 12, VS_K_MUTEX = 13 };

typedef void (*vs_fn)(void *);

struct vs_program {
    const char *name;
    int nthreads;
    vs_fn fn[VS_MAXT];
    void *arg[VS_MAXT];
    /* called in the controller before / after each execution */
    void (*setup)(void);
    /* returns 0 if the execution satisfies the property, else 1 with sig/msg
     * filled (each at most 255/1023 chars). outcome is a vs_outcome. */
    int (*check)(int outcome, char *sig, char *msg);
    void (*teardown)(void);
    /* optional: short text describing the observable outcome (for counting
     * distinct outcomes) */
    void (*outcome_str)(char *buf, size_t n);
    /* optional: bytes of the shared state, for state-matching pruning */
    size_t (*state_bytes)(uint8_t *buf, size_t max);
};

struct vs_options {
    int bound;          /* preemption bound */
    int horizon;        /* max scheduling points per execution */
    unsigned kind_mask; /* bit k set: point kind k is a scheduling point */
    double deadline_s;  /* wall-clock cap for this exploration */
    int shard, nshards;
    const char *replay; /* "c0,c1,..." : replay this schedule with tracing */
    bool state_match;   /* prune on revisited (state, budget) keys */
    long long max_execs;
};

struct vs_stats {
    long long executions, points, deadlocks, horizons, violations, pruned, nontrivial;
    int distinct_outcomes;
    int bound_completed; /* -1 if not even bound 0 */
    bool capped;
    long long max_points;
};

/* explore all schedules with at most opt->bound preemptions. Violations are
 * reported with v_viol (deduplicated by signature). Returns number of
 * distinct violation signatures. */
int vs_explore(const struct vs_program *prog, const struct vs_options *opt, struct vs_stats *st);

/* iterative context bounding: bounds 0..opt->bound, each run to completion */
int vs_explore_iter(const struct vs_program *prog, const struct vs_options *opt, struct vs_stats *st);

/* called by harness thread bodies */
int vs_self(void);                                  /* 0..n-1, -1 outside */
void vs_point(int kind, const volatile void *addr); /* explicit scheduling point */
void vs_wait(bool (*pred)(void *), void *arg);      /* block until pred holds */
void vs_yield(void);                                /* spinning: let the others progress first (fairness) */
void vs_atomic_begin(void);                         /* suppress points (nests) */
void vs_atomic_end(void);
/* points whose address lies in an ignored range are not scheduling points */
void vs_ignore_reset(void);
void vs_ignore_range(const volatile void *addr, size_t len);
bool vs_tracing(void);
void vs_trace(const char *fmt, ...);
/* mark that the current execution is non-trivial by the harness' rule */
void vs_mark_nontrivial(void);
/* data choice among n alternatives (0 = default); a deviation costs `cost` */
int vs_choose(int n, int cost);

void vs_default_options(struct vs_options *o);
int vs_parse_args(struct vs_options *o, int argc, char **argv);

#endif
