/* Simulated Linux eventfd(2) (non-semaphore, non-blocking) for vsched
 * harnesses: the harness binary defines eventfd / eventfd_read /
 * eventfd_write / close itself, keeps the counters in its own memory and makes
 * every read and write a scheduling point. Descriptors are >= SIMFD_BASE. */
#define _GNU_SOURCE
#include "simfd.h"
#include "vsched.h"
#include <sys/eventfd.h>
#include <sys/syscall.h>
#include <unistd.h>
#include <errno.h>
#include <string.h>

static struct {
    bool open;
    uint64_t value;
    long reads, writes;
} fds[SIMFD_MAX];
static int nfds;

void simfd_reset(void)
{
    memset(fds, 0, sizeof(fds));
    nfds = 0;
}

int eventfd(unsigned int initval, int flags)
{
    (void)flags;
    if (nfds >= SIMFD_MAX) {
        errno = EMFILE;
        return -1;
    }
    fds[nfds].open = true;
    fds[nfds].value = initval;
    return SIMFD_BASE + nfds++;
}

int eventfd_read(int fd, eventfd_t *value)
{
    int i = fd - SIMFD_BASE;
    if (i < 0 || i >= nfds || !fds[i].open) {
        errno = EBADF;
        return -1;
    }
    vs_point(VS_K_FD_READ, &fds[i].value);
    fds[i].reads++;
    if (fds[i].value == 0) {
        errno = EAGAIN;
        return -1;
    }
    *value = fds[i].value;
    fds[i].value = 0;
    return 0;
}

int eventfd_write(int fd, eventfd_t value)
{
    int i = fd - SIMFD_BASE;
    if (i < 0 || i >= nfds || !fds[i].open) {
        errno = EBADF;
        return -1;
    }
    vs_point(VS_K_FD_WRITE, &fds[i].value);
    fds[i].writes++;
    fds[i].value += value;
    return 0;
}

int close(int fd)
{
    int i = fd - SIMFD_BASE;
    if (i >= 0 && i < SIMFD_MAX) {
        if (i < nfds)
            fds[i].open = false;
        return 0;
    }
    return (int)syscall(SYS_close, fd);
}

bool simfd_readable(int fd)
{
    int i = fd - SIMFD_BASE;
    return i >= 0 && i < nfds && fds[i].open && fds[i].value > 0;
}

uint64_t simfd_value(int fd)
{
    int i = fd - SIMFD_BASE;
    return i >= 0 && i < nfds ? fds[i].value : 0;
}

bool simfd_is(int fd) { return fd >= SIMFD_BASE && fd < SIMFD_BASE + SIMFD_MAX; }
