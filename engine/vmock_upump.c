#include "vmock_upump.h"
#include "simfd.h"
#include <stdlib.h>
#include <string.h>

#define VMOCK_SIGNATURE UBASE_FOURCC('v', 'm', 'o', 'k')

struct vmock_mgr *vmock_mgr_from_upump_mgr(struct upump_mgr *mgr)
{
    return container_of(mgr, struct vmock_mgr, common_mgr.mgr);
}
static struct upump_mgr *vmock_mgr_to_upump_mgr(struct vmock_mgr *m) { return &m->common_mgr.mgr; }
struct vmock_pump *vmock_pump_from_upump(struct upump *upump)
{
    return container_of(upump, struct vmock_pump, common.upump);
}
struct upump *vmock_pump_to_upump(struct vmock_pump *p) { return &p->common.upump; }

/* simfd is optional: harnesses that do not link simfd.c get weak stubs */
__attribute__((weak)) bool simfd_readable(int fd) { (void)fd; return false; }
__attribute__((weak)) bool simfd_is(int fd) { (void)fd; return false; }

static struct upump *vmock_alloc(struct upump_mgr *mgr, int event, va_list args)
{
    struct vmock_mgr *vm = vmock_mgr_from_upump_mgr(mgr);
    if (vm->npumps >= VMOCK_MAXPUMPS)
        return NULL;
    struct vmock_pump *p = upool_alloc(&vm->common_mgr.upump_pool, struct vmock_pump *);
    if (p == NULL)
        return NULL;
    p->fd = -1;
    p->after = p->repeat = 0;
    switch (event) {
    case UPUMP_TYPE_IDLER: break;
    case UPUMP_TYPE_TIMER:
        p->after = va_arg(args, uint64_t);
        p->repeat = va_arg(args, uint64_t);
        break;
    case UPUMP_TYPE_FD_READ:
    case UPUMP_TYPE_FD_WRITE:
        p->fd = va_arg(args, int);
        break;
    case UPUMP_TYPE_SIGNAL:
        p->fd = va_arg(args, int);
        break;
    default:
        upool_free(&vm->common_mgr.upump_pool, p);
        return NULL;
    }
    p->event = event;
    p->active = false;
    p->start_status = true;
    p->dispatches = 0;
    p->id = vm->next_id++;
    vm->pumps[vm->npumps++] = p;
    upump_common_init(vmock_pump_to_upump(p));
    return vmock_pump_to_upump(p);
}

static void vmock_real_start(struct upump *upump, bool status)
{
    struct vmock_pump *p = vmock_pump_from_upump(upump);
    struct vmock_mgr *vm = vmock_mgr_from_upump_mgr(upump->mgr);
    vm->real_starts++;
    if (p->active)
        vm->err_start_while_active++;
    p->active = true;
    p->start_status = status;
}

static void vmock_real_stop(struct upump *upump, bool status)
{
    struct vmock_pump *p = vmock_pump_from_upump(upump);
    struct vmock_mgr *vm = vmock_mgr_from_upump_mgr(upump->mgr);
    vm->real_stops++;
    if (!p->active)
        vm->err_stop_while_inactive++;
    else if (p->start_status != status)
        vm->err_status_mismatch++; /* libev: ev_ref/ev_unref would not pair */
    p->active = false;
}

static void vmock_real_restart(struct upump *upump, bool status)
{
    struct vmock_pump *p = vmock_pump_from_upump(upump);
    struct vmock_mgr *vm = vmock_mgr_from_upump_mgr(upump->mgr);
    vm->real_restarts++;
    if (p->event == UPUMP_TYPE_TIMER) {
        if (!p->active)
            p->start_status = status;
        p->active = true;
    }
}

static void vmock_free(struct upump *upump)
{
    struct vmock_mgr *vm = vmock_mgr_from_upump_mgr(upump->mgr);
    struct vmock_pump *p = vmock_pump_from_upump(upump);
    upump_stop(upump);
    upump_common_clean(upump);
    for (int i = 0; i < vm->npumps; i++)
        if (vm->pumps[i] == p) {
            vm->pumps[i] = vm->pumps[--vm->npumps];
            break;
        }
    upool_free(&vm->common_mgr.upump_pool, p);
}

static void *vmock_alloc_inner(struct upool *upool)
{
    struct upump_common_mgr *common_mgr = upump_common_mgr_from_upump_pool(upool);
    struct vmock_pump *p = malloc(sizeof(*p));
    if (p == NULL)
        return NULL;
    vmock_pump_to_upump(p)->mgr = upump_common_mgr_to_upump_mgr(common_mgr);
    return p;
}
static void vmock_free_inner(struct upool *upool, void *p)
{
    (void)upool;
    free(p);
}

static int vmock_control(struct upump *upump, int command, va_list args)
{
    switch (command) {
    case UPUMP_START: upump_common_start(upump); return UBASE_ERR_NONE;
    case UPUMP_RESTART: upump_common_restart(upump); return UBASE_ERR_NONE;
    case UPUMP_STOP: upump_common_stop(upump); return UBASE_ERR_NONE;
    case UPUMP_FREE: vmock_free(upump); return UBASE_ERR_NONE;
    case UPUMP_GET_STATUS: {
        int *status_p = va_arg(args, int *);
        upump_common_get_status(upump, status_p);
        return UBASE_ERR_NONE;
    }
    case UPUMP_SET_STATUS: {
        int status = va_arg(args, int);
        upump_common_set_status(upump, status);
        return UBASE_ERR_NONE;
    }
    case UPUMP_ALLOC_BLOCKER: {
        struct upump_blocker **p = va_arg(args, struct upump_blocker **);
        *p = upump_common_blocker_alloc(upump);
        return UBASE_ERR_NONE;
    }
    case UPUMP_FREE_BLOCKER: {
        struct upump_blocker *blocker = va_arg(args, struct upump_blocker *);
        upump_common_blocker_free(blocker);
        return UBASE_ERR_NONE;
    }
    default: return UBASE_ERR_UNHANDLED;
    }
}

int vmock_ready(struct upump_mgr *mgr, struct vmock_pump **out, int max)
{
    struct vmock_mgr *vm = vmock_mgr_from_upump_mgr(mgr);
    int n = 0;
    /* deterministic order: by allocation id */
    for (int id = 0; id < vm->next_id && n < max; id++)
        for (int i = 0; i < vm->npumps; i++) {
            struct vmock_pump *p = vm->pumps[i];
            if (p->id != id || !p->active)
                continue;
            bool ready = false;
            switch (p->event) {
            case UPUMP_TYPE_IDLER:
            case UPUMP_TYPE_TIMER: ready = true; break;
            case UPUMP_TYPE_FD_READ: ready = simfd_is(p->fd) ? simfd_readable(p->fd) : false; break;
            case UPUMP_TYPE_FD_WRITE: ready = true; break;
            default: break;
            }
            if (ready)
                out[n++] = p;
        }
    return n;
}

int vmock_alive(struct upump_mgr *mgr)
{
    struct vmock_mgr *vm = vmock_mgr_from_upump_mgr(mgr);
    int n = 0;
    for (int i = 0; i < vm->npumps; i++)
        if (vm->pumps[i]->active && vm->pumps[i]->start_status)
            n++;
    return n;
}

void vmock_dispatch(struct vmock_pump *p)
{
    struct upump *upump = vmock_pump_to_upump(p);
    struct vmock_mgr *vm = vmock_mgr_from_upump_mgr(upump->mgr);
    if (!p->active)
        vm->err_dispatch_inactive++;
    p->dispatches++;
    upump_common_dispatch(upump);
}

static int vmock_mgr_control(struct upump_mgr *mgr, int command, va_list args)
{
    (void)args;
    switch (command) {
    case UPUMP_MGR_RUN: {
        /* default policy: dispatch the first ready pump until nothing is alive or ready */
        struct vmock_pump *r[VMOCK_MAXPUMPS];
        int budget = 100000;
        while (vmock_alive(mgr) > 0 && budget-- > 0) {
            int n = vmock_ready(mgr, r, VMOCK_MAXPUMPS);
            if (n == 0)
                return UBASE_ERR_BUSY;
            vmock_dispatch(r[0]);
        }
        return UBASE_ERR_NONE;
    }
    case UPUMP_MGR_VACUUM: upump_common_mgr_vacuum(mgr); return UBASE_ERR_NONE;
    default: return UBASE_ERR_UNHANDLED;
    }
}

static void vmock_mgr_free(struct urefcount *urefcount)
{
    struct vmock_mgr *vm = container_of(urefcount, struct vmock_mgr, urefcount);
    upump_common_mgr_clean(vmock_mgr_to_upump_mgr(vm));
    vm->dead = true;
    /* the structure itself is kept for post-mortem inspection by the harness
     * (vmock_mgr_destroy releases it) */
}

struct upump_mgr *vmock_mgr_alloc(uint16_t pump_pool, uint16_t blocker_pool)
{
    struct vmock_mgr *vm = calloc(1, sizeof(*vm) + upump_common_mgr_sizeof(pump_pool, blocker_pool));
    if (vm == NULL)
        return NULL;
    struct upump_mgr *mgr = vmock_mgr_to_upump_mgr(vm);
    mgr->signature = VMOCK_SIGNATURE;
    urefcount_init(&vm->urefcount, vmock_mgr_free);
    mgr->refcount = &vm->urefcount;
    mgr->upump_alloc = vmock_alloc;
    mgr->upump_control = vmock_control;
    mgr->upump_mgr_control = vmock_mgr_control;
    upump_common_mgr_init(mgr, pump_pool, blocker_pool, vm->upool_extra, vmock_real_start, vmock_real_stop,
                          vmock_real_restart, vmock_alloc_inner, vmock_free_inner);
    return mgr;
}
