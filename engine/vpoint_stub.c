/* default (weak) scheduling-point hook: harnesses that do not use vsched get a no-op */
__attribute__((weak)) void upipe_verif_point(int kind, const volatile void *addr)
{
    (void)kind;
    (void)addr;
}
