/* default (weak) scheduling-point hook: harnesses that do not use vsched get a no-op */
__attribute__((weak)) void upipe_verif_point(int kind, const volatile void *addr)
{
    (void)kind;
    (void)addr;
}
/* harnesses that link simfd.c without vsched: descriptor operations are plain calls */
__attribute__((weak)) void vs_point(int kind, const volatile void *addr)
{
    (void)kind;
    (void)addr;
}
