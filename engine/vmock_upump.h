/* upump_vmock — a upump manager built on the real lib/upipe/upump_common.c
 * exactly like upump_ev.c is, whose back-end is a table instead of libev.
 * Which ready pump is dispatched next is decided by the harness. */
#ifndef VMOCK_UPUMP_H
#define VMOCK_UPUMP_H
#include "upipe/ubase.h"
#include "upipe/upump.h"
#include "upipe/upump_common.h"

#define VMOCK_MAXPUMPS 64

struct vmock_pump {
    int event;          /* enum upump_type */
    int fd;
    uint64_t after, repeat;
    bool active;        /* back-end state: between real_start and real_stop */
    bool start_status;  /* status passed to the last real_start */
    long dispatches;
    int id;             /* allocation order */
    struct upump_common common;
};

struct vmock_mgr {
    struct urefcount urefcount;
    struct vmock_pump *pumps[VMOCK_MAXPUMPS];
    int npumps;
    int next_id;
    /* protocol errors observed on the back-end interface */
    int err_start_while_active, err_stop_while_inactive, err_status_mismatch, err_dispatch_inactive;
    long real_starts, real_stops, real_restarts;
    bool dead;
    struct upump_common_mgr common_mgr;
    uint8_t upool_extra[];
};

struct upump_mgr *vmock_mgr_alloc(uint16_t pump_pool, uint16_t blocker_pool);
struct vmock_mgr *vmock_mgr_from_upump_mgr(struct upump_mgr *mgr);
struct vmock_pump *vmock_pump_from_upump(struct upump *upump);
struct upump *vmock_pump_to_upump(struct vmock_pump *p);
/* pumps that the loop could dispatch now: active, and idler / timer /
 * readable simulated descriptor / writable descriptor. Returns count. */
int vmock_ready(struct upump_mgr *mgr, struct vmock_pump **out, int max);
/* dispatch one pump (the loop calling its callback) */
void vmock_dispatch(struct vmock_pump *p);
/* number of active pumps with status true (what keeps ev_run alive) */
int vmock_alive(struct upump_mgr *mgr);
#endif
