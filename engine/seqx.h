/* seqx — explicit-state breadth-first search over operation sequences executed
 * on real objects. A state is the op history that reaches it; objects are
 * rebuilt by replaying the history on a fresh instance (they cannot be
 * copied). States are deduplicated by a canonical serialisation supplied by
 * the harness (hidden caches included).  Header-only; include once.
 */
#ifndef SEQX_H
#define SEQX_H

#include "vcommon.h"

enum { SEQX_OK = 0, SEQX_DISABLED = 1, SEQX_VIOL = 2 };

struct seqx_spec {
    const char *name;
    int nops;
    /* fresh managers + object + model */
    void *(*init)(void);
    /* apply op to implementation and model; when check is false (prefix
     * replay) the expensive oracle sweep may be skipped but the op itself
     * must behave identically. On SEQX_VIOL fill seqx_sig / seqx_msg. */
    int (*apply)(void *st, int op, bool check);
    void (*canon)(void *st, struct vbuf *out);
    void (*fini)(void *st);
    void (*opstr)(int op, char *buf, size_t n);
    /* optional: is this (new, distinct) state non-trivial by the harness' rule */
    bool (*nontrivial)(void *st);
    /* optional: end-of-history oracle run at fini time (after teardown) */
    int (*final_check)(void *st);
    /* optional: cheap pre-check; a replayed prefix state is reused across
     * ops it reports disabled (apply must then never return SEQX_DISABLED
     * after having touched the object) */
    bool (*enabled)(void *st, int op);
    /* optional: oracle sweep run once on every new distinct state (its outcome must be a function of the
     * canonical state); must leave the state as it found it. SEQX_VIOL is reported against the history. */
    int (*sweep)(void *st);
};

static char seqx_sig[256];
static char seqx_msg[1024];

/* optional start state: ops applied after init() on every fresh object
 * (--prefix a,b,c); lets a job explore from a non-initial state */
static int seqx_prefix[32], seqx_nprefix;
/* --shard i/n: at depth 1 only first ops with index % n == i are expanded */
static int seqx_shard, seqx_nshards = 1;
static void *seqx_fresh(const struct seqx_spec *spec)
{
    void *st = spec->init();
    for (int i = 0; i < seqx_nprefix; i++)
        if (spec->apply(st, seqx_prefix[i], false) != SEQX_OK) {
            fprintf(stderr, "seqx: start-state prefix op %d not applicable\n", i);
            exit(3);
        }
    return st;
}

#define SEQX_FAIL(sig_, ...)                                                   \
    do {                                                                       \
        snprintf(seqx_sig, sizeof(seqx_sig), "%s", sig_);                      \
        snprintf(seqx_msg, sizeof(seqx_msg), __VA_ARGS__);                     \
        return SEQX_VIOL;                                                      \
    } while (0)

struct seqx_node {
    int parent;
    int op;
    int depth;
};

struct seqx_run {
    const struct seqx_spec *spec;
    struct seqx_node *nodes;
    size_t nnodes, capnodes;
    struct vset seen;
    long long transitions, disabled, replays, nontrivial, dup;
    int nviol;
    char viol_sigs[64][256];
};

static int seqx_hist(struct seqx_run *r, int node, int *out, int max)
{
    int d = r->nodes[node].depth;
    if (d > max)
        abort();
    for (int i = d - 1, n = node; i >= 0; i--, n = r->nodes[n].parent)
        out[i] = r->nodes[n].op;
    return d;
}

static void seqx_hist_str(const struct seqx_spec *spec, const int *h, int n,
                          char *out, size_t outn, bool names)
{
    size_t o = 0;
    out[0] = 0;
    for (int i = 0; i < n && o + 64 < outn; i++) {
        if (names) {
            char b[128];
            spec->opstr(h[i], b, sizeof(b));
            o += snprintf(out + o, outn - o, "%s%s", i ? ";" : "", b);
        } else
            o += snprintf(out + o, outn - o, "%s%d", i ? "," : "", h[i]);
    }
}

static int seqx_parse_hist(const char *s, int *out, int max)
{
    int n = 0;
    while (*s && n < max) {
        out[n++] = (int)strtol(s, (char **)&s, 10);
        if (*s == ',')
            s++;
    }
    return n;
}

/* replays a history verbosely, returns SEQX_* of the last op */
static int seqx_replay(const struct seqx_spec *spec, const int *h, int n)
{
    void *st = seqx_fresh(spec);
    int r = SEQX_OK;
    for (int i = 0; i < n; i++) {
        char b[128];
        spec->opstr(h[i], b, sizeof(b));
        r = spec->apply(st, h[i], true);
        printf("step %d op=%d %s -> %s\n", i, h[i], b,
               r == SEQX_OK ? "ok" : r == SEQX_DISABLED ? "disabled" : "VIOLATION");
        if (r == SEQX_VIOL) {
            printf("  sig=%s\n  %s\n", seqx_sig, seqx_msg);
            break;
        }
        if (r == SEQX_DISABLED)
            break;
    }
    if (r == SEQX_OK && spec->final_check) {
        r = spec->final_check(st);
        if (r == SEQX_VIOL)
            printf("final check: VIOLATION sig=%s\n  %s\n", seqx_sig, seqx_msg);
        st = NULL;
    }
    if (st && spec->fini)
        spec->fini(st);
    return r;
}

static void seqx_report_viol(struct seqx_run *r, const int *h, int n)
{
    for (int i = 0; i < r->nviol; i++)
        if (!strcmp(r->viol_sigs[i], seqx_sig))
            return;
    if (r->nviol < 64)
        snprintf(r->viol_sigs[r->nviol++], 256, "%s", seqx_sig);
    char hs[2048], hn[4096];
    seqx_hist_str(r->spec, h, n, hs, sizeof(hs), false);
    seqx_hist_str(r->spec, h, n, hn, sizeof(hn), true);
    v_viol(seqx_sig, hs, "%s | history: %s", seqx_msg, hn);
}

/* Returns 0. Prints STAT/SAMPLE/VIOL lines. */
static int seqx_explore(const struct seqx_spec *spec, int maxdepth,
                        double deadline_s, long long max_states)
{
    struct seqx_run r;
    memset(&r, 0, sizeof(r));
    r.spec = spec;
    vset_init(&r.seen);
    r.capnodes = 1 << 16;
    r.nodes = malloc(r.capnodes * sizeof(*r.nodes));
    double t0 = v_now();
    struct vbuf cb = {0};
    int hist[128];
    char hs[4096];

    /* root */
    void *st = seqx_fresh(spec);
    vbuf_reset(&cb);
    spec->canon(st, &cb);
    vset_add(&r.seen, vhash_bytes(cb.p, cb.n));
    if (spec->final_check) {
        if (spec->final_check(st) == SEQX_VIOL)
            seqx_report_viol(&r, hist, 0);
    } else if (spec->fini)
        spec->fini(st);
    r.nodes[0] = (struct seqx_node){-1, -1, 0};
    r.nnodes = 1;

    size_t level_begin = 0, level_end = 1;
    int depth_done = 0;
    bool capped = false, closure = false;
    int nsamples = 0;
    for (int depth = 1; depth <= maxdepth && !capped; depth++) {
        for (size_t ni = level_begin; ni < level_end && !capped; ni++) {
            int n = seqx_hist(&r, (int)ni, hist, 120);
            void *cached = NULL;
            for (int op = 0; op <= spec->nops; op++) {
                if (op == spec->nops)
                    break;
                if (depth == 1 && seqx_nshards > 1 && op % seqx_nshards != seqx_shard)
                    continue;
                if (v_now() - t0 > deadline_s ||
                    (max_states > 0 && (long long)r.seen.n > max_states)) {
                    capped = true;
                    break;
                }
                hist[n] = op;
                if (v_crash_fd >= 0) {
                    seqx_hist_str(spec, hist, n + 1, hs, sizeof(hs), false);
                    v_crash_note(hs);
                }
                int res = SEQX_OK;
                if (cached != NULL) {
                    st = cached;
                    cached = NULL;
                    goto have_prefix;
                }
                st = seqx_fresh(spec);
                for (int i = 0; i < n; i++) {
                    res = spec->apply(st, hist[i], false);
                    if (res != SEQX_OK) {
                        snprintf(seqx_sig, sizeof(seqx_sig),
                                 "engine:nondeterministic-replay");
                        snprintf(seqx_msg, sizeof(seqx_msg),
                                 "prefix op %d gave %d on replay", i, res);
                        seqx_report_viol(&r, hist, n + 1);
                        break;
                    }
                }
                r.replays++;
                if (res != SEQX_OK) {
                    if (spec->fini)
                        spec->fini(st);
                    continue;
                }
            have_prefix:
                if (spec->enabled != NULL && !spec->enabled(st, op)) {
                    r.disabled++;
                    cached = st;
                    continue;
                }
                res = spec->apply(st, op, true);
                if (res == SEQX_DISABLED) {
                    r.disabled++;
                    if (spec->fini)
                        spec->fini(st);
                    continue;
                }
                r.transitions++;
                if (res == SEQX_VIOL) {
                    seqx_report_viol(&r, hist, n + 1);
                    if (spec->fini)
                        spec->fini(st);
                    continue;
                }
                vbuf_reset(&cb);
                spec->canon(st, &cb);
                bool fresh = vset_add(&r.seen, vhash_bytes(cb.p, cb.n));
                if (fresh) {
                    if (r.nnodes == r.capnodes) {
                        r.capnodes *= 2;
                        r.nodes = realloc(r.nodes, r.capnodes * sizeof(*r.nodes));
                    }
                    r.nodes[r.nnodes++] =
                        (struct seqx_node){(int)ni, op, depth};
                    if (spec->nontrivial == NULL || spec->nontrivial(st))
                        r.nontrivial++;
                    if (spec->sweep && spec->sweep(st) == SEQX_VIOL)
                        seqx_report_viol(&r, hist, n + 1);
                    if (nsamples < 3 && depth == maxdepth) {
                        seqx_hist_str(spec, hist, n + 1, hs, sizeof(hs), true);
                        v_sample("%s", hs);
                        nsamples++;
                    }
                } else
                    r.dup++;
                if (spec->final_check) {
                    if (spec->final_check(st) == SEQX_VIOL)
                        seqx_report_viol(&r, hist, n + 1);
                } else if (spec->fini)
                    spec->fini(st);
            }
            if (cached != NULL) {
                if (spec->final_check)
                    spec->final_check(cached);
                else if (spec->fini)
                    spec->fini(cached);
                cached = NULL;
            }
        }
        if (!capped) {
            depth_done = depth;
            level_begin = level_end;
            level_end = r.nnodes;
            if (level_begin == level_end) {
                closure = true;
                break;
            }
        }
    }
    if (nsamples == 0 && r.nnodes > 1) {
        int n = seqx_hist(&r, (int)r.nnodes - 1, hist, 120);
        seqx_hist_str(spec, hist, n, hs, sizeof(hs), true);
        v_sample("%s", hs);
    }
    v_stat("states", (long long)r.seen.n);
    v_stat("transitions", r.transitions);
    v_stat("executions", r.replays);
    v_stat("disabled", r.disabled);
    v_stat("nontrivial", r.nontrivial);
    v_stat("max_depth_completed", depth_done);
    v_stat("min_closure", closure ? 1 : 0);
    v_stat("violations", r.nviol);
    if (capped)
        v_incomplete("%s: cap hit (deadline %.0fs / max_states %lld) at depth %d; "
                     "depth %d fully explored",
                     spec->name, deadline_s, max_states, depth_done + 1,
                     depth_done);
    vset_free(&r.seen);
    free(r.nodes);
    vbuf_free(&cb);
    return 0;
}

/* Standard main: --depth N --deadline S --max-states N --replay a,b,c */
static int seqx_main(const struct seqx_spec *spec, int argc, char **argv,
                     int default_depth)
{
    int depth = default_depth;
    double deadline = 80;
    long long max_states = 0;
    const char *replay = NULL;
    for (int i = 1; i < argc; i++) {
        if (!strcmp(argv[i], "--depth") && i + 1 < argc)
            depth = atoi(argv[++i]);
        else if (!strcmp(argv[i], "--deadline") && i + 1 < argc)
            deadline = atof(argv[++i]);
        else if (!strcmp(argv[i], "--max-states") && i + 1 < argc)
            max_states = atoll(argv[++i]);
        else if (!strcmp(argv[i], "--replay") && i + 1 < argc)
            replay = argv[++i];
        else if (!strcmp(argv[i], "--shard") && i + 1 < argc)
            sscanf(argv[++i], "%d/%d", &seqx_shard, &seqx_nshards);
        else if (!strcmp(argv[i], "--prefix") && i + 1 < argc)
            seqx_nprefix = seqx_parse_hist(argv[++i], seqx_prefix, 32);
    }
    setvbuf(stdout, NULL, _IOLBF, 0);
    if (replay) {
        int h[128];
        int n = seqx_parse_hist(replay, h, 128);
        int r1 = seqx_replay(spec, h, n);
        return r1 == SEQX_VIOL ? 1 : 0;
    }
    v_crash_open();
    return seqx_explore(spec, depth, deadline, max_states);
}

#endif
