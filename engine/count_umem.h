/* Counting umem manager with guard zones and a live table (double free,
 * unknown free, leak, overrun). Header-only; one instance per harness state. */
#ifndef COUNT_UMEM_H
#define COUNT_UMEM_H

#include "upipe/ubase.h"
#include "upipe/urefcount.h"
#include "upipe/umem.h"
#include <stdlib.h>
#include <string.h>
#include <stdio.h>

#define CU_GUARD 16
#define CU_MAXLIVE 256

struct cumem_mgr {
    struct urefcount urefcount;
    struct umem_mgr mgr;
    struct {
        uint8_t *buf;
        size_t size;
    } live[CU_MAXLIVE];
    int nlive;
    long allocs, frees, reallocs;
    int double_free, unknown_free, overrun;
    bool dead; /* manager refcount reached 0 */
    int fail_in; /* fault injection: the fail_in-th next allocation / reallocation is refused (0: never) */
    int faults;  /* refusals so far */
    char err[200];
    /* optional hook called just before an area is released */
    void (*on_free)(struct cumem_mgr *, uint8_t *buf, size_t size);
    void *opaque;
};

UBASE_FROM_TO(cumem_mgr, umem_mgr, umem_mgr, mgr)
UBASE_FROM_TO(cumem_mgr, urefcount, urefcount, urefcount)

static inline void cumem_fill_guards(uint8_t *raw, size_t size)
{
    memset(raw, 0xA7, CU_GUARD);
    memset(raw + CU_GUARD + size, 0xA7, CU_GUARD);
}

static inline bool cumem_check_guards(uint8_t *buf, size_t size)
{
    for (int i = 0; i < CU_GUARD; i++)
        if (buf[-1 - i] != 0xA7 || buf[size + i] != 0xA7)
            return false;
    return true;
}

static inline int cumem_find(struct cumem_mgr *c, uint8_t *buf)
{
    for (int i = 0; i < c->nlive; i++)
        if (c->live[i].buf == buf)
            return i;
    return -1;
}

static bool cumem_alloc(struct umem_mgr *mgr, struct umem *umem, size_t size)
{
    struct cumem_mgr *c = cumem_mgr_from_umem_mgr(mgr);
    if (c->nlive >= CU_MAXLIVE)
        return false;
    if (c->fail_in > 0 && --c->fail_in == 0) {
        c->faults++;
        return false;
    }
    uint8_t *raw = malloc(size + 2 * CU_GUARD);
    if (raw == NULL)
        return false;
    cumem_fill_guards(raw, size);
    memset(raw + CU_GUARD, 0xCD, size);
    umem->mgr = mgr;
    umem->buffer = raw + CU_GUARD;
    umem->size = size;
    umem->real_size = size;
    c->live[c->nlive].buf = umem->buffer;
    c->live[c->nlive].size = size;
    c->nlive++;
    c->allocs++;
    return true;
}

static bool cumem_realloc(struct umem *umem, size_t new_size)
{
    struct cumem_mgr *c = cumem_mgr_from_umem_mgr(umem->mgr);
    int i = cumem_find(c, umem->buffer);
    if (i < 0) {
        c->unknown_free++;
        snprintf(c->err, sizeof(c->err), "realloc of an area that is not live");
        return false;
    }
    if (!cumem_check_guards(umem->buffer, c->live[i].size)) {
        c->overrun++;
        snprintf(c->err, sizeof(c->err), "guard zone of a %zu-octet area overwritten (seen at realloc)", c->live[i].size);
    }
    if (c->fail_in > 0 && --c->fail_in == 0) {
        c->faults++;
        return false;
    }
    uint8_t *raw = malloc(new_size + 2 * CU_GUARD);
    if (raw == NULL)
        return false;
    cumem_fill_guards(raw, new_size);
    memset(raw + CU_GUARD, 0xCD, new_size);
    memcpy(raw + CU_GUARD, umem->buffer, new_size < c->live[i].size ? new_size : c->live[i].size);
    free(umem->buffer - CU_GUARD);
    umem->buffer = raw + CU_GUARD;
    umem->size = umem->real_size = new_size;
    c->live[i].buf = umem->buffer;
    c->live[i].size = new_size;
    c->reallocs++;
    return true;
}

static void cumem_free(struct umem *umem)
{
    struct cumem_mgr *c = cumem_mgr_from_umem_mgr(umem->mgr);
    int i = cumem_find(c, umem->buffer);
    if (i < 0) {
        if (umem->buffer != NULL) {
            c->double_free++;
            snprintf(c->err, sizeof(c->err), "free of an area that is not live (double or unknown free)");
        }
        return;
    }
    if (!cumem_check_guards(umem->buffer, c->live[i].size)) {
        c->overrun++;
        snprintf(c->err, sizeof(c->err), "guard zone of a %zu-octet area overwritten (seen at free)", c->live[i].size);
    }
    if (c->on_free)
        c->on_free(c, umem->buffer, c->live[i].size);
    free(umem->buffer - CU_GUARD);
    c->live[i] = c->live[--c->nlive];
    c->frees++;
    umem->buffer = NULL;
    umem->mgr = NULL;
}

static void cumem_mgr_dead(struct urefcount *r)
{
    struct cumem_mgr *c = cumem_mgr_from_urefcount(r);
    c->dead = true;
}

static inline struct umem_mgr *cumem_mgr_init(struct cumem_mgr *c)
{
    memset(c, 0, sizeof(*c));
    urefcount_init(&c->urefcount, cumem_mgr_dead);
    c->mgr.refcount = &c->urefcount;
    c->mgr.umem_alloc = cumem_alloc;
    c->mgr.umem_realloc = cumem_realloc;
    c->mgr.umem_free = cumem_free;
    c->mgr.umem_mgr_vacuum = NULL;
    return &c->mgr;
}

/* number of references held on the manager (1 = only the creator) */
static inline uint32_t cumem_refs(struct cumem_mgr *c)
{
    return uatomic_load(&c->urefcount.refcount);
}

#endif
