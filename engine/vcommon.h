/* Common helpers for all /verif harnesses: line protocol to the driver, byte
 * buffers, 128-bit hashing, hash set, crash file.
 *
 * Line protocol on stdout (parsed by /verif/check):
 *   STAT <name> <integer>          counters, summed over jobs (name prefixed max_ → max)
 *   SAMPLE <text>                  an explored case written out
 *   VIOL sig=<sig> replay=<hist> msg=<free text>
 *   INCOMPLETE <reason>            a cap was hit: evidence says exhaustive:false
 *   NOTE <text>
 */
#ifndef VCOMMON_H
#define VCOMMON_H

#include <stdint.h>
#include <stdbool.h>
#include <stdio.h>
#include <stdlib.h>
#include <string.h>
#include <stdarg.h>
#include <unistd.h>
#include <fcntl.h>
#include <time.h>

static inline double v_now(void)
{
    struct timespec ts;
    clock_gettime(CLOCK_MONOTONIC, &ts);
    return ts.tv_sec + ts.tv_nsec * 1e-9;
}

static inline void v_stat(const char *name, long long v)
{
    printf("STAT %s %lld\n", name, v);
}

static inline void v_note(const char *fmt, ...)
{
    va_list ap;
    va_start(ap, fmt);
    printf("NOTE ");
    vprintf(fmt, ap);
    printf("\n");
    va_end(ap);
}

static inline void v_sample(const char *fmt, ...)
{
    va_list ap;
    va_start(ap, fmt);
    printf("SAMPLE ");
    vprintf(fmt, ap);
    printf("\n");
    va_end(ap);
}

static inline void v_incomplete(const char *fmt, ...)
{
    va_list ap;
    va_start(ap, fmt);
    printf("INCOMPLETE ");
    vprintf(fmt, ap);
    printf("\n");
    va_end(ap);
}

/* sig and replay must not contain spaces */
static inline void v_viol(const char *sig, const char *replay, const char *fmt,
                          ...)
{
    va_list ap;
    va_start(ap, fmt);
    printf("VIOL sig=%s replay=%s msg=", sig, replay);
    vprintf(fmt, ap);
    printf("\n");
    va_end(ap);
    fflush(stdout);
}

/* ---- crash file: the case about to be executed, for post-mortem ---- */
static int v_crash_fd = -1;
static inline void v_crash_open(void)
{
    const char *p = getenv("VERIF_CRASHFILE");
    if (p != NULL)
        v_crash_fd = open(p, O_WRONLY | O_CREAT | O_TRUNC, 0644);
}
static inline void v_crash_note(const char *s)
{
    if (v_crash_fd < 0)
        return;
    char buf[4096];
    size_t n = strlen(s);
    if (n > sizeof(buf) - 2)
        n = sizeof(buf) - 2;
    memcpy(buf, s, n);
    buf[n] = '\n';
    /* fixed-size record so that a shorter note overwrites a longer one */
    memset(buf + n + 1, ' ', sizeof(buf) - n - 1);
    if (pwrite(v_crash_fd, buf, sizeof(buf), 0) < 0) {
    }
}

/* ---- watchdog: a transition that does not return within the limit ends the
 * process with exit code 77; the crash file names the case (the driver then
 * reports it as a hang of that case) ---- */
#include <signal.h>
#include <sys/time.h>
static inline void v_watchdog_fire(int sig)
{
    (void)sig;
    static const char m[] = "WATCHDOG: the current transition did not return in time\n";
    if (write(2, m, sizeof(m) - 1) < 0) {
    }
    _exit(77);
}
static inline void v_watchdog(double seconds)
{
    struct itimerval it = {{0, 0}, {(long)seconds, (long)((seconds - (long)seconds) * 1e6)}};
    signal(SIGALRM, v_watchdog_fire);
    setitimer(ITIMER_REAL, &it, NULL);
}

/* ---- byte buffer ---- */
struct vbuf {
    uint8_t *p;
    size_t n, cap;
};
static inline void vbuf_reset(struct vbuf *b) { b->n = 0; }
static inline void vbuf_put(struct vbuf *b, const void *d, size_t n)
{
    if (b->n + n > b->cap) {
        b->cap = (b->n + n) * 2 + 64;
        b->p = realloc(b->p, b->cap);
        if (!b->p)
            abort();
    }
    if (n)
        memcpy(b->p + b->n, d, n);
    b->n += n;
}
static inline void vbuf_u8(struct vbuf *b, uint8_t v) { vbuf_put(b, &v, 1); }
static inline void vbuf_u32(struct vbuf *b, uint32_t v) { vbuf_put(b, &v, 4); }
static inline void vbuf_u64(struct vbuf *b, uint64_t v) { vbuf_put(b, &v, 8); }
static inline void vbuf_free(struct vbuf *b)
{
    free(b->p);
    b->p = NULL;
    b->n = b->cap = 0;
}

/* ---- 128-bit hash (two independent 64-bit multiplicative hashes) ---- */
struct vhash {
    uint64_t a, b;
};
static inline struct vhash vhash_bytes(const void *d, size_t n)
{
    const uint8_t *p = d;
    uint64_t a = 0xcbf29ce484222325ULL, b = 0x9e3779b97f4a7c15ULL;
    for (size_t i = 0; i < n; i++) {
        a = (a ^ p[i]) * 0x100000001b3ULL;
        b = (b + p[i] + 1) * 0xff51afd7ed558ccdULL;
        b ^= b >> 29;
    }
    a ^= n;
    b ^= (uint64_t)n << 32;
    return (struct vhash){a, b};
}

/* ---- open-addressing set of 128-bit keys ---- */
struct vset {
    struct vhash *t;
    size_t cap, n;
};
static inline void vset_init(struct vset *s)
{
    s->cap = 1 << 16;
    s->n = 0;
    s->t = calloc(s->cap, sizeof(*s->t));
}
static inline bool vset_add_raw(struct vset *s, struct vhash h)
{
    if (h.a == 0 && h.b == 0)
        h.b = 1;
    size_t i = (h.a ^ (h.b >> 7)) & (s->cap - 1);
    while (s->t[i].a || s->t[i].b) {
        if (s->t[i].a == h.a && s->t[i].b == h.b)
            return false;
        i = (i + 1) & (s->cap - 1);
    }
    s->t[i] = h;
    s->n++;
    return true;
}
/* returns true if newly inserted */
static inline bool vset_add(struct vset *s, struct vhash h)
{
    if ((s->n + 1) * 10 > s->cap * 6) {
        struct vset n2 = {calloc(s->cap * 2, sizeof(*s->t)), s->cap * 2, 0};
        if (!n2.t)
            abort();
        for (size_t i = 0; i < s->cap; i++)
            if (s->t[i].a || s->t[i].b)
                vset_add_raw(&n2, s->t[i]);
        free(s->t);
        *s = n2;
    }
    return vset_add_raw(s, h);
}
static inline void vset_free(struct vset *s)
{
    free(s->t);
    s->t = NULL;
}

#endif
