#ifndef SIMFD_H
#define SIMFD_H
#include <stdbool.h>
#include <stdint.h>
#define SIMFD_BASE 10000
#define SIMFD_MAX 64
void simfd_reset(void);
bool simfd_readable(int fd);
uint64_t simfd_value(int fd);
bool simfd_is(int fd);
#endif
