/* vsched — see vsched.h / DESIGN.md 2.3. This translation unit is compiled
 * WITHOUT sanitizer instrumentation (hand-off must be invisible to TSan). */
#define _GNU_SOURCE
#include "vsched.h"
#include "vcommon.h"

#include <ucontext.h>
#include <errno.h>

/* Threads of the program under test are coroutines (ucontext) multiplexed on
 * the controller's OS thread: exactly one runs at a time by construction, a
 * context switch costs ~0.3 us, and an aborted execution (deadlock, horizon)
 * is simply abandoned. AddressSanitizer is told about every stack switch. */
void __sanitizer_start_switch_fiber(void **fake_stack_save, const void *bottom, size_t size) __attribute__((weak));
void __sanitizer_finish_switch_fiber(void *fake_stack_save, const void **bottom_old, size_t *size_old) __attribute__((weak));
void __asan_unpoison_memory_region(void const volatile *addr, size_t size) __attribute__((weak));

enum { T_IDLE, T_NEW, T_RUN, T_BLOCK, T_DONE };
#define VS_STACK (256 * 1024)

struct vthread {
    int id;
    int state;
    bool (*pred)(void *);
    void *pred_arg;
    int suppress;
    ucontext_t ctx;
    void *stack;
    void *fake; /* ASan fake-stack handle while switched out */
};

static struct vthread th[VS_MAXT];
static bool g_crash_tried;
static ucontext_t g_main_ctx;
static void *g_main_fake;
static const void *g_main_bottom;
static size_t g_main_size;
static const struct vs_program *g_prog;
static struct vs_options g_opt;
static int g_abort;
static int g_cur = -1;

/* trace of the current execution */
static int *g_choice, *g_nen;
static uint8_t *g_cost; /* cost of deviating at this point */
static int g_np, g_cap;
static long long g_allpoints;
static long long g_exec_points;
static const int *g_prefix;
static int g_prefix_len;
static bool g_trace;
static bool g_nontrivial;
static const char *kind_names[] = {"load", "store", "cas", "fetch_add", "fetch_sub", "plain_read",
                                   "plain_write", "?", "fd_read", "fd_write", "loop", "user", "start", "mutex"};

int vs_self(void) { return g_cur; }
bool vs_tracing(void) { return g_trace; }
void vs_mark_nontrivial(void) { g_nontrivial = true; }

void vs_trace(const char *fmt, ...)
{
    if (!g_trace)
        return;
    va_list ap;
    va_start(ap, fmt);
    printf("    [T%d] ", g_cur);
    vprintf(fmt, ap);
    printf("\n");
    va_end(ap);
}

static void fatal(const char *m)
{
    fprintf(stderr, "vsched fatal: %s\n", m);
    fflush(stdout);
    _exit(70);
}

/* switch from the current context (thread `from`, or -1 = controller) to `to` */
static void switch_to(int from, int to, bool from_dies)
{
    ucontext_t *fc = from >= 0 ? &th[from].ctx : &g_main_ctx;
    ucontext_t *tc = to >= 0 ? &th[to].ctx : &g_main_ctx;
    void **fake = from >= 0 ? &th[from].fake : &g_main_fake;
    if (__sanitizer_start_switch_fiber) {
        if (to >= 0)
            __sanitizer_start_switch_fiber(from_dies ? NULL : fake, th[to].stack, VS_STACK);
        else
            __sanitizer_start_switch_fiber(from_dies ? NULL : fake, g_main_bottom, g_main_size);
    }
    g_cur = to;
    swapcontext(fc, tc);
    /* resumed */
    if (__sanitizer_finish_switch_fiber)
        __sanitizer_finish_switch_fiber(*fake, NULL, NULL);
}

static void leave_to_main(int T, int outcome)
{
    g_abort = outcome;
    switch_to(T, -1, true);
    fatal("abandoned coroutine resumed");
}

/* scheduling decision taken by thread T (or -1: the controller at start).
 * Ten: T can continue. nalt > 0: data choice among nalt values. */
static int decide_n(int T, bool Ten, int nalt, int devcost)
{
    int en[VS_MAXT + 1], n = 0;
    if (nalt > 0) {
        n = nalt;
    } else {
        if (T >= 0 && Ten)
            en[n++] = T;
        for (int i = 0; i < g_prog->nthreads; i++) {
            if (i == T && Ten)
                continue;
            if (i != T && (th[i].state == T_NEW || th[i].state == T_RUN))
                en[n++] = i;
            else if (th[i].state == T_BLOCK && th[i].pred(th[i].pred_arg))
                en[n++] = i;
        }
        if (n == 0) {
            bool all_done = true;
            for (int i = 0; i < g_prog->nthreads; i++)
                if (th[i].state != T_DONE)
                    all_done = false;
            if (T < 0)
                return 0;
            leave_to_main(T, all_done ? VS_DONE : VS_DEADLOCK);
        }
    }
    int c = 0;
    g_allpoints++;
    if (++g_exec_points > (long long)g_opt.horizon * 16) {
        /* a thread spinning alone (no other thread enabled) never reaches a
         * choice point: cut it here */
        if (T < 0)
            fatal("horizon in controller");
        leave_to_main(T, VS_HORIZON);
    }
    if (n > 1) {
        if (g_np >= g_opt.horizon) {
            if (T < 0)
                fatal("horizon in controller");
            leave_to_main(T, VS_HORIZON);
        }
        if (g_np < g_prefix_len) {
            c = g_prefix[g_np];
            if (c >= n)
                fatal("non-deterministic replay: recorded choice out of range");
        }
        g_choice[g_np] = c;
        g_nen[g_np] = n;
        g_cost[g_np] = nalt > 0 ? devcost : (T >= 0 && Ten ? 1 : 0);
        g_np++;
    }
    if (nalt > 0)
        return c;
    int next = en[c];
    if (next == T)
        return 0;
    if (g_trace)
        printf("  -- switch T%d -> T%d (point %d, choice %d of %d)\n", T, next, g_np - 1, c, n);
    switch_to(T, next, T >= 0 && th[T].state == T_DONE);
    return 0;
}

int vs_choose(int n, int cost)
{
    if (g_cur < 0 || n <= 1)
        return 0;
    int c = decide_n(g_cur, true, n, cost);
    if (g_trace)
        printf("    [T%d] choose %d of %d\n", g_cur, c, n);
    return c;
}

static long long g_progress[VS_MAXT];
static struct {
    uintptr_t lo, hi;
} g_ign[8];
static int g_nign;

void vs_ignore_reset(void) { g_nign = 0; }
void vs_ignore_range(const volatile void *addr, size_t len)
{
    if (g_nign < 8) {
        g_ign[g_nign].lo = (uintptr_t)addr;
        g_ign[g_nign].hi = (uintptr_t)addr + len;
        g_nign++;
    }
}

void vs_point(int kind, const volatile void *addr)
{
    int T = g_cur;
    if (T < 0 || th[T].suppress)
        return;
    if (!(g_opt.kind_mask & (1u << kind)))
        return;
    for (int i = 0; i < g_nign; i++)
        if ((uintptr_t)addr >= g_ign[i].lo && (uintptr_t)addr < g_ign[i].hi)
            return;
    if (g_trace)
        printf("    [T%d] %s %p\n", T, kind < 14 ? kind_names[kind] : "?", (void *)addr);
    g_progress[T]++;
    decide_n(T, true, 0, 0);
}

void upipe_verif_point(int kind, const volatile void *addr) { vs_point(kind, addr); }

void vs_wait(bool (*pred)(void *), void *arg)
{
    int T = g_cur;
    if (T < 0) {
        if (!pred(arg))
            fatal("vs_wait outside a managed thread would block");
        return;
    }
    while (!pred(arg)) {
        th[T].pred = pred;
        th[T].pred_arg = arg;
        th[T].state = T_BLOCK;
        if (g_trace)
            printf("    [T%d] blocks\n", T);
        decide_n(T, false, 0, 0);
        th[T].state = T_RUN;
    }
}

/* fairness: a thread that detects it is spinning (retry through its event loop) lets the others
 * make progress first; it is resumed as soon as another thread executed a point, or at once when
 * no other thread can run. Not a preemption. */
static long long g_yield_sum[VS_MAXT];
static bool yield_pred(void *arg)
{
    int T = (int)(intptr_t)arg;
    long long sum = 0;
    for (int i = 0; i < g_prog->nthreads; i++)
        if (i != T)
            sum += g_progress[i];
    if (sum != g_yield_sum[T])
        return true;
    for (int i = 0; i < g_prog->nthreads; i++) {
        if (i == T)
            continue;
        if (th[i].state == T_NEW || th[i].state == T_RUN)
            return false;
        if (th[i].state == T_BLOCK && th[i].pred != yield_pred && th[i].pred(th[i].pred_arg))
            return false;
    }
    return true;
}
void vs_yield(void)
{
    int T = g_cur;
    if (T < 0)
        return;
    long long sum = 0;
    for (int i = 0; i < g_prog->nthreads; i++)
        if (i != T)
            sum += g_progress[i];
    g_yield_sum[T] = sum;
    if (g_trace)
        printf("    [T%d] yields\n", T);
    vs_wait(yield_pred, (void *)(intptr_t)T);
}

void vs_atomic_begin(void)
{
    if (g_cur >= 0)
        th[g_cur].suppress++;
}
void vs_atomic_end(void)
{
    if (g_cur >= 0)
        th[g_cur].suppress--;
}

static void trampoline(int id)
{
    if (__sanitizer_finish_switch_fiber)
        __sanitizer_finish_switch_fiber(NULL, &g_main_bottom, &g_main_size);
    struct vthread *t = &th[id];
    t->state = T_RUN;
    g_prog->fn[id](g_prog->arg[id]);
    t->state = T_DONE;
    if (g_trace)
        printf("    [T%d] finished\n", id);
    decide_n(id, false, 0, 0);
    fatal("finished coroutine resumed");
}

static int run_one(const int *prefix, int plen)
{
    const struct vs_program *p = g_prog;
    g_abort = VS_DONE;
    g_np = 0;
    g_exec_points = 0;
    memset(g_progress, 0, sizeof(g_progress));
    g_prefix = prefix;
    g_prefix_len = plen;
    g_nontrivial = false;
    for (int i = 0; i < p->nthreads; i++) {
        th[i].id = i;
        th[i].state = T_NEW;
        th[i].suppress = 0;
        th[i].fake = NULL;
        if (th[i].stack == NULL)
            th[i].stack = malloc(VS_STACK);
        if (__asan_unpoison_memory_region)
            __asan_unpoison_memory_region(th[i].stack, VS_STACK);
        getcontext(&th[i].ctx);
        th[i].ctx.uc_stack.ss_sp = th[i].stack;
        th[i].ctx.uc_stack.ss_size = VS_STACK;
        th[i].ctx.uc_link = NULL;
        makecontext(&th[i].ctx, (void (*)(void))trampoline, 1, i);
    }
    if (v_crash_fd < 0 && !g_crash_tried) {
        g_crash_tried = true;
        v_crash_open(); /* this translation unit has its own descriptor */
    }
    if (v_crash_fd >= 0) {
        char cs[4000];
        size_t o = snprintf(cs, sizeof(cs), "%s@", p->name ? p->name : "");
        for (int i = 0; i < plen && o + 16 < sizeof(cs); i++)
            o += snprintf(cs + o, sizeof(cs) - o, "%s%d", i ? "," : "", prefix[i]);
        if (plen == 0)
            snprintf(cs + o, sizeof(cs) - o, "-");
        v_crash_note(cs);
    }
    if (p->setup)
        p->setup();
    g_cur = -1;
    decide_n(-1, false, 0, 0);
    g_cur = -1;
    if (g_np < plen && g_abort == VS_DONE)
        fatal("non-deterministic replay: execution shorter than the recorded prefix");
    return g_abort;
}

static void stop_threads(void) {}

/* ---- explorer ---- */
static struct vs_stats *g_st;
static double g_t0;
static char g_sigs[64][256];
static int g_nsigs;
static struct vhash g_outcomes[4096];
static int g_noutcomes;
static int g_shard_depth;
static long long g_item;
static int g_nsamples;

static void choices_str(const int *c, int n, char *out, size_t outn)
{
    size_t o = 0;
    out[0] = 0;
    for (int i = 0; i < n && o + 16 < outn; i++)
        o += snprintf(out + o, outn - o, "%s%d", i ? "," : "", c[i]);
}

static void after_run(int outcome, bool count)
{
    char sig[256] = "", msg[1024] = "";
    if (count) {
        g_st->executions++;
        g_st->points += g_np;
        if (g_np > g_st->max_points)
            g_st->max_points = g_np;
        if (outcome == VS_DEADLOCK)
            g_st->deadlocks++;
        if (outcome == VS_HORIZON)
            g_st->horizons++;
        if (g_nontrivial)
            g_st->nontrivial++;
    }
    int bad = g_prog->check ? g_prog->check(outcome, sig, msg) : 0;
    if (count && g_prog->outcome_str) {
        char ob[512];
        g_prog->outcome_str(ob, sizeof(ob));
        struct vhash h = vhash_bytes(ob, strlen(ob));
        int i;
        for (i = 0; i < g_noutcomes; i++)
            if (g_outcomes[i].a == h.a && g_outcomes[i].b == h.b)
                break;
        if (i == g_noutcomes && g_noutcomes < 4096) {
            g_outcomes[g_noutcomes++] = h;
            if (g_nsamples < 3) {
                char cs[2048];
                choices_str(g_choice, g_np, cs, sizeof(cs));
                v_sample("%s schedule=[%s] outcome=%s", g_prog->name, cs, ob);
                g_nsamples++;
            }
        }
    }
    if (bad) {
        for (int i = 0; i < g_nsigs; i++)
            if (!strcmp(g_sigs[i], sig)) {
                bad = 0;
                break;
            }
    }
    if (bad) {
        if (g_nsigs < 64)
            snprintf(g_sigs[g_nsigs++], 256, "%s", sig);
        g_st->violations++;
        /* replay check: the same full schedule must reproduce the same verdict */
        int n = g_np;
        int *full = malloc(sizeof(int) * (n + 1));
        memcpy(full, g_choice, sizeof(int) * n);
        if (g_prog->teardown)
            g_prog->teardown();
        int o2 = run_one(full, n);
        char sig2[256] = "", msg2[1024] = "";
        int bad2 = g_prog->check ? g_prog->check(o2, sig2, msg2) : 0;
        char cs[4096];
        choices_str(full, n, cs, sizeof(cs));
        if (!bad2 || strcmp(sig, sig2))
            v_viol("engine:nondeterministic-replay", cs[0] ? cs : "-", "schedule gave '%s' then '%s' on replay", sig, sig2);
        else
        {
            char rp[4400];
            snprintf(rp, sizeof(rp), "%s@%s", g_prog->name, cs[0] ? cs : "-");
            v_viol(sig, rp, "%s | program %s, %d choice points", msg, g_prog->name, n);
        }
        free(full);
    }
    if (g_prog->teardown)
        g_prog->teardown();
}

static bool out_of_budget(void)
{
    if (g_st->capped)
        return true;
    if (v_now() - g_t0 > g_opt.deadline_s || (g_opt.max_execs > 0 && g_st->executions >= g_opt.max_execs)) {
        g_st->capped = true;
        return true;
    }
    return false;
}

static void explore_rec(const int *prefix, int plen, int cost, int depth)
{
    if (out_of_budget())
        return;
    bool mine = depth >= g_shard_depth || g_opt.shard == 0;
    int outcome = run_one(prefix, plen);
    int np = g_np;
    int *choice = malloc(sizeof(int) * (np + 1));
    int *nen = malloc(sizeof(int) * (np + 1));
    uint8_t *pc = malloc(np + 1);
    memcpy(choice, g_choice, sizeof(int) * np);
    memcpy(nen, g_nen, sizeof(int) * np);
    memcpy(pc, g_cost, np);
    after_run(outcome, mine);
    for (int i = plen; i < np; i++) {
        for (int alt = 1; alt < nen[i]; alt++) {
            int c = cost + pc[i];
            if (c > g_opt.bound)
                continue;
            if (depth + 1 == g_shard_depth) {
                long long item = g_item++;
                if (g_opt.nshards > 1 && item % g_opt.nshards != g_opt.shard)
                    continue;
            }
            int *np2 = malloc(sizeof(int) * (i + 1));
            memcpy(np2, choice, sizeof(int) * i);
            np2[i] = alt;
            explore_rec(np2, i + 1, c, depth + 1);
            free(np2);
            if (g_st->capped)
                break;
        }
        if (g_st->capped)
            break;
    }
    free(choice);
    free(nen);
    free(pc);
}

static void alloc_trace(void)
{
    if (g_cap >= g_opt.horizon + 2)
        return;
    g_cap = g_opt.horizon + 2;
    g_choice = realloc(g_choice, sizeof(int) * g_cap);
    g_nen = realloc(g_nen, sizeof(int) * g_cap);
    g_cost = realloc(g_cost, g_cap);
}

int vs_explore(const struct vs_program *prog, const struct vs_options *opt, struct vs_stats *st)
{
    g_prog = prog;
    g_opt = *opt;
    g_st = st;
    g_t0 = v_now();
    alloc_trace();
    g_item = 0;
    g_shard_depth = opt->nshards > 1 ? (opt->bound >= 2 ? 2 : 1) : 0;
    if (opt->replay) {
        int *pf = malloc(sizeof(int) * (strlen(opt->replay) + 2));
        int n = 0;
        const char *s = opt->replay;
        while (*s && *s != '-') {
            pf[n++] = (int)strtol(s, (char **)&s, 10);
            if (*s == ',')
                s++;
        }
        g_trace = true;
        printf("replaying %s with %d recorded choices\n", prog->name, n);
        int o = run_one(pf, n);
        g_trace = false;
        char sig[256] = "", msg[1024] = "";
        int bad = prog->check ? prog->check(o, sig, msg) : 0;
        printf("outcome=%s  verdict=%s\n", o == VS_DONE ? "done" : o == VS_DEADLOCK ? "DEADLOCK" : "HORIZON",
               bad ? "VIOLATION" : "ok");
        if (bad)
            printf("  sig=%s\n  %s\n", sig, msg);
        if (prog->teardown)
            prog->teardown();
        free(pf);
        stop_threads();
        return bad;
    }
    explore_rec(NULL, 0, 0, 0);
    st->distinct_outcomes = g_noutcomes;
    stop_threads();
    return g_nsigs;
}

int vs_explore_iter(const struct vs_program *prog, const struct vs_options *opt, struct vs_stats *st)
{
    /* a full exploration with bound k subsumes bounds < k; iterate so that the
     * first counterexample has the fewest preemptions and so that the
     * completed bound can be reported when the deadline cuts the run */
    struct vs_options o = *opt;
    double t0 = v_now();
    st->bound_completed = -1;
    g_nsigs = 0;
    g_noutcomes = 0;
    g_nsamples = 0;
    if (opt->replay)
        return vs_explore(prog, opt, st);
    for (int k = 0; k <= opt->bound; k++) {
        struct vs_stats s;
        memset(&s, 0, sizeof(s));
        o.bound = k;
        o.deadline_s = opt->deadline_s - (v_now() - t0);
        if (o.deadline_s <= 0) {
            st->capped = true;
            break;
        }
        int before = g_noutcomes;
        (void)before;
        vs_explore(prog, &o, &s);
        if (s.capped) {
            st->capped = true;
            /* keep partial counts */
            st->executions += s.executions;
            st->points += s.points;
            st->violations += s.violations;
            break;
        }
        /* the run at bound k covers everything of bound k-1: report its counts */
        long long viol = st->violations + s.violations;
        *st = s;
        st->violations = viol;
        st->bound_completed = k;
    }
    st->distinct_outcomes = g_noutcomes;
    return g_nsigs;
}

void vs_default_options(struct vs_options *o)
{
    memset(o, 0, sizeof(*o));
    o->bound = 2;
    o->horizon = 4000;
    o->kind_mask = 0xffffffffu;
    o->deadline_s = 60;
    o->nshards = 1;
}

int vs_parse_args(struct vs_options *o, int argc, char **argv)
{
    for (int i = 1; i < argc; i++) {
        if (i + 1 >= argc)
            break;
        if (!strcmp(argv[i], "--bound")) o->bound = atoi(argv[++i]);
        else if (!strcmp(argv[i], "--horizon")) o->horizon = atoi(argv[++i]);
        else if (!strcmp(argv[i], "--deadline")) o->deadline_s = atof(argv[++i]);
        else if (!strcmp(argv[i], "--replay")) o->replay = argv[++i];
        else if (!strcmp(argv[i], "--max-execs")) o->max_execs = atoll(argv[++i]);
        else if (!strcmp(argv[i], "--shard")) {
            sscanf(argv[++i], "%d/%d", &o->shard, &o->nshards);
        }
    }
    return 0;
}
