/*
 * Golden-vector test for the biTStream shim.
 *
 * The Upipe unit tests only exercise the shim in round-trip (the same header
 * writes and reads the fields), so a symmetric bit-layout mistake would go
 * unnoticed. This program checks every accessor used by the verified modules
 * against octet strings produced by an independent MSB-first bit packer
 * (Python, fields concatenated exactly in the order and widths of the syntax
 * tables of ISO/IEC 13818-1, 14496-10, 14496-15 and ITU-T H.265), plus two
 * published CRC_32 check values.
 *
 * Built and run by selftest.sh as "shim_vectors".
 */

#undef NDEBUG
#include <assert.h>
#include <stdio.h>
#include <string.h>
#include <stdint.h>
#include <stdbool.h>

#include <bitstream/common.h>
#include <bitstream/mpeg/ts.h>
#include <bitstream/mpeg/pes.h>
#include <bitstream/mpeg/psi.h>
#include <bitstream/mpeg/h264.h>
#include <bitstream/itu/h265.h>

#define CHECK_BYTES(buf, ...)                                               \
    do {                                                                    \
        static const uint8_t expected[] = { __VA_ARGS__ };                  \
        if (memcmp(buf, expected, sizeof(expected))) {                      \
            size_t i_;                                                      \
            fprintf(stderr, "%s:%d: mismatch\n  got:     ", __FILE__,       \
                    __LINE__);                                              \
            for (i_ = 0; i_ < sizeof(expected); i_++)                       \
                fprintf(stderr, " %02x", (buf)[i_]);                        \
            fprintf(stderr, "\n  expected:");                               \
            for (i_ = 0; i_ < sizeof(expected); i_++)                       \
                fprintf(stderr, " %02x", expected[i_]);                     \
            fprintf(stderr, "\n");                                          \
            assert(0);                                                      \
        }                                                                   \
    } while (0)

static void test_ts(void)
{
    uint8_t ts[TS_SIZE];
    int i;

    assert(TS_SIZE == 188 && TS_HEADER_SIZE == 4 && TS_HEADER_SIZE_AF == 6 &&
           TS_HEADER_SIZE_PCR == 12);

    /* sync 0x47, tei 0, pusi 1, prio 0, PID 0x1abc, tsc 0, afc 3, cc 0xb */
    memset(ts, 0xaa, sizeof(ts));
    ts_init(ts);
    ts_set_unitstart(ts);
    ts_set_pid(ts, 0x1abc);
    ts_set_payload(ts);
    ts_set_cc(ts, 0xb);
    /* AF length 7, discontinuity 1, RAI 1, PCR_flag 1,
     * PCR base 0x1a5a5a5a5, reserved '111111', extension 0x12b */
    ts_set_adaptation(ts, 7);
    tsaf_set_discontinuity(ts);
    tsaf_set_randomaccess(ts);
    tsaf_set_pcr(ts, UINT64_C(0x1a5a5a5a5));
    tsaf_set_pcrext(ts, 0x12b);
    CHECK_BYTES(ts, 0x47, 0x5a, 0xbc, 0x3b,
                    0x07, 0xd0, 0xd2, 0xd2, 0xd2, 0xd2, 0xff, 0x2b);
    assert(ts[12] == 0xaa); /* nothing written past the adaptation field */
    assert(ts_validate(ts));
    assert(!ts_get_transporterror(ts));
    assert(ts_get_unitstart(ts));
    assert(!ts_get_transportpriority(ts));
    assert(ts_get_pid(ts) == 0x1abc);
    assert(ts_get_scrambling(ts) == 0);
    assert(ts_has_adaptation(ts));
    assert(ts_has_payload(ts));
    assert(ts_get_cc(ts) == 0xb);
    assert(ts_get_adaptation(ts) == 7);
    assert(tsaf_has_discontinuity(ts));
    assert(tsaf_has_randomaccess(ts));
    assert(!tsaf_has_streampriority(ts));
    assert(tsaf_has_pcr(ts));
    assert(tsaf_get_pcr(ts) == UINT64_C(0x1a5a5a5a5));
    assert(tsaf_get_pcrext(ts) == 0x12b);
    assert(ts_payload(ts) == ts + 12);

    /* same with PCR base 1, extension 1 */
    tsaf_clear_discontinuity(ts);
    tsaf_set_pcr(ts, 1);
    tsaf_set_pcrext(ts, 1);
    CHECK_BYTES(ts + 4, 0x07, 0x50, 0x00, 0x00, 0x00, 0x00, 0xfe, 0x01);
    assert(tsaf_get_pcr(ts) == 1);
    assert(tsaf_get_pcrext(ts) == 1);

    /* tei 1, pusi 0, prio 1, PID 0x44, tsc 2, afc 1 (payload only), cc 5 */
    ts_init(ts);
    ts_set_transporterror(ts);
    ts_set_transportpriority(ts);
    ts_set_pid(ts, 0x44);
    ts_set_scrambling(ts, 2);
    ts_set_payload(ts);
    ts_set_cc(ts, 5);
    CHECK_BYTES(ts, 0x47, 0xa0, 0x44, 0x95);
    assert(ts_get_transporterror(ts));
    assert(!ts_get_unitstart(ts));
    assert(ts_get_transportpriority(ts));
    assert(ts_get_pid(ts) == 0x44);
    assert(ts_get_scrambling(ts) == 2);
    assert(!ts_has_adaptation(ts));
    assert(ts_has_payload(ts));
    assert(ts_get_cc(ts) == 5);
    assert(ts_payload(ts) == ts + 4);
    /* setters must not disturb neighbouring fields */
    ts_set_pid(ts, 0x1fff);
    ts_set_cc(ts, 0xf);
    CHECK_BYTES(ts, 0x47, 0xbf, 0xff, 0x9f);
    ts_set_pid(ts, 0);
    ts_set_cc(ts, 0);
    CHECK_BYTES(ts, 0x47, 0xa0, 0x00, 0x90);

    /* adaptation field stuffing */
    memset(ts, 0xaa, sizeof(ts));
    ts_init(ts);
    ts_set_adaptation(ts, 0);
    CHECK_BYTES(ts, 0x47, 0x00, 0x00, 0x20, 0x00, 0xaa);
    ts_init(ts);
    ts_set_adaptation(ts, 1);
    CHECK_BYTES(ts, 0x47, 0x00, 0x00, 0x20, 0x01, 0x00, 0xaa);
    ts_init(ts);
    ts_set_adaptation(ts, 183);
    CHECK_BYTES(ts, 0x47, 0x00, 0x00, 0x20, 0xb7, 0x00, 0xff, 0xff);
    for (i = 6; i < TS_SIZE; i++)
        assert(ts[i] == 0xff);
    assert(ts_payload(ts) == ts + TS_SIZE);

    /* null packet */
    memset(ts, 0xaa, sizeof(ts));
    ts_pad(ts);
    CHECK_BYTES(ts, 0x47, 0x1f, 0xff, 0x10, 0xff);
    for (i = 4; i < TS_SIZE; i++)
        assert(ts[i] == 0xff);
    assert(ts_validate(ts));
    ts[0] = 0x48;
    assert(!ts_validate(ts));

    /* continuity counter */
    for (i = 0; i < 16; i++) {
        int j;
        for (j = 0; j < 16; j++) {
            assert(ts_check_duplicate(i, j) == (i == j));
            assert(ts_check_discontinuity(i, j) == (i != ((j + 1) & 0xf)));
        }
    }
}

static void test_pes(void)
{
    uint8_t pes[32];

    assert(PES_HEADER_SIZE == 6 && PES_HEADER_SIZE_NOPTS == 9 &&
           PES_HEADER_SIZE_PTS == 14 && PES_HEADER_SIZE_PTSDTS == 19 &&
           PES_HEADER_OPTIONAL_SIZE == 3 && PES_HEADER_TS_SIZE == 5);
    assert(PES_STREAM_ID_PSM == 0xbc && PES_STREAM_ID_PRIVATE_1 == 0xbd &&
           PES_STREAM_ID_PADDING == 0xbe && PES_STREAM_ID_PRIVATE_2 == 0xbf &&
           PES_STREAM_ID_AUDIO_MPEG == 0xc0 &&
           PES_STREAM_ID_VIDEO_MPEG == 0xe0 && PES_STREAM_ID_ECM == 0xf0 &&
           PES_STREAM_ID_EMM == 0xf1 && PES_STREAM_ID_DSMCC == 0xf2 &&
           PES_STREAM_ID_H222_1_E == 0xf8 && PES_STREAM_ID_PSD == 0xff);

    /* stream_id 0xe0, length 0x1234, '10', data_alignment 1,
     * PTS_DTS_flags '11', header_data_length 10,
     * PTS 0x1a5a5a5a5, DTS 0x0fedcba98 */
    memset(pes, 0xaa, sizeof(pes));
    pes_init(pes);
    pes_set_streamid(pes, 0xe0);
    pes_set_length(pes, 0x1234);
    pes_set_headerlength(pes, 10);
    pes_set_dataalignment(pes);
    pes_set_pts(pes, UINT64_C(0x1a5a5a5a5));
    pes_set_dts(pes, UINT64_C(0x0fedcba98));
    CHECK_BYTES(pes, 0x00, 0x00, 0x01, 0xe0, 0x12, 0x34, 0x84, 0xc0, 0x0a,
                     0x3d, 0x96, 0x97, 0x4b, 0x4b,
                     0x17, 0xfb, 0x73, 0x75, 0x31, 0xaa);
    assert(pes_validate(pes));
    assert(pes_validate_header(pes));
    assert(pes_get_streamid(pes) == 0xe0);
    assert(pes_get_length(pes) == 0x1234);
    assert(pes_get_headerlength(pes) == 10);
    assert(pes_get_dataalignment(pes));
    assert(pes_has_pts(pes));
    assert(pes_has_dts(pes));
    assert(pes_validate_pts(pes));
    assert(pes_validate_dts(pes));
    assert(pes_get_pts(pes) == UINT64_C(0x1a5a5a5a5));
    assert(pes_get_dts(pes) == UINT64_C(0x0fedcba98));
    assert(pes_payload(pes) == pes + 19);

    /* markers */
    pes[13] &= ~1;
    assert(!pes_validate_pts(pes));
    pes[13] |= 1;
    pes[16] &= ~1;
    assert(!pes_validate_dts(pes));
    pes[16] |= 1;
    pes[7] = 0x40; /* forbidden PTS_DTS_flags */
    assert(!pes_validate_header(pes));
    pes[7] = 0xc0;
    pes[6] = 0x44;
    assert(!pes_validate_header(pes));
    pes[2] = 2;
    assert(!pes_validate(pes));
    pes[2] = 1;
    pes[3] = 0xbb;
    assert(!pes_validate(pes));

    /* stream_id 0xc0, length 8, no alignment, PTS_DTS_flags '10',
     * header_data_length 7 (PTS + 2 stuffing octets) */
    memset(pes, 0xaa, sizeof(pes));
    pes_init(pes);
    pes_set_streamid(pes, 0xc0);
    pes_set_length(pes, 8);
    pes_set_headerlength(pes, 7);
    pes_set_pts(pes, UINT64_C(0x1a5a5a5a5));
#ifdef BITSTREAM_SHIM_PES_PTS_KEEP_BIT4
    CHECK_BYTES(pes, 0x00, 0x00, 0x01, 0xc0, 0x00, 0x08, 0x80, 0x80, 0x07,
                     0x3d, 0x96, 0x97, 0x4b, 0x4b, 0xff, 0xff, 0xaa);
#else
    CHECK_BYTES(pes, 0x00, 0x00, 0x01, 0xc0, 0x00, 0x08, 0x80, 0x80, 0x07,
                     0x2d, 0x96, 0x97, 0x4b, 0x4b, 0xff, 0xff, 0xaa);
#endif
    assert(pes_validate(pes));
    assert(pes_validate_header(pes));
    assert(!pes_get_dataalignment(pes));
    assert(pes_has_pts(pes));
    assert(!pes_has_dts(pes));
    assert(pes_validate_pts(pes));
    assert(pes_get_pts(pes) == UINT64_C(0x1a5a5a5a5));
    assert(pes_get_headerlength(pes) == 7);

    /* header length is raised when too small */
    memset(pes, 0xaa, sizeof(pes));
    pes_init(pes);
    pes_set_headerlength(pes, 0);
    CHECK_BYTES(pes, 0x00, 0x00, 0x01, 0xaa, 0xaa, 0xaa, 0x80, 0x00, 0x00,
                     0xaa);
    pes_set_pts(pes, 0);
    assert(pes_get_headerlength(pes) == 5);
    pes_set_dts(pes, UINT64_C(0x1ffffffff));
    assert(pes_get_headerlength(pes) == 10);
    CHECK_BYTES(pes + 9, 0x31, 0x00, 0x01, 0x00, 0x01,
                         0x1f, 0xff, 0xff, 0xff, 0xff);
}

static void test_psi(void)
{
    uint8_t psi[PSI_MAX_SIZE + PSI_HEADER_SIZE];

    assert(PSI_HEADER_SIZE == 3 && PSI_HEADER_SIZE_SYNTAX1 == 8 &&
           PSI_CRC_SIZE == 4 && PSI_MAX_SIZE == 1021 &&
           PSI_PRIVATE_MAX_SIZE == 4093);

    /* table_id 0x42, syntax 1, private 1, reserved '11', length 0x3fd,
     * tableidext 0xbeef, reserved '11', version 0x15, current 1,
     * section 2, last_section 3 */
    memset(psi, 0xaa, sizeof(psi));
    psi_init(psi, true);
    psi_set_tableid(psi, 0x42);
    psi_set_length(psi, 0x3fd);
    psi_set_tableidext(psi, 0xbeef);
    psi_set_version(psi, 0x15);
    psi_set_current(psi);
    psi_set_section(psi, 2);
    psi_set_lastsection(psi, 3);
    CHECK_BYTES(psi, 0x42, 0xf3, 0xfd, 0xbe, 0xef, 0xeb, 0x02, 0x03, 0xaa);
    assert(psi_get_tableid(psi) == 0x42);
    assert(psi_get_syntax(psi));
    assert(psi_get_length(psi) == 0x3fd);
    assert(psi_get_tableidext(psi) == 0xbeef);
    assert(psi_get_version(psi) == 0x15);
    assert(psi_get_current(psi));
    assert(psi_get_section(psi) == 2);
    assert(psi_get_lastsection(psi) == 3);
    assert(psi_validate(psi));
    psi_set_length(psi, 8);
    assert(!psi_validate(psi));
    psi_set_length(psi, 9);
    assert(psi_validate(psi));

    /* table_id 0x70, syntax 0, private 1, reserved '11', length 0xabc */
    memset(psi, 0xaa, sizeof(psi));
    psi_init(psi, false);
    psi_set_tableid(psi, 0x70);
    psi_set_length(psi, 0xabc);
    CHECK_BYTES(psi, 0x70, 0x7a, 0xbc, 0xaa, 0xaa, 0xaa);
    assert(!psi_get_syntax(psi));
    assert(psi_get_length(psi) == 0xabc);
    assert(psi_validate(psi));
    psi_set_length(psi, 0);
    assert(psi_validate(psi));

    /* CRC_32: published check value of CRC-32/MPEG-2 */
    assert(psi_shim_crc32((const uint8_t *)"123456789", 9) == 0x0376e6e7);
    /* and the ubiquitous single-program PAT (program 1 -> PID 0x1000) */
    {
        static const uint8_t pat[] = {
            0x00, 0xb0, 0x0d, 0x00, 0x01, 0xc1, 0x00, 0x00,
            0x00, 0x01, 0xf0, 0x00, 0x2a, 0xb1, 0x04, 0xb2
        };
        memcpy(psi, pat, sizeof(pat));
        assert(psi_validate(psi));
        assert(psi_check_crc(psi));
        memset(psi + 12, 0, 4);
        assert(!psi_check_crc(psi));
        psi_set_crc(psi);
        assert(!memcmp(psi, pat, sizeof(pat)));
    }
}

static void test_h264(void)
{
    uint8_t nal[4];

    assert(H264NAL_TYPE_NONIDR == 1 && H264NAL_TYPE_PARTA == 2 &&
           H264NAL_TYPE_PARTB == 3 && H264NAL_TYPE_PARTC == 4 &&
           H264NAL_TYPE_IDR == 5 && H264NAL_TYPE_SEI == 6 &&
           H264NAL_TYPE_SPS == 7 && H264NAL_TYPE_PPS == 8 &&
           H264NAL_TYPE_AUD == 9 && H264NAL_TYPE_ENDSEQ == 10 &&
           H264NAL_TYPE_ENDSTR == 11 && H264NAL_TYPE_SPSX == 13 &&
           H264NAL_TYPE_SSPS == 15);
    assert(H264SPS_ID_MAX == 32 && H264PPS_ID_MAX == 256 &&
           H264SPS_HEADER_SIZE == 7);
    assert(H264SLI_TYPE_P == 0 && H264SLI_TYPE_B == 1 && H264SLI_TYPE_I == 2);
    assert(H264SEI_BUFFERING_PERIOD == 0 && H264SEI_PIC_TIMING == 1);
    assert(H264SEI_STRUCT_FRAME == 0 && H264SEI_STRUCT_TOP == 1 &&
           H264SEI_STRUCT_BOT == 2 && H264SEI_STRUCT_TOP_BOT == 3 &&
           H264SEI_STRUCT_BOT_TOP == 4 && H264SEI_STRUCT_TOP_BOT_TOP == 5 &&
           H264SEI_STRUCT_BOT_TOP_BOT == 6 && H264SEI_STRUCT_DOUBLE == 7 &&
           H264SEI_STRUCT_TRIPLE == 8);
    assert(H264SPS_CHROMA_MONO == 0 && H264SPS_CHROMA_420 == 1 &&
           H264SPS_CHROMA_422 == 2 && H264SPS_CHROMA_444 == 3);
    assert(H264VUI_AR_EXTENDED == 255);

    /* forbidden 0, nal_ref_idc 3, nal_unit_type 5 */
    h264nal_init(nal);
    h264nal_set_ref(nal, 3);
    h264nal_set_type(nal, H264NAL_TYPE_IDR);
    CHECK_BYTES(nal, 0x00, 0x00, 0x01, 0x65);
    assert(h264nalst_get_ref(0x65) == 3);
    assert(h264nalst_get_type(0x65) == H264NAL_TYPE_IDR);
    assert(h264nalst_get_ref(0x09) == 0);
    assert(h264nalst_get_type(0x09) == H264NAL_TYPE_AUD);
    assert(h264nalst_get_type(0x67) == H264NAL_TYPE_SPS);
    assert(h264nalst_get_type(0x68) == H264NAL_TYPE_PPS);
    assert(h264nalst_get_type(0x06) == H264NAL_TYPE_SEI);
    assert(h264nalst_get_type(0x41) == H264NAL_TYPE_NONIDR);
    assert(!h264naltype_is_vcl(0));
    assert(h264naltype_is_vcl(1) && h264naltype_is_vcl(2) &&
           h264naltype_is_vcl(3) && h264naltype_is_vcl(4) &&
           h264naltype_is_vcl(5));
    assert(!h264naltype_is_vcl(6) && !h264naltype_is_vcl(9) &&
           !h264naltype_is_vcl(20));

    /* avcC: version 1, profile 100, compat 0x40, level 31, '111111',
     * lengthSizeMinusOne 3, '111', 2 SPS (3 and 2 octets), 1 PPS (1 octet) */
    {
        static const uint8_t golden[] = {
            0x01, 0x64, 0x40, 0x1f, 0xff, 0xe2,
            0x00, 0x03, 0x67, 0x01, 0x02,
            0x00, 0x02, 0x67, 0x09,
            0x01,
            0x00, 0x01, 0x68
        };
        uint8_t avcc[sizeof(golden) + 1];
        uint8_t *p;
        size_t i;
        assert(H264AVCC_HEADER == 6 && H264AVCC_HEADER2 == 1 &&
               H264AVCC_SPS_HEADER == 2 && H264AVCC_PPS_HEADER == 2);
        memset(avcc, 0xaa, sizeof(avcc));
        h264avcc_init(avcc);
        h264avcc_set_profile(avcc, 100);
        h264avcc_set_profile_compatibility(avcc, 0x40);
        h264avcc_set_level(avcc, 31);
        h264avcc_set_length_size_1(avcc, 3);
        h264avcc_set_nb_sps(avcc, 2);
        p = h264avcc_get_spsh(avcc, 0);
        h264avcc_spsh_set_length(p, 3);
        p = h264avcc_spsh_get_sps(p);
        p[0] = 0x67; p[1] = 0x01; p[2] = 0x02;
        p = h264avcc_get_spsh(avcc, 1);
        h264avcc_spsh_set_length(p, 2);
        p = h264avcc_spsh_get_sps(p);
        p[0] = 0x67; p[1] = 0x09;
        h264avcc_set_nb_pps(avcc, 1);
        p = h264avcc_get_ppsh(avcc, 0);
        h264avcc_ppsh_set_length(p, 1);
        p = h264avcc_ppsh_get_pps(p);
        p[0] = 0x68;
        assert(h264avcc_get_ppsh(avcc, 1) == avcc + sizeof(golden));
        assert(!memcmp(avcc, golden, sizeof(golden)));
        assert(avcc[sizeof(golden)] == 0xaa);

        assert(h264avcc_validate(golden, sizeof(golden)));
        assert(h264avcc_validate(golden, sizeof(golden) + 4));
        for (i = 0; i < sizeof(golden); i++)
            assert(!h264avcc_validate(golden, i));
        assert(h264avcc_get_profile(golden) == 100);
        assert(h264avcc_get_profile_compatibility(golden) == 0x40);
        assert(h264avcc_get_level(golden) == 31);
        assert(h264avcc_get_length_size_1(golden) == 3);
        assert(h264avcc_get_nb_sps(golden) == 2);
        assert(h264avcc_spsh_get_length(h264avcc_get_spsh(golden, 0)) == 3);
        assert(h264avcc_spsh_get_sps(h264avcc_get_spsh(golden, 0)) ==
               golden + 8);
        assert(h264avcc_spsh_get_length(h264avcc_get_spsh(golden, 1)) == 2);
        assert(h264avcc_spsh_get_sps(h264avcc_get_spsh(golden, 1)) ==
               golden + 13);
        assert(h264avcc_get_nb_pps(golden) == 1);
        assert(h264avcc_ppsh_get_length(h264avcc_get_ppsh(golden, 0)) == 1);
        assert(h264avcc_ppsh_get_pps(h264avcc_get_ppsh(golden, 0)) ==
               golden + 18);
        avcc[0] = 2;
        assert(!h264avcc_validate(avcc, sizeof(golden)));
    }
}

static void test_h265(void)
{
    uint8_t nal[6] = { 0, 0, 0, 1, 0, 1 };

    assert(H265NAL_TYPE_BLA_W_LP == 16 && H265NAL_TYPE_BLA_W_RADL == 17 &&
           H265NAL_TYPE_BLA_N_LP == 18 && H265NAL_TYPE_IDR_W_RADL == 19 &&
           H265NAL_TYPE_IDR_N_LP == 20 && H265NAL_TYPE_CRA == 21 &&
           H265NAL_TYPE_IRAP_VCL23 == 23 && H265NAL_TYPE_VPS == 32 &&
           H265NAL_TYPE_SPS == 33 && H265NAL_TYPE_PPS == 34 &&
           H265NAL_TYPE_AUD == 35 && H265NAL_TYPE_EOS == 36 &&
           H265NAL_TYPE_EOB == 37 && H265NAL_TYPE_FD == 38 &&
           H265NAL_TYPE_PREF_SEI == 39 && H265NAL_TYPE_SUFF_SEI == 40);
    assert(H265VPS_ID_MAX == 16 && H265SPS_ID_MAX == 16 &&
           H265PPS_ID_MAX == 64 && H265PTL_PROFILE_SIZE == 11);
    assert(H265SLI_TYPE_B == 0 && H265SLI_TYPE_P == 1 && H265SLI_TYPE_I == 2);
    assert(H265SEI_BUFFERING_PERIOD == 0 && H265SEI_PIC_TIMING == 1);
    assert(H265SEI_STRUCT_FRAME == 0 && H265SEI_STRUCT_TOP == 1 &&
           H265SEI_STRUCT_BOT == 2 && H265SEI_STRUCT_TOP_BOT == 3 &&
           H265SEI_STRUCT_BOT_TOP == 4 && H265SEI_STRUCT_TOP_BOT_TOP == 5 &&
           H265SEI_STRUCT_BOT_TOP_BOT == 6 && H265SEI_STRUCT_DOUBLE == 7 &&
           H265SEI_STRUCT_TRIPLE == 8 && H265SEI_STRUCT_TOP_PREV_BOT == 9 &&
           H265SEI_STRUCT_BOT_PREV_TOP == 10 &&
           H265SEI_STRUCT_TOP_NEXT_BOT == 11 &&
           H265SEI_STRUCT_BOT_NEXT_TOP == 12);
    assert(H265VPS_LEVEL_1_0 == 30 && H265VPS_LEVEL_2_0 == 60 &&
           H265VPS_LEVEL_2_1 == 63 && H265VPS_LEVEL_3_0 == 90 &&
           H265VPS_LEVEL_3_1 == 93 && H265VPS_LEVEL_4_0 == 120 &&
           H265VPS_LEVEL_4_1 == 123 && H265VPS_LEVEL_5_0 == 150 &&
           H265VPS_LEVEL_5_1 == 153 && H265VPS_LEVEL_5_2 == 156 &&
           H265VPS_LEVEL_6_0 == 180 && H265VPS_LEVEL_6_1 == 183 &&
           H265VPS_LEVEL_6_2 == 186);
    assert(H265SPS_CHROMA_MONO == 0 && H265SPS_CHROMA_420 == 1 &&
           H265SPS_CHROMA_422 == 2 && H265SPS_CHROMA_444 == 3);
    assert(H265VUI_AR_EXTENDED == 255);

    /* exactly what upipe_h265_framer does to build its AUD:
     * forbidden 0, type 35, layer_id 0, temporal_id_plus1 1 */
    h265nal_set_type(nal + 1, H265NAL_TYPE_AUD);
    CHECK_BYTES(nal, 0x00, 0x00, 0x00, 0x01, 0x46, 0x01);
    assert(h265nalst_get_type(0x46) == H265NAL_TYPE_AUD);
    /* forbidden 0, type 21, layer_id 33, temporal_id_plus1 2 */
    assert(h265nalst_get_type(0x2b) == H265NAL_TYPE_CRA);
    assert(h265nalst_get_type(0x40) == H265NAL_TYPE_VPS);
    assert(h265nalst_get_type(0x42) == H265NAL_TYPE_SPS);
    assert(h265nalst_get_type(0x44) == H265NAL_TYPE_PPS);
    assert(h265nalst_get_type(0x4e) == H265NAL_TYPE_PREF_SEI);
    assert(h265nalst_get_type(0x26) == H265NAL_TYPE_IDR_W_RADL);
    assert(h265nalst_get_type(0x02) == 1);
    h265nal_init(nal);
    h265nal_set_type(nal, H265NAL_TYPE_CRA);
    nal[3] |= 1; /* layer id msb */
    h265nal_set_type(nal, H265NAL_TYPE_CRA);
    CHECK_BYTES(nal, 0x00, 0x00, 0x01, 0x2b, 0x01);

    /* hvcC: version 1, profile_space 1, tier 1, profile_idc 2,
     * compat 0x60000001, constraint 0x900000000001, level 123,
     * chromaFormat 1, lengthSizeMinusOne 3, 2 arrays:
     * VPS x1 (2 octets), SPS x2 (1 and 3 octets) */
    {
        static const uint8_t golden[] = {
            0x01, 0x62, 0x60, 0x00, 0x00, 0x01,
            0x90, 0x00, 0x00, 0x00, 0x00, 0x01, 0x7b,
            0xf0, 0x00, 0xfc, 0xfd, 0xf8, 0xf8, 0x00, 0x00, 0x03, 0x02,
            0x20, 0x00, 0x01,
            0x00, 0x02, 0x40, 0x01,
            0x21, 0x00, 0x02,
            0x00, 0x01, 0x42,
            0x00, 0x03, 0x42, 0x01, 0x02
        };
        uint8_t hvcc[sizeof(golden) + 1];
        uint8_t *a, *p;
        size_t i;
        assert(H265HVCC_HEADER == 23 && H265HVCC_ARRAY_HEADER == 3 &&
               H265HVCC_NALU_HEADER == 2);
        memset(hvcc, 0xaa, sizeof(hvcc));
        h265hvcc_init(hvcc);
        h265hvcc_set_profile_space(hvcc, 1);
        h265hvcc_set_tier(hvcc);
        h265hvcc_set_profile_idc(hvcc, 2);
        h265hvcc_set_profile_compatibility(hvcc, 0x60000001);
        h265hvcc_set_constraint_indicator(hvcc, UINT64_C(0x900000000001));
        h265hvcc_set_level_idc(hvcc, 123);
        h265hvcc_set_chroma_format(hvcc, 1);
        h265hvcc_set_length_size_1(hvcc, 3);
        h265hvcc_set_num_of_arrays(hvcc, 2);
        a = h265hvcc_get_array(hvcc, 0);
        h265hvcc_array_set_nal_unit_type(a, H265NAL_TYPE_VPS);
        h265hvcc_array_set_num_nalus(a, 1);
        p = h265hvcc_array_get_nalu(a, 0);
        h265hvcc_nalu_set_length(p, 2);
        p = h265hvcc_nalu_get_nalu(p);
        p[0] = 0x40; p[1] = 0x01;
        a = h265hvcc_get_array(hvcc, 1);
        h265hvcc_array_set_nal_unit_type(a, H265NAL_TYPE_SPS);
        h265hvcc_array_set_num_nalus(a, 2);
        p = h265hvcc_array_get_nalu(a, 0);
        h265hvcc_nalu_set_length(p, 1);
        p = h265hvcc_nalu_get_nalu(p);
        p[0] = 0x42;
        p = h265hvcc_array_get_nalu(a, 1);
        h265hvcc_nalu_set_length(p, 3);
        p = h265hvcc_nalu_get_nalu(p);
        p[0] = 0x42; p[1] = 0x01; p[2] = 0x02;
        assert(h265hvcc_get_array(hvcc, 2) == hvcc + sizeof(golden));
        CHECK_BYTES(hvcc, 0x01, 0x62, 0x60, 0x00, 0x00, 0x01,
            0x90, 0x00, 0x00, 0x00, 0x00, 0x01, 0x7b,
            0xf0, 0x00, 0xfc, 0xfd, 0xf8, 0xf8, 0x00, 0x00, 0x03, 0x02,
            0x20, 0x00, 0x01,
            0x00, 0x02, 0x40, 0x01,
            0x21, 0x00, 0x02,
            0x00, 0x01, 0x42,
            0x00, 0x03, 0x42, 0x01, 0x02, 0xaa);

        assert(h265hvcc_validate(golden, sizeof(golden)));
        for (i = 0; i < sizeof(golden); i++)
            assert(!h265hvcc_validate(golden, i));
        assert(h265hvcc_get_profile_space(golden) == 1);
        assert(h265hvcc_get_tier(golden));
        assert(h265hvcc_get_profile_idc(golden) == 2);
        assert(h265hvcc_get_profile_compatibility(golden) == 0x60000001);
        assert(h265hvcc_get_constraint_indicator(golden) ==
               UINT64_C(0x900000000001));
        assert(h265hvcc_get_level_idc(golden) == 123);
        assert(h265hvcc_get_chroma_format(golden) == 1);
        assert(h265hvcc_get_length_size_1(golden) == 3);
        assert(h265hvcc_get_num_of_arrays(golden) == 2);
        a = h265hvcc_get_array(golden, 1);
        assert(a == golden + 30);
        assert(h265hvcc_array_get_nal_unit_type(a) == H265NAL_TYPE_SPS);
        assert(h265hvcc_array_get_num_nalus(a) == 2);
        p = h265hvcc_array_get_nalu(a, 1);
        assert(h265hvcc_nalu_get_length(p) == 3);
        assert(h265hvcc_nalu_get_nalu(p) == golden + 38);
        hvcc[0] = 0;
        assert(!h265hvcc_validate(hvcc, sizeof(golden)));
    }
}

int main(void)
{
    test_ts();
    test_pes();
    test_psi();
    test_h264();
    test_h265();
    printf("shim vectors OK\n");
    return 0;
}
